#!/bin/bash
# usage: try_seed.sh <ID> <dir> [more check ids] -- verify a seeded change, then run checks with it applied to /repo, then undo
ID=$1; SRC=$2; shift 2
echo "######## $ID"
/verif/tools/verify_seed.sh $SRC 2>&1 | grep -v conda | grep "passed\|failed\|exit=\|==\|PATCH\|BUILD" | grep -v "^FAILED"
git -C /repo apply $SRC/patch.diff || exit 2
for c in $ID "$@"; do /verif/check $c 2>&1 | grep -v KNOWN | tail -3; done
git -C /repo checkout -- .
git -C /repo status --short | head -3
