#!/bin/bash
# usage: goal.sh File.v LINE  -- show the proof state after LINE lines
f=$1; n=$2
( head -n $n $f; echo; echo "Show." ) | timeout 120 coqtop -Q /verif/coq/theories FQE 2>&1 | tail -n ${3:-40}
