#!/bin/bash
# usage: sweep.sh "C01 C03" "1 2 3" [tier]   -- run checks over seeds, print summary lines
cd /verif
for s in $2; do for p in $1; do
  out=$(VERIF_SEED=$s ./check $p --tier ${3:-quick} 2>&1)
  echo "seed=$s $(echo "$out" | tail -1)"
  echo "$out" | grep -A1 "^VIOLATION" | head -6
done; done
