#!/usr/bin/env python3
"""usage: pycensus.py <census.jsonl> [repo]  -- functions of /repo/src/fqe never entered by the workers that wrote the census
(development aid: VERIF_PYCENSUS=<file> ./check Cxx appends to the file)"""
import ast
import json
import os
import sys

cen, repo = sys.argv[1], (sys.argv[2] if len(sys.argv) > 2 else '/repo')
seen = {}
for line in open(cen):
    for k, v in json.loads(line).items():
        seen[k] = seen.get(k, 0) + v
hit = {(k.split(':')[0], k.split(':')[1], int(k.split(':')[2])) for k in seen}
root = os.path.join(repo, 'src')
missing = []
total = 0
for dp, dn, fns in os.walk(os.path.join(root, 'fqe')):
    for fn in fns:
        if not fn.endswith('.py'):
            continue
        p = os.path.join(dp, fn)
        rel = os.path.relpath(p, root)
        tree = ast.parse(open(p).read())
        for n in ast.walk(tree):
            if isinstance(n, (ast.FunctionDef, ast.AsyncFunctionDef)):
                total += 1
                line = n.lineno if not n.decorator_list else min(d.lineno for d in n.decorator_list)
                if not any(h[0] == rel and h[1] == n.name and abs(h[2] - line) <= 3 + len(n.decorator_list) for h in hit):
                    missing.append('%s:%d %s' % (rel, n.lineno, n.name))
print('%d functions, %d entered, %d never entered' % (total, total - len(missing), len(missing)))
for m in sorted(missing):
    print(' ', m)
