#!/bin/bash
# usage: verify_seed.sh <dir with patch.diff and demo.py>  -- confirm a seeded change in a scratch worktree of /repo
# (builds, baseline suite still passes, demo fails with the change and passes without it); removes the worktree.
set -u
SRC=$1
WT=$(mktemp -d /tmp/vseed.XXXXXX)
rmdir $WT
export OMP_NUM_THREADS=2 OPENBLAS_NUM_THREADS=2 MKL_NUM_THREADS=2
git -C /repo worktree add --detach $WT HEAD >/dev/null 2>&1 || { echo "worktree failed"; exit 2; }
cd $WT
git apply --check $SRC/patch.diff || { echo "PATCH DOES NOT APPLY"; git -C /repo worktree remove --force $WT; exit 2; }
git apply $SRC/patch.diff
/venv/bin/python setup.py build_ext --inplace > $WT/_build.log 2>&1 || { echo "BUILD FAILED"; tail -5 $WT/_build.log; }
echo "== tests with the change"
PYTHONPATH=$WT/src /venv/bin/python -m pytest -q -p no:cacheprovider --timeout=900 tests 2>&1 | tail -8 | grep -v "^$"
echo "== demo with the change (expect non-zero)"
( cd $SRC && PYTHONPATH=$WT/src timeout 1200 /venv/bin/python demo.py > $WT/_demo_with.log 2>&1; echo "exit=$?" ; tail -3 $WT/_demo_with.log )
git apply -R $SRC/patch.diff
if grep -q '^+++ .*\.\(c\|h\|pyx\)$' $SRC/patch.diff; then /venv/bin/python setup.py build_ext --inplace --force > $WT/_build2.log 2>&1; fi
echo "== demo without the change (expect 0)"
( cd $SRC && PYTHONPATH=$WT/src timeout 1200 /venv/bin/python demo.py > $WT/_demo_without.log 2>&1; echo "exit=$?" ; tail -2 $WT/_demo_without.log )
cd /
git -C /repo worktree remove --force $WT
