(* driver.ml — line-oriented front end to the extracted Coq model (parsing and
   printing only; every computed value comes from Model). One request per line,
   one response line per request. *)
open Model

let rec nat_of_int i = if i <= 0 then O else S (nat_of_int (i - 1))
let rec int_of_nat = function O -> 0 | S m -> 1 + int_of_nat m

(* decimal <-> N through the extracted arithmetic (no size limit) *)
let n_small i = N.of_nat (nat_of_int i)
let n10 = n_small 10
let n_of_string (s : string) : n =
  let r = ref N0 in
  String.iter (fun ch -> r := N.add (N.mul !r n10) (n_small (Char.code ch - 48))) s; !r
let rec string_of_n (x : n) : string =
  match x with
  | N0 -> "0"
  | _ ->
    let buf = Buffer.create 20 in
    let rec go x acc =
      match x with
      | N0 -> acc
      | _ -> let (q, r) = N.div_eucl x n10 in
             go q (string_of_int (int_of_nat (N.to_nat r)) :: acc) in
    List.iter (Buffer.add_string buf) (go x []); Buffer.contents buf
let z_of_string (s : string) : z =
  if String.length s > 0 && s.[0] = '-'
  then Z.opp (Z.of_N (n_of_string (String.sub s 1 (String.length s - 1))))
  else Z.of_N (n_of_string s)
let string_of_z (x : z) : string =
  match x with
  | Z0 -> "0"
  | Zpos _ -> string_of_n (Z.abs_N x)
  | Zneg _ -> "-" ^ string_of_n (Z.abs_N x)

let toks : string list ref = ref []
let next () = match !toks with t :: r -> toks := r; t | [] -> failwith "eol"
let nint () = int_of_string (next ())
let nnat () = nat_of_int (nint ())
let nn () = n_of_string (next ())
let nz () = z_of_string (next ())
let nbool () = (nint ()) <> 0
let rec rep k f = if k <= 0 then [] else let x = f () in x :: rep (k - 1) f
let ngz () = let re = nz () in let im = nz () in (re, im)
let nhop () = let b = nbool () in let i = nnat () in let d = nbool () in ((b, i), d)
let nterm () = let c = ngz () in let k = nint () in (c, rep k nhop)
let nvecel () = let a = nn () in let b = nn () in let c = ngz () in ((a, b), c)
let nvec () = let k = nint () in rep k nvecel
let nbasis () = let k = nint () in rep k (fun () -> let a = nn () in let b = nn () in (a, b))

let nidx () = let k = nint () in rep k nnat
let nentry () =
  let tag = next () in
  match tag with
  | "R" -> let ix = nidx () in let c = ngz () in ERestricted (ix, c)
  | "S" -> let ix = nidx () in let c = ngz () in ESpinOrb (ix, c)
  | "DA" -> let p = nnat () in let c = ngz () in EDiagSpatial (p, c)
  | "DS" -> let p = nnat () in let c = ngz () in EDiagSpin (p, c)
  | "CD" -> let k = nnat () in let c = ngz () in EDCdiag (k, c)
  | "CV" -> let i = nnat () in let j = nnat () in let c = ngz () in EDCv (i, j, c)
  | "T" -> let k = nint () in
           let ops = rep k (fun () -> let q = nnat () in let d = nbool () in (q, d)) in
           let c = ngz () in EString (ops, c)
  | "E0" -> let c = ngz () in EScalar c
  | "NUM" -> let c = ngz () in ENumber c
  | "SZ2" -> let c = ngz () in ETwoSz c
  | "S2x4" -> let c = ngz () in EFourS2 c
  | _ -> failwith ("entry tag " ^ tag)
let nentries () = let k = nint () in rep k nentry

let sb b = if b then "1" else "0"
let sgz (re, im) = string_of_z re ^ " " ^ string_of_z im
let out = Buffer.create 65536
let emit s = Buffer.add_string out s; Buffer.add_char out ' '

let handle () =
  let cmd = next () in
  Buffer.clear out;
  (match cmd with
   | "STRINGS" ->
     let n = nnat () in let k = nnat () in
     let l = m_strings n k in
     emit (string_of_int (List.length l)); List.iter (fun s -> emit (string_of_n s)) l
   | "ZMAT" ->
     let n = nnat () in let k = nnat () in
     List.iter (fun row -> List.iter (fun x -> emit (string_of_z x)) row) (m_zmat n k)
   | "ADDR" ->
     let n = nnat () in let k = nnat () in let s = nn () in
     emit (string_of_z (m_addr n k s))
   | "EXCMAP" ->
     let n = nnat () in let k = nnat () in let i = nnat () in let j = nnat () in
     let l = m_exc_map n k i j in
     emit (string_of_int (List.length l));
     List.iter (fun ((s, t), g) -> emit (string_of_int (int_of_nat s)); emit (string_of_int (int_of_nat t)); emit (sb g)) l
   | "DEXC" ->
     let n = nnat () in let k = nnat () in
     let rows = m_dexc n k in
     emit (string_of_int (List.length rows));
     List.iter (fun row ->
         emit (string_of_int (List.length row));
         List.iter (fun ((s, ij), g) -> emit (string_of_int (int_of_nat s)); emit (string_of_int (int_of_nat ij)); emit (sb g)) row) rows
   | "OPSTR" ->
     let n = nnat () in let k = nnat () in
     let nd = nint () in let dag = rep nd nnat in
     let nu = nint () in let undag = rep nu nnat in
     let l = m_opstring n k dag undag in
     emit (string_of_int (List.length l));
     List.iter (fun ((a, t), p) -> emit (string_of_int (int_of_nat a)); emit (string_of_n t); emit (sb p)) l
   | "ANNIH" ->
     let n = nnat () in let k = nnat () in let dn = nnat () in
     let l = m_annih n k dn in
     emit (string_of_int (List.length l));
     List.iter (fun (ops, rows) ->
         emit (string_of_int (List.length ops));
         List.iter (fun o -> emit (string_of_int (int_of_nat o))) ops;
         emit (string_of_int (List.length rows));
         List.iter (fun ((s, t), g) -> emit (string_of_int (int_of_nat s)); emit (string_of_int (int_of_nat t)); emit (sb g)) rows) l
   | "BINOM" ->
     let n = nnat () in let k = nnat () in emit (string_of_n (m_binom n k))
   | "BITS" ->
     (* s i j -> popcount occ... between above64 below *)
     let s = nn () in let i = nnat () in let j = nnat () in
     emit (string_of_int (int_of_nat (m_popcount s)));
     emit (string_of_int (int_of_nat (m_cnt_between s i j)));
     emit (string_of_int (int_of_nat (m_cnt_above64 s i)));
     emit (string_of_int (int_of_nat (m_cnt_below s i)));
     List.iter (fun o -> emit (string_of_int (int_of_nat o))) (m_occ (nat_of_int 64) s)
   | "APPLY" ->
     let norb = nnat () in
     let nt = nint () in let ts = rep nt nterm in
     let v = nvec () in let basis = nbasis () in
     List.iter (fun c -> emit (sgz c)) (m_apply norb ts v basis)
   | "APPLYH" ->
     let norb = nnat () in
     let es = nentries () in
     let v = nvec () in let basis = nbasis () in
     List.iter (fun c -> emit (sgz c)) (m_apply_h norb es v basis)
   | "MATELH" ->
     let norb = nnat () in
     let es = nentries () in
     let x = nvec () in let y = nvec () in
     emit (sgz (m_matel_h norb es x y))
   | "HIST" ->
     let norb = nnat () in
     let np = nint () in let pool = rep np nvec in
     let nops = nint () in
     let ops = rep nops (fun () ->
       let tag = next () in
       match tag with
       | "add" -> let i = nnat () in let j = nnat () in let k = nnat () in HAdd (i, j, k)
       | "sub" -> let i = nnat () in let j = nnat () in let k = nnat () in HSub (i, j, k)
       | "axpy" -> let i = nnat () in let a = ngz () in let j = nnat () in HAxpy (i, a, j)
       | "scale" -> let i = nnat () in let a = ngz () in HScale (i, a)
       | "set" -> let i = nnat () in let a = nn () in let b = nn () in let c = ngz () in HSet (i, a, b, c)
       | "copy" -> let i = nnat () in let k = nnat () in HCopy (i, k)
       | "empty" -> let i = nnat () in let k = nnat () in HEmpty (i, k)
       | "dot" -> let i = nnat () in let j = nnat () in HDot (i, j)
       | "vdot" -> let i = nnat () in let j = nnat () in HVdot (i, j)
       | "norm2" -> let i = nnat () in HNorm2 i
       | "get" -> let i = nnat () in let a = nn () in let b = nn () in HGet (i, a, b)
       | "max" -> let i = nnat () in let bs = nbasis () in HMax (i, bs)
       | _ -> failwith ("hist op " ^ tag)) in
     let basis = nbasis () in
     let (obs, finals) = m_hist norb pool ops basis in
     List.iter (fun o -> match o with Some c -> emit ("o " ^ sgz c) | None -> emit "n") obs;
     emit "|";
     List.iter (fun v -> List.iter (fun c -> emit (sgz c)) v) finals
   | "CTOR" ->
     let kind = nnat () in let a = nz () in let b = nz () in let c = nz () in
     (match m_ctor kind a b c with
      | None -> emit "REJECT"
      | Some l -> emit (string_of_int (List.length l));
        List.iter (fun (((n, s), la), lb) -> emit (string_of_z n); emit (string_of_z s);
                    emit (string_of_z la); emit (string_of_z lb)) l)
   | "L1H" ->
     let norb = nnat () in
     let es = nentries () in
     emit (string_of_z (m_l1 norb es))
   | "MASS" ->
     let norb = nnat () in
     let v = nvec () in
     emit (string_of_z (m_mass norb v))
   | "TREV" ->
     let v = nvec () in
     List.iter (fun ((a, b), c) -> emit (string_of_n a); emit (string_of_n b); emit (sgz c)) (m_trev v)
   | "GATHER" ->
     let n = nint () in
     let ops = rep n (fun () -> let q = nnat () in let dg = nint () in (q, dg <> 0)) in
     let ((sg, ab), bb) = m_gather ops in
     emit (if sg then "1" else "0");
     emit (string_of_int (List.length ab));
     List.iter (fun (q, dg) -> emit (string_of_int (int_of_nat q)); emit (if dg then "1" else "0")) ab;
     List.iter (fun (q, dg) -> emit (string_of_int (int_of_nat q)); emit (if dg then "1" else "0")) bb
   | "EXPORT" ->
     let norb = nnat () in
     let nrows = nint () in
     let code = if nrows = 0 then m_jw_code (nat_of_int (2 * int_of_nat norb))
                else rep nrows (fun () -> let k = nint () in rep k nnat) in
     let v = nvec () in
     List.iter (fun (ix, c) -> emit (string_of_n ix); emit (sgz c)) (m_export norb code v)
   | "UNITRI" ->
     let nrows = nint () in
     let code = rep nrows (fun () -> let k = nint () in rep k nnat) in
     emit (if unitri code then "1" else "0")
   | "LINV" ->
     let n = nnat () in
     let nrows = nint () in
     let code = rep nrows (fun () -> let k = nint () in rep k nnat) in
     let nrows2 = nint () in
     let dc = rep nrows2 (fun () -> let k = nint () in rep k nnat) in
     emit (if left_inv dc code n then "1" else "0")
   | "IMPORT" ->
     let norb = nnat () in
     let nrows = nint () in
     let code = if nrows = 0 then m_jw_code (nat_of_int (2 * int_of_nat norb))
                else rep nrows (fun () -> let k = nint () in rep k nnat) in
     let thr = nz () in
     let ns = nint () in
     let st = rep ns (fun () -> let ix = nn () in let c = ngz () in (ix, c)) in
     let secs = m_import norb code thr st in
     emit (string_of_int (List.length secs));
     List.iter (fun ((na, nb), amps) ->
         emit (string_of_int (int_of_nat na)); emit (string_of_int (int_of_nat nb));
         emit (string_of_int (List.length amps));
         List.iter (fun ((a, b), c) -> emit (string_of_n a); emit (string_of_n b); emit (sgz c)) amps) secs
   | "RDM" ->
     let norb = nnat () in let sf = nbool () in
     let np = nint () in let pat = rep np nbool in
     let bra = nvec () in let ket = nvec () in
     List.iter (fun c -> emit (sgz c)) (m_rdm norb sf pat bra ket)
   | "PERSIST" ->
     let frozen = nbool () in
     let ndir = nnat () in let nfile = nnat () in let npool = nnat () in
     let cwd0 = nnat () in let imp0 = nnat () in
     let nops = nint () in
     let nopt () = let t = nint () in if t < 0 then None else Some (nat_of_int t) in
     let ops = rep nops (fun () ->
       let tag = next () in
       match tag with
       | "chdir" -> let d = nnat () in Chdir d
       | "save" -> let i = nnat () in let f = nnat () in let p = nopt () in Save (i, f, p)
       | "read" -> let i = nnat () in let f = nnat () in let p = nopt () in Read (i, f, p)
       | "trunc" -> let d = nnat () in let f = nnat () in let k = nnat () in Trunc (d, f, k)
       | "mutate" -> let i = nnat () in let o = nnat () in Mutate (i, o)
       | _ -> failwith ("persist op " ^ tag)) in
     let ((res, recvs), files) = m_persist frozen ndir nfile npool cwd0 imp0 ops in
     List.iter (fun b -> emit (sb b)) res; emit "|";
     List.iter (fun x -> emit (string_of_int (int_of_nat x))) recvs; emit "|";
     List.iter (fun ((d, f), c) ->
         match c with
         | None -> ()
         | Some (x, t) -> emit (string_of_int (int_of_nat d)); emit (string_of_int (int_of_nat f));
                          emit (string_of_int (int_of_nat x));
                          emit (match t with None -> "-1" | Some k -> string_of_int (int_of_nat k))) files
   | "GAPPLY" ->
     let wcn = nbool () in let wcs = nbool () in let norb = nz () in let hcn = nbool () in
     let kind = (match next () with "R" -> KRestricted | "S" -> KSpinOrb | "D" -> KDiag | "C" -> KDC | _ -> KSparse) in
     let dim = nz () in
     emit (sb (m_apply_verdict { w_cn = wcn; w_cs = wcs; w_norb = norb; h_cn = hcn; h_kind = kind; h_dim = dim }))
   | "GEVOLVE" ->
     let a = nbool () in let b = nbool () in let c = nbool () in let d = nbool () in let e = nbool () in
     emit (sb (m_evolve_inplace_verdict { e_inplace = a; e_individual = b; e_quadratic = c; e_diag = d; e_dc = e }))
   | "GGENU" ->
     let al = (match next () with "taylor" -> ATaylor | "chebyshev" -> AChebyshev | _ -> AOther) in
     let sl = nbool () in let ei = nbool () in
     emit (sb (m_genu_verdict { g_algo = al; g_speclim = sl; g_expansion_is_int = ei }))
   | "GRDM" ->
     let sf = nbool () in let k = nint () in
     let toks = rep k (fun () ->
       match next () with
       | "L" -> let c = nnat () in let d = nbool () in TLetter (c, d)
       | "N" -> let c = nnat () in let d = nbool () in TDigit (c, d)
       | _ -> TBad) in
     emit (sb (m_rdm_tensor_verdict sf toks))
   | "GSETDATA" ->
     let ns = nint () in
     let secs = rep ns (fun () -> let k = nnat () in let a = nnat () in let b = nnat () in (k, (a, b))) in
     let nd = nint () in
     let data = rep nd (fun () -> let k = nnat () in let a = nnat () in let b = nnat () in (k, (a, b))) in
     let (ok, ks) = m_setdata_spec secs data in
     emit (sb ok); List.iter (fun k -> emit (string_of_int (int_of_nat k))) ks
   | "EXTB" ->
     let norb = nnat () in
     let n = nint () in
     let rdmat () = rep n (fun () -> rep n ngz) in
     let ma = rdmat () in let mb = rdmat () in
     let v = nvec () in let basis = nbasis () in
     List.iter (fun c -> emit (sgz c)) (m_ext_blocks norb ma mb v basis)
   | "EXTF" ->
     let norb = nnat () in
     let n = nint () in
     let m = rep n (fun () -> rep n ngz) in
     let v = nvec () in let basis = nbasis () in
     List.iter (fun c -> emit (sgz c)) (m_ext_full norb m v basis)
   | "CERT" ->
     let n = nint () in let r = nint () in
     let k = nz () in let c = nz () in
     let rdm rows cols = rep rows (fun () -> rep cols nz) in
     let nm = rdm n n in let rm = rdm n n in let wm = rdm r n in
     emit (sb (m_check_cert (nat_of_int n) (nat_of_int r) k c nm rm wm))
   | "COMM4" ->
     let norb = nnat () in
     let es = nentries () in
     let x = nvec () in let y = nvec () in
     List.iter (fun c -> emit (sgz c)) (m_comm4 norb es x y)
   | "INNER" ->
     let norb = nnat () in let x = nvec () in let y = nvec () in
     emit (sgz (m_inner norb x y))
   | "MATEL" ->
     let norb = nnat () in
     let nt = nint () in let ts = rep nt nterm in
     let x = nvec () in let y = nvec () in
     emit (sgz (m_matel norb ts x y))
   | _ -> failwith ("unknown command " ^ cmd));
  print_string "OK "; print_string (Buffer.contents out); print_newline ()

let () =
  try
    while true do
      let line = input_line stdin in
      toks := List.filter (fun s -> s <> "") (String.split_on_char ' ' line);
      if !toks <> [] then
        (try handle () with e -> print_string ("ERR " ^ Printexc.to_string e); print_newline ())
    done
  with End_of_file -> ()
