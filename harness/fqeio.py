"""fqeio.py — shared helpers to build FQE objects from JSON cases inside the
implementation worker and to read their state back as determinant-keyed data.
(Imported by props/*.py on the worker side; imports fqe lazily.)"""
import itertools
import math


def comb(n, k):
    return math.comb(n, k) if 0 <= k <= n else 0


# ----------------------------------------------------------------- pure helpers (both sides)
def sector_keys(norb, mode, n, sz):
    """(nele, sz) keys of a wavefunction of the given symmetry mode"""
    if mode == 'ns':
        return [(n, sz)]
    if mode == 'sb':     # number conserving, spin broken: all sz for N = n
        out = []
        for na in range(max(0, n - norb), min(norb, n) + 1):
            out.append((n, 2 * na - n))
        return out
    if mode == 'nb':     # spin conserving, number broken: all N for Sz = sz
        out = []
        for na in range(max(sz, 0), min(norb, norb + sz) + 1):
            nb = na - sz
            out.append((na + nb, sz))
        return out
    raise ValueError(mode)


def strings_of(norb, k):
    """all k-electron strings as ints (any order)"""
    return [sum(1 << i for i in c) for c in itertools.combinations(range(norb), k)]


def basis_of(norb, keys):
    out = []
    for (n, sz) in keys:
        na, nb = (n + sz) // 2, (n - sz) // 2
        for a in strings_of(norb, na):
            for b in strings_of(norb, nb):
                out.append((a, b))
    return out


def random_state(rng, norb, keys, density=0.7, amp=4, complex_=True):
    """sparse Gaussian-integer amplitudes: list of [a, b, re, im]"""
    vec = []
    for (a, b) in basis_of(norb, keys):
        if rng.random() < density:
            re = rng.randint(-amp, amp)
            im = rng.randint(-amp, amp) if complex_ else 0
            if rng.random() < 0.15:
                re = 0
            if re or im:
                vec.append([a, b, re, im])
    if not vec:
        bs = basis_of(norb, keys)
        if bs:
            a, b = rng.choice(bs)
            vec.append([a, b, 1, 0])
    return vec


def vec_tokens(vec):
    toks = [len(vec)]
    for a, b, re, im in vec:
        toks += [a, b, re, im]
    return toks


def basis_tokens(basis):
    toks = [len(basis)]
    for a, b in basis:
        toks += [a, b]
    return toks


# ----------------------------------------------------------------- worker side
def make_wfn(norb, mode, n, sz, vec=None):
    import numpy
    import fqe
    keys = sector_keys(norb, mode, n, sz)
    if mode == 'ns':
        wfn = fqe.Wavefunction([[n, sz, norb]])
    elif mode == 'sb':
        wfn = fqe.Wavefunction([[k[0], k[1], norb] for k in keys], broken=['spin'])
    else:
        wfn = fqe.Wavefunction([[k[0], k[1], norb] for k in keys], broken=['number'])
    if vec is not None:
        set_state(wfn, vec)
    return wfn


# arrays handed to set_wfn(strategy='from_data') are kept (with a pristine byte copy) so that a check can ask later
# whether the library modified the CALLER's data (assignment must be by value)
_SOURCES = []


def reset_sources():
    del _SOURCES[:]


def modified_sources():
    bad = []
    for n, (data, snap) in enumerate(_SOURCES):
        for key in data:
            if data[key].tobytes() != snap[key]:
                bad.append('array #%d passed to set_wfn(from_data) for sector %s was modified afterwards' % (n, list(map(int, key))))
    return bad


def set_state(wfn, vec, also=()):
    """set wfn (and the wavefunctions in `also`, from the SAME dict of arrays) to the sparse state vec"""
    import numpy
    data = {}
    for key in wfn.sectors():
        sec = wfn.sector(key)
        data[key] = numpy.zeros((sec.lena(), sec.lenb()), dtype=numpy.complex128)
    norb = wfn.norb()
    for a, b, re, im in vec:
        a, b = int(a), int(b)
        na, nb = bin(a).count('1'), bin(b).count('1')
        key = (na + nb, na - nb)
        g = wfn.sector(key).get_fcigraph()
        data[key][g.index_alpha(a), g.index_beta(b)] = complex(re, im)
    _SOURCES.append((data, {k: v.tobytes() for k, v in data.items()}))
    wfn.set_wfn(strategy='from_data', raw_data=data)
    for w in also:
        w.set_wfn(strategy='from_data', raw_data=data)


def read_state(wfn, tol=0.0):
    """list of [a, b, re, im] (floats) of all non-zero amplitudes"""
    out = []
    for key in sorted(wfn.sectors()):
        sec = wfn.sector(key)
        g = sec.get_fcigraph()
        astr = [int(x) for x in g.string_alpha_all()]
        bstr = [int(x) for x in g.string_beta_all()]
        c = sec.coeff
        for ia, a in enumerate(astr):
            for ib, b in enumerate(bstr):
                v = complex(c[ia, ib])
                if abs(v) > tol:
                    out.append([a, b, v.real, v.imag])
    return out


def dense_tensors(norb_dim, maxrank, entries, dtype=complex):
    """entries: [[idx list], re, im] -> tuple of dense tensors of ranks 1..maxrank"""
    import numpy
    ts = [numpy.zeros((norb_dim,) * (2 * r), dtype=numpy.complex128) for r in range(1, maxrank + 1)]
    for idx, re, im in entries:
        r = len(idx) // 2
        ts[r - 1][tuple(idx)] += complex(re, im)
    if dtype is float:
        ts = [t.real.copy() for t in ts]
    return tuple(ts)


def state_dict(vec):
    return {(int(a), int(b)): complex(re, im) for a, b, re, im in vec}
