"""core.py — shared plumbing of the /verif checks.

* scratch build of /repo's CURRENT working tree (cached by content hash)
* implementation workers (subprocesses running against that build)
* the extracted Coq model (OCaml driver) as a persistent subprocess
* Coq build / property-theorem check (Print Assumptions parsing)
* evidence / findings / replay writing
"""
import hashlib
import json
import os
import random
import re
import shutil
import subprocess
import sys
import time

VERIF = os.path.dirname(os.path.dirname(os.path.abspath(__file__)))
REPO = os.environ.get('VERIF_REPO', '/repo')
PY = '/venv/bin/python'
CACHE = os.path.join(VERIF, '.cache')
COQ = os.path.join(VERIF, 'coq')
THEORIES = os.path.join(COQ, 'theories')
OCAML = os.path.join(VERIF, 'ocaml')
GUARD = 'FQE_VERIF'

ALLOWED_AXIOMS = {
    # standard-library axioms that may appear (named in DESIGN.md §5)
    'ClassicalDedekindReals.sig_forall_dec', 'ClassicalDedekindReals.sig_not_dec',
    'FunctionalExtensionality.functional_extensionality_dep',
    'functional_extensionality_dep', 'sig_forall_dec', 'sig_not_dec',
    'Classical_Prop.classic', 'classic',
}


def log(*a):
    print(*a, file=sys.stderr, flush=True)


# ----------------------------------------------------------------------------
# scratch build of the repository working tree
def _iter_src_files():
    roots = [os.path.join(REPO, 'src'), os.path.join(REPO, 'setup.py'),
             os.path.join(REPO, 'pyproject.toml')]
    for r in roots:
        if os.path.isfile(r):
            yield r
            continue
        for dp, dn, fn in os.walk(r):
            dn[:] = sorted(d for d in dn if d not in ('__pycache__', 'build') and not d.endswith('.egg-info'))
            for f in sorted(fn):
                if f.endswith(('.so', '.pyc', '.o')):
                    continue
                yield os.path.join(dp, f)


def tree_hash():
    h = hashlib.sha256()
    for p in _iter_src_files():
        h.update(os.path.relpath(p, REPO).encode())
        h.update(b'\0')
        with open(p, 'rb') as f:
            h.update(hashlib.sha256(f.read()).digest())
    return h.hexdigest()[:20]


def ensure_build(extra_cflags='', tag=''):
    """Copy the current working tree and build the C extensions there.
    Returns the scratch directory (its src/ goes on PYTHONPATH)."""
    th = tree_hash()
    key = th + (('-' + tag) if tag else '')
    bdir = os.path.join(CACHE, 'build', key)
    ok = os.path.join(bdir, '.built_ok')
    if os.path.exists(ok):
        return bdir
    lock = bdir + '.lock'
    os.makedirs(os.path.dirname(bdir), exist_ok=True)
    # crude lock for concurrent checks
    while True:
        try:
            fd = os.open(lock, os.O_CREAT | os.O_EXCL | os.O_WRONLY)
            os.close(fd)
            break
        except FileExistsError:
            if os.path.exists(ok):
                return bdir
            try:
                if time.time() - os.path.getmtime(lock) > 900:
                    os.unlink(lock)
            except OSError:
                pass
            time.sleep(1.0)
    try:
        if os.path.exists(ok):
            return bdir
        if os.path.exists(bdir):
            shutil.rmtree(bdir)
        os.makedirs(bdir)
        t0 = time.time()
        subprocess.check_call(['rsync', '-a', '--exclude', '.git', '--exclude', '*.so',
                               '--exclude', 'build', '--exclude', '__pycache__',
                               '--exclude', 'tests', '--exclude', 'docs', '--exclude', 'rtd_docs',
                               REPO + '/', bdir + '/'])
        env = dict(os.environ)
        env['CFLAGS'] = (env.get('CFLAGS', '') + ' -DFQE_VERIF_TRACE ' + extra_cflags).strip()
        env[GUARD] = '1'
        r = subprocess.run([PY, 'setup.py', 'build_ext', '--inplace'], cwd=bdir, env=env,
                           stdout=subprocess.PIPE, stderr=subprocess.STDOUT, text=True)
        if r.returncode != 0:
            with open(os.path.join(bdir, 'build.log'), 'w') as f:
                f.write(r.stdout)
            raise BuildError('build of the working tree failed:\n' + r.stdout[-3000:])
        shutil.rmtree(os.path.join(bdir, 'build'), ignore_errors=True)
        open(ok, 'w').write('%.1f' % (time.time() - t0))
        log('[build] %s built in %.1fs' % (key, time.time() - t0))
        _prune_builds(keep=key)
        return bdir
    finally:
        try:
            os.unlink(lock)
        except OSError:
            pass


def _prune_builds(keep, maxn=3):
    d = os.path.join(CACHE, 'build')
    ents = [e for e in os.listdir(d) if os.path.isdir(os.path.join(d, e)) and e != keep]
    ents.sort(key=lambda e: os.path.getmtime(os.path.join(d, e)), reverse=True)
    for e in ents[maxn - 1:]:
        shutil.rmtree(os.path.join(d, e), ignore_errors=True)


class BuildError(Exception):
    pass


# ----------------------------------------------------------------------------
# implementation workers
def impl_env(bdir, threads=None):
    env = dict(os.environ)
    env['PYTHONPATH'] = os.path.join(bdir, 'src') + os.pathsep + os.path.join(VERIF, 'harness')
    env['PYTHONHASHSEED'] = '0'
    env[GUARD] = '1'
    env['OMP_NUM_THREADS'] = str(threads if threads else 4)
    env['OPENBLAS_NUM_THREADS'] = '2'      # BLAS pools of 16 threads only oversubscribe the machine on these sizes
    env['MKL_NUM_THREADS'] = '2'
    env.pop('PYTHONSTARTUP', None)
    # census of the compiled entry points the workers reach (impl_worker.install_kernel_census); read by the runner
    env['VERIF_COVER'] = census_path()
    return env


def census_path():
    return os.path.join(VERIF, '.cache', 'census_%d.jsonl' % os.getpid())


def read_census():
    """aggregate and remove this run's census file: {compiled entry point: number of calls}"""
    tot = {}
    p = census_path()
    if os.path.exists(p):
        for line in open(p):
            try:
                d = json.loads(line)
            except ValueError:
                continue
            for k, v in d.items():
                tot[k] = tot.get(k, 0) + int(v)
        os.remove(p)
    return tot


def run_impl(bdir, prop, cases, mode='C', threads=None, timeout=1500, pyflags=(), extra_env=None):
    """Run `cases` through harness/props/<prop>.py:run_impl in a subprocess bound
    to the scratch build. Returns a list of results (one per case). A native
    crash or timeout of the subprocess is recorded for the case that was running
    and the worker is restarted on the next case."""
    os.makedirs(os.path.join(CACHE, 'jobs'), exist_ok=True)
    results = [None] * len(cases)
    start = 0
    attempt = 0
    while start < len(cases):
        attempt += 1
        jid = '%s_%s_%d_%d' % (prop, mode, os.getpid(), attempt)
        jin = os.path.join(CACHE, 'jobs', jid + '.in.json')
        jout = os.path.join(CACHE, 'jobs', jid + '.out.jsonl')
        with open(jin, 'w') as f:
            json.dump({'prop': prop, 'mode': mode, 'cases': cases[start:]}, f)
        open(jout, 'w').close()
        cmd = [PY] + list(pyflags) + [os.path.join(VERIF, 'harness', 'impl_worker.py'), jin, jout]
        try:
            env = impl_env(bdir, threads)
            if extra_env:
                env.update(extra_env)
            r = subprocess.run(cmd, env=env, stdout=subprocess.PIPE,
                               stderr=subprocess.PIPE, text=True, timeout=timeout)
            rc, err = r.returncode, r.stderr[-6000:]
        except subprocess.TimeoutExpired:
            rc, err = -999, 'timeout'
        n = 0
        with open(jout) as f:
            for line in f:
                line = line.strip()
                if not line:
                    continue
                try:
                    results[start + n] = json.loads(line)
                except ValueError:
                    break
                n += 1
        os.unlink(jin)
        os.unlink(jout)
        if start + n >= len(cases):
            break
        # the worker died on case start+n
        results[start + n] = {'crash': True, 'returncode': rc, 'stderr': err}
        start = start + n + 1
    return results


# ----------------------------------------------------------------------------
# the extracted model
class Model:
    def __init__(self):
        ensure_driver()
        self.p = subprocess.Popen([os.path.join(OCAML, 'driver')], stdin=subprocess.PIPE,
                                  stdout=subprocess.PIPE, text=True, bufsize=1 << 20)
        self.queries = 0

    def q(self, *toks):
        line = ' '.join(str(t) for t in toks)
        self.p.stdin.write(line + '\n')
        self.p.stdin.flush()
        out = self.p.stdout.readline()
        self.queries += 1
        if not out.startswith('OK'):
            raise RuntimeError('model driver: %r on %r' % (out[:200], line[:200]))
        return out.split()[1:]

    def qi(self, *toks):
        return [int(x) for x in self.q(*toks)]

    def close(self):
        try:
            self.p.stdin.close()
            self.p.wait(timeout=5)
        except Exception:
            self.p.kill()


def _newer(src_list, target):
    if not os.path.exists(target):
        return True
    t = os.path.getmtime(target)
    return any(os.path.getmtime(s) > t for s in src_list if os.path.exists(s))


def ensure_driver():
    """(Re)extract the model and build the OCaml driver when sources changed."""
    drv = os.path.join(OCAML, 'driver')
    vfiles = [os.path.join(THEORIES, f) for f in os.listdir(THEORIES) if f.endswith('.v')]
    srcs = vfiles + [os.path.join(COQ, 'extract', 'Extract.v'), os.path.join(OCAML, 'driver.ml')]
    if not _newer(srcs, drv):
        return
    coq_make()
    r = subprocess.run(['coqc', '-Q', THEORIES, 'FQE', os.path.join(COQ, 'extract', 'Extract.v')],
                       cwd=OCAML, stdout=subprocess.PIPE, stderr=subprocess.STDOUT, text=True, timeout=600)
    for ext in ('.vo', '.glob', '.vok', '.vos'):
        p = os.path.join(COQ, 'extract', 'Extract' + ext)
        if os.path.exists(p):
            os.unlink(p)
    if r.returncode != 0:
        raise RuntimeError('extraction failed: ' + r.stdout[-2000:])
    r = subprocess.run(['ocamlfind', 'ocamlopt', '-w', '-a', 'Model.mli', 'Model.ml', 'driver.ml', '-o', 'driver'],
                       cwd=OCAML, stdout=subprocess.PIPE, stderr=subprocess.STDOUT, text=True, timeout=600)
    if r.returncode != 0:
        raise RuntimeError('driver build failed: ' + r.stdout[-2000:])


# ----------------------------------------------------------------------------
# Coq
FORBIDDEN = re.compile(r'\b(Admitted|admit|Axiom|Axioms|Parameter|Parameters|Conjecture|Conjectures|Admit Obligations)\b'
                       r'|Unset\s+Guard|bypass_check|type-in-type|impredicative-set|Unset\s+Universe Checking|Unset\s+Positivity')


def coq_sources():
    out = []
    for dp, dn, fn in os.walk(COQ):
        for f in fn:
            if f.endswith('.v'):
                out.append(os.path.join(dp, f))
    return sorted(out)


def strip_comments(text):
    out = []
    depth = 0
    i = 0
    while i < len(text):
        if text.startswith('(*', i):
            depth += 1
            i += 2
        elif text.startswith('*)', i) and depth > 0:
            depth -= 1
            i += 2
        else:
            if depth == 0:
                out.append(text[i])
            i += 1
    return ''.join(out)


def coq_forbidden_scan():
    bad = []
    for p in coq_sources():
        txt = strip_comments(open(p).read())
        for m in FORBIDDEN.finditer(txt):
            bad.append('%s: %s' % (os.path.relpath(p, VERIF), m.group(0)))
        # Variable/Hypothesis outside a section
        depth = 0
        for line in txt.split('\n'):
            s = line.strip()
            if re.match(r'^Section\s+\w+', s):
                depth += 1
            elif re.match(r'^End\s+\w+', s) and depth > 0:
                depth -= 1
            elif re.match(r'^(Variable|Variables|Hypothesis|Hypotheses|Context)\b', s) and depth == 0:
                bad.append('%s: %s outside a section' % (os.path.relpath(p, VERIF), s.split()[0]))
    return bad


def regenerate_gen():
    """Run the translators on /repo's current source. Returns dict leaf -> status."""
    sys.path.insert(0, os.path.join(VERIF, 'translate'))
    import gen_all
    return gen_all.regenerate(REPO, os.path.join(THEORIES, 'gen'))


def coq_make_skip(skip):
    return coq_make(skip=skip)


def coq_make(jobs=8, timeout=3000, skip=()):
    """Full (incremental) .vo build through coq_makefile. Returns (ok, log)."""
    files = []
    for dp, dn, fn in os.walk(THEORIES):
        for f in sorted(fn):
            if f.endswith('.v') and f[:-2] not in skip:
                files.append(os.path.relpath(os.path.join(dp, f), COQ))
    files.sort()
    proj = '-Q theories FQE\n' + '\n'.join(files) + '\n'
    pp = os.path.join(COQ, '_CoqProject')
    if not os.path.exists(pp) or open(pp).read() != proj:
        open(pp, 'w').write(proj)
    if _newer([pp], os.path.join(COQ, 'Makefile')):
        subprocess.check_call(['coq_makefile', '-f', '_CoqProject', '-o', 'Makefile'], cwd=COQ,
                              stdout=subprocess.DEVNULL)
    r = subprocess.run(['make', '-k', '-j%d' % jobs], cwd=COQ, stdout=subprocess.PIPE,
                       stderr=subprocess.STDOUT, text=True, timeout=timeout)
    return r.returncode == 0, r.stdout


def failed_coq_files(makelog):
    return sorted(set(re.findall(r'File "\./(theories/[\w/]+\.v)", line \d+, characters [\d-]+:\s*\nError', makelog)))


def check_property_theorems(stem):
    """Re-run coqc on <stem>.v and parse its Print Assumptions output.
    Returns dict(obligations, discharged, axioms, theorems, ok, log)."""
    vf = os.path.join(THEORIES, '%s.v' % stem)
    res = {'obligations': 0, 'discharged': 0, 'axioms': [], 'theorems': [], 'ok': False, 'log': ''}
    if not os.path.exists(vf):
        res['log'] = 'missing ' + vf
        return res
    src = strip_comments(open(vf).read())
    thms = re.findall(r'^\s*(?:Theorem|Corollary)\s+(\w+)', src, re.M)
    prints = re.findall(r'Print Assumptions\s+(\w+)\s*\.', src)
    res['theorems'] = thms
    res['obligations'] = len(thms)
    r = subprocess.run(['coqc', '-Q', 'theories', 'FQE', vf], cwd=COQ, stdout=subprocess.PIPE,
                       stderr=subprocess.STDOUT, text=True, timeout=1200)
    res['log'] = r.stdout
    if r.returncode != 0:
        return res
    # split output into assumption blocks
    blocks = re.split(r'(?=Closed under the global context|Axioms:)', r.stdout)
    blocks = [b for b in blocks if b.startswith('Closed under') or b.startswith('Axioms:')]
    axioms = set()
    for b in blocks:
        if b.startswith('Axioms:'):
            for m in re.finditer(r'^([\w.]+)\s*:', b[len('Axioms:'):], re.M):
                axioms.add(m.group(1))
    res['axioms'] = sorted(axioms)
    bad_ax = [a for a in axioms if a not in ALLOWED_AXIOMS and a.split('.')[-1] not in ALLOWED_AXIOMS]
    res['discharged'] = len(blocks) if (len(blocks) == len(prints) and set(prints) >= set(thms)) else min(len(blocks), len(thms))
    res['ok'] = (not bad_ax) and len(blocks) == len(prints) and set(prints) >= set(thms) and len(thms) > 0
    res['bad_axioms'] = bad_ax
    return res


# ----------------------------------------------------------------------------
# findings / evidence / replay
def load_findings():
    p = os.path.join(VERIF, 'known_findings.json')
    if not os.path.exists(p):
        return {'findings': [], 'fixed': []}
    return json.load(open(p))


def write_replay(pid, name, obj):
    d = os.path.join(VERIF, 'replays', pid)
    os.makedirs(d, exist_ok=True)
    p = os.path.join(d, name + '.json')
    with open(p, 'w') as f:
        json.dump(obj, f, indent=1, sort_keys=True, default=str)
    return p


def write_evidence(pid, tier, seed, coverage, wall, violations, assumptions):
    os.makedirs(os.path.join(VERIF, 'evidence'), exist_ok=True)
    ev = {'property_id': pid, 'tier': tier, 'seed': seed, 'level': 'proof',
          'coverage': coverage, 'assumptions': assumptions, 'wall_s': round(wall, 2),
          'violations': violations}
    with open(os.path.join(VERIF, 'evidence', pid + '.json'), 'w') as f:
        json.dump(ev, f, indent=1, sort_keys=True, default=str)


def rng_for(seed, pid):
    return random.Random('%s/%s' % (seed, pid))


def ensure_asan_build():
    """scratch build whose libfqe.so (the C kernels) is compiled with ASan + UBSan and asserts on;
    the Cython wrapper module is the normal one. Returns (dir, env additions)."""
    base = ensure_build()
    key = os.path.basename(base) + '-asan'
    bdir = os.path.join(CACHE, 'build', key)
    ok = os.path.join(bdir, '.built_ok')
    if not os.path.exists(ok):
        if os.path.exists(bdir):
            shutil.rmtree(bdir)
        shutil.copytree(base, bdir, symlinks=True)
        os.unlink(os.path.join(bdir, '.built_ok'))
        lib = os.path.join(bdir, 'src', 'fqe', 'lib')
        cfiles = ['macros.c', 'mylapack.c', 'fci_graph.c', 'fqe_data.c', 'cirq_utils.c', 'wick.c', 'bitstring.c', 'binom.c']
        cmd = ['gcc', '-O1', '-g', '-fopenmp', '-shared', '-fPIC', '-UNDEBUG', '-fno-omit-frame-pointer',
               '-fsanitize=address,undefined', '-fno-sanitize-recover=undefined', '-DFQE_VERIF_TRACE', '-I', lib] + \
              [os.path.join(lib, c) for c in cfiles] + ['-o', os.path.join(lib, 'libfqe.so'), '-lm']
        r = subprocess.run(cmd, stdout=subprocess.PIPE, stderr=subprocess.STDOUT, text=True)
        if r.returncode != 0:
            raise BuildError('sanitizer build of libfqe.so failed:\n' + r.stdout[-3000:])
        open(ok, 'w').write('asan')
        _prune_builds(keep=key, maxn=4)
    def libpath(name):
        return subprocess.check_output(['gcc', '-print-file-name=' + name], text=True).strip()
    env = {'LD_PRELOAD': libpath('libasan.so') + ':' + libpath('libubsan.so'),
           'ASAN_OPTIONS': 'detect_leaks=0:abort_on_error=0:halt_on_error=1:exitcode=66',
           'UBSAN_OPTIONS': 'halt_on_error=1:print_stacktrace=1:exitcode=67'}
    return bdir, env
