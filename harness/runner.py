"""runner.py — generic orchestration of one property check (see ../check)."""
import collections
import glob
import importlib
import json
import os
import subprocess
import sys
import time

import core

# equivalence files (proofs about generated leaves) and the generated files they need
EQUIV_DEPS = {
    'Equiv_bits': ['Gen_bitstring_py', 'Gen_bitstring_h', 'Gen_settings'],
    'Equiv_binom': ['Gen_binom_h'],
    'Equiv_cexpr': ['Gen_bitstring_h_ast'],
    'Equiv_cdef': ['Gen_bitstring_h_ast'],
    'Equiv_gosper': ['Gen_gosper_c'],
    'Equiv_guards': ['Gen_util_guards'],
    'Equiv_zmat': ['Gen_zmatrix_py'],
    'Equiv_loops': ['Gen_propagator_loops'],
    'Equiv_trev': ['Gen_trev_phases'],
    'Equiv_addr': ['Gen_zmatrix_py', 'Gen_address_py'],
    'Equiv_ctors': ['Gen_control_ctors'],
    'Equiv_sorts': ['Gen_util_sorts'],
    'Equiv_zmat_c': ['Gen_zmatrix_py', 'Gen_zmatrix_c'],
}

TRUSTED_BASE_COMMON = [
    'Coq 8.16.1 kernel (coqc); vm_compute used for finite-domain reflection and refutation witnesses; native_compute not used',
    'no Axiom/Parameter/Admitted in /verif/coq (scanned on every run); Print Assumptions output parsed for every property theorem',
    'translators /verif/translate/py2coq.py, c2coq.py (fail-closed, expression-level leaves only; the inline C helpers of bitstring.h are only PARSED into the syntax of CExpr.v, whose C semantics and abstract evaluator are Coq definitions / theorems; the __GNUC__ branch of #ifdef is taken)',
    'extraction: Require Extraction + ExtrOcamlBasic only (bool, option, unit, list, prod, sumbool mapped to OCaml types; nat/N/Z/positive stay inductive); OCaml 4.13.1; ocaml/driver.ml (parsing/printing)',
    'correspondence harness (python: generators, canonicalisation, comparison); scratch build of the current working tree',
    'hand-written Impl/Spec model of fqe/*.py and fqe/lib/*.c outside the translated leaves: tied to the code by the correspondence only',
]


def _theorem_status(mod, gen_status, skipped):
    """check every theorem file of the property; returns (summary, broken list)"""
    summ = {'obligations': 0, 'discharged': 0, 'theorems': [], 'axioms': [], 'files': {}, 'fallback_files': []}
    broken = []
    for f in getattr(mod, 'THEOREM_FILES', []):
        if f in skipped:
            summ['fallback_files'].append(f)
            continue
        r = core.check_property_theorems(f)
        summ['files'][f] = {'obligations': r['obligations'], 'discharged': r['discharged'],
                            'axioms': r['axioms'], 'ok': r['ok']}
        summ['obligations'] += r['obligations']
        summ['discharged'] += r['discharged'] if r['ok'] else 0
        summ['theorems'] += r['theorems']
        summ['axioms'] = sorted(set(summ['axioms']) | set(r['axioms']))
        if not r['ok']:
            broken.append((f, r['log'][-1500:], r.get('bad_axioms', [])))
    return summ, broken


def _skipped_files(gen_status):
    """theory files not built because a generated leaf fell back to correspondence"""
    skip = set()
    for eq, deps in EQUIV_DEPS.items():
        if any(not gen_status.get(d, {}).get('ok', False) for d in deps):
            skip.add(eq)
    return skip


def coq_phase(mod):
    gen_status = core.regenerate_gen()
    skip = _skipped_files(gen_status)
    # theorem files that import a skipped equivalence file are skipped too
    pskip = set()
    for f in getattr(mod, 'THEOREM_FILES', []):
        needs = getattr(mod, 'THEOREM_NEEDS', {}).get(f, [])
        if any(n in skip for n in needs):
            pskip.add(f)
    ok, mlog = core.coq_make_skip(skip | pskip)
    forb = core.coq_forbidden_scan()
    summ, broken = _theorem_status(mod, gen_status, pskip)
    summ['translated_leaves'] = {g: s['leaves'] for g, s in gen_status.items()}
    summ['translation_fallbacks'] = sorted(skip | pskip)
    summ['make_ok'] = ok
    summ['make_failed_files'] = core.failed_coq_files(mlog)
    summ['forbidden'] = forb
    return summ, broken, mlog


def run_cases(mod, pid, bdir, model, cases, modes, stats=None):
    """returns list of (case_index, mode, mismatch list, impl result, expected)"""
    exps = []
    for c in cases:
        exps.append(mod.expected(model, c))
    out = []
    for mode in modes:
        sel = [i for i, c in enumerate(cases) if mode in c.get('modes', modes)]
        if not sel:
            continue
        kw = {}
        res = core.run_impl(bdir, pid.lower(), [cases[i] for i in sel], mode,
                            threads=getattr(mod, 'THREADS', None), **kw)
        for i, r in zip(sel, res):
            if r is None:
                r = {'crash': True, 'stderr': 'no result'}
            try:
                bad = mod.compare(cases[i], r, exps[i]) if getattr(mod, 'COMPARE_ARITY', 3) == 3 \
                    else mod.compare(cases[i], r, exps[i], mode)
            except Exception as e:  # a malformed result is a mismatch, not a harness crash
                bad = ['comparison failed: %s: %s (result %s)' % (type(e).__name__, e, str(r)[:200])]
            if bad:
                out.append((i, mode, bad, r, exps[i]))
            if stats is not None:
                stats['evaluations'] += 1
    return out, exps


def _sig(bad):
    return bad[0].split(':')[0][:40]


def shrink_failure(mod, pid, bdir, model, case, mode, rounds=6, sig=None):
    """greedy shrinking that keeps the kind of failure (same leading message)"""
    if not hasattr(mod, 'shrink'):
        return case
    cur = case
    if sig is None:
        f0, _ = run_cases(mod, pid, bdir, model, [case], [mode])
        if not f0:
            return case
        sig = _sig(f0[0][2])
    t_start = time.time()
    for _ in range(rounds):
        if time.time() - t_start > 90:      # shrinking is a convenience; never let it dominate a failing run
            break
        cands = mod.shrink(cur)
        if not cands:
            break
        cands = cands[:60]
        fails, _ = run_cases(mod, pid, bdir, model, cands, [mode])
        fails = [f for f in fails if _sig(f[2]) == sig]
        if not fails:
            break
        cur = cands[fails[0][0]]
    return cur


def run_check(pid, tier, seed, replay=None):
    t0 = time.time()
    mod = importlib.import_module('props.' + pid.lower())
    findings = core.load_findings()
    my_findings = [f for f in findings.get('findings', []) if f['property'] == pid or pid in f.get('also', [])]
    violations = []
    known_seen = collections.OrderedDict()
    lines = []

    # ---------------- 1. proofs
    summ, broken, mlog = coq_phase(mod)
    if summ['forbidden']:
        broken.append(('forbidden-declaration', '\n'.join(summ['forbidden']), []))

    # ---------------- 2. build + model
    bdir = core.ensure_build()
    model = core.Model()
    rng = core.rng_for(seed, pid)

    stats = collections.Counter()
    if replay:
        rp = json.load(open(replay))
        cases = [rp['case']]
        modes = [rp.get('mode', mod.MODES[0])]
        fails, exps = run_cases(mod, pid, bdir, model, cases, modes, stats)
        for i, mode, bad, r, e in fails:
            print('REPLAY still fails (%s): %s' % (mode, bad[0][:300]))
        if not fails:
            print('REPLAY passes')
        return 1 if fails else 0

    # ---------------- 3. correspondence
    cases = []
    for p in sorted(glob.glob(os.path.join(core.VERIF, 'corpus', pid, '*.json'))):
        try:
            cases.append(json.load(open(p))['case'])
        except Exception:
            pass
    ncorpus = len(cases)
    cases += mod.gen_cases(rng, tier)
    if tier != 'quick':
        # the thorough tier draws two more independent rounds of the generator (different PRNG streams of the same seed)
        for extra in (1, 2):
            cases += mod.gen_cases(core.rng_for(seed, '%s/round%d' % (pid, extra)), tier)
    fails, exps = run_cases(mod, pid, bdir, model, cases, mod.MODES, stats)
    nontrivial = set()
    for c, e in zip(cases, exps):
        try:
            if mod.nontrivial(c, e):
                nontrivial.add(json.dumps(c, sort_keys=True, default=str))
        except Exception:
            pass
    hist = collections.Counter()
    for c in cases:
        hist[getattr(mod, 'case_class', lambda c: c.get('kind', '?'))(c)] += 1

    reported = set()
    for i, mode, bad, r, e in fails:
        fid = None
        if hasattr(mod, 'classify'):
            fid = mod.classify(cases[i], mode, bad, r, e)
        listed = [f for f in my_findings if f['id'] == fid] if fid else []
        if listed:
            known_seen.setdefault(fid, listed[0]['what'])
            continue
        key = (mode, bad[0][:40])
        if key in reported or len(violations) >= 5:
            continue
        reported.add(key)
        small = shrink_failure(mod, pid, bdir, model, cases[i], mode, sig=_sig(bad))
        # recompute the mismatch on the shrunk case for the replay
        f2, e2 = run_cases(mod, pid, bdir, model, [small], [mode])
        if f2:
            _, _, bad2, r2, ex2 = f2[0]
        else:
            small, bad2, r2, ex2 = cases[i], bad, r, e
        path = core.write_replay(pid, 'viol_%d_%s' % (len(violations), mode),
                                 {'property': pid, 'mode': mode, 'case': small, 'mismatch': bad2[:5],
                                  'impl': _clip(r2), 'model': _clip(ex2), 'finding_class': fid,
                                  'how': './check %s --replay <this file>' % pid})
        violations.append((path, False, bad2[0]))

    # ---------------- 4a. property-specific global checks (run BEFORE the broken-proof stage: they may supply the failing input)
    # extra, property-specific global checks (e.g. direct C-vs-PY diffs, sanitizer runs)
    if hasattr(mod, 'extra_checks'):
        for desc, rp_obj, fid in mod.extra_checks(bdir, model, rng, tier, stats):
            listed = [f for f in my_findings if f['id'] == fid] if fid else []
            if listed:
                known_seen.setdefault(fid, listed[0]['what'])
                continue
            path = core.write_replay(pid, 'extra_%d' % len(violations), rp_obj)
            violations.append((path, False, desc))

    # ---------------- 4. broken proofs: search for a failing input
    for f, blog, bad_ax in broken:
        found = None
        if hasattr(mod, 'search_on_broken_proof'):
            try:
                found = mod.search_on_broken_proof(f, blog, bdir, model, rng)
            except Exception as ex:
                found = None
                blog += '\nsearch failed: %r' % ex
        if found is not None:
            path = core.write_replay(pid, 'proof_%s' % f, {'property': pid, 'broken': f, 'log': blog,
                                                          'failing_input': found})
            violations.append((path, False, 'proof obligation %s no longer checks; failing input found' % f))
        else:
            # was a correspondence failure already reported? then the replay exists
            path = core.write_replay(pid, 'proof_%s' % f, {'property': pid, 'broken': f, 'log': blog,
                                                          'bad_axioms': bad_ax,
                                                          'note': 'theorem file no longer checks; no failing input found'})
            violations.append((path, not any(not v[1] for v in violations), 'proof obligation %s no longer checks' % f))

    model.close()

    # ---------------- 5. report
    for fid, what in known_seen.items():
        print('KNOWN-FINDING: property=%s %s [%s]' % (pid, what, fid))
    for path, nofound, desc in violations:
        print('VIOLATION property=%s replay=%s%s' % (pid, path, ' no-failing-input-found' if nofound else ''))
        print('  # ' + desc[:400])

    cov = {
        'obligations': summ['obligations'], 'discharged': summ['discharged'],
        'checker_cmd': 'cd /verif/coq && make (coq_makefile, full .vo build) && coqc -Q theories FQE theories/%s.v  [Print Assumptions parsed]' %
                       ', '.join(getattr(mod, 'THEOREM_FILES', [])),
        'trusted_base': TRUSTED_BASE_COMMON + getattr(mod, 'TRUSTED_EXTRA', []),
        'theorems': summ['theorems'], 'axioms_reported_by_print_assumptions': summ['axioms'],
        'theorem_files': summ['files'],
        'translated_leaves': summ['translated_leaves'],
        'translation_fallbacks': summ['translation_fallbacks'],
        'evaluations': int(stats['evaluations']),
        'distinct_nontrivial': len(nontrivial),
        'rule': getattr(mod, 'RULE', ''),
        'samples': [getattr(mod, 'sample', lambda c: c)(c) for c in cases[ncorpus:ncorpus + 3]] +
                   [getattr(mod, 'sample', lambda c: c)(c) for c in cases[-2:]],
        'input_distribution': dict(hist),
        'modes': mod.MODES,
        'corpus_cases': ncorpus,
        'model_queries': model.queries,
        'known_findings_observed': list(known_seen.keys()),
        'not_proved_named': getattr(mod, 'NOT_PROVED', []),
        'exhaustive': bool(getattr(mod, 'EXHAUSTIVE', False)),
    }
    if hasattr(mod, 'extra_coverage'):
        cov.update(mod.extra_coverage())
    census = core.read_census()
    if census:
        cov['compiled_entry_points_called'] = {k: v for k, v in sorted(census.items()) if v}
        cov['compiled_entry_points_not_called'] = sorted(k for k, v in census.items() if not v)
    core.write_evidence(pid, tier, seed, cov, time.time() - t0, len(violations),
                        getattr(mod, 'ASSUMPTIONS', []))
    print('%s: %d theorem(s) checked (%d/%d discharged), %d evaluations, %d distinct non-trivial, %d violation(s), %d known finding(s), %.0fs' % (
        pid, len(summ['theorems']), summ['discharged'], summ['obligations'], stats['evaluations'],
        len(nontrivial), len(violations), len(known_seen), time.time() - t0))
    return 1 if violations else 0


def _clip(o, n=4000):
    s = json.dumps(o, default=str)
    if len(s) <= n:
        return o
    return s[:n] + '...'
