"""C12 — orbital rotation of a wavefunction.
Exactly unitary matrices with Gaussian-rational entries G/d (products of Pythagorean
Givens rotations, unit phases (3+4i)/5, i, -1 and swaps: near-permutations, zero leading
minors that force pivoting, negative determinants) are applied with wfn.transform; the
result is compared with the exterior-power oracle (Ext.v, exact minors of the integer
matrix, divided by d^N by the harness):  out = Ext((U P)^dagger) psi, P the reported
permutation.  Also: reported P L U reassemble U^dagger, norm, round trip through the
reported factors."""
import fqeio

PID = 'C12'
MODES = ['C', 'PY0']
COMPARE_ARITY = 4


# ---------------------------------------------------------------- exact unitary matrices (python ints)
def gmul(a, b):
    return (a[0] * b[0] - a[1] * b[1], a[0] * b[1] + a[1] * b[0])


def gadd(a, b):
    return (a[0] + b[0], a[1] + b[1])


def matmul(A, B):
    n = len(A)
    return [[tuple(map(sum, zip(*[gmul(A[i][k], B[k][j]) for k in range(n)]))) for j in range(n)] for i in range(n)]


def ident(n):
    return [[(1, 0) if i == j else (0, 0) for j in range(n)] for i in range(n)]


def dagger(A):
    n = len(A)
    return [[(A[j][i][0], -A[j][i][1]) for j in range(n)] for i in range(n)]


def random_unitary(rng, n, nfac, real=False):
    """exactly unitary G/d; with real=True a real orthogonal one (rotations of either sense, reflections, swaps)"""
    G, d = ident(n), 1
    for _ in range(nfac):
        kind = rng.choice(['givens', 'givens', 'phase', 'swap'])
        F = ident(n)
        if kind == 'givens' and n >= 2:
            p, q = rng.sample(range(n), 2)
            c, s, den = rng.choice([(3, 4, 5), (4, 3, 5), (5, 12, 13), (0, 1, 1), (12, 5, 13)])
            if real and rng.random() < 0.5:
                s = -s
            if real and rng.random() < 0.3:
                c = -c
            ph = (1, 0) if real else rng.choice([(1, 0), (0, 1), (1, 0)])
            F[p][p] = (c, 0)
            F[q][q] = (c, 0)
            F[p][q] = gmul((s, 0), ph)
            F[q][p] = gmul((-s, 0), (ph[0], -ph[1]))
            d *= den
            F = [[F[i][j] if (i in (p, q) and j in (p, q)) else ((den, 0) if i == j else (0, 0)) for j in range(n)] for i in range(n)]
        elif kind == 'phase':
            p = rng.randrange(n)
            num, den = ((-1, 0), 1) if real else rng.choice([((3, 4), 5), ((0, 1), 1), ((-1, 0), 1), ((4, -3), 5)])
            F = [[(den, 0) if i == j else (0, 0) for j in range(n)] for i in range(n)]
            F[p][p] = num
            d *= den
        elif kind == 'swap' and n >= 2:
            p, q = rng.sample(range(n), 2)
            F[p][p] = (0, 0)
            F[q][q] = (0, 0)
            F[p][q] = (1, 0)
            F[q][p] = (1, 0)
        G = matmul(F, G)
    return G, d


def gen_cases(rng, tier):
    cases = []
    n = 40 if tier == 'quick' else 250
    for k in range(n):
        norb = rng.randint(1, 3)
        kind = rng.choice(['restricted', 'restricted', 'blockdiag', 'full'])
        if kind == 'full':
            mode = 'sb'
            nn, sz = rng.randint(0, 2 * norb), 0
            if norb == 3:
                nn = rng.choice([1, 2, 5])     # keep minors small
            G, d = random_unitary(rng, 2 * norb, rng.randint(0, 4))
        else:
            mode = 'ns'
            na, nb = rng.randint(0, norb), rng.randint(0, norb)
            nn, sz = na + nb, na - nb
            if kind == 'restricted':
                G, d = random_unitary(rng, norb, rng.randint(0, 4), real=rng.random() < 0.3)
            else:
                Ga, da = random_unitary(rng, norb, rng.randint(0, 3))
                Gb, db = random_unitary(rng, norb, rng.randint(0, 3))
                # common denominator
                G = [[(0, 0)] * (2 * norb) for _ in range(2 * norb)]
                for i in range(norb):
                    for j in range(norb):
                        G[i][j] = (Ga[i][j][0] * db, Ga[i][j][1] * db)
                        G[norb + i][norb + j] = (Gb[i][j][0] * da, Gb[i][j][1] * da)
                d = da * db
        keys = fqeio.sector_keys(norb, mode, nn, sz)
        cases.append({'kind': 'rot', 'rkind': kind, 'norb': norb, 'mode': mode, 'n': nn, 'sz': sz,
                      'vec': fqeio.random_state(rng, norb, keys, density=0.8, amp=2),
                      'G': [[list(x) for x in row] for row in G], 'd': d})
    # sectors with more than 450 strings of one spin (the column kernels work in windows of 450), sparse states
    # (both spins occupied: the alpha kernel runs over windows of beta strings and vice versa)
    shapes = [(15, 1, 3), (15, 3, 1), (31, 1, 2), (31, 2, 1), (12, 1, 4), (12, 4, 1)]
    rng.shuffle(shapes)
    for norb, na, nb in (shapes[:4] if tier == 'quick' else shapes + shapes):
        G, d = random_unitary(rng, norb, rng.randint(2, 4))
        keys = fqeio.sector_keys(norb, 'ns', na + nb, na - nb)
        basis = fqeio.basis_of(norb, keys)
        vec = [[a, b, rng.randint(-2, 2) or 1, rng.randint(-2, 2)] for a, b in rng.sample(basis, 12)]
        cases.append({'kind': 'rot', 'rkind': 'restricted', 'norb': norb, 'mode': 'ns', 'n': na + nb, 'sz': na - nb,
                      'vec': vec, 'G': [[list(x) for x in row] for row in G], 'd': d, 'big': True})
    return cases


# ---------------------------------------------------------------- implementation
def run_impl(case, mode):
    import copy
    import numpy
    norb = case['norb']
    wfn = fqeio.make_wfn(norb, case['mode'], case['n'], case['sz'], case['vec'])
    G = numpy.array([[complex(*x) for x in row] for row in case['G']])
    U = G / case['d']
    work = copy.deepcopy(wfn)
    perm, low, upp, out = work.transform(U)
    res = {'out': fqeio.read_state(out), 'perm': numpy.rint(numpy.real(perm)).astype(int).tolist(),
           'perm_err': float(numpy.abs(perm - numpy.rint(numpy.real(perm))).max()),
           'unitary_err': float(numpy.abs(U.conj().T @ U - numpy.eye(U.shape[0])).max()),
           'norm_in': float(wfn.norm()), 'norm_out': float(out.norm())}
    if case['rkind'] != 'blockdiag':
        res['plu_err'] = float(numpy.abs(perm @ low @ upp - U.conj().T).max())
    else:
        res['plu_err'] = 0.0
    # round trip through the reported factors: transform((U P)^dagger, L, U) restores the input
    try:
        ci = U @ perm
        back = copy.deepcopy(out)
        # always with the reported factors: without them the second call chooses its own pivoting and returns the
        # state in once more permuted orbitals (correct, but not the input)
        _, _, _, back = back.transform(ci.T.conj(), low, upp)
        res['back_err'] = float((back - wfn).norm())
    except Exception as e:  # noqa
        res['back_exc'] = type(e).__name__ + ':' + str(e)[:100]
    return res


# ---------------------------------------------------------------- model
def _mat_tokens(M):
    toks = []
    for row in M:
        for re, im in row:
            toks += [re, im]
    return toks


_MODEL = {}


def expected(model, case):
    _MODEL['m'] = model   # the oracle needs the permutation the implementation reports: queried in compare
    return {}


def compare(case, got, exp, mode):
    if 'exc' in got or 'crash' in got:
        return ['transform raised %s: %s' % (got.get('exc', 'CRASH'), str({k: got[k] for k in got if k != 'tb'})[:300])]
    bad = []
    if got['perm_err'] > 1e-12:
        bad.append('reported permutation is not a 0/1 matrix')
    if got['plu_err'] > 1e-10:
        bad.append('reported P L U does not reassemble U^dagger: %.3g' % got['plu_err'])
    if abs(got['norm_out'] - got['norm_in']) > 1e-9 * (1 + got['norm_in']):
        bad.append('norm changed: %r -> %r' % (got['norm_in'], got['norm_out']))
    if 'back_exc' in got:
        bad.append('transforming back with the adjoint raised %s' % got['back_exc'])
    elif got['back_err'] > 1e-9 * (1 + got['norm_in']):
        bad.append('adjoint transformation does not restore the input: |diff| = %.3g' % got['back_err'])
    # oracle: Ext((U P)^dagger) psi = Ext(P^T G^dagger) psi / d^N
    model = _MODEL['m']
    norb = case['norb']
    G = [[tuple(x) for x in row] for row in case['G']]
    n = len(G)
    P = got['perm']
    Pg = [[(P[i][j], 0) for j in range(n)] for i in range(n)]
    X = matmul([[Pg[j][i] for j in range(n)] for i in range(n)], dagger(G))     # P^T G^dagger
    keys = fqeio.sector_keys(norb, case['mode'], case['n'], case['sz'])
    basis = fqeio.basis_of(norb, keys)
    if case['rkind'] == 'restricted':
        t = model.q('EXTB', norb, n, *_mat_tokens(X), *_mat_tokens(X), *fqeio.vec_tokens(case['vec']), *fqeio.basis_tokens(basis))
    elif case['rkind'] == 'blockdiag':
        Xa = [row[:norb] for row in X[:norb]]
        Xb = [row[norb:] for row in X[norb:]]
        t = model.q('EXTB', norb, norb, *_mat_tokens(Xa), *_mat_tokens(Xb), *fqeio.vec_tokens(case['vec']), *fqeio.basis_tokens(basis))
    else:
        t = model.q('EXTF', norb, n, *_mat_tokens(X), *fqeio.vec_tokens(case['vec']), *fqeio.basis_tokens(basis))
    g = {'%d,%d' % (a, b): complex(re, im) for a, b, re, im in got['out']}
    worst, wk, wv = 0.0, None, None
    for k, (a, b) in enumerate(basis):
        nel = bin(a).count('1') + bin(b).count('1')
        den = case['d'] ** nel
        ex = complex(int(t[2 * k]) / den, int(t[2 * k + 1]) / den)
        dd = abs(g.get('%d,%d' % (a, b), 0) - ex)
        if dd > worst:
            worst, wk, wv = dd, (a, b), ex
    if worst > 1e-9 * (1 + got['norm_in']):
        bad.append('transform(U) [%s]: coefficient of %s is %r, Ext((U P)^dagger) psi has %r' % (case['rkind'], wk, g.get('%d,%d' % wk, 0), wv))
    return bad


def classify(case, mode, bad, got, exp):
    return None


def nontrivial(case, exp):
    n = len(case['G'])
    offdiag = any(case['G'][i][j] != [0, 0] for i in range(n) for j in range(n) if i != j)
    return offdiag and len(case['vec']) >= 2


def case_class(case):
    return '%s/norb%d' % (case['rkind'], case['norb'])


def shrink(case):
    v = case['vec']
    return [dict(case, vec=v[:k] + v[k + 1:]) for k in range(len(v))] if len(v) > 1 else []


def sample(case):
    return dict(case, vec=case['vec'][:3])


THEOREM_FILES = ['P_C12']
RULE = ('exactly unitary Gaussian-rational matrices (products of up to 4 Pythagorean Givens rotations with phases, unit '
        'phases, swaps): restricted, spin-block-diagonal and fully spin-mixing; all sectors of norb <= 3; Gaussian-integer '
        'states. non-trivial: matrix with an off-diagonal entry and >= 2 determinants')
NOT_PROVED = ['ext_mul (Cauchy-Binet) for every size and rotate_correct (column-wise LU algorithm = exterior power) are not '
              'proved; only the symbolic 2x2 determinant facts are']
