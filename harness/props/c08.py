"""C08 — wavefunction arithmetic = arithmetic on the coefficient vector.
Random operation histories over a pool of wavefunctions (same sector set), exact
regime; the Coq pool machine (Arith.v, extracted as m_hist) is the oracle.
Separately: operands with different sector sets must be rejected and left intact."""
import fqeio

PID = 'C08'
MODES = ['C', 'PY0']
COMPARE_ARITY = 4
NPOOL = 3


def _c(rng, zero_ok=True):
    k = rng.random()
    if k < 0.15:
        return [0, rng.randint(-3, 3) or 1]     # purely imaginary
    if k < 0.3:
        return [rng.randint(-3, 3) or -1, 0]
    if k < 0.35 and zero_ok:
        return [0, 0]
    return [rng.randint(-3, 3), rng.randint(-3, 3)]


def gen_cases(rng, tier):
    cases = []
    n = 60 if tier == 'quick' else 400
    for _ in range(n):
        norb = rng.randint(1, 3)
        mode = rng.choice(['ns', 'ns', 'sb', 'nb'])
        if mode == 'ns':
            na, nb = rng.randint(0, norb), rng.randint(0, norb)
            nn, sz = na + nb, na - nb
        elif mode == 'sb':
            nn, sz = rng.randint(0, 2 * norb), 0
        else:
            nn, sz = 0, rng.randint(-norb, norb)
        keys = fqeio.sector_keys(norb, mode, nn, sz)
        basis = fqeio.basis_of(norb, keys)
        pool = [fqeio.random_state(rng, norb, keys, density=rng.choice([0.4, 0.9]), amp=3) for _ in range(NPOOL)]
        ops = []
        for _ in range(rng.randint(3, 12)):
            k = rng.choice(['add', 'sub', 'iadd', 'axpy', 'scale', 'set', 'copy', 'empty', 'dot', 'vdot',
                            'norm2', 'get', 'max', 'setwfn_zero', 'setwfn_ones', 'setwfn_data', 'setwfn_shared',
                            'setwfn_shared'])
            i, j, t = rng.randrange(NPOOL), rng.randrange(NPOOL), rng.randrange(NPOOL)
            if k in ('add', 'sub'):
                ops.append([k, i, j, t])
            elif k == 'iadd':
                ops.append(['iadd', i, j])
            elif k == 'axpy':
                ops.append(['axpy', i, _c(rng), j])
            elif k == 'scale':
                ops.append(['scale', i, _c(rng)])
            elif k in ('set', 'get'):
                a, b = rng.choice(basis)
                ops.append(['set', i, a, b, _c(rng)] if k == 'set' else ['get', i, a, b])
            elif k in ('copy', 'empty'):
                ops.append([k, i, t])
            elif k in ('dot', 'vdot'):
                ops.append([k, i, j])
            elif k in ('norm2', 'max'):
                ops.append([k, i])
            elif k == 'setwfn_zero':
                ops.append(['setwfn_zero', i])
            elif k == 'setwfn_ones':
                ops.append(['setwfn_ones', i])
            elif k == 'setwfn_shared':
                # two wavefunctions set from the SAME dict of arrays: bulk assignment must be by value
                ops.append(['setwfn_shared', i, (i + 1 + rng.randrange(NPOOL - 1)) % NPOOL,
                            fqeio.random_state(rng, norb, keys, density=0.6, amp=3)])
                if rng.random() < 0.7:
                    ops.append(['axpy', i, _c(rng), rng.randrange(NPOOL)])
            else:
                ops.append(['setwfn_data', i, fqeio.random_state(rng, norb, keys, density=0.6, amp=3)])
        # the largest-magnitude element, systematically: every history ends by asking every pool member for it, and every
        # third history first plants, in ONE sector, a competitor pair whose order by |re| + |im| (or by max(|re|, |im|))
        # is the reverse of the order by modulus: 3 against 2+2i (|.| = 3 > 2.83, sums 3 < 4), 5 against 4+4i with
        # 4+3i present (moduli 5, 5.66, 5), each times a unit i^r
        if len(cases) % 3 == 0:
            by_sector = {}
            for a, b in basis:
                by_sector.setdefault((bin(a).count('1'), bin(b).count('1')), []).append((a, b))
            big = [v for v in by_sector.values() if len(v) >= 2]
            if big:
                dets = rng.sample(rng.choice(big), 2)
                vals = rng.choice([[(3, 0), (2, 2)], [(2, 2), (3, 0)], [(0, 3), (-2, 2)], [(4, 3), (5, 0)], [(0, -5), (3, -4)],
                                   [(5, 0), (4, 4)], [(3, 3), (4, 0)]])
                st = [[dets[0][0], dets[0][1], vals[0][0], vals[0][1]], [dets[1][0], dets[1][1], vals[1][0], vals[1][1]]]
                for a, b in basis:
                    if (a, b) not in dets and rng.random() < 0.5:
                        st.append([a, b, rng.choice([1, -1, 0]), rng.choice([1, -1])])
                tgt = rng.randrange(NPOOL)
                ops = [['setwfn_data', tgt, st], ['max', tgt]] + ops
        ops += [['max', i] for i in range(NPOOL)]
        cases.append({'kind': 'hist', 'norb': norb, 'mode': mode, 'n': nn, 'sz': sz, 'pool': pool, 'ops': ops})
    # large sectors (more than 2^14 coefficients: blocked / batched in-place updates), sparse states spread over all rows;
    # the model is asked for the coefficients on the union of the supports plus some determinants outside it
    for _ in range(3 if tier == 'quick' else 12):
        norb, na, nb = rng.choice([(10, 5, 5), (10, 5, 4), (11, 5, 4), (10, 4, 6)])
        keys = fqeio.sector_keys(norb, 'ns', na + nb, na - nb)
        full = fqeio.basis_of(norb, keys)
        lena = len(set(a for a, b in full))
        support = rng.sample(full, 30) + [full[-1], full[-2], full[0]]        # includes the last rows
        pool = [[[a, b, rng.randint(-3, 3) or 1, rng.randint(-3, 3)] for a, b in rng.sample(support, 12)] for _ in range(NPOOL)]
        ops = []
        for _k in range(rng.randint(4, 9)):
            k = rng.choice(['add', 'sub', 'iadd', 'axpy', 'axpy', 'scale', 'copy', 'vdot', 'norm2', 'get', 'set'])
            i, j, t = rng.randrange(NPOOL), rng.randrange(NPOOL), rng.randrange(NPOOL)
            if k in ('add', 'sub'):
                ops.append([k, i, j, t])
            elif k == 'iadd':
                ops.append(['iadd', i, j])
            elif k == 'axpy':
                ops.append(['axpy', i, _c(rng), j])
            elif k == 'scale':
                ops.append(['scale', i, _c(rng)])
            elif k == 'copy':
                ops.append(['copy', i, t])
            elif k == 'vdot':
                ops.append(['vdot', i, j])
            elif k == 'norm2':
                ops.append(['norm2', i])
            else:
                a, b = rng.choice(support)
                ops.append(['set', i, a, b, _c(rng)] if k == 'set' else ['get', i, a, b])
        cases.append({'kind': 'hist', 'norb': norb, 'mode': 'ns', 'n': na + nb, 'sz': na - nb, 'pool': pool, 'ops': ops,
                      'basis': [list(x) for x in support], 'big': True})
    # mismatched sector sets must be rejected
    for _ in range(12 if tier == 'quick' else 60):
        norb = rng.randint(2, 3)
        na, nb = rng.randint(0, norb), rng.randint(0, norb)
        na2, nb2 = rng.randint(0, norb), rng.randint(0, norb)
        if (na, nb) == (na2, nb2):
            nb2 = (nb2 + 1) % (norb + 1)
        k1 = fqeio.sector_keys(norb, 'ns', na + nb, na - nb)
        k2 = fqeio.sector_keys(norb, 'ns', na2 + nb2, na2 - nb2)
        cases.append({'kind': 'mismatch', 'norb': norb, 'k1': [na + nb, na - nb], 'k2': [na2 + nb2, na2 - nb2],
                      'v1': fqeio.random_state(rng, norb, k1), 'v2': fqeio.random_state(rng, norb, k2),
                      'op': rng.choice(['add', 'sub', 'iadd', 'axpy'])})
    # overlapping but different sector SETS (superset, subset, partial overlap): must be refused, operands untouched
    for _ in range(12 if tier == 'quick' else 60):
        norb = rng.randint(2, 3)
        allk = [(n, sz) for n in range(1, 2 * norb) for sz in range(-norb, norb + 1)
                if (n + sz) % 2 == 0 and 0 <= (n + sz) // 2 <= norb and 0 <= (n - sz) // 2 <= norb]
        common = rng.sample(allk, rng.randint(1, 2))
        rest = [k for k in allk if k not in common]
        shape = rng.choice(['superset', 'subset', 'overlap'])
        e1 = rng.sample(rest, 1) if shape in ('subset', 'overlap') else []
        e2 = rng.sample([k for k in rest if k not in e1], 1) if shape in ('superset', 'overlap') else []
        order = rng.random() < 0.5
        k1s = (common + e1) if order else (e1 + common)
        k2s = (common + e2) if order else (e2 + common)
        cases.append({'kind': 'mismatch_sets', 'norb': norb, 'k1s': [list(k) for k in k1s], 'k2s': [list(k) for k in k2s],
                      'shape': shape, 'seed': rng.randrange(10 ** 6), 'op': rng.choice(['add', 'sub', 'iadd', 'axpy'])})
    return cases


# ------------------------------------------------------------------ implementation
def run_impl(case, mode):
    import copy
    import numpy
    import fqe
    if case['kind'] == 'mismatch_sets':
        rs = numpy.random.RandomState(case['seed'])

        def mk(keys):
            w = fqe.Wavefunction([[k[0], k[1], case['norb']] for k in keys])
            data = {}
            for k in w.sectors():
                shp = w.sector(k).coeff.shape
                data[k] = (rs.randint(-3, 4, size=shp) + 1j * rs.randint(-3, 4, size=shp)).astype(numpy.complex128)
            w.set_wfn(strategy='from_data', raw_data=data)
            return w
        w1, w2 = mk(case['k1s']), mk(case['k2s'])
        b1, b2 = fqeio.read_state(w1), fqeio.read_state(w2)
        raised = None
        try:
            if case['op'] == 'add':
                w1 + w2
            elif case['op'] == 'sub':
                w1 - w2
            elif case['op'] == 'iadd':
                w1 += w2
            else:
                w1.ax_plus_y(2.0, w2)
        except Exception as e:  # noqa
            raised = type(e).__name__
        return {'raised': raised, 'unchanged': fqeio.read_state(w1) == b1 and fqeio.read_state(w2) == b2}
    if case['kind'] == 'mismatch':
        w1 = fqeio.make_wfn(case['norb'], 'ns', case['k1'][0], case['k1'][1], case['v1'])
        w2 = fqeio.make_wfn(case['norb'], 'ns', case['k2'][0], case['k2'][1], case['v2'])
        b1, b2 = fqeio.read_state(w1), fqeio.read_state(w2)
        raised = None
        try:
            if case['op'] == 'add':
                w1 + w2
            elif case['op'] == 'sub':
                w1 - w2
            elif case['op'] == 'iadd':
                w1 += w2
            else:
                w1.ax_plus_y(2.0, w2)
        except Exception as e:  # noqa
            raised = type(e).__name__
        return {'raised': raised, 'unchanged': fqeio.read_state(w1) == b1 and fqeio.read_state(w2) == b2}
    norb = case['norb']
    fqeio.reset_sources()
    pool = [fqeio.make_wfn(norb, case['mode'], case['n'], case['sz'], v) for v in case['pool']]
    obs = []
    for op in case['ops']:
        k = op[0]
        if k == 'add':
            pool[op[3]] = pool[op[1]] + pool[op[2]]
        elif k == 'sub':
            pool[op[3]] = pool[op[1]] - pool[op[2]]
        elif k == 'iadd':
            if op[1] != op[2]:
                pool[op[1]] += pool[op[2]]
            else:
                pool[op[1]] += copy.deepcopy(pool[op[2]])
        elif k == 'axpy':
            src = pool[op[3]] if op[3] != op[1] else copy.deepcopy(pool[op[3]])
            pool[op[1]].ax_plus_y(complex(*op[2]), src)
        elif k == 'scale':
            pool[op[1]].scale(complex(*op[2]))
        elif k == 'set':
            pool[op[1]][(op[2], op[3])] = complex(*op[4])
        elif k == 'get':
            v = complex(pool[op[1]][(op[2], op[3])])
            obs.append([v.real, v.imag])
        elif k == 'copy':
            pool[op[2]] = copy.deepcopy(pool[op[1]])
        elif k == 'empty':
            pool[op[2]] = pool[op[1]].empty_copy()
        elif k == 'dot':
            v = complex(fqe.dot(pool[op[1]], pool[op[2]]))
            obs.append([v.real, v.imag])
        elif k == 'vdot':
            v = complex(fqe.vdot(pool[op[1]], pool[op[2]]))
            obs.append([v.real, v.imag])
        elif k == 'norm2':
            v = float(pool[op[1]].norm())
            obs.append([v * v, 0.0])
        elif k == 'max':
            v = complex(pool[op[1]].max_element())
            obs.append([abs(v) ** 2, 0.0])
        elif k == 'setwfn_zero':
            pool[op[1]].set_wfn(strategy='zero')
        elif k == 'setwfn_ones':
            pool[op[1]].set_wfn(strategy='ones')
        elif k == 'setwfn_data':
            fqeio.set_state(pool[op[1]], op[2])
        elif k == 'setwfn_shared':
            fqeio.set_state(pool[op[1]], op[3], also=[pool[op[2]]])
    # normalisation on copies (not exact: compared through norm)
    norms = []
    for w in pool:
        c = copy.deepcopy(w)
        n0 = c.norm()
        if n0 > 0:
            c.normalize()
            norms.append([float(n0), float(c.norm())])
        else:
            norms.append([0.0, 0.0])
    return {'obs': obs, 'final': [fqeio.read_state(w) for w in pool], 'norms': norms, 'alias': fqeio.modified_sources()}


# ------------------------------------------------------------------ model
def expected(model, case):
    if case['kind'] in ('mismatch', 'mismatch_sets'):
        return {'raised': True}
    norb = case['norb']
    keys = fqeio.sector_keys(norb, case['mode'], case['n'], case['sz'])
    basis = [tuple(x) for x in case['basis']] if case.get('basis') else fqeio.basis_of(norb, keys)
    toks = ['HIST', norb, len(case['pool'])]
    for v in case['pool']:
        toks += fqeio.vec_tokens(v)
    mops = []
    for op in case['ops']:
        k = op[0]
        if k in ('add', 'sub'):
            mops.append([k, op[1], op[2], op[3]])
        elif k == 'iadd':
            mops.append(['axpy', op[1], 1, 0, op[2]])
        elif k == 'axpy':
            mops.append(['axpy', op[1], op[2][0], op[2][1], op[3]])
        elif k == 'scale':
            mops.append(['scale', op[1], op[2][0], op[2][1]])
        elif k == 'set':
            mops.append(['set', op[1], op[2], op[3], op[4][0], op[4][1]])
        elif k == 'get':
            mops.append(['get', op[1], op[2], op[3]])
        elif k in ('copy', 'empty', 'dot', 'vdot'):
            mops.append([k, op[1], op[2]])
        elif k == 'norm2':
            mops.append(['norm2', op[1]])
        elif k == 'max':
            mops.append(['max', op[1]] + fqeio.basis_tokens(basis))
        elif k == 'setwfn_zero':
            mops.append(['empty', op[1], op[1]])
        elif k == 'setwfn_ones':
            mops.append(['empty', op[1], op[1]])
            for a, b in basis:
                mops.append(['set', op[1], a, b, 1, 0])
        elif k == 'setwfn_data':
            mops.append(['empty', op[1], op[1]])
            for a, b, re, im in op[2]:
                mops.append(['set', op[1], a, b, re, im])
        elif k == 'setwfn_shared':
            for tgt in (op[1], op[2]):
                mops.append(['empty', tgt, tgt])
                for a, b, re, im in op[3]:
                    mops.append(['set', tgt, a, b, re, im])
    toks.append(len(mops))
    for m in mops:
        toks += m
    toks += fqeio.basis_tokens(basis)
    t = model.q(*toks)
    bar = t.index('|')
    obs = []
    p = 0
    while p < bar:
        if t[p] == 'n':
            p += 1
        else:
            obs.append([int(t[p + 1]), int(t[p + 2])])
            p += 3
    fin = t[bar + 1:]
    finals = []
    nb = len(basis)
    for s in range(len(case['pool'])):
        d = {}
        for k, (a, b) in enumerate(basis):
            re, im = int(fin[2 * (s * nb + k)]), int(fin[2 * (s * nb + k) + 1])
            if re or im:
                d['%d,%d' % (a, b)] = [re, im]
        finals.append(d)
    return {'obs': obs, 'final': finals}


def compare(case, got, exp, mode):
    if 'exc' in got or 'crash' in got:
        return ['history raised %s: %s' % (got.get('exc', 'CRASH'), str({k: got[k] for k in got if k != 'tb'})[:300])]
    if case['kind'] in ('mismatch', 'mismatch_sets'):
        bad = []
        if not got['raised']:
            bad.append('operands with different sector sets%s were combined by %s without an exception' % (
                ' (%s: %s vs %s)' % (case['shape'], case['k1s'], case['k2s']) if case['kind'] == 'mismatch_sets' else '', case['op']))
        if not got['unchanged']:
            bad.append('rejected %s modified an operand' % case['op'])
        return bad
    bad = list(got.get('alias', []))
    if len(got['obs']) != len(exp['obs']):
        return ['number of observations differs']
    obs_ops = [op for op in case['ops'] if op[0] in ('get', 'dot', 'vdot', 'norm2', 'max')]
    for op, g, e in zip(obs_ops, got['obs'], exp['obs']):
        tol = 1e-9 * (1 + abs(e[0]) + abs(e[1]))
        if abs(g[0] - e[0]) > tol or abs(g[1] - e[1]) > tol:
            bad.append('%s%s returned %r%+rj, exact %d%+dj%s' % (op[0], op[1:3], g[0], g[1], e[0], e[1],
                                                               ' (squared magnitude)' if op[0] in ('norm2', 'max') else ''))
    for s, (g, e) in enumerate(zip(got['final'], exp['final'])):
        gd = {'%d,%d' % (a, b): (re, im) for a, b, re, im in g}
        for key in sorted(set(gd) | set(e)):
            gr, gi = gd.get(key, (0.0, 0.0))
            er, ei = e.get(key, (0, 0))
            if abs(gr - er) > 1e-9 * (1 + abs(er)) or abs(gi - ei) > 1e-9 * (1 + abs(ei)):
                bad.append('final coefficient of pool[%d] at %s: impl %r%+rj, exact %d%+dj' % (s, key, gr, gi, er, ei))
                break
    for s, (n0, n1) in enumerate(got['norms']):
        if n0 > 0 and abs(n1 - 1.0) > 1e-12:
            bad.append('normalize() left norm %r' % n1)
    return bad


def classify(case, mode, bad, got, exp):
    return None


def nontrivial(case, exp):
    if case['kind'] in ('mismatch', 'mismatch_sets'):
        return True
    kinds = set(op[0] for op in case['ops'])
    return len(kinds) >= 3 and any(len(f) >= 2 for f in exp['final'])


def case_class(case):
    if case['kind'] == 'mismatch':
        return 'mismatch/' + case['op']
    if case['kind'] == 'mismatch_sets':
        return 'mismatch_sets/%s/%s' % (case['shape'], case['op'])
    return 'hist/%s/norb%d/len%d' % (case['mode'], case['norb'], len(case['ops']))


def shrink(case):
    out = []
    if case['kind'] == 'hist':
        ops = case['ops']
        for k in range(len(ops)):
            out.append(dict(case, ops=ops[:k] + ops[k + 1:]))
    return out


def sample(case):
    c = dict(case)
    if 'pool' in c:
        c['pool'] = [v[:3] for v in c['pool']]
    return c


THEOREM_FILES = ['P_C08']
RULE = ('random histories (3-12 operations over a pool of 3 wavefunctions sharing sectors; all symmetry modes; '
        'Gaussian-integer data incl. purely imaginary/negative/zero entries and complex scalars) + mismatched-'
        'sector operand pairs. non-trivial: >= 3 distinct operation kinds and a final vector with >= 2 entries')
NOT_PROVED = ['normalize/norm are compared numerically (sqrt is not in the exact model): |norm-1| <= 1e-12']
