"""C05 — determinant addressing and excitation tables.
Correspondence of every table FQE builds with the Coq model (Addr.v / Maps.v),
exhaustively over small (norb, nele), plus 1/2-electron sectors near the 64-bit
boundary and the bit helpers on boundary and random 64-bit values."""
import itertools

PID = 'C05'
MODES = ['C', 'PY0']


# ------------------------------------------------------------------ generation
def gen_cases(rng, tier):
    cases = []
    nmax = 6 if tier == 'quick' else 9
    for n in range(0, nmax + 1):
        for k in range(0, n + 1):
            cases.append({'kind': 'tables', 'n': n, 'k': k})
    for n in range(2, (5 if tier == 'quick' else 7) + 1):
        for ka in range(0, n + 1):
            for kb in range(0, n + 1):
                if ka != kb and (tier != 'quick' or (ka + kb + n) % 2 == 0 or n <= 3):
                    cases.append({'kind': 'derived', 'n': n, 'ka': ka, 'kb': kb})
    amax = 5 if tier == 'quick' else 7
    for n in range(1, amax + 1):
        cases.append({'kind': 'annih', 'n': n})
    # operator-string maps: all index lists of length <= 2, random up to 4
    omax = 4 if tier == 'quick' else 6
    for n in range(1, omax + 1):
        for k in range(0, n + 1):
            lists = [()] + [(i,) for i in range(n)] + [p for p in itertools.permutations(range(n), 2)]
            pairs = [(d, u) for d in lists for u in lists if len(d) == len(u)]
            if len(pairs) > 60:
                pairs = rng.sample(pairs, 60)
            for _ in range(12 if tier == 'quick' else 40):
                m = rng.randint(1, min(4, n))
                pairs.append((tuple(rng.sample(range(n), m)), tuple(rng.sample(range(n), m))))
            cases.append({'kind': 'opstr', 'n': n, 'k': k,
                          'pairs': [[list(d), list(u)] for d, u in pairs]})
    # large orbital counts, few electrons
    # (two or three electrons from 34 orbitals on: an occupied orbital with index >= 32 strictly between i and j)
    bigs = [31, 32, 33, 34, 36, 40, 48, 62, 63, 64] if tier == 'quick' else [30, 31, 32, 33, 34, 35, 36, 40, 41, 48, 56, 61, 62, 63, 64]
    for n in bigs:
        for k in (1, 2, 3):
            if k == 2 and tier == 'quick' and n not in (33, 34, 36, 40, 48, 63, 64):
                continue
            if k == 3 and n not in ((34, 40) if tier == 'quick' else (33, 34, 36, 40, 48)):
                continue
            ij = [(0, n - 1), (n - 1, 0), (n - 1, n - 2), (31 % n, 32 % n), (n - 1, n - 1), (0, min(n - 1, 34)), (1, min(n - 1, 35))]
            ij += [(rng.randrange(n), rng.randrange(n)) for _ in range(3)]
            cases.append({'kind': 'large', 'n': n, 'k': k, 'ij': [list(x) for x in ij]})
    # bit helpers
    vals = [0, 1, 2, 3, (1 << 31) - 1, 1 << 31, (1 << 32) - 1, 1 << 32, (1 << 63) - 1, 1 << 63,
            (1 << 64) - 1, 0x5555555555555555, 0xAAAAAAAAAAAAAAAA]
    vals += [1 << b for b in (30, 33, 62)]
    vals += [rng.getrandbits(64) for _ in range(40 if tier == 'quick' else 400)]
    probes = []
    for v in vals:
        for _ in range(6):
            probes.append([str(v), rng.randrange(64), rng.randrange(64)])
        probes.append([str(v), 63, 0])
        probes.append([str(v), 0, 63])
        probes.append([str(v), 31, 32])
        probes.append([str(v), 62, 63])
        probes.append([str(v), 5, 5])
    for i in range(0, len(probes), 200):
        cases.append({'kind': 'bits', 'probes': probes[i:i + 200]})
    return cases


# ------------------------------------------------------------------ implementation side
def _maps_to_rows(mp):
    return {('%d,%d' % k): sorted([[int(a), int(b), int(c)] for a, b, c in v]) for k, v in mp.items()}


def _alpha_tables(g, n, k):
    """every alpha-side table of a graph, in comparable form (also warms the lazily built ones)"""
    import numpy
    from fqe import fci_graph, bitstring
    z = fci_graph._get_Z_matrix(n, k)
    dex = g._dexca
    rows = []
    for t in range(dex.shape[0]):
        rows.append(sorted([[int(a), int(b), int(c)] for a, b, c in dex[t]]))
    strs = [int(s) for s in g.string_alpha_all()]
    aind = {str(int(s)): int(a) for s, a in g.index_alpha_all().items()}
    blk = []
    for ms in (1, 3, 100):
        out = []
        for (ar, br, am, bm) in g._get_block_mappings(max_states=ms):
            out.append([[ar.start, ar.stop], [[int(x) for x in r] for r in am.reshape(-1, 4)]])
        blk.append(out)
    res = {'strings': strs, 'aind': aind, 'z': [[int(x) for x in r] for r in z],
           'lena': g.lena(), 'amap': _maps_to_rows(g._alpha_map), 'dexc': rows,
           'dexc_shape': list(dex.shape), 'blocks': blk,
           'addr': [int(g._build_string_address(k, n, list(bitstring.integer_index(s)))) for s in strs]}
    try:
        index, exc, diag = g._map_to_deexc_alpha_icol()
        res['icol'] = {'index': index.tolist(), 'exc': exc.tolist(), 'diag': diag.tolist()}
    except Exception as e:  # degenerate shapes may raise: recorded, compared
        res['icol'] = {'exc_type': type(e).__name__}
    return res


def run_impl(case, mode):
    import numpy
    from fqe import fci_graph, bitstring
    kind = case['kind']
    if kind == 'tables':
        n, k = case['n'], case['k']
        return _alpha_tables(fci_graph.FciGraph(k, 0, n), n, k)
    if kind == 'derived':
        # derived graph objects: every table of g is built (and every lazily built one requested twice) before the
        # alpha/beta exchange; the exchanged graph must have the tables of a graph built for (kb, ka), and exchanging
        # twice must give back those of (ka, kb)
        n, ka, kb = case['n'], case['ka'], case['kb']
        g = fci_graph.FciGraph(ka, kb, n)
        _alpha_tables(g, n, ka)
        _alpha_tables(g, n, ka)
        g2 = g.alpha_beta_transpose()
        t2 = _alpha_tables(g2, n, kb)
        t2['lenb'] = g2.lenb()
        t2['bstrings'] = [int(x) for x in g2.string_beta_all()]
        g3 = g2.alpha_beta_transpose()
        t3 = _alpha_tables(g3, n, ka)
        t3['lenb'] = g3.lenb()
        t3['bstrings'] = [int(x) for x in g3.string_beta_all()]
        t1 = _alpha_tables(g, n, ka)      # the original graph after its copies were used
        return {'t2': t2, 't3': t3, 't1': t1}
    if kind == 'annih':
        from fqe import fci_graph_set
        n = case['n']
        params = [[k, k, n] for k in range(n + 1)]
        gs = fci_graph_set.FciGraphSet(2 * n, 2 * n, params)
        out = {}
        for k in range(n + 1):
            g = gs._dataset[(k, 0)]
            for (dna, dnb), (amap, bmap) in g._fci_map.items():
                out['%d:%d' % (k, dna)] = {','.join(str(int(x)) for x in key):
                                           sorted([[int(a), int(b), int(c)] for a, b, c in v])
                                           for key, v in amap.items()}
        return {'fci_map': out}
    if kind == 'opstr':
        n, k = case['n'], case['k']
        g = fci_graph.FciGraph(k, k, n)
        out = []
        for dag, undag in case['pairs']:
            for alpha in (True, False):
                res = numpy.zeros((g.lena(), 3), dtype=numpy.uint64)
                cnt = g.make_mapping_each(res, alpha, dag, undag)
                out.append([int(cnt), [[int(x) for x in r] for r in res[:cnt]]])
        return {'maps': out}
    if kind == 'large':
        n, k = case['n'], case['k']
        g = fci_graph.FciGraph(k, 1, n)
        strs = [int(s) for s in g.string_alpha_all()]
        z = fci_graph._get_Z_matrix(n, k)
        res = {'strings': [str(s) for s in strs], 'z': [[int(x) for x in r] for r in z],
               'maps': {}}
        for i, j in case['ij']:
            res['maps']['%d,%d' % (i, j)] = sorted([[int(a), int(b), int(c)] for a, b, c in g._alpha_map[(i, j)]])
        bs = [int(s) for s in g.string_beta_all()]
        res['bstrings'] = [str(s) for s in bs]
        r2 = numpy.zeros((g.lena(), 3), dtype=numpy.uint64)
        cnt = g.make_mapping_each(r2, True, [n - 1], [0])
        res['opstr_top'] = [int(cnt), [[str(int(x)) for x in r] for r in r2[:cnt]]]
        return res
    if kind == 'bits':
        from fqe.lib import bitstring as lb
        out = []
        for s, i, j in case['probes']:
            v = int(s)
            row = [int(bitstring.count_bits(numpy.uint64(v))) if mode == 'C' else int(bitstring.count_bits(v)),
                   int(bitstring.count_bits_between(v, i, j)),
                   int(bitstring.count_bits_above(v, i)),
                   int(bitstring.count_bits_below(v, i)),
                   [int(x) for x in bitstring.integer_index(numpy.uint64(v) if mode == 'C' else v)],
                   str(int(bitstring.set_bit(v, i))), str(int(bitstring.unset_bit(v, i))),
                   1 if bitstring.get_bit(v, i) else 0,
                   str(int(bitstring.reverse_integer_index([int(x) for x in bitstring.integer_index(numpy.uint64(v) if mode == 'C' else v)])))]
            out.append(row)
        return {'rows': out}
    raise ValueError(kind)


# ------------------------------------------------------------------ model side
def _sgn(b):
    return -1 if b else 1


def _excmap(model, n, k, i, j):
    t = model.qi('EXCMAP', n, k, i, j)
    return sorted([[t[1 + 3 * r], t[2 + 3 * r], _sgn(t[3 + 3 * r])] for r in range(t[0])])


def expected(model, case):
    kind = case['kind']
    if kind == 'tables':
        n, k = case['n'], case['k']
        t = model.q('STRINGS', n, k)
        strs = [int(x) for x in t[1:]]
        z = model.qi('ZMAT', n, k)
        zz = [z[r * n:(r + 1) * n] for r in range(k)]
        amap = {}
        for i in range(n):
            for j in range(n):
                amap['%d,%d' % (i, j)] = _excmap(model, n, k, i, j)
        t = model.qi('DEXC', n, k)
        rows = []
        p = 1
        for _ in range(t[0]):
            c = t[p]
            p += 1
            rows.append(sorted([[t[p + 3 * r], t[p + 3 * r + 1], _sgn(t[p + 3 * r + 2])] for r in range(c)]))
            p += 3 * c
        addr = [int(model.q('ADDR', n, k, s)[0]) for s in strs]
        return {'strings': strs, 'z': zz, 'amap': amap, 'dexc': rows, 'addr': addr,
                'binom': int(model.q('BINOM', n, k)[0]),
                'binom_icol': [int(model.q('BINOM', n - 1, k - 1)[0]) if n >= 1 and k >= 1 else 0,
                               int(model.q('BINOM', n - 1, k)[0]) if n >= 1 else 0]}
    if kind == 'derived':
        n, ka, kb = case['n'], case['ka'], case['kb']
        ea = expected(model, {'kind': 'tables', 'n': n, 'k': ka})
        eb = expected(model, {'kind': 'tables', 'n': n, 'k': kb})
        return {'t2': eb, 't3': ea, 't1': ea}
    if kind == 'annih':
        n = case['n']
        out = {}
        for k in range(n + 1):
            for dn in range(1, k + 1):
                t = model.qi('ANNIH', n, k, dn)
                p = 1
                d = {}
                for _ in range(t[0]):
                    no = t[p]
                    ops = t[p + 1:p + 1 + no]
                    p += 1 + no
                    c = t[p]
                    p += 1
                    d[','.join(map(str, ops))] = sorted([[t[p + 3 * r], t[p + 3 * r + 1], _sgn(t[p + 3 * r + 2])] for r in range(c)])
                    p += 3 * c
                out['%d:%d' % (k, -dn)] = d
                out['%d:%d' % (k - dn, dn)] = {kk: sorted([[b, a, s] for a, b, s in v]) for kk, v in d.items()}
        return {'fci_map': out}
    if kind == 'opstr':
        n, k = case['n'], case['k']
        out = []
        for dag, undag in case['pairs']:
            t = model.q('OPSTR', n, k, len(dag), *dag, len(undag), *undag)
            c = int(t[0])
            rows = [[int(t[1 + 3 * r]), int(t[2 + 3 * r]), int(t[3 + 3 * r])] for r in range(c)]
            out.append([c, rows])
            out.append([c, rows])   # beta table has the same (n,k)
        return {'maps': out}
    if kind == 'large':
        n, k = case['n'], case['k']
        t = model.q('STRINGS', n, k)
        strs = t[1:]
        z = model.qi('ZMAT', n, k)
        res = {'strings': strs, 'z': [z[r * n:(r + 1) * n] for r in range(k)], 'maps': {}}
        for i, j in case['ij']:
            res['maps']['%d,%d' % (i, j)] = _excmap(model, n, k, i, j)
        res['bstrings'] = model.q('STRINGS', n, 1)[1:]
        t = model.q('OPSTR', n, k, 1, n - 1, 1, 0)
        c = int(t[0])
        res['opstr_top'] = [c, [[t[1 + 3 * r], t[2 + 3 * r], t[3 + 3 * r]] for r in range(c)]]
        return res
    if kind == 'bits':
        out = []
        for s, i, j in case['probes']:
            t = model.qi('BITS', s, i, j)
            v = int(s)
            # i == j is outside the domain of "between": both sources return bit i there
            # (theorem C05_between_diag_agree); compared for C/PY agreement only
            btw = t[1] if i != j else (v >> i) & 1
            out.append([t[0], btw, t[2], t[3], t[4:], str(v | (1 << i)), str(v & ~(1 << i)),
                        (v >> i) & 1, s])
        return {'rows': out}
    raise ValueError(kind)



# ------------------------------------------------------------------ the C inline helpers, called directly
PROBE_C = r"""
#include <stdio.h>
#include <stdint.h>
#include <stdlib.h>
#include "bitstring.h"
/* C99: force external definitions of the header's inline functions in this translation unit */
extern inline int count_bits(const uint64_t cstring);
extern inline int count_bits_between(uint64_t cstring, const int i, const int j);
extern inline int count_bits_above(uint64_t cstring, const int i);
int main(void) {
  unsigned long long s; int i, j;
  while (scanf("%llu %d %d", &s, &i, &j) == 3) {
    uint64_t b = (uint64_t) s;
    printf("%d %d %d %llu %llu %d\n", count_bits((uint64_t) s), count_bits_between((uint64_t) s, i, j),
           count_bits_above((uint64_t) s, i), (unsigned long long) SET_BIT(b, i), (unsigned long long) UNSET_BIT(b, i),
           CHECK_BIT(b, i) ? 1 : 0);
  }
  return 0;
}
"""


def extra_checks(bdir, model, rng, tier, stats):
    """bitstring.h of the CURRENT tree compiled into a probe program (optimised build, and an -O0 build with
    -fsanitize=undefined) and driven over every ordered pair of positions with several strings: the inline helpers
    against the Coq definitions. This is the direct tie of the C leaf (the library never exposes it), and it is what
    remains when a rewrite takes the leaf out of the translator's subset."""
    import os
    import subprocess
    import core
    out = []
    seed = int(os.environ.get('VERIF_SEED', '0') or 0)
    r = core.rng_for(seed, PID + 'probe')
    lib = os.path.join(bdir, 'src', 'fqe', 'lib')
    work = os.path.join(core.CACHE, 'jobs', 'cprobe_%d' % os.getpid())
    os.makedirs(work, exist_ok=True)
    open(os.path.join(work, 'probe.c'), 'w').write(PROBE_C)
    strings = [(1 << 64) - 1, 0x5555555555555555, 0xAAAAAAAAAAAAAAAA, r.getrandbits(64), r.getrandbits(64) | (1 << 63) | (1 << 32)]
    if tier != 'quick':
        strings += [r.getrandbits(64) for _ in range(12)]
    probes = []
    for sv in strings:
        for i in range(64):
            for j in range(64):
                if i != j:
                    probes.append((sv, i, j))
    inp = ''.join('%d %d %d\n' % p for p in probes)
    exp_rows = None
    for label, flags in (('-O3', ['-O3']), ('-O0 -fsanitize=undefined', ['-O0', '-g', '-fsanitize=undefined'])):
        exe = os.path.join(work, 'probe' + ('_ub' if 'sanitize' in label else ''))
        cc = subprocess.run(['gcc', '-std=gnu11'] + flags + ['-I', lib, os.path.join(work, 'probe.c'), '-o', exe],
                            stdout=subprocess.PIPE, stderr=subprocess.STDOUT, text=True)
        if cc.returncode != 0:
            out.append(('bitstring.h does not compile into the probe (%s): %s' % (label, cc.stdout[-300:]), {'property': PID, 'build': label}, None))
            continue
        run = subprocess.run([exe], input=inp, stdout=subprocess.PIPE, stderr=subprocess.PIPE, text=True, timeout=600)
        ub = [ln for ln in run.stderr.splitlines() if 'runtime error' in ln]
        if ub:
            out.append(('undefined behaviour in the inline helpers of bitstring.h (%s build): %s' % (label, ub[0][:250]),
                        {'property': PID, 'build': label, 'report': ub[:5], 'how': 'gcc %s probe.c (harness/props/c05.py PROBE_C) fed with "<string> <i> <j>" lines' % label}, None))
        rows = [ln.split() for ln in run.stdout.splitlines()]
        if len(rows) != len(probes):
            out.append(('probe (%s) answered %d of %d lines (rc %s)' % (label, len(rows), len(probes), run.returncode), {'property': PID, 'build': label}, None))
            continue
        if exp_rows is None:
            exp_rows = []
            for sv, i, j in probes:
                t = model.qi('BITS', str(sv), i, j)
                exp_rows.append([t[0], t[1], t[2], sv | (1 << i), sv & ~(1 << i), (sv >> i) & 1])
        nbad = 0
        for (sv, i, j), g, e in zip(probes, rows, exp_rows):
            stats['evaluations'] += 1
            g = [int(x) for x in g]
            if g != e:
                names = ['count_bits', 'count_bits_between', 'count_bits_above', 'SET_BIT', 'UNSET_BIT', 'CHECK_BIT']
                k = [a != b for a, b in zip(g, e)].index(True)
                out.append(('%s(0x%016x, i=%d, j=%d) of bitstring.h (%s build) returns %d, the Coq definition gives %d' % (names[k], sv, i, j, label, g[k], e[k]),
                            {'property': PID, 'build': label, 'string': str(sv), 'i': i, 'j': j, 'got': g, 'expected': e,
                             'how': 'compile harness/props/c05.py:PROBE_C against src/fqe/lib/bitstring.h and feed "%d %d %d"' % (sv, i, j)}, None))
                nbad += 1
                if nbad >= 2:
                    break
    _COV['c_probe_lines'] = len(probes)
    try:
        import shutil
        shutil.rmtree(work)
    except OSError:
        pass
    return out[:5]


_COV = {}


def extra_coverage():
    return dict(_COV)

# ------------------------------------------------------------------ comparison
def compare(case, got, exp):
    bad = []
    if 'exc' in got or 'crash' in got:
        return ['implementation raised/crashed: %s' % (str(got)[:300])]
    kind = case['kind']
    if kind == 'derived':
        n, ka, kb = case['n'], case['ka'], case['kb']
        for tag, k, ko in (('t2', kb, ka), ('t3', ka, kb), ('t1', ka, kb)):
            sub = compare({'kind': 'tables', 'n': n, 'k': k}, got[tag], exp[tag])
            what = {'t2': 'graph after alpha_beta_transpose', 't3': 'graph after two transpositions',
                    't1': 'original graph after its transposed copies were used'}[tag]
            bad += ['%s (n=%d, nalpha=%d, nbeta=%d): %s' % (what, n, k, ko, b) for b in sub[:2]]
            if tag != 't1':
                other = exp['t2' if tag == 't3' else 't3']['strings']
                if got[tag]['bstrings'] != other or got[tag]['lenb'] != len(other):
                    bad.append('%s: beta string table is not that of %d electrons' % (what, ko))
        return bad
    if kind == 'tables':
        n, k = case['n'], case['k']
        if got['strings'] != exp['strings']:
            bad.append('string table differs: impl %s model %s' % (got['strings'][:8], exp['strings'][:8]))
        if got['lena'] != exp['binom'] or len(got['strings']) != exp['binom']:
            bad.append('table length %s != binom %s' % (got['lena'], exp['binom']))
        if sorted(got['strings']) != sorted(set(got['strings'])):
            bad.append('duplicate strings')
        for a, s in enumerate(got['strings']):
            if got['aind'].get(str(s)) != a:
                bad.append('index lookup of string %d is %s, address %d' % (s, got['aind'].get(str(s)), a))
                break
        if len(got['aind']) != len(got['strings']):
            bad.append('index table size')
        if got['z'] != exp['z']:
            bad.append('Z matrix differs: impl %s model %s' % (got['z'], exp['z']))
        if got['addr'] != list(range(len(got['strings']))) or exp['addr'] != list(range(len(exp['strings']))):
            bad.append('Z-matrix address of string at address a is not a: impl %s model %s' % (got['addr'][:8], exp['addr'][:8]))
        for key in sorted(exp['amap']):
            if got['amap'].get(key) != exp['amap'][key]:
                bad.append('excitation map %s differs: impl %s model %s' % (key, got['amap'].get(key), exp['amap'][key]))
                break
        if set(got['amap']) != set(exp['amap']):
            bad.append('excitation map keys differ')
        lk = k * (n - k + 1)
        if got['dexc_shape'] != [exp['binom'], lk, 3]:
            bad.append('dexc shape %s, expected %s' % (got['dexc_shape'], [exp['binom'], lk, 3]))
        if got['dexc'] != exp['dexc']:
            bad.append('de-excitation table differs')
        # blocks: partition of all map entries
        allent = sorted([[int(key.split(',')[0]) * n + int(key.split(',')[1]), t, s, p]
                         for key, v in exp['amap'].items() for s, t, p in v])
        for bi, ms in enumerate((1, 3, 100)):
            seen = []
            ranges = []
            for rng_, rows in got['blocks'][bi]:
                if ranges and ranges[-1] == rng_:
                    continue  # same alpha block repeated for each beta block
                ranges.append(rng_)
                for r in rows:
                    if not (rng_[0] <= r[1] < rng_[1]):
                        bad.append('block mapping entry outside its block')
                seen.extend(rows)
            if sorted(seen) != allent:
                bad.append('block mappings (max_states=%d) are not a partition of the excitation entries' % ms)
            if any(b - a > ms for a, b in ranges) or [a for a, b in ranges] != list(range(0, exp['binom'], ms)):
                bad.append('block ranges wrong for max_states=%d: %s' % (ms, ranges))
        # icol maps
        ic = got.get('icol', {})
        if 'exc_type' in ic:
            if n >= 1:
                bad.append('_map_to_deexc_alpha_icol raised %s' % ic['exc_type'])
        elif n >= 1:
            length, length2 = exp['binom_icol']
            strs = exp['strings']
            for icol in range(n):
                without = [a for a, s in enumerate(strs) if not (s >> icol) & 1]
                with_ = [a for a, s in enumerate(strs) if (s >> icol) & 1]
                if ic['index'][icol] != without:
                    bad.append('icol index[%d] wrong' % icol)
                    break
                if sorted(ic['diag'][icol]) != with_:
                    bad.append('icol diag[%d] wrong' % icol)
                    break
                for pos, tgt in enumerate(without):
                    want = sorted([[s, i, p] for i in range(n) if i != icol
                                   for s, t, p in exp['amap']['%d,%d' % (i, icol)] if t == tgt])
                    if sorted(ic['exc'][icol][pos]) != want:
                        bad.append('icol exc[%d][%d] wrong: %s vs %s' % (icol, pos, ic['exc'][icol][pos], want))
                        break
    elif kind == 'annih':
        g, e = got['fci_map'], exp['fci_map']
        if set(g) != set(e):
            bad.append('cross-sector map keys differ: %s vs %s' % (sorted(g), sorted(e)))
        else:
            for key in sorted(e):
                if g[key] != e[key]:
                    bad.append('annihilation map (sector:dn) %s differs: impl %s model %s' % (key, str(g[key])[:200], str(e[key])[:200]))
                    break
    elif kind == 'opstr':
        for idx, (g, e) in enumerate(zip(got['maps'], exp['maps'])):
            if g != e:
                dag, undag = case['pairs'][idx // 2]
                bad.append('operator-string map dag=%s undag=%s (%s) differs: impl %s model %s' %
                           (dag, undag, 'alpha' if idx % 2 == 0 else 'beta', g, e))
                break
    elif kind == 'large':
        for key in ('strings', 'z', 'bstrings', 'opstr_top'):
            if got[key] != exp[key]:
                bad.append('%s differs at norb=%d nele=%d: impl %s model %s' % (key, case['n'], case['k'], str(got[key])[:160], str(exp[key])[:160]))
        for key in exp['maps']:
            if got['maps'][key] != exp['maps'][key]:
                bad.append('excitation map %s differs at norb=%d' % (key, case['n']))
    elif kind == 'bits':
        for pr, g, e in zip(case['probes'], got['rows'], exp['rows']):
            if g != e:
                bad.append('bit helpers differ on (s,i,j)=%s: impl %s model %s' % (pr, g, e))
                break
    return bad


def nontrivial(case, exp):
    kind = case['kind']
    if kind == 'tables':
        signs = set(p for v in exp['amap'].values() for _, _, p in v)
        return sum(len(v) for v in exp['amap'].values()) >= 2 and signs == {1, -1}
    if kind == 'annih':
        return case['n'] >= 3
    if kind == 'derived':
        return len(exp['t2']['strings']) != len(exp['t3']['strings']) and min(case['ka'], case['kb']) >= 1
    if kind == 'opstr':
        return any(c >= 2 for c, _ in exp['maps'])
    if kind == 'large':
        return True
    if kind == 'bits':
        return True
    return False


def shrink(case):
    """smaller candidate cases (the harness keeps one that still fails)"""
    out = []
    if case['kind'] == 'opstr':
        for p in case['pairs']:
            out.append(dict(case, pairs=[p]))
    if case['kind'] == 'bits':
        for p in case['probes']:
            out.append(dict(case, probes=[p]))
    if case['kind'] == 'large':
        for p in case['ij']:
            out.append(dict(case, ij=[p]))
    return out


def sample(case):
    c = dict(case)
    for key in ('pairs', 'probes', 'ij'):
        if key in c and len(c[key]) > 3:
            c[key] = c[key][:3] + ['... %d more' % (len(c[key]) - 3)]
    return c

THEOREM_FILES = ['P_C05', 'P_C05_gen', 'P_C05_ast', 'P_C05_zmat', 'P_C05_zmat_c', 'P_C05_addr']
THEOREM_NEEDS = {'P_C05_gen': ['Equiv_bits', 'Equiv_binom'], 'P_C05_ast': ['Equiv_cexpr'], 'P_C05_zmat': ['Equiv_zmat'], 'P_C05_zmat_c': ['Equiv_zmat_c'], 'P_C05_addr': ['Equiv_zmat', 'Equiv_addr']}
RULE = ('exhaustive over (norb, nele) tables up to the tier bound, every (i,j); cross-sector maps for every '
        'dn; operator-string maps for all index lists of length <= 2 plus random ones up to 4; 1/2-electron '
        'sectors at norb in {31..34,36,40,48,62..64} (three electrons at 34, 40); the inline helpers of bitstring.h compiled into a '
        'probe program (-O3 and -O0 -fsanitize=undefined) over every ordered pair of positions x 5-17 strings; bit helpers on boundary and random 64-bit values. '
        'non-trivial: table with >= 2 entries of both signs / map with >= 2 rows')
