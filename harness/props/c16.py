"""C16 — polynomial propagators meet the requested accuracy or raise.
For graded |t|*||H||, accuracies and expansion limits the implementation's outcome
(state / RuntimeError) is compared with
 (a) the control-flow model (Poly.v): the Taylor stopping order predicted from the EXACT
     term sizes ||(-itH)^k psi||/k! (v_k from the extracted Fock-space model, rational
     arithmetic): raise iff the model says LimitReached, and the returned state equals the
     exact partial sum of that order;
 (b) the accuracy claim: a returned state is within 4*accuracy + exp(x)*1e-12 of the exact
     exp(-iHt)psi (oracle of C02), for Taylor and Chebyshev with enclosing spectral bounds;
 (c) the exact routes stay unitary at long times and large coefficients."""
from fractions import Fraction
import math

import fqeio
from props import c01, c02

PID = 'C16'
MODES = ['C', 'PY0']
COMPARE_ARITY = 4


def gen_cases(rng, tier):
    cases = []
    n = 50 if tier == 'quick' else 300
    for k in range(n):
        norb = rng.randint(2, 3)
        na, nb = rng.randint(0, norb), rng.randint(0, norb)
        if na + nb == 0 or na + nb == 2 * norb:
            na, nb = 1, 1
        nn, sz = na + nb, na - nb
        keys = [(nn, sz)]
        cls = rng.choice(['restricted', 'restricted', 'sso', 'sparse'])
        rank = rng.randint(1, 2)
        if cls == 'sparse':
            # multi-term SparseHamiltonian (not a single term + h.c.): the Taylor route of time_evolve
            terms = c01.gen_fop_terms(rng, norb, number_breaking=False, nterms=rng.randint(2, 3))
            terms = [[ops, re // 24, im // 24] for ops, re, im in terms if c01._sz_conserving(ops)]
            ham = {'cls': 'sparse', 'rank': 0, 'entries': terms, 'e0': [0, 0], 'real': False}
        else:
            ham = c01.gen_ham(rng, cls, rank, norb, 'sparse', rng.random() < 0.5, True)
        if cls == 'sso':
            ham['entries'] = c01.pair_symmetrise(c01._sso_filter(ham['entries'], norb))
        if not ham['entries']:
            continue
        ham['e0'] = rng.choice([[0, 0], [1, 0]])
        L1 = c02.l1_norm(ham, norb) + abs(ham['e0'][0])
        x = rng.choice([1e-3, 0.05, 0.5, 2.0, 6.0, 15.0, 30.0])
        t = x / max(L1, 1e-9) * rng.choice([1, -1])
        # make t a short dyadic rational so that the exact oracle is cheap
        t = float(Fraction(t).limit_denominator(1 << 12))
        if t == 0.0:
            t = 1.0 / 4096
        tiny = (k % 6 == 5)
        if tiny:
            # tiny time steps ("from tiny ..."): -i t H has entries far below every absolute tolerance a kernel might use to
            # decide that a tensor vanishes; dyadic, so the exact oracle stays cheap; two-tensor Hamiltonians preferred
            t = rng.choice([2.0 ** -30, -2.0 ** -27, 2.0 ** -34, 2.0 ** -24])
            if cls in ('restricted', 'sso') and rank == 1 and rng.random() < 0.8:
                rank = 2
                ham = c01.gen_ham(rng, cls, rank, norb, 'sparse', rng.random() < 0.5, True)
                if cls == 'sso':
                    ham['entries'] = c01.pair_symmetrise(c01._sso_filter(ham['entries'], norb))
                ham['e0'] = rng.choice([[0, 0], [1, 0]])
                L1 = c02.l1_norm(ham, norb) + abs(ham['e0'][0])
        cases.append({'kind': 'prop', 'norb': norb, 'mode': 'ns', 'n': nn, 'sz': sz,
                      'vec': fqeio.random_state(rng, norb, keys, density=0.8, amp=2), 'ham': ham, 't': t, 'L1': L1,
                      'acc': rng.choice([1e-13, 1e-15]) if tiny else rng.choice([1e-4, 1e-7, 1e-10, 1e-13, 1e-15]),
                      'expansion': rng.choice([5, 10, 30]) if tiny else rng.choice([2, 3, 5, 10, 20, 30, 60]),
                      'algo': rng.choice(['taylor', 'taylor', 'chebyshev']),
                      'bounds': rng.choice(['enclosing', 'enclosing', 'tight']),
                      # the same Hamiltonian OBJECT used before the propagation (measuring the energy, applying it)
                      'warm': rng.choice([None, None, 'apply', 'expect'])})
    # long-time unitarity of the exact routes
    for k in range(12 if tier == 'quick' else 60):
        norb = rng.randint(2, 3)
        na, nb = rng.randint(0, norb), rng.randint(0, norb)
        rec = rng.choice(['diag', 'quad', 'dc2', 'individual'])
        if k % 3 == 2:
            rec = 'flip'      # single spin-flipping term + h.c. on a number-conserving, spin-broken wavefunction (set below)
        cases.append({'kind': 'unitary', 'norb': norb, 'n': na + nb, 'sz': na - nb, 'rec': rec,
                      'scale': rng.choice([1.0, 1e3, 1e6]), 't': rng.choice([40.0, 1e3, 12345.678, -7e4]),
                      'seed': rng.randrange(10 ** 6), 'steps': rng.choice([1, 25])})
    # the exact routes on sectors whose string counts cross the batch sizes of the C kernels (450 columns per batch; 462 and
    # 495 strings of one spin, on either spin), moderate times: unitarity, and t followed by -t returns the input
    big = [(11, 1, 5), (11, 5, 1), (12, 4, 1), (12, 1, 4)]
    for k, (norb, na, nb) in enumerate(big if tier != 'quick' else big[:3]):
        for rec in (('quad', 'dc2', 'diag') if tier != 'quick' else ('quad', ['dc2', 'diag'][k % 2])):
            cases.append({'kind': 'unitary', 'norb': norb, 'n': na + nb, 'sz': na - nb, 'rec': rec, 'scale': 1.0,
                          't': rng.choice([0.7, 3.0]), 'seed': rng.randrange(10 ** 6), 'steps': 1, 'undo': True})
    return cases


# ------------------------------------------------------------------ implementation
def run_impl(case, mode):
    import numpy
    import fqe
    norb = case['norb']
    if case['kind'] == 'prop':
        wfn = fqeio.make_wfn(norb, 'ns', case['n'], case['sz'], case['vec'])
        ham = c01.build_ham(case['ham'], norb)
        kw = {}
        if case['algo'] == 'chebyshev':
            L = case['L1'] * (1.0 if case['bounds'] == 'tight' else 1.5) + 0.5
            kw['spec_lim'] = [-L, L]
        if case.get('warm') == 'apply':
            wfn.apply(ham)
        elif case.get('warm') == 'expect':
            wfn.expectationValue(ham)
        try:
            out = wfn.apply_generated_unitary(case['t'], case['algo'], ham, accuracy=case['acc'],
                                              expansion=case['expansion'], **kw)
            return {'state': fqeio.read_state(out)}
        except RuntimeError as e:
            return {'raised': str(e)[:60]}
    if case['kind'] == 'unitary':
        rs = numpy.random.RandomState(case['seed'])
        wfn = fqe.Wavefunction([[case['n'], case['sz'], norb]])
        wfn.set_wfn(strategy='random')
        sc = case['scale']
        if case['rec'] == 'diag':
            ham = fqe.get_diagonal_hamiltonian(sc * rs.randn(norb))
        elif case['rec'] == 'quad':
            a = rs.randn(norb, norb) + 1j * rs.randn(norb, norb)
            ham = fqe.get_restricted_hamiltonian((sc * (a + a.conj().T),))
        elif case['rec'] == 'dc2':
            ham = fqe.get_diagonalcoulomb_hamiltonian(sc * rs.randn(norb, norb))
        elif case['rec'] == 'flip':
            # the exact single-term route for terms that change S_z: every shape (alpha creators, alpha annihilators,
            # beta creators, beta annihilators) with up to three operators per spin that conserves the particle number
            from openfermion import FermionOperator, hermitian_conjugated
            norb = 3
            shapes = [(ac, aa, bc, ba) for ac in range(3) for aa in range(3) for bc in range(3) for ba in range(3)
                      if ac + bc == aa + ba and ac != aa and 1 <= ac + bc <= 3]
            ac, aa, bc, ba = shapes[case['seed'] % len(shapes)]
            cr = [2 * i for i in rs.permutation(norb)[:ac]] + [2 * i + 1 for i in rs.permutation(norb)[:bc]]
            an = [2 * i for i in rs.permutation(norb)[:aa]] + [2 * i + 1 for i in rs.permutation(norb)[:ba]]
            op = FermionOperator(tuple((int(q), 1) for q in cr) + tuple((int(q), 0) for q in an), sc * complex(rs.randn(), rs.randn()))
            ham = fqe.get_sparse_hamiltonian(op + hermitian_conjugated(op), conserve_spin=False)
            nel = int(rs.choice([2, 3, 3, 4]))
            wfn = fqe.get_number_conserving_wavefunction(nel, norb)
            wfn.set_wfn(strategy='random')
        else:
            from openfermion import FermionOperator
            c = sc * complex(rs.randn(), rs.randn())
            ham = fqe.get_sparse_hamiltonian(FermionOperator('0^ 2', c) + FermionOperator('2^ 0', c.conjugate()))
        w = wfn
        n0 = float(wfn.norm())
        for _ in range(case['steps']):
            w = w.time_evolve(case['t'] / case['steps'], ham)
        res = {'norm': float(w.norm()) / n0, 'finite': bool(all(numpy.isfinite(w.sector(k).coeff).all() for k in w.sectors()))}
        if case.get('undo'):
            back = w.time_evolve(-case['t'], ham)
            res['undo_err'] = float((back - wfn).norm()) / n0
        return res
    raise ValueError(case['kind'])


# ------------------------------------------------------------------ model
def _powers(model, case, kmax):
    """exact v_k = H^k psi (dict det -> (re, im) ints) for k = 0..kmax"""
    norb = case['norb']
    basis = fqeio.basis_of(norb, [(case['n'], case['sz'])])
    htok = c01.ham_tokens(case['ham'], norb)
    cur = [list(x) for x in case['vec']]
    out = [{(a, b): (re, im) for a, b, re, im in cur}]
    for k in range(kmax):
        if not cur:
            out.append({})
            continue
        tk = model.q('APPLYH', norb, *htok, *fqeio.vec_tokens(cur), *fqeio.basis_tokens(basis))
        cur = []
        for j, (a, b) in enumerate(basis):
            re, im = int(tk[2 * j]), int(tk[2 * j + 1])
            if re or im:
                cur.append([a, b, re, im])
        out.append({(a, b): (re, im) for a, b, re, im in cur})
    return out


def expected(model, case):
    if case['kind'] != 'prop':
        return {}
    r = c02.taylor_oracle(model, dict(case, mode='ns'))
    exact = r[0] if r else None
    res = {'exact': exact, 'norm': math.sqrt(sum(re * re + im * im for a, b, re, im in case['vec']))}
    if case['algo'] == 'taylor':
        # control-flow prediction: H here is the operator part (e0 is applied as a phase afterwards)
        lim = case['expansion']
        c0 = dict(case, ham=dict(case['ham'], e0=[0, 0]))
        pw = _powers(model, c0, max(lim - 1, 0))
        t = Fraction(case['t'])
        sizes = []
        for k in range(1, lim):
            n2 = sum(re * re + im * im for (re, im) in pw[k].values())
            sizes.append(math.sqrt(float(n2)) * abs(float(t)) ** k / math.factorial(k))
        stop = None
        near = False
        for k, sz in enumerate(sizes, start=1):
            if abs(sz - case['acc']) <= 1e-3 * case['acc']:
                near = True
            if sz < case['acc']:
                stop = k
                break
        res['stop'] = stop
        res['near'] = near
        if stop is not None:
            acc = {}
            coef = (Fraction(1), Fraction(0))
            for k in range(0, stop + 1):
                if k > 0:
                    coef = (coef[1] * t / k, -coef[0] * t / k)
                for key, (re, im) in pw[k].items():
                    o = acc.get(key, (Fraction(0), Fraction(0)))
                    acc[key] = (o[0] + coef[0] * re - coef[1] * im, o[1] + coef[0] * im + coef[1] * re)
            # final phase exp(-i t e0)
            e0 = case['ham']['e0'][0]
            ph = complex(math.cos(e0 * case['t']), -math.sin(e0 * case['t']))
            res['partial'] = {'%d,%d' % k: [(complex(float(v[0]), float(v[1])) * ph).real, (complex(float(v[0]), float(v[1])) * ph).imag] for k, v in acc.items()}
    return res


def _dist(state, ref):
    g = {'%d,%d' % (a, b): complex(re, im) for a, b, re, im in state}
    d2 = 0.0
    for k in set(g) | set(ref):
        r = ref.get(k, [0.0, 0.0])
        d2 += abs(g.get(k, 0) - complex(r[0], r[1])) ** 2
    return math.sqrt(d2)


def compare(case, got, exp, mode):
    if 'exc' in got or 'crash' in got:
        return ['raised %s: %s' % (got.get('exc', 'CRASH'), str({k: got[k] for k in got if k != 'tb'})[:300])]
    bad = []
    if case['kind'] == 'unitary':
        if not got['finite'] or abs(got['norm'] - 1.0) > 1e-9:
            bad.append('exact route %s lost unitarity at t=%g, scale %g, %d steps: norm %r' % (case['rec'], case['t'], case['scale'], case['steps'], got['norm']))
        if got.get('undo_err', 0.0) > 1e-9:
            bad.append('exact route %s on (norb, n, sz) = (%d, %d, %d): evolving by t = %g and then by -t misses the input by %.3g' %
                       (case['rec'], case['norb'], case['n'], case['sz'], case['t'], got['undo_err']))
        return bad
    x = abs(case['t']) * case['L1']
    if case['algo'] == 'taylor' and not exp.get('near'):
        if exp['stop'] is None and 'state' in got:
            bad.append('CONTROL taylor returned a state although no term below accuracy %g exists before expansion limit %d' % (case['acc'], case['expansion']))
        if exp['stop'] is not None and 'raised' in got:
            bad.append('CONTROL taylor raised although order %d is below accuracy %g (limit %d)' % (exp['stop'], case['acc'], case['expansion']))
        if exp['stop'] is not None and 'state' in got:
            d = _dist(got['state'], exp['partial'])
            if d > 1e-12 * math.exp(x) * (1 + exp['norm']):
                bad.append('CONTROL taylor result differs from the exact partial sum of order %d by %.3g' % (exp['stop'], d))
    if 'state' in got and exp.get('exact') is not None:
        d = _dist(got['state'], exp['exact'])
        tol = 4 * case['acc'] * (1 + exp['norm']) + 1e-12 * math.exp(x) * (1 + exp['norm'])
        if d > tol:
            bad.append('ACCURACY %s(t=%g, acc=%g, expansion=%d%s) returned a state %.3g away from exp(-iHt)psi (x=|t|*L1=%.3g, allowed %.3g)' %
                       (case['algo'], case['t'], case['acc'], case['expansion'],
                        ', bounds ' + case['bounds'] if case['algo'] == 'chebyshev' else '', d, x, tol))
    return bad


def classify(case, mode, bad, got, exp):
    if case.get('kind') == 'prop' and case['ham']['cls'] == 'sparse' and c01.sparse_normal_orders_to_zero(case):
        return 'F-C01-empty-sparse-is-identity'
    return None


def nontrivial(case, exp):
    if case['kind'] == 'unitary':
        return True
    return exp.get('exact') is not None and len(exp['exact']) >= 2


def case_class(case):
    if case['kind'] == 'unitary':
        return 'unitary/%s/scale%g' % (case['rec'], case['scale'])
    x = abs(case['t']) * case['L1']
    return '%s/x~%.0e/acc%g/exp%d' % (case['algo'], x, case['acc'], case['expansion'])


def shrink(case):
    out = []
    if case['kind'] == 'prop':
        ents = case['ham']['entries']
        v = case['vec']
        if len(v) > 1:
            for k in range(len(v)):
                out.append(dict(case, vec=v[:k] + v[k + 1:]))
    return out


def sample(case):
    return c01.sample(case) if case['kind'] == 'prop' else case


THEOREM_FILES = ['P_C16', 'P_C16_gen', 'P_C02_norm']
THEOREM_NEEDS = {'P_C16_gen': ['Equiv_loops']}
RULE = ('Hermitian restricted / SSO Hamiltonians with |t|*L1(H) graded over {1e-3 .. 30}, accuracies {1e-4 .. 1e-15}, '
        'expansion limits {2 .. 60}, Taylor and Chebyshev (enclosing and tight spectral bounds): raise iff the control-flow '
        'model says so (cases within 1e-3 of the threshold excluded and counted), returned state = exact partial sum, and '
        'within 4*acc + exp(x)*1e-12 of exp(-iHt)psi; exact routes at |t| up to 7e4 and coefficients up to 1e6')
NOT_PROVED = ['the scalar remainder bound of the series (C16_taylor_tail_bound) and the l1 operator-norm step '
              '|coeff (H^k psi) d| <= L1^k mass(psi) (P_C02_norm) are Coq theorems; the l2 form (each operator string is a partial '
              'isometry) and the Bessel tail of the Chebyshev series are not; the accuracy claim is checked numerically against '
              'the exact oracle']
