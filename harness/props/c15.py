"""C15 — save / read of wavefunctions.
(a) histories of chdir / save / read (default and explicit directories) / mutate /
    truncate against the Persist.v state machine (extracted);
(b) exhaustive crash points: the saved file cut at EVERY byte offset must fail to
    load and leave a non-empty receiver bit-for-bit unchanged;
(c) a reloaded object behaves like the original in later operations."""
import fqeio

PID = 'C15'
MODES = ['C', 'PY0']
COMPARE_ARITY = 4
NDIR, NFILE, NPOOL = 3, 2, 3


def _rand_wfn_spec(rng):
    norb = rng.randint(1, 3)
    mode = rng.choice(['ns', 'sb', 'nb'])
    if mode == 'ns':
        na, nb = rng.randint(0, norb), rng.randint(0, norb)
        nn, sz = na + nb, na - nb
    elif mode == 'sb':
        nn, sz = rng.randint(0, 2 * norb), 0
    else:
        nn, sz = 0, rng.randint(-norb, norb)
    keys = fqeio.sector_keys(norb, mode, nn, sz)
    vec = fqeio.random_state(rng, norb, keys, density=0.8)
    flavour = rng.choice(['int', 'int', 'tiny_imag', 'tiny_all', 'real', 'mixed_scale'])
    # floating-point coefficient patterns a lossy or "compacting" serialisation would damage: imaginary parts at the
    # 1e-9 .. 1e-12 level next to real parts of order one, states of tiny overall scale, exactly real sectors,
    # magnitudes spread over 20 orders, a negative zero
    if flavour == 'tiny_imag':
        vec = [[a, b, float(re) or 1.0, im * 1.25e-9 + 3e-12] for a, b, re, im in vec]
    elif flavour == 'tiny_all':
        vec = [[a, b, re * 2.5e-11, im * 1.5e-11] for a, b, re, im in vec]
    elif flavour == 'real':
        vec = [[a, b, float(re) or 2.0, -0.0] for a, b, re, im in vec]
    elif flavour == 'mixed_scale':
        vec = [[a, b, re * 10.0 ** rng.randint(-12, 8), im * 10.0 ** rng.randint(-14, 3)] for a, b, re, im in vec]
    return {'norb': norb, 'mode': mode, 'n': nn, 'sz': sz, 'vec': vec}


def gen_cases(rng, tier):
    cases = []
    for _ in range(25 if tier == 'quick' else 150):
        objs = [_rand_wfn_spec(rng) for _ in range(NPOOL)]   # object ids 0..NPOOL-1
        ops = []
        nextid = NPOOL
        saved = []
        for _k in range(rng.randint(3, 10)):
            kind = rng.choice(['chdir', 'save', 'save', 'read', 'read', 'mutate', 'trunc'])
            if kind == 'chdir':
                ops.append(['chdir', rng.randrange(NDIR)])
            elif kind == 'save':
                p = rng.choice([-1, -1, 0, 1, 2])
                f = rng.randrange(NFILE)
                ops.append(['save', rng.randrange(NPOOL), f, p])
                saved.append(f)
            elif kind == 'read':
                ops.append(['read', rng.randrange(NPOOL), rng.randrange(NFILE), rng.choice([-1, -1, 0, 1, 2])])
            elif kind == 'mutate':
                objs.append(_rand_wfn_spec(rng))
                ops.append(['mutate', rng.randrange(NPOOL), nextid])
                nextid += 1
            else:
                ops.append(['trunc', rng.randrange(NDIR), rng.randrange(NFILE), rng.randint(0, 40)])
        cases.append({'kind': 'hist', 'objs': objs, 'ops': ops, 'cwd0': rng.randrange(NDIR)})
    for _ in range(3 if tier == 'quick' else 12):
        cases.append({'kind': 'truncate', 'wfn': _rand_wfn_spec(rng), 'recv': _rand_wfn_spec(rng)})
    for _ in range(6 if tier == 'quick' else 30):
        w = _rand_wfn_spec(rng)
        w['mode'] = 'ns'
        na, nb = rng.randint(0, w['norb']), rng.randint(0, w['norb'])
        w['n'], w['sz'] = na + nb, na - nb
        w['vec'] = fqeio.random_state(rng, w['norb'], [(w['n'], w['sz'])], density=0.8)
        cases.append({'kind': 'reuse', 'wfn': w})
    # "the reloaded object behaves identically in all later operations": two wavefunctions of every symmetry mode are saved
    # and read back IN THE SAME PROCESS (and deep-copied), then a battery of operations that use every table of the
    # restored graphs (sector-changing maps of spin-broken states included) runs on originals and reloaded objects alike
    from props import c01
    for k in range(9 if tier == 'quick' else 45):
        mode = ['sb', 'ns', 'nb'][k % 3]
        norb = 3 if (mode == 'sb' or rng.random() < 0.5) else 2
        specs = []
        for _w in range(2):
            if mode == 'ns':
                na, nb = rng.randint(0, norb), rng.randint(0, norb)
                nn, sz = na + nb, na - nb
            elif mode == 'sb':
                nn, sz = rng.choice([2, 3, 3, 4] if norb == 3 else [1, 2, 3]), 0     # three or more s_z sectors
            else:
                nn, sz = 0, rng.randint(-norb + 1, norb - 1)
            keys = fqeio.sector_keys(norb, mode, nn, sz)
            specs.append({'norb': norb, 'mode': mode, 'n': nn, 'sz': sz, 'vec': fqeio.random_state(rng, norb, keys, density=0.8, amp=2)})
        if mode == 'ns':
            ham = c01.gen_ham(rng, 'restricted', 2, norb, 'sparse', False, True)
        elif mode == 'sb':
            ham = c01.gen_ham(rng, 'gso', rng.choice([1, 2]), norb, 'dense' if norb == 2 else 'sparse', False, True)
        else:
            ham = {'cls': 'fop', 'rank': 0, 'entries': c01.gen_fop_terms(rng, norb, number_breaking=True, nterms=rng.randint(3, 5)),
                   'e0': [0, 0], 'real': False}
        cases.append({'kind': 'reuse2', 'specs': specs, 'ham': ham})
    return cases


# ------------------------------------------------------------------ implementation
def _mk(spec):
    return fqeio.make_wfn(spec['norb'], spec['mode'], spec['n'], spec['sz'], spec['vec'])


def _sig(w):
    """full observable content: flags, norb, sectors, coefficients (bytes)"""
    return {'cn': bool(w.conserve_number()), 'cs': bool(w.conserve_spin()), 'norb': int(w.norb()),
            'state': fqeio.read_state(w), 'keys': sorted([list(map(int, k)) for k in w.sectors()])}


def run_impl(case, mode):
    import copy
    import os
    import shutil
    import tempfile
    import numpy
    import fqe
    base = tempfile.mkdtemp(prefix='fqe_c15_', dir='/var/tmp')
    try:
        if case['kind'] == 'hist':
            dirs = []
            for d in range(NDIR):
                p = os.path.join(base, 'd%d' % d)
                os.makedirs(p)
                dirs.append(p)
            os.chdir(dirs[case['cwd0']])
            content = [_mk(s) for s in case['objs']]          # id -> object holding that content
            sigs = [_sig(w) for w in content]
            pool = [copy.deepcopy(content[i]) for i in range(NPOOL)]
            results = []
            atomic_ok = True
            for op in case['ops']:
                k = op[0]
                if k == 'chdir':
                    os.chdir(dirs[op[1]])
                    results.append(True)
                elif k == 'save':
                    name = 'f%d.wfn' % op[2]
                    if op[3] < 0:
                        pool[op[1]].save(name)
                    else:
                        pool[op[1]].save(name, path=dirs[op[3]])
                    results.append(True)
                elif k == 'read':
                    name = 'f%d.wfn' % op[2]
                    recv = copy.deepcopy(pool[op[1]])
                    before = _sig(recv)
                    try:
                        new = fqe.Wavefunction([[0, 0, 1]]) if False else fqe.wavefunction.Wavefunction()
                        if op[3] < 0:
                            recv.read(name)
                            new.read(name)
                        else:
                            recv.read(name, path=dirs[op[3]])
                            new.read(name, path=dirs[op[3]])
                        pool[op[1]] = new
                        results.append(True)
                    except Exception:  # noqa
                        results.append(False)
                        if _sig(recv) != before:
                            atomic_ok = False
                elif k == 'mutate':
                    pool[op[1]] = copy.deepcopy(content[op[2]])
                    results.append(True)
                elif k == 'trunc':
                    path = os.path.join(dirs[op[1]], 'f%d.wfn' % op[2])
                    if os.path.exists(path):
                        data = open(path, 'rb').read()
                        cut = min(op[3], max(len(data) - 1, 0))
                        open(path, 'wb').write(data[:cut])
                        results.append(True)
                    else:
                        results.append(False)
            # which content id does each pool slot hold now?
            held = []
            for w in pool:
                s = _sig(w)
                held.append([i for i, sg in enumerate(sigs) if sg == s])
            listing = []
            for d in range(NDIR):
                for f in range(NFILE):
                    path = os.path.join(dirs[d], 'f%d.wfn' % f)
                    if os.path.exists(path):
                        try:
                            n = fqe.wavefunction.Wavefunction()
                            n.read('f%d.wfn' % f, path=dirs[d])
                            s = _sig(n)
                            listing.append([d, f, [i for i, sg in enumerate(sigs) if sg == s], 'ok'])
                        except Exception:  # noqa
                            listing.append([d, f, [], 'unreadable'])
            stray = sorted(x for x in os.listdir(base) if not x.startswith('d'))
            return {'results': results, 'held': held, 'listing': listing, 'atomic_ok': atomic_ok, 'stray': stray}
        if case['kind'] == 'truncate':
            w = _mk(case['wfn'])
            w.save('t.wfn', path=base)
            data = open(os.path.join(base, 't.wfn'), 'rb').read()
            recv0 = _mk(case['recv'])
            before = _sig(recv0)
            bad = []
            for cut in range(len(data)):
                open(os.path.join(base, 'c.wfn'), 'wb').write(data[:cut])
                recv = copy.deepcopy(recv0)
                try:
                    recv.read('c.wfn', path=base)
                    bad.append([cut, 'loaded'])
                except Exception:  # noqa
                    if _sig(recv) != before:
                        bad.append([cut, 'receiver changed'])
            # also a corrupted (bit-flipped) tail must not yield the same object silently: informational
            return {'size': len(data), 'bad': bad[:5], 'nbad': len(bad)}
        if case['kind'] == 'reuse':
            w = _mk(case['wfn'])
            w.save('r.wfn', path=base)
            n = fqe.wavefunction.Wavefunction()
            n.read('r.wfn', path=base)
            norb = case['wfn']['norb']
            h1 = numpy.arange(norb * norb, dtype=numpy.complex128).reshape(norb, norb)
            h1 = h1 + h1.T
            ham = fqe.get_restricted_hamiltonian((h1,))
            a = fqeio.read_state(w.apply(ham))
            b = fqeio.read_state(n.apply(ham))
            ra = numpy.asarray(w.rdm('i^ j')).tolist()
            rb = numpy.asarray(n.rdm('i^ j')).tolist()
            return {'same_sig': _sig(w) == _sig(n), 'apply_same': a == b, 'rdm_same': str(ra) == str(rb),
                    'add_ok': fqeio.read_state(w + n) == fqeio.read_state(w + w)}
        if case['kind'] == 'reuse2':
            from props import c01
            norb = case['specs'][0]['norb']
            origs = [_mk(sp) for sp in case['specs']]
            for i, w in enumerate(origs):
                w.save('r%d.wfn' % i, path=base)
            loaded = []
            for i in range(len(origs)):
                n = fqe.wavefunction.Wavefunction()
                n.read('r%d.wfn' % i, path=base)
                loaded.append(n)
            copies = [copy.deepcopy(n) for n in loaded]
            ham = c01.build_ham(case['ham'], norb)
            if case['ham']['cls'] == 'fop':
                ham = fqe.get_hamiltonian_from_openfermion(ham, norb=norb, conserve_number=False)

            def battery(w):
                out = {}
                for name, fn in (('apply', lambda: fqeio.read_state(w.apply(ham))),
                                 ('evolve', lambda: fqeio.read_state(w.time_evolve(0.1, ham))),
                                 ('expect', lambda: repr(complex(w.expectationValue(ham)))),
                                 ('rdm1', lambda: numpy.asarray(w.rdm('i^ j')).tolist()),
                                 ('rdm2', lambda: numpy.asarray(w.rdm('i^ j^ k l')).tolist()),
                                 ('cirq', lambda: [repr(complex(x)) for x in fqe.to_cirq(w)]),
                                 ('apply2', lambda: fqeio.read_state(w.apply(ham).apply(ham)))):
                    try:
                        out[name] = fn()
                    except Exception as e:  # noqa
                        out[name] = 'exc:' + type(e).__name__
                return out
            ref = [battery(w) for w in origs]
            diffs = []
            for tag, objs in (('reloaded', loaded), ('deep copy of reloaded', copies), ('reloaded, second use', loaded)):
                for i, w in enumerate(objs):
                    b = battery(w)
                    for name in ref[i]:
                        if str(b[name]) != str(ref[i][name]):
                            diffs.append('%s object %d: %s differs from the original object (%s... vs %s...)'
                                         % (tag, i, name, str(b[name])[:60], str(ref[i][name])[:60]))
            return {'same_sig': all(_sig(a) == _sig(b) for a, b in zip(origs, loaded)), 'diffs': diffs[:4], 'ndiff': len(diffs),
                    'nontrivial': any(isinstance(r['apply'], list) and len(r['apply']) > 1 for r in ref)}
    finally:
        os.chdir('/')
        shutil.rmtree(base, ignore_errors=True)
    raise ValueError(case['kind'])


# ------------------------------------------------------------------ model
def expected(model, case):
    if case['kind'] != 'hist':
        return {}
    toks = ['PERSIST', 0, NDIR, NFILE, NPOOL, case['cwd0'], case['cwd0'], len(case['ops'])]
    for op in case['ops']:
        toks += op
    t = model.q(*toks)
    b1 = t.index('|')
    b2 = t.index('|', b1 + 1)
    res = [x == '1' for x in t[:b1]]
    held = [int(x) for x in t[b1 + 1:b2]]
    rest = t[b2 + 1:]
    files = []
    for k in range(len(rest) // 4):
        d, f, x, tr = [int(v) for v in rest[4 * k:4 * k + 4]]
        files.append([d, f, x, tr])
    return {'results': res, 'held': held, 'files': files}


def compare(case, got, exp, mode):
    if 'exc' in got or 'crash' in got:
        return ['raised %s: %s' % (got.get('exc', 'CRASH'), str({k: got[k] for k in got if k != 'tb'})[:300])]
    bad = []
    if case['kind'] == 'hist':
        # trunc of a file: the model truncates at k regardless of the size; the harness clips k to
        # len-1, so both always produce an unreadable file when the file exists
        if got['results'] != exp['results']:
            for k, (g, e) in enumerate(zip(got['results'], exp['results'])):
                if g != e:
                    bad.append('step %d %s: implementation %s, model %s' % (k, case['ops'][k], 'ok' if g else 'raised', 'ok' if e else 'raises'))
                    break
        for i, (g, e) in enumerate(zip(got['held'], exp['held'])):
            if e not in g:
                bad.append('pool[%d] holds content ids %s, model says %d' % (i, g, e))
        if not got['atomic_ok']:
            bad.append('a failed read changed its (non-empty) receiver')
        gl = {(d, f): (ids, st) for d, f, ids, st in got['listing']}
        el = {(d, f): (x, tr) for d, f, x, tr in exp['files']}
        if set(gl) != set(el):
            bad.append('files on disk %s, model %s (default directory = cwd at call time)' % (sorted(gl), sorted(el)))
        else:
            for key in el:
                x, tr = el[key]
                ids, st = gl[key]
                if tr >= 0:
                    if st != 'unreadable':
                        bad.append('truncated file %s loaded' % (key,))
                elif x not in ids:
                    bad.append('file %s holds %s, model says object %d' % (key, ids, x))
        if got['stray']:
            bad.append('files written outside the named directories: %s' % got['stray'])
        return bad
    if case['kind'] == 'truncate':
        if got['nbad']:
            bad.append('file of %d bytes cut at offset %s: %s' % (got['size'], got['bad'][0][0], got['bad'][0][1]))
        return bad
    if case['kind'] == 'reuse':
        for k in ('same_sig', 'apply_same', 'rdm_same', 'add_ok'):
            if not got[k]:
                bad.append('reloaded wavefunction differs from the original: %s' % k)
        return bad
    if case['kind'] == 'reuse2':
        if not got['same_sig']:
            bad.append('reloaded wavefunction differs from the saved one (flags / sectors / coefficients)')
        bad += got['diffs']
        return bad
    return bad


def classify(case, mode, bad, got, exp):
    return None


def nontrivial(case, exp):
    if case['kind'] == 'hist':
        kinds = set(op[0] for op in case['ops'])
        return 'save' in kinds and 'read' in kinds and len(kinds) >= 3
    return True


def case_class(case):
    return case['kind']


def shrink(case):
    out = []
    if case['kind'] == 'hist':
        ops = case['ops']
        for k in range(len(ops)):
            out.append(dict(case, ops=ops[:k] + ops[k + 1:]))
    return out


def sample(case):
    c = dict(case)
    if 'objs' in c:
        c['objs'] = '%d wavefunction specs' % len(c['objs'])
    for k in ('wfn', 'recv'):
        if k in c:
            c[k] = dict(c[k], vec=c[k]['vec'][:3])
    return c


THEOREM_FILES = ['P_C15']
RULE = ('histories of chdir/save/read/mutate/truncate over 3 directories, 2 file names and a pool of 3 '
        'wavefunctions of all symmetry modes with default and explicit directories; every byte offset of a saved '
        'file as truncation point with a non-empty receiver (exhaustive per file); reloaded objects reused in '
        'apply/rdm/add. non-trivial: history with save, read and a third operation kind')
TRUSTED_EXTRA = ['pickle/unpickle enter Persist.v as Section variables with two assumed laws (decode(encode x) = x; a '
                 'proper prefix fails to decode); the exhaustive truncation run exercises the second law on real files']
NOT_PROVED = ['the pickle byte format itself']
