"""C01 — apply(H) equals the exact second-quantised action.
Implementation: wfn.apply(H) for every Hamiltonian class, symmetry mode and path.
Oracle: Model.m_apply_h = coefficients of act_poly (denote H) psi on the
wavefunction's own determinants (Fock.v / Denote.v, extracted), exact regime."""
import itertools

import fqeio

PID = 'C01'
MODES = ['C', 'PY0']
COMPARE_ARITY = 4
TOL = 1e-9


# ------------------------------------------------------------------ generation
def _rand_c(rng, real=False, scale=3):
    re = rng.randint(-scale, scale)
    im = 0 if real else rng.randint(-scale, scale)
    if re == 0 and im == 0:
        re = 1
    return re, im


def gen_tensor_entries(rng, dim, rank, shape, real, hermitian):
    """entries [[idx], re, im] for ranks 1..rank"""
    ents = {}
    for r in range(1, rank + 1):
        allidx = list(itertools.product(range(dim), repeat=2 * r))
        if shape == 'dense' and len(allidx) <= 300:
            chosen = [ix for ix in allidx if rng.random() < 0.8]
        elif shape == 'single':
            chosen = [rng.choice(allidx)] if r == rank else []
        elif shape == 'column':
            # single non-zero column of the one-body matrix (the fast path)
            if r == 1:
                col = rng.randrange(dim)
                chosen = [(i, col) for i in range(dim)]
            else:
                chosen = []
        else:
            k = min(len(allidx), rng.randint(2, 14))
            chosen = rng.sample(allidx, k)
        for ix in chosen:
            re, im = _rand_c(rng, real)
            ents[tuple(ix)] = (re, im)
    if hermitian:
        out = {}
        for ix, (re, im) in ents.items():
            r = len(ix) // 2
            # h[i..., j...]^* = h[rev j..., rev i...]  (adjoint of a†_i.. a_j..)
            cix = tuple(reversed(ix[r:])) + tuple(reversed(ix[:r]))
            out[ix] = out.get(ix, (0, 0))
            out[ix] = (out[ix][0] + re, out[ix][1] + im)
            out[cix] = out.get(cix, (0, 0))
            out[cix] = (out[cix][0] + re, out[cix][1] - im)
        ents = out
    return [[list(ix), re, im] for ix, (re, im) in sorted(ents.items()) if re or im]


def pair_symmetrise(entries):
    """sum over simultaneous permutations of (creator_k, annihilator_k) pairs: the
    operator sum_h h a†..a.. is multiplied by r! and its tensor becomes pair-symmetric"""
    acc = {}
    for ix, re, im in entries:
        r = len(ix) // 2
        for perm in itertools.permutations(range(r)):
            jx = tuple(ix[p] for p in perm) + tuple(ix[r + p] for p in perm)
            a = acc.get(jx, (0, 0))
            acc[jx] = (a[0] + re, a[1] + im)
    return [[list(ix), re, im] for ix, (re, im) in sorted(acc.items()) if re or im]


def _drop_repeated(entries):
    out = []
    for ix, re, im in entries:
        r = len(ix) // 2
        if r >= 3 and (len(set(ix[:r])) < r or len(set(ix[r:])) < r):
            continue
        out.append([ix, re, im])
    return out


def is_pair_symmetric(entries, minrank=2):
    d = {tuple(ix): (re, im) for ix, re, im in entries}
    for ix, v in d.items():
        r = len(ix) // 2
        if r < minrank:
            continue
        for perm in itertools.permutations(range(r)):
            jx = tuple(ix[p] for p in perm) + tuple(ix[r + p] for p in perm)
            if d.get(jx, (0, 0)) != v:
                return False
    return True


def _sso_filter(entries, norb):
    out = []
    for ix, re, im in entries:
        r = len(ix) // 2
        if all((ix[p] >= norb) == (ix[p + r] >= norb) for p in range(r)):
            out.append([ix, re, im])
    return out


def _sz_conserving(ops):
    return sum((1 if d else -1) for q, d in ops if q % 2 == 0) == 0 and \
        sum((1 if d else -1) for q, d in ops if q % 2 == 1) == 0


def gen_sector(rng, norb, mode):
    if mode == 'ns':
        na = rng.randint(0, norb)
        nb = rng.randint(0, norb)
        return na + nb, na - nb
    if mode == 'sb':
        return rng.randint(0, 2 * norb), 0
    sz = rng.randint(-norb, norb)
    return 0, sz


def gen_cases(rng, tier):
    cases = []
    nmax = 3 if tier == 'quick' else 4
    reps = 3 if tier == 'quick' else 10
    classes = [('restricted', r) for r in (1, 2, 3, 4)] + [('gso', r) for r in (1, 2, 3, 4)] + \
              [('sso', r) for r in (1, 2, 3, 4)] + [('general', r) for r in (1, 2)] + \
              [('diag', 1), ('diag2', 1), ('dc2', 2), ('dc4', 2), ('sparse', 0)]
    for _ in range(reps):
        for cls, rank in classes:
            for mode in ('ns', 'sb'):
                for shape in ('sparse', 'dense', 'single', 'column'):
                    if shape == 'column' and not (rank == 1 and cls in ('restricted', 'gso', 'sso')):
                        continue
                    if cls in ('diag', 'diag2', 'dc2', 'dc4', 'sparse') and shape != 'sparse':
                        continue
                    norb = rng.randint(1, nmax if rank <= 2 else min(nmax, 3))
                    if rank >= 3 and shape == 'dense':
                        norb = min(norb, 2)
                    if mode == 'sb' and cls == 'restricted':
                        continue   # refused (AssertionError): a C14 case, not an apply result
                    if mode == 'sb' and cls in ('diag', 'diag2', 'dc2', 'dc4') and rng.random() < 0.5:
                        continue
                    n, sz = gen_sector(rng, norb, mode)
                    real = rng.random() < 0.35
                    herm = rng.random() < 0.5
                    ham = gen_ham(rng, cls, rank, norb, shape, real, herm)
                    if mode == 'ns' and cls in ('gso', 'general', 'sso'):
                        # single-sector spin-orbital kernels: see finding F-C01-spinorb-single-sector.
                        # Most cases use the representation FQE handles (spin-aligned blocks,
                        # pair-symmetric tensor for rank >= 2); a minority keeps the raw tensor.
                        if rng.random() < 0.8:
                            ham['entries'] = _sso_filter(ham['entries'], norb)
                            if rank >= 2:
                                ham['entries'] = pair_symmetrise(ham['entries'])
                    if cls == 'sparse' and mode == 'ns':
                        ham['entries'] = [e for e in ham['entries'] if _sz_conserving(e[0])] or \
                            [[[[0, 1], [0, 0]], 2, 1]]
                    keys = fqeio.sector_keys(norb, mode, n, sz)
                    vec = fqeio.random_state(rng, norb, keys, density=rng.choice([0.3, 0.8, 1.0]))
                    cases.append({'kind': 'apply', 'norb': norb, 'mode': mode, 'n': n, 'sz': sz,
                                  'vec': vec, 'ham': ham})
    # spin-transferring sparse strings on spin-broken wavefunctions, systematically over the net spin transfer
    # nda = #alpha creators - #alpha annihilators in {+-1, +-2, +-3, 0 (exchange)} and over electron numbers
    # (FqeDataSet.apply_individual_nbody_accumulate: the phase of beta operators moved past the alpha electrons)
    for nda in (1, -1, 2, -2, 3, -3, 0):
        for rep in range(2 if tier == 'quick' else 6):
            norb = 3 if tier == 'quick' or rep % 2 == 0 else 4
            m = max(abs(nda), 2 if nda == 0 else 1)
            up = [2 * i for i in rng.sample(range(norb), m)]
            dn = [2 * i + 1 for i in rng.sample(range(norb), m)]
            if nda > 0:
                cr, an = up, dn
            elif nda < 0:
                cr, an = dn, up
            else:
                cr, an = [up[0], dn[0]], [dn[1], up[1]]
            if rng.random() < 0.4 and m < 3:        # a spectator operator pair of either spin
                q = rng.randrange(2 * norb)
                if q not in cr and q not in an:
                    cr, an = cr + [q], an + [q]
            ops = [[q, 1] for q in cr] + [[q, 0] for q in an]
            if rng.random() < 0.5:
                rng.shuffle(ops)
            re, im = _rand_c(rng)
            ents = [[ops, re, im]]
            if rep % 2 == 1:
                ents.append([_adjoint_ops(ops), re, -im])
            n = rng.choice([3, 4]) if rep % 2 == 0 else rng.randint(2, 2 * norb - 1)
            keys = fqeio.sector_keys(norb, 'sb', n, 0)
            cases.append({'kind': 'apply', 'norb': norb, 'mode': 'sb', 'n': n, 'sz': 0,
                          'vec': fqeio.random_state(rng, norb, keys, density=0.8),
                          'ham': {'cls': 'sparse', 'rank': 0, 'entries': ents, 'e0': rng.choice([[0, 0], [2, 0]]), 'real': False}})
    # large sectors (several blocks / ZAXPY batches of the dense kernels: 126-462 strings of one spin), sparse
    # Gaussian-integer states spread over the whole address range, sparse tensors: values, not digests
    for _ in range(5 if tier == 'quick' else 24):
        norb, na, nb = rng.choice([(10, 4, 1), (10, 5, 1), (12, 3, 1), (11, 1, 5), (9, 4, 2), (10, 2, 5), (11, 5, 0)])
        keys = fqeio.sector_keys(norb, 'ns', na + nb, na - nb)
        basis = fqeio.basis_of(norb, keys)
        vec = [[a, b, rng.randint(-2, 2) or 1, rng.randint(-2, 2)] for a, b in rng.sample(basis, min(len(basis), 14))]
        cls = rng.choice(['restricted', 'restricted', 'sso', 'dc2', 'diag'])
        rank = 1 if cls in ('diag',) else (2 if cls == 'dc2' else rng.choice([1, 2, 2, 3]))
        if cls == 'sso':
            rank = min(rank, 2)          # a dense rank-3 spin-orbital tensor on 20-24 spin orbitals is 10^8 entries
        ham = gen_ham(rng, cls, rank, norb, 'sparse', rng.random() < 0.4, rng.random() < 0.5)
        ham['entries'] = ham['entries'][:8]
        if cls == 'sso':
            ham['entries'] = _sso_filter(ham['entries'], norb)
            if rank >= 2:
                ham['entries'] = pair_symmetrise(ham['entries'])
        cases.append({'kind': 'apply', 'norb': norb, 'mode': 'ns', 'n': na + nb, 'sz': na - nb, 'vec': vec, 'ham': ham, 'big': True})
    # tile boundaries of the transposing / blocked C helpers (16 x 16 tiles of zimatadd and friends): sectors in which
    # exactly one, both or neither of the two string counts is a multiple of 16; amplitudes in the first and last rows
    # and columns and on both sides of every multiple of 16; restricted rank-1 (the only caller of zimatadd) and rank-2
    tile_shapes = [(16, 1, 2), (16, 2, 1), (16, 1, 1), (16, 3, 1), (17, 1, 1), (8, 1, 2), (6, 3, 3), (16, 1, 0), (16, 0, 1)]
    for k, (norb, na, nb) in enumerate(tile_shapes if tier == 'quick' else tile_shapes * 3):
        rows, cols = fqeio.strings_of(norb, na), fqeio.strings_of(norb, nb)

        def edge(m):
            ix = {0, m - 1, max(m - 2, 0), rng.randrange(m), rng.randrange(m)}
            for t in range(16, m + 1, 16):
                ix |= {t - 1, min(t, m - 1)}
            return sorted(ix)
        er, ec = edge(len(rows)), edge(len(cols))
        pairs = {(rng.choice(er), rng.choice(ec)) for _ in range(18)} | {(er[-1], ec[-1]), (er[0], ec[-1]), (er[-1], ec[0])}
        vec = [[rows[i], cols[j], rng.randint(-2, 2) or 1, rng.randint(-2, 2)] for i, j in sorted(pairs)]
        rank = 1 if k % 3 != 2 else 2
        ham = gen_ham(rng, 'restricted', rank, norb, 'sparse' if rank == 2 else 'dense', rng.random() < 0.4, rng.random() < 0.5)
        if rank == 1 and len(ham['entries']) > 60:
            ham['entries'] = rng.sample(ham['entries'], 60)
        if rank == 2:
            ham['entries'] = ham['entries'][:8]
        cases.append({'kind': 'apply', 'norb': norb, 'mode': 'ns', 'n': na + nb, 'sz': na - nb, 'vec': vec, 'ham': ham,
                      'big': True, 'tile': True})
    # fixed-column kernels of spin-orbital one-body operators on spin-broken wavefunctions: every column of both spin blocks,
    # odd and even particle numbers, 3 and 4 orbitals (sectors with different numbers of alpha and beta strings)
    for norb, nn in ((3, 1), (3, 2), (3, 3), (4, 3)) if tier == 'quick' else ((3, 1), (3, 2), (3, 3), (3, 4), (3, 5), (4, 2), (4, 3), (4, 5)):
        keys = fqeio.sector_keys(norb, 'sb', nn, 0)
        for col in range(2 * norb):
            if tier == 'quick' and norb == 4 and col % 2 == 1:
                continue
            ents = [[[row, col], *_rand_c(rng)] for row in range(2 * norb) if rng.random() < 0.8 or row == col]
            ents = [e for e in ents if e[1] or e[2]] or [[[col, col], 1, 0]]
            cases.append({'kind': 'apply', 'norb': norb, 'mode': 'sb', 'n': nn, 'sz': 0,
                          'vec': fqeio.random_state(rng, norb, keys, density=0.9, amp=2),
                          'ham': {'cls': 'gso', 'rank': 1, 'entries': ents, 'e0': [0, 0], 'real': False}})
    # low filling with two electrons of one spin (needs >= 7 orbitals: n_sigma < 0.3 norb): the same-spin blocks of the
    # low-filling kernels (reference path); complex Hermitian and non-Hermitian tensors, sparse states
    for _ in range(6 if tier == 'quick' else 24):
        norb = rng.choice([7, 7, 8])
        na, nb = rng.choice([(2, 0), (0, 2), (2, 1), (1, 2), (2, 2)])
        if _ % 3 == 2:
            norb, (na, nb) = rng.choice([4, 5, 6]), rng.choice([(1, 1), (1, 0), (0, 1)])
        keys = fqeio.sector_keys(norb, 'ns', na + nb, na - nb)
        basis = fqeio.basis_of(norb, keys)
        vec = [[a, b, rng.randint(-2, 2) or 1, rng.randint(-2, 2)] for a, b in rng.sample(basis, min(len(basis), 12))]
        cls = rng.choice(['restricted', 'sso'])
        ham = gen_ham(rng, cls, 2, norb, 'sparse', False, rng.random() < 0.5)
        ham['entries'] = ham['entries'][:10]
        if cls == 'sso':
            ham['entries'] = pair_symmetrise(_sso_filter(ham['entries'], norb))
        cases.append({'kind': 'apply', 'norb': norb, 'mode': 'ns', 'n': na + nb, 'sz': na - nb, 'vec': vec, 'ham': ham, 'big': True})
    # the same low-filling sectors, systematically over (n_alpha, n_beta) and with spin-orbital tensors that have entries in
    # EVERY spin block of the two-body part (aa, ab, bb - the blocks are contracted by separate branches of the low-filling
    # kernels) and different one-body blocks for the two spins; dense states on the small sectors
    lf_shapes = [(7, 1, 2), (7, 2, 1), (7, 2, 2), (7, 0, 2), (7, 2, 0)]
    for k, (norb, na, nb) in enumerate(lf_shapes if tier == 'quick' else lf_shapes * 3 + [(8, 2, 2), (8, 1, 2)]):
        keys = fqeio.sector_keys(norb, 'ns', na + nb, na - nb)
        basis = fqeio.basis_of(norb, keys)
        vec = [[a, b, rng.randint(-2, 2) or 1, rng.randint(-2, 2)] for a, b in rng.sample(basis, min(len(basis), 30))]
        ents = []
        for blk in ('aa', 'bb', 'ab', 'bb', 'aa', 'ab'):
            o1 = 0 if blk[0] == 'a' else norb
            o2 = 0 if blk[1] == 'a' else norb
            p_, r_ = rng.randrange(norb) + o1, rng.randrange(norb) + o1
            q_, s_ = rng.randrange(norb) + o2, rng.randrange(norb) + o2
            ents.append([[p_, q_, r_, s_], *_rand_c(rng)])
        for off in (0, norb):
            for _j in range(3):
                ents.append([[rng.randrange(norb) + off, rng.randrange(norb) + off], *_rand_c(rng)])
        ham = {'cls': 'sso', 'rank': 2, 'entries': pair_symmetrise(_sso_filter(ents, norb)), 'e0': [0, 0], 'real': False}
        cases.append({'kind': 'apply', 'norb': norb, 'mode': 'ns', 'n': na + nb, 'sz': na - nb, 'vec': vec, 'ham': ham, 'big': True})
    # number-broken wavefunctions: Hermitian FermionOperators with pairing terms
    for _ in range(25 if tier == 'quick' else 100):
        norb = rng.randint(1, 3)
        sz = rng.randint(-norb + 1, norb - 1) if norb > 1 else 0
        keys = fqeio.sector_keys(norb, 'nb', 0, sz)
        terms = gen_fop_terms(rng, norb, number_breaking=True, nterms=rng.randint(2, 5))
        cases.append({'kind': 'apply', 'norb': norb, 'mode': 'nb', 'n': 0, 'sz': sz,
                      'vec': fqeio.random_state(rng, norb, keys, density=0.8),
                      'ham': {'cls': 'fop', 'rank': 0, 'entries': terms, 'e0': [0, 0], 'real': False}})
    # low filling on the reference path / large-ish sectors
    for _ in range(10 if tier == 'quick' else 40):
        norb = rng.choice([4, 5] if tier == 'quick' else [5, 6])
        na, nb = rng.randint(0, 1), rng.randint(0, 1)
        cls = rng.choice(['restricted', 'gso', 'sso'])
        ham = gen_ham(rng, cls, 2, norb, 'sparse', rng.random() < 0.5, rng.random() < 0.5)
        if cls != 'restricted':
            ham['entries'] = pair_symmetrise(_sso_filter(ham['entries'], norb))
        keys = [(na + nb, na - nb)]
        cases.append({'kind': 'apply', 'norb': norb, 'mode': 'ns', 'n': na + nb, 'sz': na - nb,
                      'vec': fqeio.random_state(rng, norb, keys, density=0.6), 'ham': ham})
    return cases


def _adjoint_ops(ops):
    return [[q, 1 - d] for q, d in reversed(ops)]


def gen_fop_terms(rng, norb, number_breaking, nterms):
    """Hermitian sum of operator strings q + q† that conserve Sz; with number_breaking,
    strings may change N by +-2 (alpha-beta pairing)"""
    terms = []
    tries = 0
    while len(terms) < 2 * nterms and tries < 200:
        tries += 1
        kind = rng.choice(['hop', 'pair', 'num', 'pairhop'] if number_breaking else ['hop', 'num', 'two'])
        i, j, k, l = [rng.randrange(norb) for _ in range(4)]
        s = rng.randrange(2)
        if kind == 'hop':
            ops = [[2 * i + s, 1], [2 * j + s, 0]]
        elif kind == 'num':
            ops = [[2 * i + s, 1], [2 * i + s, 0]]
        elif kind == 'pair':
            ops = [[2 * i, 1], [2 * j + 1, 1]]
        elif kind == 'pairhop':
            if i == k and s == 0 or (j == k and s == 1):
                continue
            ops = [[2 * i, 1], [2 * j + 1, 1], [2 * k + s, 1], [2 * l + s, 0]]
            if len(set(q for q, d in ops if d)) < 3:
                continue
        else:
            t = rng.randrange(2)
            ops = [[2 * i + s, 1], [2 * j + t, 1], [2 * k + t, 0], [2 * l + s, 0]]
            if 2 * i + s == 2 * j + t or 2 * k + t == 2 * l + s:
                continue
        re, im = _rand_c(rng)
        # multiples of 24 keep the 1/k! symmetrisation of build_hamiltonian exact
        terms.append([ops, 24 * re, 24 * im])
        terms.append([_adjoint_ops(ops), 24 * re, -24 * im])
    return terms


def gen_ham(rng, cls, rank, norb, shape, real, herm):
    e0 = [0, 0] if rng.random() < 0.5 else [3, 0 if (real or herm) else -2]
    if cls == 'restricted':
        ents = gen_tensor_entries(rng, norb, rank, shape, real, herm)
    elif cls in ('gso', 'general'):
        ents = gen_tensor_entries(rng, 2 * norb, rank, shape, real, herm)
    elif cls == 'sso':
        ents = _sso_filter(gen_tensor_entries(rng, 2 * norb, rank, shape, real, herm), norb)
    elif cls == 'diag':
        ents = [[[p], *_rand_c(rng, real)] for p in range(norb)]
    elif cls == 'diag2':
        ents = [[[p], *_rand_c(rng, real)] for p in range(2 * norb)]
    elif cls == 'dc2':
        ents = [[[i, j], *_rand_c(rng, real)] for i in range(norb) for j in range(norb) if rng.random() < 0.8]
    elif cls == 'dc4':
        ents = [[[i, j, i, j], *_rand_c(rng, real)] for i in range(norb) for j in range(norb) if rng.random() < 0.8]
    elif cls == 'sparse':
        ents = []
        for _ in range(rng.randint(1, 5)):
            m = rng.randint(1, min(3, 2 * norb))
            cr = rng.sample(range(2 * norb), m)
            an = rng.sample(range(2 * norb), m)
            ops = [[q, 1] for q in cr] + [[q, 0] for q in an]
            rng.shuffle(ops)
            ents.append([ops, *_rand_c(rng, real)])
    else:
        raise ValueError(cls)
    return {'cls': cls, 'rank': rank, 'entries': ents, 'e0': e0, 'real': real}


# ------------------------------------------------------------------ implementation side
def build_ham(ham, norb):
    import numpy
    import fqe
    cls = ham['cls']
    e0 = complex(*ham['e0'])
    ents = ham['entries']
    dt = float if ham.get('real') else complex
    if cls == 'restricted':
        return fqe.get_restricted_hamiltonian(fqeio.dense_tensors(norb, ham['rank'], ents, dt), e_0=e0)
    if cls == 'gso':
        return fqe.get_gso_hamiltonian(fqeio.dense_tensors(2 * norb, ham['rank'], ents, dt), e_0=e0)
    if cls == 'sso':
        return fqe.get_sso_hamiltonian(fqeio.dense_tensors(2 * norb, ham['rank'], ents, dt), e_0=e0)
    if cls == 'general':
        return fqe.get_general_hamiltonian(fqeio.dense_tensors(2 * norb, ham['rank'], ents, dt), e_0=e0)
    if cls in ('diag', 'diag2'):
        size = norb if cls == 'diag' else 2 * norb
        d = numpy.zeros(size, dtype=numpy.complex128)
        for ix, re, im in ents:
            d[ix[0]] = complex(re, im)
        if ham.get('real'):
            d = d.real.copy()
        return fqe.get_diagonal_hamiltonian(d, e_0=e0)
    if cls == 'dc2':
        v = numpy.zeros((norb, norb), dtype=numpy.complex128)
        for ix, re, im in ents:
            v[tuple(ix)] = complex(re, im)
        if ham.get('real'):
            v = v.real.copy()
        return fqe.get_diagonalcoulomb_hamiltonian(v, e_0=e0)
    if cls == 'dc4':
        v = numpy.zeros((norb,) * 4, dtype=numpy.complex128)
        for ix, re, im in ents:
            v[tuple(ix)] = complex(re, im)
        if ham.get('real'):
            v = v.real.copy()
        return fqe.get_diagonalcoulomb_hamiltonian(v, e_0=e0)
    if cls == 'fop':
        from openfermion import FermionOperator
        op = FermionOperator()
        for ops, re, im in ents:
            op += FermionOperator(tuple((q, d) for q, d in ops), complex(re, im))
        return op
    if cls == 'sparse':
        from openfermion import FermionOperator
        op = FermionOperator()
        for ops, re, im in ents:
            op += FermionOperator(tuple((q, d) for q, d in ops), complex(re, im))
        return fqe.get_sparse_hamiltonian(op, e_0=e0)
    raise ValueError(cls)


def run_impl(case, mode):
    wfn = fqeio.make_wfn(case['norb'], case['mode'], case['n'], case['sz'], case['vec'])
    ham = build_ham(case['ham'], case['norb'])
    before = fqeio.read_state(wfn)
    out = wfn.apply(ham)
    after = fqeio.read_state(wfn)
    res = {'out': fqeio.read_state(out), 'keys': sorted([list(k) for k in out.sectors()]),
           'input_unchanged': before == after}
    # the module-level entry point is the same operation
    import fqe
    try:
        res['api_same'] = fqeio.read_state(fqe.apply(ham, wfn)) == res['out']
    except Exception as e:  # noqa
        res['api_same'] = 'raised %s' % type(e).__name__
    if mode == 'C' and case['mode'] == 'ns' and case['ham']['cls'] in ('restricted', 'gso', 'sso', 'general') and case['ham'].get('rank') == 2:
        # the low-filling C kernels of the dense 1+2-body apply: the accelerated path leaves FqeData._low_thresh at 0, so
        # they are reached by setting it (as the repository's own tests do); same expected result
        for key in wfn.sectors():
            sec = wfn.sector(key)
            if sec.nalpha() < 0.3 * sec.norb() and sec.nbeta() < 0.3 * sec.norb():
                sec._low_thresh = 0.3
                res['lowfill'] = True
        if res.get('lowfill'):
            try:
                res['out_lowfill'] = fqeio.read_state(wfn.apply(ham))
            except Exception as e:  # noqa
                res['lowfill_exc'] = type(e).__name__ + ':' + str(e)[:120]
    return res


# ------------------------------------------------------------------ model side
def ham_tokens(ham, norb):
    cls = ham['cls']
    toks = []
    n = 0
    for ent in ham['entries']:
        ix, re, im = ent
        if cls in ('restricted', 'dc4'):
            toks += ['R', len(ix)] + list(ix) + [re, im]
        elif cls in ('gso', 'sso', 'general'):
            toks += ['S', len(ix)] + list(ix) + [re, im]
        elif cls == 'diag':
            toks += ['DA', ix[0], re, im]
        elif cls == 'diag2':
            toks += ['DS', ix[0], re, im]
        elif cls == 'dc2':
            toks += ['CV', ix[0], ix[1], re, im]
        elif cls in ('sparse', 'fop'):
            toks += ['T', len(ix)] + [x for q, d in ix for x in (q, d)] + [re, im]
        n += 1
    if ham['e0'] != [0, 0]:
        toks += ['E0', ham['e0'][0], ham['e0'][1]]
        n += 1
    return [n] + toks


def expected(model, case):
    norb = case['norb']
    keys = fqeio.sector_keys(norb, case['mode'], case['n'], case['sz'])
    basis = fqeio.basis_of(norb, keys)
    vec = case['vec']
    tw = (lambda b: 1)
    if case['mode'] == 'nb':
        # number-broken wavefunctions store c[A,B] = sigma(B) * (amplitude in the fixed convention),
        # sigma(B) = prod_{j in B} (-1)^(norb-1-j)  (convention of the beta particle-hole inversion)
        tw = (lambda b: -1 if sum((norb - 1 - j) for j in range(norb) if (b >> j) & 1) % 2 else 1)
        vec = [[a, b, re * tw(b), im * tw(b)] for a, b, re, im in vec]
    t = model.q('APPLYH', norb, *ham_tokens(case['ham'], norb), *fqeio.vec_tokens(vec),
                *fqeio.basis_tokens(basis))
    vals = {}
    for k, (a, b) in enumerate(basis):
        re, im = int(t[2 * k]) * tw(b), int(t[2 * k + 1]) * tw(b)
        if re or im:
            vals['%d,%d' % (a, b)] = [re, im]
    return {'out': vals, 'keys': sorted([list(k) for k in keys])}


# ------------------------------------------------------------------ comparison
def compare(case, got, exp, mode):
    if 'exc' in got or 'crash' in got:
        return ['apply raised %s: %s' % (got.get('exc', 'CRASH'), str({k: got[k] for k in got if k != 'tb'})[:300])]
    bad = []
    if got['keys'] != exp['keys']:
        bad.append('result sectors %s != input sectors %s' % (got['keys'], exp['keys']))
    if not got['input_unchanged']:
        bad.append('apply modified its input wavefunction')
    scale = 1.0 + max([abs(x) for v in exp['out'].values() for x in v] + [0])
    for field, label in (('out', ''), ('out_lowfill', ' [low-filling kernels]')):
        if field not in got:
            continue
        g = {'%d,%d' % (a, b): (re, im) for a, b, re, im in got[field]}
        for key in sorted(set(g) | set(exp['out'])):
            gr, gi = g.get(key, (0.0, 0.0))
            er, ei = exp['out'].get(key, (0, 0))
            if abs(gr - er) > TOL * scale or abs(gi - ei) > TOL * scale:
                bad.append('coefficient of determinant (alpha,beta)=%s%s: impl %r%+rj, exact %d%+dj' % (key, label, gr, gi, er, ei))
                if len(bad) > 3:
                    break
    if got.get('api_same') is not True and 'api_same' in got:
        bad.append('fqe.apply(ops, wfn) differs from wfn.apply(ops): %s' % got['api_same'])
    if 'lowfill_exc' in got:
        bad.append('apply through the low-filling kernels raised %s' % got['lowfill_exc'])
    return bad


def has_exchange_block(case):
    """spin-orbital tensor entry whose k-th creator and k-th annihilator differ in spin"""
    if case['ham']['cls'] not in ('gso', 'general'):
        return False
    norb = case['norb']
    for ix, re, im in case['ham']['entries']:
        r = len(ix) // 2
        if r >= 2 and any((ix[p] >= norb) != (ix[p + r] >= norb) for p in range(r)):
            return True
    return False


def in_spinorb_single_sector_class(case):
    """spin-orbital tensor on a spin-conserving (single-sector) wavefunction that is not in
    the representation the single-sector kernels assume: an exchange-type spin block
    (rank >= 2), or a rank >= 2 tensor that is not symmetric under simultaneous
    permutation of its (creator, annihilator) index pairs"""
    if case['mode'] != 'ns' or case['ham']['cls'] not in ('gso', 'general', 'sso'):
        return False
    return has_exchange_block(case) or not is_pair_symmetric(case['ham']['entries'])


def has_repeated_index_rank3(case):
    """rank >= 3 entry naming the same spin orbital twice among its creators or among its
    annihilators (the operator is zero; the rank-3/4 single-sector kernels return non-zero)"""
    for ix, re, im in case['ham']['entries']:
        r = len(ix) // 2
        if r >= 3 and (len(set(ix[:r])) < r or len(set(ix[r:])) < r):
            return True
    return False


def sparse_normal_orders_to_zero(case):
    """sparse / FermionOperator input whose normal-ordered form has no operator term"""
    if case['ham']['cls'] not in ('sparse', 'fop'):
        return False
    from openfermion import FermionOperator, normal_ordered
    op = FermionOperator()
    for ops, re, im in case['ham']['entries']:
        op += FermionOperator(tuple((q, d) for q, d in ops), complex(re, im))
    op = normal_ordered(op)
    return all(len(t) == 0 or abs(c) < 1e-12 for t, c in op.terms.items())


def nb_few_terms(case):
    """number-broken wavefunction and a FermionOperator with <= 2 terms: build_hamiltonian
    routes it to SparseHamiltonian, which neither transforms to the spin-broken picture nor
    accepts number-changing strings"""
    if case['mode'] != 'nb' or case['ham']['cls'] != 'fop':
        return False
    from openfermion import FermionOperator
    op = FermionOperator()
    for ops, re, im in case['ham']['entries']:
        op += FermionOperator(tuple((q, d) for q, d in ops), complex(re, im))
    op.compress()
    return len(op.terms) <= 2


def classify(case, mode, bad, got, exp):
    if nb_few_terms(case) and not sparse_normal_orders_to_zero(case):
        return 'F-C01-nb-few-terms'
    if sparse_normal_orders_to_zero(case) and 'exc' not in got and 'crash' not in got:
        return 'F-C01-empty-sparse-is-identity'
    if in_spinorb_single_sector_class(case) and 'exc' not in got and 'crash' not in got:
        return 'F-C01-spinorb-single-sector'
    return None


def nontrivial(case, exp):
    vals = list(exp['out'].values())
    return len(vals) >= 2 and any(x < 0 for v in vals for x in v)


def case_class(case):
    return '%s/r%d/%s/norb%d' % (case['ham']['cls'], case['ham']['rank'], case['mode'], case['norb'])


def shrink(case):
    out = []
    ents = case['ham']['entries']
    if len(ents) > 1:
        for k in range(len(ents)):
            out.append(dict(case, ham=dict(case['ham'], entries=ents[:k] + ents[k + 1:])))
        if len(ents) > 4:
            out.insert(0, dict(case, ham=dict(case['ham'], entries=ents[:len(ents) // 2])))
            out.insert(1, dict(case, ham=dict(case['ham'], entries=ents[len(ents) // 2:])))
    if case['ham']['e0'] != [0, 0]:
        out.append(dict(case, ham=dict(case['ham'], e0=[0, 0])))
    v = case['vec']
    if len(v) > 1:
        for k in range(len(v)):
            out.append(dict(case, vec=[v[k]]))
    return out


def sample(case):
    c = dict(case)
    c['vec'] = case['vec'][:4] + (['... %d more' % (len(case['vec']) - 4)] if len(case['vec']) > 4 else [])
    h = dict(case['ham'])
    h['entries'] = h['entries'][:4] + (['... %d more' % (len(h['entries']) - 4)] if len(h['entries']) > 4 else [])
    c['ham'] = h
    return c


THEOREM_FILES = []
RULE = ('seeded generator over Hamiltonian class x rank x tensor shape (sparse, dense, single entry, single '
        'column) x real/complex x Hermitian/not x scalar x symmetry mode x sector x path; exact regime '
        '(Gaussian-integer data). non-trivial: result has >= 2 non-zero determinants and a negative component')
THEOREM_FILES = ['P_C01']
NOT_PROVED = ['the Knowles-Handy folding identity (h1 -= h2[:,k,k,:]; -h2 with middle axes exchanged) is proved as an operator identity '
              '(C01_kh_folding, C01_kh_folded_hamiltonian) and the D-vector algorithm over the excitation tables is proved equal to the '
              'operator action (C01_dvector_algorithm_sound); the C and Python loops that realise it (batching, tiling, low-filling and '
              'sector-changing kernels) are tied to that algorithm by correspondence, not by translation',
              'number-broken wavefunctions are compared in the sigma(B)-twisted determinant convention (see DESIGN.md, C01/C07)']
