"""C18 — the Davidson solver returns the lowest eigenpairs.
Certification instead of comparison with another eigensolver: for every returned root k
the harness builds, from a float Cholesky factor rounded to integers, an exact
certificate that  H - (lambda_k - delta) I + sum_{i<k} mu v_i v_i^T  is positive
semidefinite; the certificate is CHECKED by the extracted Coq checker (Cert.v,
check_cert) whose soundness theorem says: no vector orthogonal to the first k returned
vectors has Rayleigh quotient below lambda_k - delta.  Together with the exact Rayleigh
quotients / residuals of the returned vectors (rational arithmetic) this is the
variational statement 'lambda_k is the k-th lowest eigenvalue to within delta'."""
from fractions import Fraction
import math

PID = 'C18'
MODES = ['C', 'PY0']
COMPARE_ARITY = 4
SB, TB = 24, 30          # scales 2^SB (data), 2^TB (Cholesky factor)


def gen_cases(rng, tier):
    cases = []
    for _ in range(16 if tier == 'quick' else 100):
        n = rng.randint(4, 10)
        kind = rng.choice(['real', 'real', 'complex', 'degenerate', 'neardegenerate'])
        A = [[0] * n for _ in range(n)]
        B = [[0] * n for _ in range(n)]
        for i in range(n):
            A[i][i] = rng.randint(-6, 6) + 3 * i      # diagonally spread so that the unit-vector guesses overlap the low space
            for j in range(i):
                v = rng.choice([0, 0, 1, -1, 2])
                A[i][j] = A[j][i] = v
                if kind == 'complex':
                    w = rng.choice([0, 1, -1])
                    B[i][j] = w
                    B[j][i] = -w
        if kind in ('degenerate', 'neardegenerate'):
            # H = Q D Q^T with a rational orthogonal Q (Pythagorean Givens rotations: generic eigenvectors, so the
            # default unit-vector guesses overlap the target space) and a (near-)degenerate low spectrum in D
            D = [float(rng.randint(-4, 4))] * 2 + [float(6 + 2 * i + rng.randint(0, 1)) for i in range(n - 2)]
            if rng.random() < 0.5 and n >= 5:
                D[2] = D[3] = D[0] + 3.0
            Q = [[1.0 if i == j else 0.0 for j in range(n)] for i in range(n)]
            for _g in range(2 * n):
                p, q = rng.sample(range(n), 2)
                c, s_ = rng.choice([(0.6, 0.8), (0.8, 0.6), (5 / 13, 12 / 13)])
                for r in range(n):
                    a, b = Q[r][p], Q[r][q]
                    Q[r][p], Q[r][q] = c * a - s_ * b, s_ * a + c * b
            A = [[sum(Q[i][k] * D[k] * Q[j][k] for k in range(n)) for j in range(n)] for i in range(n)]
            A = [[0.5 * (A[i][j] + A[j][i]) for j in range(n)] for i in range(n)]
        cases.append({'kind': 'mat', 'mkind': kind, 'n': n, 'A': A, 'B': B, 'nroots': rng.randint(1, max(1, min(3, n // 2 - 1))),
                      'eps_shift': 1e-3 if kind == 'neardegenerate' else 0.0})
    # block structure with supplied guesses: one guess is an exact eigenvector e_0 decoupled from the rest and lying
    # ABOVE the two lowest eigenvalues; two more guesses live in the block that contains both of them, so that the
    # guess space has full-rank overlap with the target space (the property's precondition; with a single guess in the
    # block the unchanged solver may legitimately stop at lam_b). The second Ritz value sits at lam_b (stationary)
    # until one from the big block drops below it: roots change their index while iterating
    import numpy
    made = 0
    for _try in range(60):
        if made >= (4 if tier == 'quick' else 20):
            break
        n = rng.randint(12, 24)
        coupling = rng.choice([0.3, 0.4, 0.5])
        A = [[0.0] * n for _ in range(n)]
        diag = [0.0, 1.3] + [2.0 + 0.5 * k for k in range(n - 3)]
        for i in range(1, n):
            A[i][i] = diag[i - 1]
            for j in range(1, i):
                v = round(rng.gauss(0, 1) * coupling / 2 * 64) / 64.0
                A[i][j] = A[j][i] = v
        lam_b = rng.choice([1.0, 0.9, 1.1])
        A[0][0] = lam_b
        ev = numpy.linalg.eigvalsh(numpy.array(A))
        if not (ev[1] < lam_b - 0.1):
            continue
        made += 1
        cases.append({'kind': 'mat', 'mkind': 'blockguess', 'n': n, 'A': A, 'B': [[0] * n for _ in range(n)], 'nroots': 2,
                      'eps_shift': 0.0, 'guess': [0, 1, 2]})
    for _ in range(5 if tier == 'quick' else 30):
        norb = rng.randint(4, 5)
        na = rng.randint(2, norb - 2)
        nb = rng.randint(2, norb - 2)
        h1 = [[0] * norb for _ in range(norb)]
        for i in range(norb):
            h1[i][i] = rng.randint(-3, 3) + 2 * i
            for j in range(i):
                h1[i][j] = h1[j][i] = rng.choice([0, 1, -1, 2])
        cases.append({'kind': 'fqe', 'norb': norb, 'na': na, 'nb': nb, 'h1': h1, 'nroots': 1, 'seed': rng.randrange(10 ** 6)})
    # interacting restricted Hamiltonians (hopping + on-site repulsion + a few density-density terms), equal numbers of
    # alpha and beta electrons, two roots: the second root is typically of another spin symmetry than the first
    for _ in range(3 if tier == 'quick' else 15):
        norb = 5            # dimension 100: large enough for the solver to converge inside an invariant subspace
        na = nb = 2
        h1 = [[0] * norb for _ in range(norb)]
        for i in range(norb):
            h1[i][i] = rng.randint(-2, 2)
            for j in range(i):
                h1[i][j] = h1[j][i] = rng.choice([1, -1, 2, 1])
        U = rng.choice([2, 3, 4])
        dd = [[i, j, rng.choice([1, -1])] for i in range(norb) for j in range(i) if rng.random() < 0.4]
        cases.append({'kind': 'fqe', 'norb': norb, 'na': na, 'nb': nb, 'h1': h1, 'U': U, 'dd': dd, 'nroots': 2,
                      'seed': rng.randrange(10 ** 6)})
    # a completely filled spin channel next to a partly filled one (one string of that spin: kernels that special-case
    # "a single string" must still see the mean field of the filled shell), interacting Hamiltonians
    # (6 orbitals, 15-20 determinants, diagonally dominant one-body part: the solver's subspace is capped at half the
    # sector dimension, smaller or less structured problems end in ConvergenceError, which says nothing); plus one tiny
    # sector (dimension 1 or 6) per run, where the only requirement is "exact value or ConvergenceError"
    for k in range(3 if tier == 'quick' else 10):
        norb = 6
        na, nb = [(norb, 3), (3, norb), (norb, 4), (4, norb), (norb, 2)][k % 5]
        if k == 2:
            norb = 4
            na, nb = rng.choice([(4, 4), (4, 0), (4, 2), (0, 0)])
        h1 = [[0] * norb for _ in range(norb)]
        for i in range(norb):
            h1[i][i] = rng.randint(-1, 1) + 3 * i
            for j in range(i):
                h1[i][j] = h1[j][i] = rng.choice([0, 1, -1])
        dd = [[i, j, rng.choice([1, -1])] for i in range(norb) for j in range(i) if rng.random() < 0.3]
        cases.append({'kind': 'fqe', 'norb': norb, 'na': na, 'nb': nb, 'h1': h1, 'U': 2, 'dd': dd, 'nroots': 1,
                      'seed': rng.randrange(10 ** 6)})
    # spin-dependent (SSO) Hamiltonians - different one-body matrices and different same-spin interactions for alpha and beta -
    # on both code paths, on sectors that take the low-filling kernels of the reference path (n_sigma < 0.3 norb: 7 orbitals,
    # up to two electrons per spin) and on a half-filled one; judged by the exact sector matrix from the model
    sso_shapes = [(7, 1, 2), (7, 2, 1), (4, 2, 2)] if tier == 'quick' else [(7, 1, 2), (7, 2, 1), (7, 0, 2), (4, 2, 2), (5, 2, 3), (8, 2, 1), (7, 2, 0)]
    for norb, na, nb in sso_shapes:
        def hmat():
            h = [[0] * norb for _ in range(norb)]
            for i in range(norb):
                h[i][i] = rng.randint(-1, 1) + 3 * i
                for j in range(i):
                    h[i][j] = h[j][i] = rng.choice([0, 1, -1])
            return h
        nso = 2 * norb
        # v[P][Q] n_P n_Q between different spin orbitals P < Q (spin orbital p + norb*sigma): the three spin blocks differ
        vv = []
        for P in range(nso):
            for Q in range(P):
                same = (P >= norb) == (Q >= norb)
                if rng.random() < (0.5 if same else 0.3):
                    vv.append([P, Q, rng.choice([1, -1, 2]) if (P >= norb) else rng.choice([1, -1])])
        cases.append({'kind': 'fqe_sso', 'norb': norb, 'na': na, 'nb': nb, 'h1a': hmat(), 'h1b': hmat(), 'vv': vv, 'nroots': 1,
                      'seed': rng.randrange(10 ** 6), 'modes': ['C', 'PY0']})
    # a field scan: Hamiltonians H(s) = (h1 + s V, h2) built one after the other from the SAME two-body array object, each
    # solved in turn in one process (what a user scanning a one-body field does); every solve is certified separately
    # against the matrix of a freshly built H(s)
    for _ in range(2 if tier == 'quick' else 8):
        norb = 4
        na = nb = 2
        h1 = [[0] * norb for _ in range(norb)]
        V = [[0] * norb for _ in range(norb)]
        for i in range(norb):
            h1[i][i] = rng.randint(-2, 2)
            V[i][i] = rng.choice([0, 1, -1, 2])
            for j in range(i):
                h1[i][j] = h1[j][i] = rng.choice([1, -1, 2, 1])
                V[i][j] = V[j][i] = rng.choice([0, 0, 1])
        if all(V[i][i] == 0 for i in range(norb)):
            V[0][0] = 2
        dd = [[i, j, rng.choice([1, -1])] for i in range(norb) for j in range(i) if rng.random() < 0.4]
        cases.append({'kind': 'fqe_scan', 'norb': norb, 'na': na, 'nb': nb, 'h1': h1, 'V': V, 'U': rng.choice([2, 3]), 'dd': dd,
                      'svals': [0, 1, 3], 'nroots': 1, 'seed': rng.randrange(10 ** 6)})
    for c in cases:
        c.setdefault('modes', ['C'])
    return cases


# ---------------------------------------------------------------- implementation
def run_impl(case, mode):
    import numpy
    from fqe.algorithm import davidson
    if case['kind'] == 'mat':
        n = case['n']
        H = numpy.array(case['A'], dtype=float)
        if case['mkind'] == 'complex':
            H = H + 1j * numpy.array(case['B'], dtype=float)
        if case['eps_shift']:
            H = H.copy()
            H[0, 0] += case['eps_shift']
        try:
            gv = None
            if case.get('guess'):
                gv = []
                for idx in case['guess']:
                    e = numpy.zeros((n, 1))
                    e[idx, 0] = 1.0
                    gv.append(e)
            w, v = davidson.davidsonliu(H, case['nroots'], guess_vecs=gv, epsilon=1e-8)
            vs = [numpy.asarray(x).reshape(-1) for x in v]
            return {'w': [float(numpy.real(x)) for x in w], 'wi': [float(numpy.imag(x)) for x in w],
                    'v': [[[float(c.real), float(c.imag)] for c in x] for x in vs],
                    'H': [[[float(c.real), float(c.imag)] for c in row] for row in numpy.asarray(H, dtype=complex)]}
        except davidson.ConvergenceError as e:
            return {'convergence_error': str(e)[:60]}
    if case['kind'] == 'fqe':
        import fqe
        norb = case['norb']
        numpy.random.seed(case['seed'])
        if 'U' in case:
            h2 = numpy.zeros((norb,) * 4)
            for i in range(norb):
                h2[i, i, i, i] = -0.5 * case['U']          # U n_up n_down in FQE's pairing (i with k, j with l)
            for i, j, v in case['dd']:
                for p, q in ((i, j), (j, i)):
                    h2[p, q, p, q] += -0.5 * v             # v (n_i n_j) between different orbitals
            ham = fqe.get_restricted_hamiltonian((numpy.array(case['h1'], dtype=float), h2))
        else:
            ham = fqe.get_restricted_hamiltonian((numpy.array(case['h1'], dtype=complex),))
        nele, sz = case['na'] + case['nb'], case['na'] - case['nb']
        try:
            w, vecs = davidson.davidson_diagonalization(ham, case['na'], case['nb'], nroots=case['nroots'])
        except davidson.ConvergenceError as e:
            return {'convergence_error': str(e)[:60]}
        # matrix of H in the sector through apply on basis vectors (implementation's own apply is tied to the model by C01)
        wf = fqe.Wavefunction([[nele, sz, norb]])
        sec = wf.sector((nele, sz))
        la, lb = sec.coeff.shape
        dim = la * lb
        Hm = numpy.zeros((dim, dim), dtype=complex)
        for k in range(dim):
            e = numpy.zeros((la, lb), dtype=complex)
            e.flat[k] = 1.0
            wf.set_wfn(strategy='from_data', raw_data={(nele, sz): e})
            Hm[:, k] = wf.apply(ham).sector((nele, sz)).coeff.reshape(-1)
        return {'w': [float(numpy.real(x)) for x in w], 'wi': [float(numpy.imag(x)) for x in w],
                'v': [[[float(c.real), float(c.imag)] for c in vv.sector((nele, sz)).coeff.reshape(-1)] for vv in vecs],
                'H': [[[float(c.real), float(c.imag)] for c in row] for row in Hm]}
    if case['kind'] == 'fqe_sso':
        import fqe
        norb = case['norb']
        nso = 2 * norb
        numpy.random.seed(case['seed'])
        h1 = numpy.zeros((nso, nso))
        h1[:norb, :norb] = numpy.array(case['h1a'], dtype=float)
        h1[norb:, norb:] = numpy.array(case['h1b'], dtype=float)
        h2 = numpy.zeros((nso,) * 4)
        for P, Q, v in case['vv']:
            for p, q in ((P, Q), (Q, P)):
                h2[p, q, p, q] += -0.5 * v                 # v n_P n_Q  (a+_P a+_Q a_P a_Q = - n_P n_Q)
        ham = fqe.get_sso_hamiltonian((h1, h2))
        nele, sz = case['na'] + case['nb'], case['na'] - case['nb']
        # davidson_diagonalization is written for restricted Hamiltonians (it reads the orbital count off hamiltonian.dim());
        # the general entry point davidsonliu_fqe takes the guesses: lowest determinant, the same shifted up by one orbital
        # (a full channel stays), and a random vector - what davidson_diagonalization would build
        import copy
        wf0 = fqe.Wavefunction([[nele, sz, norb]])
        graph = wf0.sector((nele, sz)).get_fcigraph()
        guesses = []
        a0, b0 = (1 << case['na']) - 1, (1 << case['nb']) - 1
        for a_, b_ in ((a0, b0), (a0 << 1 if case['na'] < norb else a0, b0 << 1 if case['nb'] < norb else b0)):
            g = numpy.zeros((graph.lena(), graph.lenb()), dtype=numpy.complex128)
            g[graph.index_alpha(a_), graph.index_beta(b_)] = 1.0
            gw = copy.deepcopy(wf0)
            gw.set_wfn(strategy='from_data', raw_data={(nele, sz): g})
            guesses.append(gw)
        gr = fqe.Wavefunction([[nele, sz, norb]])
        gr.set_wfn(strategy='random')
        gr.normalize()
        guesses.append(gr)
        try:
            w, vecs = davidson.davidsonliu_fqe(ham, case['nroots'], guesses, nele=nele, sz=sz, norb=norb)
        except davidson.ConvergenceError as e:
            return {'convergence_error': str(e)[:60]}
        wf = fqe.Wavefunction([[nele, sz, norb]])
        la, lb = wf.sector((nele, sz)).coeff.shape
        dim = la * lb
        Hm = numpy.zeros((dim, dim), dtype=complex)
        for k in range(dim):
            e = numpy.zeros((la, lb), dtype=complex)
            e.flat[k] = 1.0
            wf.set_wfn(strategy='from_data', raw_data={(nele, sz): e})
            Hm[:, k] = wf.apply(ham).sector((nele, sz)).coeff.reshape(-1)
        return {'w': [float(numpy.real(x)) for x in w], 'wi': [float(numpy.imag(x)) for x in w],
                'v': [[[float(c.real), float(c.imag)] for c in vv.sector((nele, sz)).coeff.reshape(-1)] for vv in vecs],
                'H': [[[float(c.real), float(c.imag)] for c in row] for row in Hm]}
    if case['kind'] == 'fqe_scan':
        import fqe
        norb = case['norb']
        numpy.random.seed(case['seed'])
        h2 = numpy.zeros((norb,) * 4)
        for i in range(norb):
            h2[i, i, i, i] = -0.5 * case['U']
        for i, j, v in case['dd']:
            for p, q in ((i, j), (j, i)):
                h2[p, q, p, q] += -0.5 * v
        nele, sz = case['na'] + case['nb'], case['na'] - case['nb']
        steps = []
        for sv in case['svals']:
            h1 = numpy.array(case['h1'], dtype=float) + sv * numpy.array(case['V'], dtype=float)
            ham = fqe.get_restricted_hamiltonian((h1, h2))           # the same h2 object in every step
            try:
                w, vecs = davidson.davidson_diagonalization(ham, case['na'], case['nb'], nroots=case['nroots'])
            except davidson.ConvergenceError as e:
                steps.append({'convergence_error': str(e)[:60]})
                continue
            # reference matrix from a Hamiltonian object built from fresh copies of the arrays
            ref = fqe.get_restricted_hamiltonian((h1.copy(), h2.copy()))
            wf = fqe.Wavefunction([[nele, sz, norb]])
            la, lb = wf.sector((nele, sz)).coeff.shape
            dim = la * lb
            Hm = numpy.zeros((dim, dim), dtype=complex)
            for k in range(dim):
                e = numpy.zeros((la, lb), dtype=complex)
                e.flat[k] = 1.0
                wf.set_wfn(strategy='from_data', raw_data={(nele, sz): e})
                Hm[:, k] = wf.apply(ref).sector((nele, sz)).coeff.reshape(-1)
            steps.append({'w': [float(numpy.real(x)) for x in w], 'wi': [float(numpy.imag(x)) for x in w],
                          'v': [[[float(c.real), float(c.imag)] for c in vv.sector((nele, sz)).coeff.reshape(-1)] for vv in vecs],
                          'H': [[[float(c.real), float(c.imag)] for c in row] for row in Hm]})
        return {'steps': steps}
    raise ValueError(case['kind'])


# ---------------------------------------------------------------- certification
_MODEL = {}


def expected(model, case):
    _MODEL['m'] = model
    return {}


def _embed(Hc):
    """complex Hermitian A+iB -> real symmetric [[A,-B],[B,A]] (same Rayleigh-quotient range)"""
    import numpy
    A, B = Hc.real, Hc.imag
    return numpy.block([[A, -B], [B, A]])


def certify(model, H, lam, prev, delta):
    """exact certificate that  H - (lam-delta) I + sum mu v v^T >= 0  on integers; returns (ok, info)"""
    import numpy
    n = H.shape[0]
    S, T = 1 << SB, 1 << TB
    Hi = numpy.rint(H * S).astype(object)
    Hi = [[int(Hi[i][j]) for j in range(n)] for i in range(n)]
    sig = int(math.floor((lam - delta) * S))
    width = float(numpy.abs(H).sum(axis=1).max()) * 2 + 1
    mu = int(math.ceil(width))
    vint = [[int(round(float(x) * S)) for x in v] for v in prev]
    N = [[S * (Hi[i][j] - (sig if i == j else 0)) + sum(mu * v[i] * v[j] for v in vint) for j in range(n)] for i in range(n)]
    Mf = numpy.array([[float(Fraction(N[i][j], S * S)) for j in range(n)] for i in range(n)])
    gamma = delta / 2
    try:
        C = numpy.linalg.cholesky(Mf - gamma * numpy.eye(n))
    except numpy.linalg.LinAlgError:
        return False, 'float Cholesky failed: shifted, deflated matrix is not positive definite'
    W = [[int(round(float(C[i][k]) * T)) for i in range(n)] for k in range(n)]      # W[k] = k-th column
    K, c = T * T, S * S
    R = [[K * N[i][j] - c * sum(W[k][i] * W[k][j] for k in range(n)) for j in range(n)] for i in range(n)]
    toks = ['CERT', n, n, K, c]
    for M in (N, R):
        for row in M:
            toks += row
    for row in W:
        toks += row
    ok = model.q(*toks)[0] == '1'
    return ok, ('checker rejected the certificate' if not ok else 'ok')


def _model_matrix(model, norb, na, nb, h1, U, dd):
    """the sector matrix of H = sum h1 E + U sum n_up n_dn + sum v n_i n_j (as run_impl builds it) from the extracted
    Fock-space model, exactly: 2 H has integer tensors"""
    import numpy
    import fqeio
    from props import c01
    ents = [[[i, j], 2 * h1[i][j], 0] for i in range(norb) for j in range(norb) if h1[i][j]]
    h2 = {}
    for i in range(norb):
        h2[(i, i, i, i)] = h2.get((i, i, i, i), 0) - U
    for i, j, v in dd:
        for p, q in ((i, j), (j, i)):
            h2[(p, q, p, q)] = h2.get((p, q, p, q), 0) - v
    ents += [[list(ix), v, 0] for ix, v in sorted(h2.items()) if v]
    ham = {'cls': 'restricted', 'rank': 2, 'entries': ents, 'e0': [0, 0], 'real': True}
    keys = [(na + nb, na - nb)]
    basis = fqeio.basis_of(norb, keys)
    dim = len(basis)
    H = numpy.zeros((dim, dim))
    index = {'%d,%d' % ab: k for k, ab in enumerate(basis)}
    for k, (a, b) in enumerate(basis):
        e = c01.expected(model, {'norb': norb, 'mode': 'ns', 'n': na + nb, 'sz': na - nb, 'vec': [[a, b, 1, 0]], 'ham': ham})
        for key, (re, im) in e['out'].items():
            H[index[key], k] = re / 2.0
    return H


def _model_matrix_sso(model, case):
    """exact sector matrix of the spin-dependent Hamiltonian of an 'fqe_sso' case from the extracted model (2 H is integer)"""
    import json
    import numpy
    import fqeio
    from props import c01
    norb, na, nb = case['norb'], case['na'], case['nb']
    ck = json.dumps([norb, na, nb, case['h1a'], case['h1b'], case['vv']])
    if ck in _SSO_CACHE:                      # the two code paths of one case share the exact matrix
        return _SSO_CACHE[ck]
    ents = []
    for blk, off in ((case['h1a'], 0), (case['h1b'], norb)):
        ents += [[[i + off, j + off], 2 * blk[i][j], 0] for i in range(norb) for j in range(norb) if blk[i][j]]
    h2 = {}
    for P, Q, v in case['vv']:
        for p, q in ((P, Q), (Q, P)):
            h2[(p, q, p, q)] = h2.get((p, q, p, q), 0) - v
    ents += [[list(ix), v, 0] for ix, v in sorted(h2.items()) if v]
    ham = {'cls': 'sso', 'rank': 2, 'entries': ents, 'e0': [0, 0], 'real': True}
    basis = fqeio.basis_of(norb, [(na + nb, na - nb)])
    dim = len(basis)
    H = numpy.zeros((dim, dim))
    index = {'%d,%d' % ab: k for k, ab in enumerate(basis)}
    for k, (a, b) in enumerate(basis):
        e = c01.expected(model, {'norb': norb, 'mode': 'ns', 'n': na + nb, 'sz': na - nb, 'vec': [[a, b, 1, 0]], 'ham': ham})
        for key, (re, im) in e['out'].items():
            H[index[key], k] = re / 2.0
    _SSO_CACHE[ck] = H
    return H


_SSO_CACHE = {}


def compare(case, got, exp, mode):
    import numpy
    if 'exc' in got or 'crash' in got:
        return ['Davidson raised %s: %s' % (got.get('exc', 'CRASH'), str(got.get('msg'))[:200])]
    if case.get('kind') == 'fqe_scan':
        bad = []
        for sv, st in zip(case['svals'], got['steps']):
            h1s = [[case['h1'][i][j] + sv * case['V'][i][j] for j in range(case['norb'])] for i in range(case['norb'])]
            sub = {'kind': 'fqe', 'norb': case['norb'], 'na': case['na'], 'nb': case['nb'], 'h1': h1s, 'U': case['U'], 'dd': case['dd']}
            bad += ['scan step s=%s (same two-body array as the previous steps): %s' % (sv, b) for b in compare(sub, st, exp, mode)]
        return bad
    if 'convergence_error' in got:
        return []          # permitted outcome
    bad = []
    model = _MODEL['m']
    Hc = numpy.array([[complex(*c) for c in row] for row in got['H']])
    if case.get('kind') == 'fqe' and 'U' in case and 'h1' in case:
        # the matrix the eigenpairs are judged by comes from the MODEL, not from the implementation's own apply
        Hx = _model_matrix(model, case['norb'], case['na'], case['nb'], case['h1'], case['U'], case['dd'])
        if Hx.shape != Hc.shape or float(numpy.abs(Hx - Hc).max()) > 1e-9:
            bad.append('matrix of H assembled through apply differs from the exact one by %.3g (sector n_alpha=%d, n_beta=%d of %d orbitals)'
                       % (float(numpy.abs(Hx - Hc).max()) if Hx.shape == Hc.shape else -1, case['na'], case['nb'], case['norb']))
        if Hx.shape == Hc.shape:
            Hc = Hx.astype(complex)
    if case.get('kind') == 'fqe_sso':
        Hx = _model_matrix_sso(model, case)
        if Hx.shape != Hc.shape or float(numpy.abs(Hx - Hc).max()) > 1e-9:
            bad.append('matrix of the spin-dependent H assembled through apply differs from the exact one by %.3g (sector n_alpha=%d, n_beta=%d of %d orbitals, path %s)'
                       % (float(numpy.abs(Hx - Hc).max()) if Hx.shape == Hc.shape else -1, case['na'], case['nb'], case['norb'], mode))
        if Hx.shape == Hc.shape:
            Hc = Hx.astype(complex)
    if numpy.abs(Hc - Hc.conj().T).max() > 1e-12:
        return ['matrix under test is not Hermitian (harness)']
    cplx = numpy.abs(Hc.imag).max() > 0
    H = _embed(Hc) if cplx else Hc.real
    lams = got['w']
    if any(abs(x) > 1e-9 for x in got['wi']):
        bad.append('complex eigenvalues returned: %s' % got['wi'])
    vs = [numpy.array([complex(*c) for c in v]) for v in got['v']]
    scale = 1 + float(numpy.abs(Hc).sum(axis=1).max())
    delta = 1e-5 * scale
    prev = []
    for k, (lam, v) in enumerate(zip(lams, vs)):
        nv = numpy.linalg.norm(v)
        if abs(nv - 1) > 1e-6:
            bad.append('eigenvector %d is not normalised: %r' % (k, nv))
        # exact (rational) residual of the returned floats
        Fr = lambda z: (Fraction(float(z.real)), Fraction(float(z.imag)))
        n = len(v)
        res2 = Fraction(0)
        lf = Fraction(float(lam))
        for i in range(n):
            re, im = Fraction(0), Fraction(0)
            for j in range(n):
                hr, hi = Fr(Hc[i, j])
                vr, vi = Fr(v[j])
                re += hr * vr - hi * vi
                im += hr * vi + hi * vr
            vr, vi = Fr(v[i])
            re -= lf * vr
            im -= lf * vi
            res2 += re * re + im * im
        if float(res2) > (10 * math.sqrt(1e-8) * scale) ** 2:
            bad.append('residual |Hv - lambda v| of root %d is %.3g (lambda = %r)' % (k, math.sqrt(float(res2)), lam))
        # lower bound certificate on the complement of the previous vectors
        ok, info = certify(model, H, lam, prev, delta)
        if not ok:
            bad.append('no certificate that lambda_%d = %r is the lowest eigenvalue on the complement of the first %d vectors: %s' % (k, lam, k, info))
        if cplx:
            prev.append(numpy.concatenate([v.real, v.imag]))
            prev.append(numpy.concatenate([-v.imag, v.real]))
        else:
            prev.append(v.real)
        if k > 0 and lam < lams[k - 1] - 1e-9:
            bad.append('eigenvalues not ascending')
    return bad


def _guess_is_exact_eigenvector(case):
    """some guess vector (a unit vector e_g: the defaults are e_0 .. e_{2 nroots - 1}) is an exact eigenvector of H,
    i.e. column g of H vanishes off the diagonal"""
    if case.get('kind') != 'mat':
        return False
    n = case['n']
    gs = case.get('guess') or list(range(min(n, 2 * case['nroots'])))
    A, B = case['A'], case['B']
    return any(all(abs(A[i][g]) < 1e-13 and abs(B[i][g]) < 1e-13 for i in range(n) if i != g) for g in gs)


def classify(case, mode, bad, got, exp):
    # F-C18-decoupled-exact-guess: every returned pair IS an eigenpair (no residual / normalisation complaint), but a
    # returned value is not among the lowest, and a guess vector was an exact eigenvector of H (zero residual from the start)
    if bad and all(b.startswith('no certificate') for b in bad) and _guess_is_exact_eigenvector(case):
        return 'F-C18-decoupled-exact-guess'
    return None


def nontrivial(case, exp):
    return True


def case_class(case):
    return case['kind'] + '/' + case.get('mkind', 'restricted')


def shrink(case):
    return []


def sample(case):
    return case


THEOREM_FILES = ['P_C18']
RULE = ('spin-dependent SSO Hamiltonians through davidsonliu_fqe on both code paths (7 orbitals low filling, 4-5 orbitals half filling), judged by the model sector matrix; real symmetric and complex Hermitian integer matrices of dimension 4-10 (complex ones certified through the real '
        'embedding of twice the size) incl. exactly degenerate and near-degenerate (1e-3) low spectra, 1-3 roots, default '
        'guesses; block matrices with a supplied decoupled exact-eigenvector guess between the Ritz start value and the second '
        'eigenvalue (roots change index while iterating); FQE restricted Hamiltonians through davidson_diagonalization. Every returned root gets an exact integer '
        'certificate checked by the extracted Coq checker')
NOT_PROVED = ['the spectral theorem that turns the two quadratic-form facts (lower bound on the complement, Rayleigh quotient '
              'and residual of the returned vector) into the word eigenvalue; statements are over integer vectors (rational '
              'by scaling)']
TRUSTED_EXTRA = ['certificate construction (float Cholesky, rounding, the integer matrix N = S(H_S - sigma I) + sum mu v v^T) is '
                 'harness code; only the CHECK and its soundness are Coq']
