"""C19 — Brillouin/ACSE residuals and generator factorisations.
Exact regime: Gaussian-integer states and integer tensors make every residual an exact
(Gaussian) integer.
* get_acse_residual_fqe(wf, H, norb)[p,q,r,s]  vs  <psi| [p^ q^ r s, H] |psi>   (model m_comm4);
* two_rdo_commutator(A, tpdm, d3)[p,q,r,s]      vs  <psi| [p^ q^ r s, A] |psi>   with the EXACT
  spin-orbital 2- and 3-RDMs from the model as inputs (so only the contraction is under test),
  and the two evaluation routes against each other;
* doubles_factorization_svd / _takagi: the returned one-body operators are normal and their
  squares (+ reported remainder) reassemble the generator (numpy on the returned floats)."""
import itertools
import math

import fqeio
from props import c01

PID = 'C19'
MODES = ['C']
COMPARE_ARITY = 4


def gen_cases(rng, tier):
    cases = []
    for _ in range(8 if tier == 'quick' else 50):
        norb = 2
        na, nb = rng.randint(0, norb), rng.randint(0, norb)
        keys = [(na + nb, na - nb)]
        ham = c01.gen_ham(rng, 'restricted', 2, norb, 'sparse', True, True)
        cases.append({'kind': 'acse', 'norb': norb, 'n': na + nb, 'sz': na - nb,
                      'vec': fqeio.random_state(rng, norb, keys, density=0.9, amp=2), 'ham': ham})
    for _ in range(8 if tier == 'quick' else 40):
        norb = 2
        # mostly >= 3 electrons: in a 2-electron sector the 3-RDM vanishes and 8 of the 12 contractions are idle;
        # unstructured tensors A (no permutational symmetry at all)
        na, nb = rng.choice([(2, 1), (1, 2), (2, 2), (2, 1), (1, 2), (1, 1), (2, 0)])
        keys = [(na + nb, na - nb)]
        nso = 2 * norb
        ents = []
        for _k in range(rng.randint(2, 8)):
            ix = [rng.randrange(nso) for _ in range(4)]
            ents.append([ix, rng.randint(-2, 2) or 1, rng.randint(-2, 2)])
        cases.append({'kind': 'rdo', 'norb': norb, 'n': na + nb, 'sz': na - nb,
                      'vec': fqeio.random_state(rng, norb, keys, density=0.9, amp=2), 'A': ents})
    # the specialised contractions (generator antisymmetric + Hermitian / anti-Hermitian), the one-body commutator and the
    # wavefunction route of the gradient: same oracle <psi|[X, A]|psi>, generators with the symmetry each routine states
    # (complex, with non-zero "diagonal" entries A[p,q,q,p]), spin-conserving so that the wavefunction route applies them
    for k in range(9 if tier == 'quick' else 36):
        norb = 2
        na, nb = rng.choice([(2, 1), (1, 2), (1, 1), (2, 2), (1, 1), (2, 0)])
        nso = 2 * norb
        fn = ['symm', 'antisymm', 'one_symm', 'grad', 'grad', 'antisymm'][k % 6]
        herm = fn in ('symm', 'one_symm')
        T = {}
        for _k in range(rng.randint(2, 6)):
            while True:
                ix = [rng.randrange(nso) for _ in range(4)]
                if ix[0] != ix[1] and ix[2] != ix[3] and sorted(q % 2 for q in ix[:2]) == sorted(q % 2 for q in ix[2:]):
                    break
            T[tuple(ix)] = complex(rng.randint(-2, 2) or 1, rng.randint(-2, 2))
        if rng.random() < 0.7:      # a diagonal entry A[p,q,q,p]
            p_, q_ = rng.sample(range(nso), 2)
            T[(p_, q_, q_, p_)] = complex(rng.randint(-2, 2), rng.randint(1, 2))
        A = {}
        for (p_, q_, r_, s_), v in T.items():
            for ix, sg in (((p_, q_, r_, s_), 1), ((q_, p_, r_, s_), -1), ((p_, q_, s_, r_), -1), ((q_, p_, s_, r_), 1)):
                A[ix] = A.get(ix, 0) + sg * v
                cix = (ix[3], ix[2], ix[1], ix[0])
                A[cix] = A.get(cix, 0) + (sg * v.conjugate() if herm else -sg * v.conjugate())
        ents = [[list(ix), int(v.real), int(v.imag)] for ix, v in sorted(A.items()) if v != 0]
        if not ents:
            continue
        keys = [(na + nb, na - nb)]
        cases.append({'kind': 'rdo', 'fn': fn, 'norb': norb, 'n': na + nb, 'sz': na - nb,
                      'vec': fqeio.random_state(rng, norb, keys, density=0.9, amp=2), 'A': ents})
    # the density matrices themselves, taken from a wavefunction object that is UPDATED IN PLACE between two requests
    # (ax_plus_y, +=, scale, conj): the spin-orbital 1-, 2- and 3-RDM handed to the contraction routines must be those
    # of the current state (exact: Gaussian-integer states)
    for k in range(6 if tier == 'quick' else 30):
        norb = 2
        na, nb = rng.choice([(1, 1), (2, 1), (1, 2), (2, 2), (1, 1), (2, 1)])
        keys = [(na + nb, na - nb)]
        cases.append({'kind': 'fqerdm', 'norb': norb, 'n': na + nb, 'sz': na - nb,
                      'vec': fqeio.random_state(rng, norb, keys, density=0.9, amp=2),
                      'vec1': fqeio.random_state(rng, norb, keys, density=0.9, amp=2),
                      'c': [rng.randint(-2, 2) or 1, rng.randint(-2, 2)],
                      'update': ['axpy', 'iadd', 'scale', 'conj', 'axpy', 'iadd'][k % 6]})
    # three orbitals: sectors in which every spin block of the 3-RDM (aaa, aab, abb, bbb) is populated - three electrons of one
    # spin need three orbitals; the 3-RDM is compared on both same-spin blocks completely and on a sample of the rest
    shapes3 = [(1, 3), (3, 1), (2, 3), (3, 2), (0, 3), (3, 0)]
    for k, (na, nb) in enumerate(shapes3 if tier != 'quick' else shapes3[:4]):
        norb, nso = 3, 6
        keys = [(na + nb, na - nb)]
        same = [ix for ix in itertools.product(range(nso), repeat=6) if len(set(q % 2 for q in ix)) == 1]
        flat = lambda ix: sum(q * nso ** (5 - i) for i, q in enumerate(ix))
        sample = sorted(set([flat(ix) for ix in same] + [rng.randrange(nso ** 6) for _ in range(500)]))
        cases.append({'kind': 'fqerdm', 'norb': norb, 'n': na + nb, 'sz': na - nb,
                      'vec': fqeio.random_state(rng, norb, keys, density=0.9, amp=2),
                      'vec1': fqeio.random_state(rng, norb, keys, density=0.9, amp=2),
                      'c': [rng.randint(-2, 2) or 1, rng.randint(-2, 2)],
                      'update': ['axpy', 'iadd', 'scale', 'conj', 'axpy', 'iadd'][k % 6], 'd3_sample': sample})
    # factorisation cases need no model query (milliseconds each): many of them, because the singular values of an
    # antisymmetric generator come in degenerate pairs and defects in the degenerate-subspace handling need a
    # numerical coincidence (fix d5ddbdb: about 1 generator in 50 at n = 3)
    for _ in range(150 if tier == 'quick' else 600):
        cases.append({'kind': 'factor', 'n': rng.randint(2, 4), 'seed': rng.randrange(10 ** 6),
                      'method': rng.choice(['svd', 'takagi', 'takagi']), 'cutoff': rng.choice([None, None, None, 2])})
    return cases


# ---------------------------------------------------------------- implementation
def run_impl(case, mode):
    import numpy
    import fqe
    from fqe.algorithm import brillouin_calculator as bc
    if case['kind'] == 'acse':
        norb = case['norb']
        w = fqeio.make_wfn(norb, 'ns', case['n'], case['sz'], case['vec'])
        ham = c01.build_ham(case['ham'], norb)
        r = bc.get_acse_residual_fqe(w, ham, norb)
        return {'re': numpy.real(r).reshape(-1).tolist(), 'im': numpy.imag(r).reshape(-1).tolist(), 'shape': list(r.shape)}
    if case['kind'] == 'fqerdm':
        norb = case['norb']
        key = (case['n'], case['sz'])
        w = fqeio.make_wfn(norb, 'ns', case['n'], case['sz'], case['vec'])
        w1 = fqeio.make_wfn(norb, 'ns', case['n'], case['sz'], case['vec1'])
        sec = w.sector(key)
        sec.get_openfermion_rdms()
        sec.get_three_pdm()                       # first request, on the initial state
        c = complex(*case['c'])
        if case['update'] == 'axpy':
            w.ax_plus_y(c, w1)
        elif case['update'] == 'iadd':
            w += w1
        elif case['update'] == 'scale':
            w.scale(c)
        else:
            w.sector(key).conj()
        sec = w.sector(key)
        opdm, tpdm = sec.get_openfermion_rdms()
        d3 = sec.get_three_pdm()
        flat = lambda t: [[float(z.real), float(z.imag)] for z in numpy.asarray(t).reshape(-1)]
        return {'opdm': flat(opdm), 'tpdm': flat(tpdm), 'd3': flat(d3), 'state': fqeio.read_state(w)}
    if case['kind'] == 'rdo':
        nso = 2 * case['norb']
        A = numpy.zeros((nso,) * 4, dtype=complex)
        for ix, re, im in case['A']:
            A[tuple(ix)] += complex(re, im)
        tp = numpy.array([complex(*z) for z in case['tpdm']]).reshape((nso,) * 4)
        d3 = numpy.array([complex(*z) for z in case['d3']]).reshape((nso,) * 6)
        fn = case.get('fn', 'plain')
        if fn == 'plain':
            r = bc.two_rdo_commutator(A, tp, d3)
        elif fn == 'symm':
            r = bc.two_rdo_commutator_symm(A, tp, d3)
        elif fn == 'antisymm':
            r = bc.two_rdo_commutator_antisymm(A, tp, d3)
        elif fn == 'one_symm':
            r = bc.one_rdo_commutator_symm(A, tp)
        else:
            w = fqeio.make_wfn(case['norb'], 'ns', case['n'], case['sz'], case['vec'])
            r = bc.get_tpdm_grad_fqe(w, A, case['norb'])
        return {'re': numpy.real(r).reshape(-1).tolist(), 'im': numpy.imag(r).reshape(-1).tolist(), 'shape': list(r.shape)}
    if case['kind'] == 'factor':
        from fqe.algorithm import generalized_doubles_factorization as gdf
        n = case['n']
        rs = numpy.random.RandomState(case['seed'])
        # antisymmetric (in p,q and r,s) anti-Hermitian generator: G[p,q,r,s] = T - T^dagger,  T antisymmetrised
        if case['method'] == 'svd':
            T = rs.randint(-2, 3, size=(n,) * 4).astype(float)
        else:
            T = rs.randint(-2, 3, size=(n,) * 4) + 1j * rs.randint(-2, 3, size=(n,) * 4)
        T = T - T.transpose(1, 0, 2, 3) - T.transpose(0, 1, 3, 2) + T.transpose(1, 0, 3, 2)
        G = T - T.transpose(3, 2, 1, 0).conj()
        cutoff = case['cutoff']
        try:
            if case['method'] == 'svd':
                ul, vl, resid, ul_ops, vl_ops, one_body_op = gdf.doubles_factorization_svd(G.real, eig_cutoff=cutoff)
                mats = []
                for u_, v_ in zip(ul, vl):
                    S_, D_ = u_ + v_, u_ - v_
                    mats += [(1 / 16, S_ + 1j * S_.conj().T), (1 / 16, S_ - 1j * S_.conj().T),
                             (-1 / 16, D_ + 1j * D_.conj().T), (-1 / 16, D_ - 1j * D_.conj().T)]
            else:
                Zlp, Zlm, Zl, resid = gdf.doubles_factorization_takagi(G, eig_cutoff=cutoff)
                mats = [(0.25, Z) for Z in Zlp] + [(0.25, Z) for Z in Zlm]
        except Exception as e:  # noqa
            return {'fexc': type(e).__name__ + ':' + str(e)[:120]}
        nerr = 0.0
        two = numpy.zeros((n,) * 4, dtype=complex)
        one = numpy.array(resid, dtype=complex).copy()
        for c_, Y in mats:
            Y = numpy.asarray(Y)
            nerr = max(nerr, float(numpy.abs(Y @ Y.conj().T - Y.conj().T @ Y).max()))
            # (sum Y_ps p^ s)(sum Y_qr q^ r) = sum (Y Y)_pr p^ r + sum Y_ps Y_qr p^ q^ r s
            two += c_ * numpy.einsum('ps,qr->pqrs', Y, Y)
            one += c_ * (Y @ Y)

        def asym(T_):
            return T_ - T_.transpose(1, 0, 2, 3) - T_.transpose(0, 1, 3, 2) + T_.transpose(1, 0, 3, 2)
        Gref = G.real if case['method'] == 'svd' else G
        err2 = float(numpy.abs(asym(two) - asym(Gref)).max())
        err1 = float(numpy.abs(one).max())
        return {'normal_err': nerr, 'count': len(mats), 'err2': err2, 'err1': err1, 'G_norm': float(numpy.abs(G).max()),
                'truncated': cutoff is not None}
    raise ValueError(case['kind'])


# ---------------------------------------------------------------- model
def _tensor(model, cmd, norb, extra, bra, ket):
    t = model.q(cmd, norb, *extra, *fqeio.vec_tokens(bra), *fqeio.vec_tokens(ket))
    return [int(x) for x in t]


def expected(model, case):
    if case['kind'] == 'acse':
        norb = case['norb']
        v = _tensor(model, 'COMM4', norb, c01.ham_tokens(case['ham'], norb), case['vec'], case['vec'])
        return {'re': v[0::2], 'im': v[1::2]}
    if case['kind'] == 'fqerdm':
        norb = case['norb']
        nso = 2 * norb
        c = complex(*case['c'])
        v0 = {(a, b): complex(re, im) for a, b, re, im in case['vec']}
        v1 = {(a, b): complex(re, im) for a, b, re, im in case['vec1']}
        if case['update'] == 'axpy':
            v2 = {k: v0.get(k, 0) + c * v1.get(k, 0) for k in set(v0) | set(v1)}
        elif case['update'] == 'iadd':
            v2 = {k: v0.get(k, 0) + v1.get(k, 0) for k in set(v0) | set(v1)}
        elif case['update'] == 'scale':
            v2 = {k: c * z for k, z in v0.items()}
        else:
            v2 = {k: z.conjugate() for k, z in v0.items()}
        vec2 = [[a, b, int(round(z.real)), int(round(z.imag))] for (a, b), z in sorted(v2.items()) if z != 0]

        def rdm2(pat, sample=None):
            vals = []
            if not vec2:
                return [[0, 0]] * (nso ** len(pat) if sample is None else len(sample))
            if sample is None:
                tuples = itertools.product(range(nso), repeat=len(pat))
            else:
                tuples = [tuple((f // nso ** (len(pat) - 1 - i)) % nso for i in range(len(pat))) for f in sample]
            for ix in tuples:
                ops = []
                for q, d in zip(ix, pat):
                    ops += [q, d]
                t = model.q('MATELH', norb, 1, 'T', len(pat), *ops, 1, 0, *fqeio.vec_tokens(vec2), *fqeio.vec_tokens(vec2))
                vals.append([int(t[0]), int(t[1])])
            return vals
        return {'vec2': vec2, 'opdm': rdm2([1, 0]), 'tpdm': rdm2([1, 1, 0, 0]), 'd3': rdm2([1, 1, 1, 0, 0, 0], case.get('d3_sample'))}
    if case['kind'] == 'rdo':
        norb = case['norb']
        nso = 2 * norb
        toks = [len(case['A'])]
        for ix, re, im in case['A']:
            toks += ['T', 4, ix[0], 1, ix[1], 1, ix[2], 0, ix[3], 0, re, im]
        if case.get('fn') == 'one_symm':
            # <psi|[p^ q, A]|psi> through the general matrix-element oracle: sum_t c_t (<p^ q . t> - <t . p^ q>)
            v = []
            for p_ in range(nso):
                for q_ in range(nso):
                    ents = []
                    for ix, re, im in case['A']:
                        ents += ['T', 6, p_, 1, q_, 0, ix[0], 1, ix[1], 1, ix[2], 0, ix[3], 0, re, im]
                        ents += ['T', 6, ix[0], 1, ix[1], 1, ix[2], 0, ix[3], 0, p_, 1, q_, 0, -re, -im]
                    t = model.q('MATELH', norb, 2 * len(case['A']), *ents, *fqeio.vec_tokens(case['vec']), *fqeio.vec_tokens(case['vec']))
                    v += [int(t[0]), int(t[1])]
        else:
            v = _tensor(model, 'COMM4', norb, toks, case['vec'], case['vec'])
        # exact spin-orbital RDMs in OpenFermion mode order as inputs of the implementation
        def rdm(pat):
            vals = []
            for ix in itertools.product(range(nso), repeat=len(pat)):
                ops = []
                for q, d in zip(ix, pat):
                    ops += [q, d]
                t = model.q('MATELH', norb, 1, 'T', len(pat), *ops, 1, 0, *fqeio.vec_tokens(case['vec']), *fqeio.vec_tokens(case['vec']))
                vals.append([int(t[0]), int(t[1])])
            return vals
        case['tpdm'] = rdm([1, 1, 0, 0])
        case['d3'] = rdm([1, 1, 1, 0, 0, 0])
        return {'re': v[0::2], 'im': v[1::2]}
    return {}


def compare(case, got, exp, mode):
    if 'exc' in got or 'crash' in got:
        return ['raised %s: %s' % (got.get('exc', 'CRASH'), str(got.get('msg'))[:200])]
    bad = []
    if case['kind'] == 'fqerdm':
        gs = {(a, b): (re, im) for a, b, re, im in got['state']}
        es = {(a, b): (re, im) for a, b, re, im in exp['vec2']}
        if any(abs(gs.get(k, (0, 0))[0] - es.get(k, (0, 0))[0]) + abs(gs.get(k, (0, 0))[1] - es.get(k, (0, 0))[1]) > 1e-9 for k in set(gs) | set(es)):
            return ['in-place update %s did not produce the expected state (harness / C08 territory)' % case['update']]
        for name in ('opdm', 'tpdm', 'd3'):
            gl = got[name]
            if name == 'd3' and case.get('d3_sample') is not None:
                if len(gl) != (2 * case['norb']) ** 6:
                    bad.append('d3 has %d entries' % len(gl))
                    continue
                gl = [gl[f] for f in case['d3_sample']]
                got = dict(got, d3=gl)
            for k, (g, e) in enumerate(zip(gl, exp[name])):
                if abs(g[0] - e[0]) > 1e-9 * (1 + abs(e[0])) or abs(g[1] - e[1]) > 1e-9 * (1 + abs(e[1])):
                    bad.append('%s of the state after the in-place update (%s), flat index %d: %r%+rj, exact %d%+dj' % (name, case['update'], k, g[0], g[1], e[0], e[1]))
                    break
            if len(got[name]) != len(exp[name]):
                bad.append('%s has %d entries, expected %d' % (name, len(got[name]), len(exp[name])))
        return bad
    if case['kind'] in ('acse', 'rdo'):
        nso = 2 * case['norb']
        arity = 2 if case.get('fn') == 'one_symm' else 4
        if got['shape'] != [nso] * arity:
            return ['tensor shape %s' % got['shape']]
        for k, (gr, gi, er, ei) in enumerate(zip(got['re'], got['im'], exp['re'], exp['im'])):
            if abs(gr - er) > 1e-9 * (1 + abs(er)) or abs(gi - ei) > 1e-9 * (1 + abs(ei)):
                ix = [(k // nso ** (arity - 1 - a)) % nso for a in range(arity)]
                name = 'get_acse_residual_fqe' if case['kind'] == 'acse' else \
                    {'plain': 'two_rdo_commutator', 'symm': 'two_rdo_commutator_symm', 'antisymm': 'two_rdo_commutator_antisymm',
                     'one_symm': 'one_rdo_commutator_symm', 'grad': 'get_tpdm_grad_fqe'}[case.get('fn', 'plain')]
                bad.append('%s%s = %r%+rj, <psi|[%s, A]|psi> = %d%+dj' % (name, ix, gr, gi, 'p^ q' if arity == 2 else 'p^ q^ r s', er, ei))
                break
        # stated antisymmetries of the exact tensor (sanity of the oracle itself)
        return bad
    if case['kind'] == 'factor':
        if 'fexc' in got:
            bad.append('factorisation raised %s' % got['fexc'])
            return bad
        if got['normal_err'] > 1e-8 * (1 + got['G_norm']) ** 2:
            bad.append('returned one-body operators are not normal: |[Y, Y^dagger]| = %.3g' % got['normal_err'])
        if not got['truncated']:
            if got['err2'] > 1e-8 * (1 + got['G_norm']):
                bad.append('squares of the returned normal operators do not sum back to the generator: %.3g' % got['err2'])
            if got['err1'] > 1e-8 * (1 + got['G_norm']):
                bad.append('one-body remainder does not cancel the one-body part of the squares: %.3g' % got['err1'])
        return bad
    return bad


def classify(case, mode, bad, got, exp):
    return None


def nontrivial(case, exp):
    if case['kind'] == 'fqerdm':
        return len(set(map(tuple, exp['tpdm']))) >= 3
    if case['kind'] in ('acse', 'rdo'):
        return len(set(zip(exp['re'], exp['im'])) - {(0, 0)}) >= 2
    return True


def case_class(case):
    return case['kind'] + ('/' + case['method'] if 'method' in case else '') + ('/' + case['fn'] if 'fn' in case else '') + ('/' + case['update'] if 'update' in case else '')


def shrink(case):
    return []


def sample(case):
    c = {k: v for k, v in case.items() if k not in ('tpdm', 'd3', 'vec1', 'd3_sample')}
    if 'vec' in c:
        c['vec'] = c['vec'][:3]
    return c


THEOREM_FILES = ['P_C19']
RULE = ('three-orbital sectors (1,3), (3,1), (2,3), (3,2) [thorough: + (0,3), (3,0)] for the density matrices (every spin block of the 3-RDM populated); Gaussian-integer states of every sector of 2 orbitals; restricted integer Hamiltonians (ACSE residual) and random '
        'two-body spin-orbital tensors A (commutator contraction fed with the exact 2- and 3-RDMs); random antisymmetric '
        'anti-Hermitian generators (real for SVD, complex for Takagi) with and without cut-off. non-trivial: residual '
        'tensor with >= 2 distinct non-zero entries')
NOT_PROVED = ['routes_agree (apply-and-overlap = RDM contraction) is checked through the common oracle, not proved; '
              'the operator identity behind the factorisations (product of one-body operators = one-body remainder + two-body '
              'part) is a theorem (C19_product_of_one_body_operators); that the returned matrices satisfy the tensor equations is '
              'checked numerically; LAPACK SVD / Takagi iterations are certified only through their output']
