"""C04 — accelerated and reference paths compute the same results.
Every model-backed correspondence of C01/C02/C03/C05/C07/C08/C09 already runs on the
paths C and PY0 against ONE model, so C == PY0 there.  This module adds
(a) the remaining switch moments: PY1 (flag flipped after import: dynamic call sites
    only) and MIX (object built under one setting, used under the other, both
    directions), on samples of the C01/C02/C03/C07 generators, against the model;
(b) direct C-vs-Python differences, in one process, on inputs beyond the exact model's
    comfort: one/two-electron sectors with norb in {30..34} and operators touching the
    top orbitals (32-bit vs 64-bit mask handling)."""
import importlib

import fqeio
from props import c01, c02, c03, c07

PID = 'C04'
MODES = ['PY1', 'MIXC2P', 'MIXP2C']
COMPARE_ARITY = 4
SUBS = {'c01': c01, 'c02': c02, 'c03': c03, 'c07': c07}


def gen_cases(rng, tier):
    cases = []
    frac = {'c01': 60, 'c02': 25, 'c03': 40, 'c07': 30} if tier == 'quick' else {'c01': 300, 'c02': 100, 'c03': 150, 'c07': 100}
    for name, n in frac.items():
        sub = SUBS[name].gen_cases(rng, 'quick')
        rng.shuffle(sub)
        for c in sub[:n]:
            cases.append({'kind': 'sub', 'sub': name, 'case': c})
    # direct diffs at large orbital counts
    for norb in ([31, 32, 33] if tier == 'quick' else [30, 31, 32, 33, 34]):
        for (na, nb) in ((1, 0), (1, 1), (2, 0), (0, 2)):
            for _ in range(2):
                top = [norb - 1, norb - 2, 31 % norb, 32 % norb, 30 % norb, 0]
                i, j = rng.sample(top, 2)
                s = 0 if nb == 0 else (1 if na == 0 else rng.randrange(2))
                cases.append({'kind': 'direct', 'norb': norb, 'na': na, 'nb': nb, 'ops': [[2 * i + s, 1], [2 * j + s, 0]],
                              'seed': rng.randrange(10 ** 6), 'modes': ['PY1']})
    # qubit conversion and sector detection, both paths in one process: a dominant sector next to weak ones whose
    # amplitudes sit on a decade grid, thresholds on the same grid (below, at, between and above the weak amplitudes)
    for _ in range(40 if tier == 'quick' else 300):
        norb = rng.randint(1, 3)
        nq = 2 * norb
        st = []
        for ix in range(1 << nq):
            if rng.random() < 0.4:
                mag = 10.0 ** (-rng.randint(0, 6))
                ph = rng.choice([(1, 0), (0, 1), (0.6, 0.8), (-0.8, 0.6), (0.6, -0.8)])
                st.append([ix, mag * ph[0], mag * ph[1]])
        st.append([rng.randrange(1 << nq), 1.0, 0.0])
        st = [list(x) for x in {x[0]: x for x in st}.values()]
        thr = rng.choice([0.5, 2.0, 3.0]) * 10.0 ** (-rng.randint(1, 6))
        cases.append({'kind': 'cirqpair', 'norb': norb, 'state': st, 'thr': thr,
                      'code': rng.choice([None, None, 'jw']), 'modes': ['PY1']})
    return cases


def _flip(flag):
    import fqe.settings
    fqe.settings.use_accelerated_code = flag


def run_impl(case, mode):
    import numpy
    import fqe
    import fqe.settings
    if case['kind'] == 'sub':
        sub = SUBS[case['sub']]
        orig = fqeio.make_wfn
        try:
            if mode == 'PY1':
                _flip(False)
            elif mode in ('MIXC2P', 'MIXP2C'):
                build_flag = (mode == 'MIXC2P')
                _flip(build_flag)
                pending = {'n': 0}

                def wrapped(*a, **kw):
                    _flip(build_flag)
                    w = orig(*a, **kw)
                    _flip(not build_flag)
                    return w
                fqeio.make_wfn = wrapped
            return sub.run_impl(case['case'], mode)
        finally:
            fqeio.make_wfn = orig
            _flip(True)
    if case['kind'] == 'paths':
        # everything a path computes on one few-electron sector with many orbitals (run once per path, in its own
        # process, by extra_checks; compared there)
        from fqe import fci_graph
        norb, na, nb = case['norb'], case['na'], case['nb']
        rs = numpy.random.RandomState(case['seed'])
        g = fci_graph.FciGraph(na, nb, norb)
        res = {'astr': [str(int(x)) for x in g.string_alpha_all()], 'bstr': [str(int(x)) for x in g.string_beta_all()]}
        res['amap'] = {'%d,%d' % k: sorted([[int(a), int(b), int(c)] for a, b, c in v]) for k, v in g._alpha_map.items() if len(v)}
        res['bmap'] = {'%d,%d' % k: sorted([[int(a), int(b), int(c)] for a, b, c in v]) for k, v in g._beta_map.items() if len(v)}
        w = fqe.Wavefunction([[na + nb, na - nb, norb]])
        shape = w.sector((na + nb, na - nb)).coeff.shape
        data = (rs.randint(-3, 4, size=shape) + 1j * rs.randint(-3, 4, size=shape)).astype(numpy.complex128)
        w.set_wfn(strategy='from_data', raw_data={(na + nb, na - nb): data})
        h1 = (rs.randint(-2, 3, size=(norb, norb)) + 1j * rs.randint(-2, 3, size=(norb, norb))).astype(numpy.complex128)
        out = w.apply(fqe.get_restricted_hamiltonian((h1,))).sector((na + nb, na - nb)).coeff
        res['apply'] = [[float(z.real), float(z.imag)] for z in out.reshape(-1)]
        r1 = numpy.asarray(w.rdm('i^ j'))
        res['rdm1'] = [[float(z.real), float(z.imag)] for z in r1.reshape(-1)]
        return res
    if case['kind'] == 'paths_set':
        # the sector-linking annihilation maps of a graph set, for every difference of electron numbers it can hold
        from fqe import fci_graph_set
        n = case['norb']
        params = [[k, k, n] for k in range(n + 1)]
        gs = fci_graph_set.FciGraphSet(2 * n, 2 * n, params)
        out = {}
        for k in range(n + 1):
            g = gs._dataset[(k, 0)]
            for (dna, dnb), (amap, bmap) in g._fci_map.items():
                out['%d:%d,%d:a' % (k, dna, dnb)] = {','.join(str(int(x)) for x in key): sorted([[int(a), int(b), int(c)] for a, b, c in v])
                                                    for key, v in amap.items()}
                out['%d:%d,%d:b' % (k, dna, dnb)] = {','.join(str(int(x)) for x in key): sorted([[int(a), int(b), int(c)] for a, b, c in v])
                                                    for key, v in bmap.items()}
        return {'fci_map': out}
    if case['kind'] == 'direct':
        from openfermion import FermionOperator
        norb, na, nb = case['norb'], case['na'], case['nb']
        rs = numpy.random.RandomState(case['seed'])
        _flip(True)
        w = fqe.Wavefunction([[na + nb, na - nb, norb]])
        sec = w.sector((na + nb, na - nb))
        shape = sec.coeff.shape
        data = (rs.randint(-3, 4, size=shape) + 1j * rs.randint(-3, 4, size=shape)).astype(numpy.complex128)
        w.set_wfn(strategy='from_data', raw_data={(na + nb, na - nb): data})
        ops = case['ops']
        op = FermionOperator(tuple((q, d) for q, d in ops), 1.5) + FermionOperator(tuple((q, 1 - d) for q, d in reversed(ops)), 1.5)
        ham = fqe.get_sparse_hamiltonian(op)
        out = {}
        for label, flag in (('C', True), ('PY', False)):
            _flip(flag)
            try:
                ev = w.time_evolve(0.3, ham)
                ap = w.apply(ham)
                out[label] = {'ev': ev.sector((na + nb, na - nb)).coeff.copy(), 'ap': ap.sector((na + nb, na - nb)).coeff.copy()}
            except Exception as e:  # noqa
                out[label] = {'exc': type(e).__name__ + ':' + str(e)[:80]}
        _flip(True)
        res = {}
        if 'exc' in out['C'] or 'exc' in out['PY']:
            res['exc_pair'] = [out['C'].get('exc'), out['PY'].get('exc')]
        else:
            res['ev_diff'] = float(numpy.abs(out['C']['ev'] - out['PY']['ev']).max())
            res['ap_diff'] = float(numpy.abs(out['C']['ap'] - out['PY']['ap']).max())
            res['ev_norm'] = [float(numpy.linalg.norm(out['C']['ev'])), float(numpy.linalg.norm(out['PY']['ev'])), float(numpy.linalg.norm(data))]
        return res
    if case['kind'] == 'cirqpair':
        norb = case['norb']
        st = numpy.zeros(1 << (2 * norb), dtype=numpy.complex128)
        for ix, re, im in case['state']:
            st[ix] = complex(re, im)
        code = c07._code(case['code'], 2 * norb)
        out = {}
        for label, flag in (('C', True), ('PY', False)):
            _flip(flag)
            try:
                w = fqe.from_cirq(st.copy(), case['thr'], code) if code is not None else fqe.from_cirq(st.copy(), case['thr'])
                back = fqe.to_cirq(w, code) if code is not None else fqe.to_cirq(w)
                out[label] = {'keys': sorted([int(a), int(b)] for a, b in w.sectors()), 'amps': fqeio.read_state(w),
                              'back': [[int(i), float(back[i].real), float(back[i].imag)] for i in numpy.nonzero(back)[0]]}
            except Exception as e:  # noqa
                out[label] = {'exc': type(e).__name__ + ':' + str(e)[:80]}
        _flip(True)
        return {'pair': out}
    raise ValueError(case['kind'])


def extra_checks(bdir, model, rng, tier, stats):
    """C vs full-Python path, each in its own process, on few-electron sectors with 33-64 orbitals: string tables,
    excitation maps, dense one-body apply and the 1-RDM must agree exactly (integer data)"""
    import os
    import core
    seed = int(os.environ.get('VERIF_SEED', '0') or 0)
    r = core.rng_for(seed, PID + 'paths')
    shapes = [(34, 2, 0), (36, 2, 1), (63, 2, 0)]
    if tier != 'quick':
        shapes += [(40, 3, 0), (33, 2, 2), (64, 1, 2), (35, 3, 1), (48, 2, 0), (41, 0, 3), (56, 2, 0)]
    cases = [{'kind': 'paths', 'norb': n, 'na': a, 'nb': b, 'seed': r.randrange(10 ** 6)} for n, a, b in shapes]
    rc = core.run_impl(bdir, 'c04', cases, 'C', timeout=1500)
    rp = core.run_impl(bdir, 'c04', cases, 'PY0', timeout=1500)
    out = []
    for c, a, b in zip(cases, rc, rp):
        stats['evaluations'] += 2
        where = '(norb,na,nb)=(%d,%d,%d)' % (c['norb'], c['na'], c['nb'])
        if not a or not b or 'astr' not in a or 'astr' not in b:
            out.append(('one path failed on %s: C %s / Python %s' % (where, str(a)[:150], str(b)[:150]),
                        {'property': PID, 'case': c, 'C': a, 'PY0': b}, None))
            continue
        for key in ('astr', 'bstr', 'amap', 'bmap'):
            if a[key] != b[key]:
                detail = ''
                if isinstance(a[key], dict):
                    diff = sorted(k for k in set(a[key]) | set(b[key]) if a[key].get(k) != b[key].get(k))
                    detail = ': %d (i,j) pairs differ, first %s: C %s / Python %s' % (len(diff), diff[0], str(a[key].get(diff[0]))[:80], str(b[key].get(diff[0]))[:80])
                out.append(('%s differs between the C and the Python path on %s%s' % (key, where, detail),
                            {'property': PID, 'case': c, 'table': key, 'how': 'run harness/props/c04.py:run_impl(case) under modes C and PY0'}, None))
                break
        else:
            for key in ('apply', 'rdm1'):
                d = max([abs(x[0] - y[0]) + abs(x[1] - y[1]) for x, y in zip(a[key], b[key])] + [0.0])
                if d > 1e-9 or len(a[key]) != len(b[key]):
                    out.append(('%s differs between the C and the Python path on %s by %.3g' % (key, where, d),
                                {'property': PID, 'case': c, 'quantity': key}, None))
    # sector-linking maps of graph sets (differences of 1 .. norb electrons): only differences <= 2 are used by the
    # library's own kernels, all of them are public through FciGraphSet / find_mapping
    scases = [{'kind': 'paths_set', 'norb': n} for n in ((4, 5) if tier == 'quick' else (3, 4, 5, 6, 7))]
    sc = core.run_impl(bdir, 'c04', scases, 'C', timeout=1500)
    sp = core.run_impl(bdir, 'c04', scases, 'PY0', timeout=1500)
    for c, a, b in zip(scases, sc, sp):
        stats['evaluations'] += 2
        if not a or not b or 'fci_map' not in a or 'fci_map' not in b:
            out.append(('one path failed on the graph set of %d orbitals: C %s / Python %s' % (c['norb'], str(a)[:150], str(b)[:150]),
                        {'property': PID, 'case': c, 'C': a, 'PY0': b}, None))
            continue
        diff = sorted(k for k in set(a['fci_map']) | set(b['fci_map']) if a['fci_map'].get(k) != b['fci_map'].get(k))
        if diff:
            k0 = diff[0]
            ka = a['fci_map'].get(k0, {})
            kb = b['fci_map'].get(k0, {})
            ops = sorted(o for o in set(ka) | set(kb) if ka.get(o) != kb.get(o))
            out.append(('sector-linking map (electrons:dn_alpha,dn_beta:spin) %s differs between the C and the Python path on %d orbitals '
                        '(%d maps differ), operators %s: C %s / Python %s' % (k0, c['norb'], len(diff), ops[0], str(ka.get(ops[0]))[:90], str(kb.get(ops[0]))[:90]),
                        {'property': PID, 'case': c, 'map': k0, 'how': 'run harness/props/c04.py:run_impl(case) under modes C and PY0'}, None))
    _COV['path_pairs'] = len(cases) + len(scases)
    return out[:6]


_COV = {}


def extra_coverage():
    return dict(_COV)


def expected(model, case):
    if case['kind'] == 'sub':
        return SUBS[case['sub']].expected(model, case['case'])
    return {}


def compare(case, got, exp, mode):
    if case['kind'] == 'sub':
        sub = SUBS[case['sub']]
        bad = sub.compare(case['case'], got, exp, mode)
        return ['[%s via %s] %s' % (mode, case['sub'], b) for b in bad]
    if 'exc' in got or 'crash' in got:
        return ['raised %s: %s' % (got.get('exc', 'CRASH'), str({k: got[k] for k in got if k != 'tb'})[:300])]
    bad = []
    if case['kind'] == 'cirqpair':
        c, p = got['pair']['C'], got['pair']['PY']
        if ('exc' in c) != ('exc' in p):
            return ['CIRQ one path raised, the other answered: C %s / Python %s' % (c.get('exc'), p.get('exc'))]
        if 'exc' in c:
            return bad
        if c['keys'] != p['keys']:
            bad.append('CIRQ from_cirq(thresh=%g) finds sectors %s on the C path and %s on the Python path (%d qubits)' %
                       (case['thr'], c['keys'], p['keys'], 2 * case['norb']))
        else:
            # amplitudes up to 1e-7 relative: the reference path goes through OpenFermion operators and a Cirq simulator, which
            # renormalises a state whose norm is within 1.5e-8 of 1 (see DESIGN.md, corrections)
            def close(x, y, what):
                dx = {tuple(e[:-2]): complex(e[-2], e[-1]) for e in x}
                dy = {tuple(e[:-2]): complex(e[-2], e[-1]) for e in y}
                scale = max([abs(v) for v in dx.values()] + [abs(v) for v in dy.values()] + [1e-300])
                for k in set(dx) ^ set(dy):
                    # the reference path drops amplitudes at OpenFermion's EQ_TOLERANCE (1e-8): positions are compared
                    # above 1e-7 of the largest amplitude; the generated amplitudes are >= 1e-6
                    if abs(dx.get(k, dy.get(k))) <= 1e-7 * scale:
                        dx.pop(k, None)
                        dy.pop(k, None)
                if set(dx) != set(dy):
                    return '%s: different non-zero positions on the two paths (%d vs %d)' % (what, len(dx), len(dy))
                worst = max([abs(dx[k] - dy[k]) for k in dx] + [0.0])
                if worst > 1e-7 * scale:
                    return '%s: amplitudes differ between the C and the Python path by %.3g (scale %.3g)' % (what, worst, scale)
                return None
            for msg in (close(c['amps'], p['amps'], 'CIRQ from_cirq(thresh=%g)' % case['thr']),
                        close(c['back'], p['back'], 'CIRQ to_cirq(from_cirq(state, thresh=%g))' % case['thr'])):
                if msg:
                    bad.append(msg)
                    break
        return bad
    if 'exc_pair' in got:
        if (got['exc_pair'][0] is None) != (got['exc_pair'][1] is None):
            bad.append('one path raised, the other answered: C %s / Python %s' % tuple(got['exc_pair']))
        return bad
    if got['ev_diff'] > 1e-10:
        bad.append('MASK32 time_evolve of a single term at norb=%d ops=%s differs between the paths by %.3g (norms C %.6g, Python %.6g, input %.6g)' %
                   (case['norb'], case['ops'], got['ev_diff'], got['ev_norm'][0], got['ev_norm'][1], got['ev_norm'][2]))
    if got['ap_diff'] > 1e-10:
        bad.append('apply of a single term at norb=%d ops=%s differs between the paths by %.3g' % (case['norb'], case['ops'], got['ap_diff']))
    return bad


def classify(case, mode, bad, got, exp):
    if case['kind'] == 'sub':
        sub = SUBS[case['sub']]
        if hasattr(sub, 'classify'):
            inner = [b.split('] ', 1)[1] if '] ' in b else b for b in bad]
            return sub.classify(case['case'], 'PY1' if mode != 'C' else 'C', inner, got, exp)
        return None
    if all(b.startswith('MASK32') for b in bad) and case['norb'] >= 32 and \
            any(q // 2 >= 31 for q, d in case['ops']):
        return 'F-C04-mask-marshalling'
    return None


def nontrivial(case, exp):
    if case['kind'] == 'sub':
        try:
            return SUBS[case['sub']].nontrivial(case['case'], exp)
        except Exception:
            return False
    return True


def case_class(case):
    if case['kind'] == 'sub':
        return case['sub']
    if case['kind'] == 'cirqpair':
        return 'cirqpair/norb%d/%s' % (case['norb'], case['code'])
    return 'direct/norb%d/%d,%d' % (case['norb'], case['na'], case['nb'])


def sample(case):
    if case['kind'] == 'sub':
        s = SUBS[case['sub']]
        return {'sub': case['sub'], 'case': getattr(s, 'sample', lambda c: c)(case['case'])}
    return case


THEOREM_FILES = ['P_C04']
RULE = ('samples of the C01/C02/C03/C07 generators under PY1 (flag flipped after import) and MIX (built under one '
        'setting, used under the other, both directions) against the model; direct C-vs-Python differences of '
        'single-term evolution and apply in 1-2 electron sectors with norb 30..34 and operators on the top orbitals; '
        'string tables, excitation maps, dense one-body apply and 1-RDM of 2-3 electron sectors with 33-64 orbitals computed by '
        'the C path and by the full Python path in separate processes, compared exactly')
NOT_PROVED = ['path equivalence is by nature differential: both paths are tied to one model; the marshalling of bit masks '
              'through 32-bit ints is modelled and proved lossless only below 2^31']
