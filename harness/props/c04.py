"""C04 — accelerated and reference paths compute the same results.
Every model-backed correspondence of C01/C02/C03/C05/C07/C08/C09 already runs on the
paths C and PY0 against ONE model, so C == PY0 there.  This module adds
(a) the remaining switch moments: PY1 (flag flipped after import: dynamic call sites
    only) and MIX (object built under one setting, used under the other, both
    directions), on samples of the C01/C02/C03/C07 generators, against the model;
(b) direct C-vs-Python differences, in one process, on inputs beyond the exact model's
    comfort: one/two-electron sectors with norb in {30..34} and operators touching the
    top orbitals (32-bit vs 64-bit mask handling)."""
import importlib

import fqeio
from props import c01, c02, c03, c07

PID = 'C04'
MODES = ['PY1', 'MIXC2P', 'MIXP2C']
COMPARE_ARITY = 4
SUBS = {'c01': c01, 'c02': c02, 'c03': c03, 'c07': c07}


def gen_cases(rng, tier):
    cases = []
    frac = {'c01': 60, 'c02': 25, 'c03': 40, 'c07': 30} if tier == 'quick' else {'c01': 300, 'c02': 100, 'c03': 150, 'c07': 100}
    for name, n in frac.items():
        sub = SUBS[name].gen_cases(rng, 'quick')
        rng.shuffle(sub)
        for c in sub[:n]:
            cases.append({'kind': 'sub', 'sub': name, 'case': c})
    # direct diffs at large orbital counts
    for norb in ([31, 32, 33] if tier == 'quick' else [30, 31, 32, 33, 34]):
        for (na, nb) in ((1, 0), (1, 1), (2, 0), (0, 2)):
            for _ in range(2):
                top = [norb - 1, norb - 2, 31 % norb, 32 % norb, 30 % norb, 0]
                i, j = rng.sample(top, 2)
                s = 0 if nb == 0 else (1 if na == 0 else rng.randrange(2))
                cases.append({'kind': 'direct', 'norb': norb, 'na': na, 'nb': nb, 'ops': [[2 * i + s, 1], [2 * j + s, 0]],
                              'seed': rng.randrange(10 ** 6), 'modes': ['PY1']})
    return cases


def _flip(flag):
    import fqe.settings
    fqe.settings.use_accelerated_code = flag


def run_impl(case, mode):
    import numpy
    import fqe
    import fqe.settings
    if case['kind'] == 'sub':
        sub = SUBS[case['sub']]
        orig = fqeio.make_wfn
        try:
            if mode == 'PY1':
                _flip(False)
            elif mode in ('MIXC2P', 'MIXP2C'):
                build_flag = (mode == 'MIXC2P')
                _flip(build_flag)
                pending = {'n': 0}

                def wrapped(*a, **kw):
                    _flip(build_flag)
                    w = orig(*a, **kw)
                    _flip(not build_flag)
                    return w
                fqeio.make_wfn = wrapped
            return sub.run_impl(case['case'], mode)
        finally:
            fqeio.make_wfn = orig
            _flip(True)
    if case['kind'] == 'direct':
        from openfermion import FermionOperator
        norb, na, nb = case['norb'], case['na'], case['nb']
        rs = numpy.random.RandomState(case['seed'])
        _flip(True)
        w = fqe.Wavefunction([[na + nb, na - nb, norb]])
        sec = w.sector((na + nb, na - nb))
        shape = sec.coeff.shape
        data = (rs.randint(-3, 4, size=shape) + 1j * rs.randint(-3, 4, size=shape)).astype(numpy.complex128)
        w.set_wfn(strategy='from_data', raw_data={(na + nb, na - nb): data})
        ops = case['ops']
        op = FermionOperator(tuple((q, d) for q, d in ops), 1.5) + FermionOperator(tuple((q, 1 - d) for q, d in reversed(ops)), 1.5)
        ham = fqe.get_sparse_hamiltonian(op)
        out = {}
        for label, flag in (('C', True), ('PY', False)):
            _flip(flag)
            try:
                ev = w.time_evolve(0.3, ham)
                ap = w.apply(ham)
                out[label] = {'ev': ev.sector((na + nb, na - nb)).coeff.copy(), 'ap': ap.sector((na + nb, na - nb)).coeff.copy()}
            except Exception as e:  # noqa
                out[label] = {'exc': type(e).__name__ + ':' + str(e)[:80]}
        _flip(True)
        res = {}
        if 'exc' in out['C'] or 'exc' in out['PY']:
            res['exc_pair'] = [out['C'].get('exc'), out['PY'].get('exc')]
        else:
            res['ev_diff'] = float(numpy.abs(out['C']['ev'] - out['PY']['ev']).max())
            res['ap_diff'] = float(numpy.abs(out['C']['ap'] - out['PY']['ap']).max())
            res['ev_norm'] = [float(numpy.linalg.norm(out['C']['ev'])), float(numpy.linalg.norm(out['PY']['ev'])), float(numpy.linalg.norm(data))]
        return res
    raise ValueError(case['kind'])


def expected(model, case):
    if case['kind'] == 'sub':
        return SUBS[case['sub']].expected(model, case['case'])
    return {}


def compare(case, got, exp, mode):
    if case['kind'] == 'sub':
        sub = SUBS[case['sub']]
        bad = sub.compare(case['case'], got, exp, mode)
        return ['[%s via %s] %s' % (mode, case['sub'], b) for b in bad]
    if 'exc' in got or 'crash' in got:
        return ['raised %s: %s' % (got.get('exc', 'CRASH'), str({k: got[k] for k in got if k != 'tb'})[:300])]
    bad = []
    if 'exc_pair' in got:
        if (got['exc_pair'][0] is None) != (got['exc_pair'][1] is None):
            bad.append('one path raised, the other answered: C %s / Python %s' % tuple(got['exc_pair']))
        return bad
    if got['ev_diff'] > 1e-10:
        bad.append('MASK32 time_evolve of a single term at norb=%d ops=%s differs between the paths by %.3g (norms C %.6g, Python %.6g, input %.6g)' %
                   (case['norb'], case['ops'], got['ev_diff'], got['ev_norm'][0], got['ev_norm'][1], got['ev_norm'][2]))
    if got['ap_diff'] > 1e-10:
        bad.append('apply of a single term at norb=%d ops=%s differs between the paths by %.3g' % (case['norb'], case['ops'], got['ap_diff']))
    return bad


def classify(case, mode, bad, got, exp):
    if case['kind'] == 'sub':
        sub = SUBS[case['sub']]
        if hasattr(sub, 'classify'):
            inner = [b.split('] ', 1)[1] if '] ' in b else b for b in bad]
            return sub.classify(case['case'], 'PY1' if mode != 'C' else 'C', inner, got, exp)
        return None
    if all(b.startswith('MASK32') for b in bad) and case['norb'] >= 32 and \
            any(q // 2 >= 31 for q, d in case['ops']):
        return 'F-C04-mask-marshalling'
    return None


def nontrivial(case, exp):
    if case['kind'] == 'sub':
        try:
            return SUBS[case['sub']].nontrivial(case['case'], exp)
        except Exception:
            return False
    return True


def case_class(case):
    if case['kind'] == 'sub':
        return case['sub']
    return 'direct/norb%d/%d,%d' % (case['norb'], case['na'], case['nb'])


def sample(case):
    if case['kind'] == 'sub':
        s = SUBS[case['sub']]
        return {'sub': case['sub'], 'case': getattr(s, 'sample', lambda c: c)(case['case'])}
    return case


THEOREM_FILES = ['P_C04']
RULE = ('samples of the C01/C02/C03/C07 generators under PY1 (flag flipped after import) and MIX (built under one '
        'setting, used under the other, both directions) against the model; direct C-vs-Python differences of '
        'single-term evolution and apply in 1-2 electron sectors with norb 30..34 and operators on the top orbitals')
NOT_PROVED = ['path equivalence is by nature differential: both paths are tied to one model; the marshalling of bit masks '
              'through 32-bit ints is modelled and proved lossless only below 2^31']
