"""C07 — qubit (Cirq) export/import.
Model: Cirq.v (JW/binary-code index + fermionic reordering sign derived from the
ladder operators).  Implementation: fqe.to_cirq / fqe.from_cirq on both paths.

Known finding F-C07-sector-sign (see known_findings.json): to_cirq/from_cirq build
each sector with ASCENDING operator order inside a spin block, the kernels use
DESCENDING order, so exported sectors carry the relative sign
s(na,nb) = (-1)^(na(na-1)/2 + nb(nb-1)/2) (and number-broken wavefunctions miss
sigma(B)).  The implementation is compared strictly with Impl = Spec * s (so any
OTHER deviation is a violation); the finding itself is re-confirmed on every run
by the JW intertwining witness."""
import fqeio

PID = 'C07'
MODES = ['C', 'PY0']
COMPARE_ARITY = 4


def popc(x):
    return bin(x).count('1')


def s_sector(a, b):
    na, nb = popc(a), popc(b)
    return -1 if ((na * (na - 1)) // 2 + (nb * (nb - 1)) // 2) % 2 else 1


def sigma_b(norb, b):
    return -1 if sum((norb - 1 - j) for j in range(norb) if (b >> j) & 1) % 2 else 1


def _enc_matrix(name, nq):
    """0/1 encoder matrix (row k = the modes whose parity is qubit k) of a named code.  Beyond the three library codes:
    'inter' (openfermion interleaved_code), 'perm<k>' (the k-th seeded permutation code) and 'tri<k>' (the k-th seeded
    lower unitriangular code with nq - 1 off-diagonal ones): families whose members share shape AND number of non-zeros,
    so that nothing short of the matrix itself tells two of them apart"""
    import random as _random
    import numpy
    if name is None or name == 'jw':
        return numpy.eye(nq, dtype=int)
    if name == 'parity':
        return numpy.tril(numpy.ones((nq, nq), dtype=int))
    if name == 'bk':
        from openfermion.transforms import bravyi_kitaev_code
        return numpy.asarray(bravyi_kitaev_code(nq).encoder.todense()).astype(int) % 2
    if name == 'inter':
        from openfermion.transforms import interleaved_code
        return numpy.asarray(interleaved_code(nq).encoder.todense()).astype(int) % 2
    if name.startswith('perm'):
        r = _random.Random(7919 * int(name[4:]) + nq)
        perm = list(range(nq))
        r.shuffle(perm)
        m = numpy.zeros((nq, nq), dtype=int)
        for k, q in enumerate(perm):
            m[k, q] = 1
        return m
    if name.startswith('tri'):
        r = _random.Random(104729 * int(name[3:]) + nq)
        m = numpy.eye(nq, dtype=int)
        below = [(k, q) for k in range(nq) for q in range(k)]
        for k, q in r.sample(below, min(len(below), nq - 1)):
            m[k, q] = 1
        return m
    raise ValueError(name)


def _gf2_inverse(m):
    import numpy
    n = m.shape[0]
    a = numpy.concatenate([m % 2, numpy.eye(n, dtype=int)], axis=1)
    for c in range(n):
        piv = next(r for r in range(c, n) if a[r, c])
        a[[c, piv]] = a[[piv, c]]
        for r in range(n):
            if r != c and a[r, c]:
                a[r] = (a[r] + a[c]) % 2
    return a[:, n:]


CODE_NAMES = ['jw', 'parity', 'bk', 'inter', 'perm1', 'perm2', 'tri1', 'tri2']


def code_rows(name, nq, rng=None):
    """rows[k] = list of modes whose parity is qubit k"""
    enc = _enc_matrix(name, nq)
    return [[q for q in range(nq) if enc[k, q]] for k in range(nq)]


def gen_cases(rng, tier):
    cases = []
    n = 50 if tier == 'quick' else 300
    for _ in range(n):
        norb = rng.randint(1, 3)
        mode = rng.choice(['ns', 'sb', 'sb', 'nb'])
        if mode == 'ns':
            na, nb = rng.randint(0, norb), rng.randint(0, norb)
            nn, sz = na + nb, na - nb
        elif mode == 'sb':
            nn, sz = rng.randint(0, 2 * norb), 0
        else:
            nn, sz = 0, rng.randint(-norb, norb)
        keys = fqeio.sector_keys(norb, mode, nn, sz)
        # every third configuration is exported with two codes of one look-alike family (same shape and number of
        # non-zeros) one after the other, in the same worker process and on the same sector shapes, then with a third code
        if _ % 3 == 0:
            fam = rng.choice([['jw', 'inter', 'perm1', 'perm2'], ['tri1', 'tri2'], ['perm2', 'jw', 'perm1']])
            codes = rng.sample(fam, 2) + [rng.choice([None, 'parity', 'bk'])]
        else:
            codes = [rng.choice([None, None] + CODE_NAMES)]
        for code in codes:
            cases.append({'kind': 'export', 'norb': norb, 'mode': mode, 'n': nn, 'sz': sz,
                          'vec': fqeio.random_state(rng, norb, keys, density=0.8),
                          'vec2': fqeio.random_state(rng, norb, keys, density=0.8),
                          'code': code})
    # more orbitals (10-14 qubits), sparse states: index and sign per determinant beyond the toy sizes
    for _ in range(5 if tier == 'quick' else 30):
        norb = rng.randint(5, 7)
        mode = rng.choice(['ns', 'sb', 'nb'])
        if mode == 'ns':
            na, nb = rng.randint(1, norb - 1), rng.randint(1, norb - 1)
            nn, sz = na + nb, na - nb
        elif mode == 'sb':
            nn, sz = rng.randint(2, 2 * norb - 2), 0
        else:
            nn, sz = 0, rng.randint(-norb + 1, norb - 1)
        keys = fqeio.sector_keys(norb, mode, nn, sz)
        basis = fqeio.basis_of(norb, keys)

        def sp():
            return [[a, b, rng.randint(-3, 3) or 1, rng.randint(-3, 3)] for a, b in rng.sample(basis, min(len(basis), 16))]
        cases.append({'kind': 'export', 'norb': norb, 'mode': mode, 'n': nn, 'sz': sz, 'vec': sp(), 'vec2': sp(),
                      'code': rng.choice([None] + CODE_NAMES), 'big': True})
    for _ in range(40 if tier == 'quick' else 250):
        norb = rng.randint(1, 2 if tier == 'quick' else 3)
        nq = 2 * norb
        st = []
        for ix in range(1 << nq):
            if rng.random() < 0.35:
                re, im = rng.choice([(3, 4), (0, 5), (5, 0), (-4, 3), (1, 0), (0, -2), (6, 8), (2, 0), (1, 1), (-3, -4)])
                st.append([ix, re, im])
        if not st:
            st = [[rng.randrange(1 << nq), 3, 4]]
        # threshold equal to / just below / just above an amplitude magnitude (x2 so it is an integer)
        mags = sorted(set(int(round(2 * (re * re + im * im) ** 0.5)) for _, re, im in st
                          if int(round((re * re + im * im) ** 0.5)) ** 2 == re * re + im * im))
        m = rng.choice(mags) if mags else 2
        thr2x = rng.choice([m, m - 1, m + 1, 1])
        cases.append({'kind': 'import', 'norb': norb, 'state': st, 'thr2x': max(thr2x, 1),
                      'code': rng.choice([None, None] + CODE_NAMES[1:])})
    # JW intertwining of sector-changing operators on multi-sector states
    for _ in range(20 if tier == 'quick' else 120):
        norb = rng.randint(2, 3)
        nn = rng.randint(1, 2 * norb - 1)
        keys = fqeio.sector_keys(norb, 'sb', nn, 0)
        i, j = rng.randrange(norb), rng.randrange(norb)
        s, t = rng.randrange(2), rng.randrange(2)
        ops = [[2 * i + s, 1], [2 * j + t, 0]]
        if rng.random() < 0.4:
            k, l = rng.randrange(norb), rng.randrange(norb)
            u = rng.randrange(2)
            if 2 * k + u != 2 * i + s and 2 * l + u != 2 * j + t:
                ops = [[2 * i + s, 1], [2 * k + u, 1], [2 * l + u, 0], [2 * j + t, 0]]
        cases.append({'kind': 'intertwine', 'norb': norb, 'n': nn,
                      'vec': fqeio.random_state(rng, norb, keys, density=0.9), 'ops': ops})
    return cases


# ------------------------------------------------------------------ implementation
def _code(name, nq):
    if name is None:
        return None
    from openfermion.transforms import jordan_wigner_code, parity_code, bravyi_kitaev_code
    lib = {'jw': jordan_wigner_code, 'parity': parity_code, 'bk': bravyi_kitaev_code}
    if name in lib:
        return lib[name](nq)
    if name == 'inter':
        from openfermion.transforms import interleaved_code
        return interleaved_code(nq)
    from openfermion.ops import BinaryCode
    from openfermion.transforms import linearize_decoder
    enc = _enc_matrix(name, nq)
    return BinaryCode(enc, linearize_decoder(_gf2_inverse(enc)))


def _sparse(vec):
    import numpy
    return [[int(i), float(vec[i].real), float(vec[i].imag)] for i in numpy.nonzero(vec)[0]]


def run_impl(case, mode):
    if case.get('big') and mode != 'C':
        # the reference path converts through OpenFermion operators and a Cirq simulator: minutes per state at 10-14 qubits
        return {'skipped': True}
    import numpy
    import fqe
    norb = case['norb']
    if case['kind'] == 'export':
        w = fqeio.make_wfn(norb, case['mode'], case['n'], case['sz'], case['vec'])
        w2 = fqeio.make_wfn(norb, case['mode'], case['n'], case['sz'], case['vec2'])
        before = fqeio.read_state(w)
        code = _code(case['code'], 2 * norb)
        v = fqe.to_cirq(w, code) if code is not None else fqe.to_cirq(w)
        v2 = fqe.to_cirq(w2, code) if code is not None else fqe.to_cirq(w2)
        back = fqe.from_cirq(v, 1e-12, code) if code is not None else fqe.from_cirq(v, 1e-12)
        ip = complex(numpy.vdot(v, v2))
        ipw = complex(fqe.vdot(w, w2))
        return {'vec': _sparse(v), 'size': int(v.size), 'unchanged': fqeio.read_state(w) == before,
                'back': fqeio.read_state(back), 'back_keys': sorted([list(k) for k in back.sectors()]),
                'ip': [ip.real, ip.imag], 'ipw': [ipw.real, ipw.imag]}
    if case['kind'] == 'import':
        st = numpy.zeros(1 << (2 * norb), dtype=numpy.complex128)
        for ix, re, im in case['state']:
            st[ix] = complex(re, im)
        code = _code(case['code'], 2 * norb)
        thr = case['thr2x'] / 2.0
        w = fqe.from_cirq(st, thr, code) if code is not None else fqe.from_cirq(st, thr)
        return {'keys': sorted([list(k) for k in w.sectors()]), 'amps': fqeio.read_state(w), 'norb': int(w.norb())}
    if case['kind'] == 'intertwine':
        from openfermion import FermionOperator
        w = fqeio.make_wfn(norb, 'sb', case['n'], 0, case['vec'])
        g = fqe.get_sparse_hamiltonian(FermionOperator(tuple((q, d) for q, d in case['ops']), 1.0), conserve_spin=False)
        out = w.apply(g)
        return {'psi': _sparse(fqe.to_cirq(w)), 'gpsi': _sparse(fqe.to_cirq(out))}
    raise ValueError(case['kind'])


# ------------------------------------------------------------------ model
def _code_tokens(name, nq):
    if name is None:
        return [0]
    rows = code_rows(name, nq)
    toks = [len(rows)]
    for r in rows:
        toks += [len(r)] + r
    return toks


_COV = {'codes_lower_unitriangular': {}, 'codes_with_certified_inverse': {}}


def extra_coverage():
    return {'codes_lower_unitriangular': dict(_COV['codes_lower_unitriangular']),
            'codes_with_certified_inverse': dict(_COV['codes_with_certified_inverse'])}


def _check_code(model, code, nq):
    """the extracted predicate CodeThm.unitri on the code the case exports with: when it holds, theorem
    C07_export_injective_unitriangular applies to this code (recorded in the evidence)"""
    key = '%s/%d' % (code or 'jw', nq)
    if key not in _COV['codes_lower_unitriangular']:
        toks = _code_tokens(code if code else 'jw', nq)
        _COV['codes_lower_unitriangular'][key] = model.q('UNITRI', *toks)[0] == '1'
    if key not in _COV['codes_with_certified_inverse']:
        # the decoder matrix is found here (GF(2) elimination); the extracted CodeInv.left_inv certifies it, which is what
        # theorem C07_export_injective_certified_inverse asks for
        enc = _enc_matrix(code if code else 'jw', nq)
        inv = _gf2_inverse(enc)
        rows = [[q for q in range(nq) if inv[k, q]] for k in range(nq)]
        dtoks = [len(rows)]
        for r in rows:
            dtoks += [len(r)] + r
        _COV['codes_with_certified_inverse'][key] = model.q('LINV', nq, *toks_of_rows(code_rows(code if code else 'jw', nq)), *dtoks)[0] == '1'
    return _COV['codes_lower_unitriangular'][key]


def toks_of_rows(rows):
    toks = [len(rows)]
    for r in rows:
        toks += [len(r)] + r
    return toks


def _export(model, norb, code, vec):
    _check_code(model, code, 2 * norb)
    t = model.q('EXPORT', norb, *_code_tokens(code, 2 * norb), *fqeio.vec_tokens(vec))
    out = {}
    for k in range(len(t) // 3):
        out[int(t[3 * k])] = [int(t[3 * k + 1]), int(t[3 * k + 2])]
    return out


def expected(model, case):
    norb = case['norb']
    if case['kind'] == 'export':
        nb_mode = case['mode'] == 'nb'
        # Spec: amplitude in the fixed convention (number-broken storage is sigma(B)-twisted)
        spec_vec = [[a, b, re * (sigma_b(norb, b) if nb_mode else 1), im * (sigma_b(norb, b) if nb_mode else 1)]
                    for a, b, re, im in case['vec']]
        impl_vec = [[a, b, re * s_sector(a, b), im * s_sector(a, b)] for a, b, re, im in case['vec']]
        return {'spec': _export(model, norb, case['code'], spec_vec),
                'implmodel': _export(model, norb, case['code'], impl_vec)}
    if case['kind'] == 'import':
        t = model.q('IMPORT', norb, *_code_tokens(case['code'], 2 * norb), case['thr2x'], len(case['state']),
                    *[x for e in case['state'] for x in e])
        nsec = int(t[0])
        p = 1
        keys, spec, implm = [], {}, {}
        for _ in range(nsec):
            na, nb, cnt = int(t[p]), int(t[p + 1]), int(t[p + 2])
            p += 3
            keys.append([na + nb, na - nb])
            for k in range(cnt):
                a, b, re, im = int(t[p]), int(t[p + 1]), int(t[p + 2]), int(t[p + 3])
                p += 4
                if re or im:
                    spec['%d,%d' % (a, b)] = [re, im]
                    implm['%d,%d' % (a, b)] = [re * s_sector(a, b), im * s_sector(a, b)]
        return {'keys': sorted(keys), 'spec': spec, 'implmodel': implm}
    if case['kind'] == 'intertwine':
        return {'ops': case['ops']}
    raise ValueError(case['kind'])


def _jw_act(nq, ops, psi):
    """reference JW action of a ladder string on a sparse qubit vector (big-endian index).
    (a_q |n> = (-1)^(sum_{p<q} n_p) |n - e_q>); used only for the intertwining witness of
    the known finding, independent of FQE."""
    out = {}
    for ix, re, im in psi:
        bits = [(ix >> (nq - 1 - q)) & 1 for q in range(nq)]
        sign = 1
        ok = True
        for q, d in reversed(ops):
            if bits[q] == d:
                ok = False
                break
            if sum(bits[:q]) % 2:
                sign = -sign
            bits[q] = d
        if ok:
            jx = sum(b << (nq - 1 - q) for q, b in enumerate(bits))
            c = out.get(jx, 0)
            out[jx] = c + sign * complex(re, im)
    return {k: v for k, v in out.items() if v != 0}


def _cmp_sparse(got, want, label, bad):
    g = {int(i): complex(re, im) for i, re, im in got}
    for k in sorted(set(g) | set(want)):
        w = want.get(k, [0, 0])
        w = complex(*w) if not isinstance(w, complex) else w
        if abs(g.get(k, 0) - w) > 1e-9 * (1 + abs(w)):
            bad.append('%s: amplitude at qubit index %d is %r, expected %r' % (label, k, g.get(k, 0), w))
            return


def compare(case, got, exp, mode):
    if got.get('skipped'):
        return []
    if 'exc' in got or 'crash' in got:
        return ['raised %s: %s' % (got.get('exc', 'CRASH'), str({k: got[k] for k in got if k != 'tb'})[:300])]
    bad = []
    norb = case['norb']
    if case['kind'] == 'export':
        if got['size'] != 1 << (2 * norb):
            bad.append('exported vector has size %d' % got['size'])
        if not got['unchanged']:
            bad.append('to_cirq modified the wavefunction')
        _cmp_sparse(got['vec'], exp['implmodel'], 'to_cirq vs Impl model (Spec x sector sign)', bad)
        if exp['implmodel'] != exp['spec'] and not bad:
            tmp = []
            _cmp_sparse(got['vec'], exp['spec'], 'to_cirq vs Spec (fixed convention)', tmp)
            if tmp:
                bad.append('SECTOR-SIGN ' + tmp[0])
        # isometry and round trip on the implementation
        if abs(complex(*got['ip']) - complex(*got['ipw'])) > 1e-9 * (1 + abs(complex(*got['ipw']))):
            bad.append('inner product not preserved by to_cirq: %s vs %s' % (got['ip'], got['ipw']))
        want = {(a, b): complex(re, im) for a, b, re, im in case['vec']}
        back = {(a, b): complex(re, im) for a, b, re, im in got['back']}
        if any(abs(back.get(k, 0) - want.get(k, 0)) > 1e-9 for k in set(back) | set(want)):
            bad.append('from_cirq(to_cirq(w)) != w')
        return bad
    if case['kind'] == 'import':
        if got['keys'] != exp['keys']:
            bad.append('from_cirq created sectors %s, expected exactly %s (threshold %s)' % (got['keys'], exp['keys'], case['thr2x'] / 2.0))
            return bad
        g = {'%d,%d' % (a, b): complex(re, im) for a, b, re, im in got['amps']}
        for key in sorted(set(g) | set(exp['implmodel'])):
            w = complex(*exp['implmodel'].get(key, [0, 0]))
            if abs(g.get(key, 0) - w) > 1e-9:
                bad.append('from_cirq amplitude of %s is %r, Impl model %r' % (key, g.get(key, 0), w))
                return bad
        if exp['implmodel'] != exp['spec']:
            bad.append('SECTOR-SIGN from_cirq amplitudes carry the sector sign relative to the fixed convention')
        return bad
    if case['kind'] == 'intertwine':
        want = _jw_act(2 * norb, case['ops'], got['psi'])
        g = {int(i): complex(re, im) for i, re, im in got['gpsi']}
        for k in sorted(set(g) | set(want)):
            if abs(g.get(k, 0) - want.get(k, 0)) > 1e-9:
                bad.append('SECTOR-SIGN to_cirq(g psi) != JW(g) to_cirq(psi) at index %d: %r vs %r (g = %s)' % (k, g.get(k, 0), want.get(k, 0), case['ops']))
                break
        return bad
    return bad


def classify(case, mode, bad, got, exp):
    if all(b.startswith('SECTOR-SIGN') for b in bad):
        return 'F-C07-sector-sign'
    if mode in ('PY0', 'PY1') and case.get('code') not in (None, 'jw') and case['kind'] in ('export', 'import'):
        return 'F-C07-py-ignores-binarycode'
    return None


def nontrivial(case, exp):
    if case['kind'] == 'export':
        return len(exp['spec']) >= 2 and any(x < 0 for v in exp['spec'].values() for x in v)
    if case['kind'] == 'import':
        return len(exp['keys']) >= 2
    return True


def case_class(case):
    if case['kind'] == 'export':
        return 'export/%s/norb%d/%s' % (case['mode'], case['norb'], case['code'])
    if case['kind'] == 'import':
        return 'import/norb%d/%s' % (case['norb'], case['code'])
    return 'intertwine/norb%d/len%d' % (case['norb'], len(case['ops']))


def shrink(case):
    out = []
    key = 'vec' if 'vec' in case else ('state' if 'state' in case else None)
    if key and len(case[key]) > 1:
        for k in range(len(case[key])):
            out.append(dict(case, **{key: case[key][:k] + case[key][k + 1:]}))
    return out


THEOREM_FILES = ['P_C07']
RULE = ('random multi-sector Gaussian-integer wavefunctions (all symmetry modes) exported under JW / parity / '
        'Bravyi-Kitaev codes, isometry + round trip; random sparse qubit vectors imported with thresholds equal '
        'to / just below / just above amplitude magnitudes; JW intertwining of sector-changing strings on '
        'spin-broken states. non-trivial: >= 2 exported amplitudes with a negative component / >= 2 sectors')
NOT_PROVED = ['injectivity of the index map is proved for every code with a certified left inverse '
              '(C07_export_injective_certified_inverse; the certificate is checked by the extracted left_inv for every code '
              'the correspondence uses) and, structurally, for Jordan-Wigner, parity and lower-unitriangular codes; the '
              'amplitude round trip (import after export) is proved for the Jordan-Wigner code and tied by correspondence '
              'for the others; the intertwining theorems are per ladder operator at determinant level (strings and linear '
              'combinations follow by Fock.v linearity, not restated here)']
