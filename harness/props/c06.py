"""C06 — compiling an operator expression into a Hamiltonian object preserves its
meaning.  Random Hermitian FermionOperators q + q† go through
fqe.get_hamiltonian_from_openfermion (= build_hamiltonian); the object's action on
random states is compared exactly with the Fock-space action of the SOURCE
polynomial (model 'T' entries), and its self-description with semantic predicates
of the source."""
import fqeio
from props import c01

PID = 'C06'
MODES = ['C', 'PY0']
COMPARE_ARITY = 4


def _herm_terms(rng, norb, kinds, nterms, maxdeg):
    terms = []
    tries = 0
    while len(terms) < 2 * nterms and tries < 400:
        tries += 1
        kind = rng.choice(kinds)
        if kind == 'num':
            q = rng.randrange(2 * norb)
            ops = [[q, 1], [q, 0]]
        elif kind == 'numnum':
            q, p = rng.randrange(2 * norb), rng.randrange(2 * norb)
            if p == q:
                continue
            ops = [[q, 1], [q, 0], [p, 1], [p, 0]]
        elif kind == 'hop':
            s = rng.randrange(2)
            ops = [[2 * rng.randrange(norb) + s, 1], [2 * rng.randrange(norb) + s, 0]]
        elif kind == 'hopflip':
            ops = [[rng.randrange(2 * norb), 1], [rng.randrange(2 * norb), 0]]
        elif kind == 'pair':
            ops = [[2 * rng.randrange(norb), 1], [2 * rng.randrange(norb) + 1, 1]]
        elif kind == 'const':
            ops = []
        else:  # 'nbody': r creators and r annihilators in arbitrary order, Sz conserving per spin
            r = rng.randint(2, maxdeg // 2)
            sp = [rng.randrange(2) for _ in range(r)]
            cr = [2 * rng.randrange(norb) + s for s in sp]
            an = [2 * rng.randrange(norb) + s for s in sp]
            rng.shuffle(an)
            if len(set(cr)) < r or len(set(an)) < r:
                continue
            ops = [[q, 1] for q in cr] + [[q, 0] for q in an]
            if kind == 'nbody_anyorder':
                rng.shuffle(ops)
        re, im = rng.randint(-2, 2), rng.randint(-2, 2)
        if not (re or im):
            re = 1
        terms.append([ops, 24 * re, 24 * im])
        terms.append([[[q, 1 - d] for q, d in reversed(ops)], 24 * re, -24 * im])
    if rng.random() < 0.3 and terms:   # duplicate term
        terms.append(terms[0])
        terms.append(terms[1])
    return terms


def gen_cases(rng, tier):
    cases = []
    n = 160 if tier == 'quick' else 800
    recipes = [
        ('diag', ['num', 'const'], 2),
        ('quad_restr', ['hop', 'num'], 2),
        ('quad_flip', ['hopflip', 'hop'], 2),
        ('dc', ['numnum', 'const'], 4),
        ('general4', ['nbody', 'hop', 'num', 'const', 'nbody_anyorder'], 4),
        ('general6', ['nbody', 'nbody_anyorder', 'hop'], 6),
        ('general8', ['nbody', 'hop'], 8),
        ('few', ['hop', 'nbody', 'num'], 4),
    ]
    for k in range(n):
        name, kinds, maxdeg = recipes[k % len(recipes)]
        norb = rng.randint(1, 3)
        if maxdeg >= 6:
            norb = rng.randint(2, 3)
        if maxdeg == 8:
            norb = 2
        nterms = 1 if name == 'few' else rng.randint(2, 5)
        terms = _herm_terms(rng, norb, kinds, nterms, maxdeg)
        if not terms:
            continue
        mode = 'sb' if name == 'quad_flip' else rng.choice(['ns', 'ns', 'sb'])
        if mode == 'ns':
            na, nb = rng.randint(0, norb), rng.randint(0, norb)
            nn, sz = na + nb, na - nb
        else:
            nn, sz = rng.randint(0, 2 * norb), 0
        keys = fqeio.sector_keys(norb, mode, nn, sz)
        cases.append({'kind': 'fop', 'recipe': name, 'norb': norb, 'mode': mode, 'n': nn, 'sz': sz,
                      'vec': fqeio.random_state(rng, norb, keys, density=0.8, amp=2),
                      'ham': {'cls': 'fop', 'rank': 0, 'entries': terms, 'e0': [0, 0], 'real': False},
                      't': rng.choice([1, 2, -3])})
    # structured one-body operators around every decision of the classification cascade (process_rank2_matrix):
    # the alpha and beta blocks agree / differ only on the diagonal / only off the diagonal / are coupled
    def both_spins(i, j, c):
        out = []
        for sp in (0, 1):
            ops = [[2 * i + sp, 1], [2 * j + sp, 0]]
            out.append([ops, 24 * c[0], 24 * c[1]])
            if i != j:
                out.append([[[q, 1 - d] for q, d in reversed(ops)], 24 * c[0], -24 * c[1]])
        return out
    for variant in ('same_blocks', 'diag_differs', 'offdiag_differs', 'one_flip', 'diag_differs_plus_two_body'):
        for rep in range(2 if tier == 'quick' else 6):
            norb = rng.randint(2, 3)
            terms = []
            for i in range(norb):
                for j in range(i):
                    if rng.random() < 0.8:
                        terms += both_spins(i, j, [rng.randint(-2, 2) or 1, rng.randint(-1, 1)])
            if not terms:
                terms += both_spins(1, 0, [1, 1])
            for i in range(norb):
                e = rng.randint(-2, 2)
                terms += both_spins(i, i, [e, 0]) if e else []
            if variant in ('diag_differs', 'diag_differs_plus_two_body'):
                i = rng.randrange(norb)
                terms.append([[[2 * i + 1, 1], [2 * i + 1, 0]], 24 * (rng.randint(1, 3)), 0])
            elif variant == 'offdiag_differs':
                i, j = rng.sample(range(norb), 2)
                ops = [[2 * i + 1, 1], [2 * j + 1, 0]]
                terms += [[ops, 24, 24], [[[q, 1 - d] for q, d in reversed(ops)], 24, -24]]
            elif variant == 'one_flip':
                i, j = rng.randrange(norb), rng.randrange(norb)
                ops = [[2 * i, 1], [2 * j + 1, 0]]
                terms += [[ops, 24, 0], [[[q, 1 - d] for q, d in reversed(ops)], 24, 0]]
            if variant == 'diag_differs_plus_two_body':
                p, q = rng.sample(range(2 * norb), 2)
                terms.append([[[p, 1], [p, 0], [q, 1], [q, 0]], 24, 0])
            mode = 'sb' if variant == 'one_flip' else 'ns'
            if mode == 'ns':
                na, nb = rng.randint(0, norb), rng.randint(1, norb)
                nn, sz = na + nb, na - nb
            else:
                nn, sz = rng.randint(1, 2 * norb - 1), 0
            keys = fqeio.sector_keys(norb, mode, nn, sz)
            cases.append({'kind': 'fop', 'recipe': 'struct_' + variant, 'norb': norb, 'mode': mode, 'n': nn, 'sz': sz,
                          'vec': fqeio.random_state(rng, norb, keys, density=0.8, amp=2),
                          'ham': {'cls': 'fop', 'rank': 0, 'entries': terms, 'e0': [0, 0], 'real': False},
                          't': rng.choice([1, 2, -3])})
    # three-body terms, systematically over the spin pattern of the creator block (every mixed-spin 3-subset of the six
    # spin orbitals of 3 orbitals) with a random annihilator block of the same spin content, and the mirror image:
    # the dense route's spin sort (fermionops_tomatrix) must move a beta operator past 0, 1 or 2 alpha operators
    import itertools
    nso = 6
    subsets = [c for c in itertools.combinations(range(nso), 3) if 0 < sum(q % 2 for q in c) < 3]
    for cr in subsets:
        nbeta = sum(q % 2 for q in cr)
        pool = [c for c in itertools.combinations(range(nso), 3) if sum(q % 2 for q in c) == nbeta and c != cr]
        an = rng.choice(pool)
        for mirror in (False, True):
            a, b = (cr, an) if not mirror else (an, cr)
            ops = [[q, 1] for q in sorted(a, reverse=True)] + [[q, 0] for q in sorted(b, reverse=True)]
            if rng.random() < 0.5:
                rng.shuffle(ops)
            terms = [[ops, 24, 24], [[[q, 1 - d] for q, d in reversed(ops)], 24, -24]]
            q = rng.randrange(nso)
            terms.append([[[q, 1], [q, 0]], 24, 0])
            na, nb = 3 - nbeta if rng.random() < 0.5 else 2, max(nbeta, 2)
            na = max(na, 3 - nbeta)
            keys = fqeio.sector_keys(3, 'ns', na + nb, na - nb)
            cases.append({'kind': 'fop', 'recipe': 'struct_3body', 'norb': 3, 'mode': 'ns', 'n': na + nb, 'sz': na - nb,
                          'vec': fqeio.random_state(rng, 3, keys, density=1.0, amp=2),
                          'ham': {'cls': 'fop', 'rank': 0, 'entries': terms, 'e0': [0, 0], 'real': False},
                          't': rng.choice([1, 2, -3])})
    # four-body terms likewise (every 4-subset of the six spin orbitals is of mixed spin); sampled in the quick tier
    subsets4 = list(itertools.combinations(range(nso), 4))
    if tier == 'quick':
        subsets4 = rng.sample(subsets4, 5)
    for cr in subsets4:
        nbeta = sum(q % 2 for q in cr)
        pool = [c for c in itertools.combinations(range(nso), 4) if sum(q % 2 for q in c) == nbeta and c != cr]
        if not pool:
            continue
        an = rng.choice(pool)
        for mirror in ((False, True) if tier != 'quick' else (rng.random() < 0.5,)):
            a, b = (cr, an) if not mirror else (an, cr)
            ops = [[q, 1] for q in sorted(a, reverse=True)] + [[q, 0] for q in sorted(b, reverse=True)]
            terms = [[ops, 24, 24], [[[q, 1 - d] for q, d in reversed(ops)], 24, -24]]
            q = rng.randrange(nso)
            terms.append([[[q, 1], [q, 0]], 24, 0])
            na, nb = max(4 - nbeta, 2), max(nbeta, 2)
            keys = fqeio.sector_keys(3, 'ns', na + nb, na - nb)
            cases.append({'kind': 'fop', 'recipe': 'struct_4body', 'norb': 3, 'mode': 'ns', 'n': na + nb, 'sz': na - nb,
                          'vec': fqeio.random_state(rng, 3, keys, density=1.0, amp=2),
                          'ham': {'cls': 'fop', 'rank': 0, 'entries': terms, 'e0': [0, 0], 'real': False},
                          't': rng.choice([1, 2, -3])})
    # gather_nbody_spin_sectors on single operator strings: normal-ordered ones (what the compiler feeds it)
    # and arbitrary ones (the model mirrors the code there too; Sort.gather_unsorted_refuted)
    for k in range(60 if tier == 'quick' else 400):
        nm = rng.randint(2, 8)
        ln = rng.randint(0, 6)
        ops = [[rng.randrange(nm), rng.randint(0, 1)] for _ in range(ln)]
        if k % 3 != 2:
            ops = sorted(ops, key=lambda o: (-o[1], -o[0]))       # creators first, each group descending
        cases.append({'kind': 'gather', 'ops': ops, 'normal': k % 3 != 2})
    return cases


# ------------------------------------------------------------------ implementation
def run_impl(case, mode):
    import numpy
    import fqe
    from openfermion import FermionOperator, normal_ordered
    if case['kind'] == 'gather':
        from fqe.hamiltonians import hamiltonian_utils
        op = FermionOperator(tuple((q, d) for q, d in case['ops']), 1.0)
        coeff, phase, ab, bb = hamiltonian_utils.gather_nbody_spin_sectors(op)
        return {'coeff': [complex(coeff).real, complex(coeff).imag], 'phase': int(phase),
                'ab': [[int(q), int(d)] for q, d in ab], 'bb': [[int(q), int(d)] for q, d in bb]}
    norb = case['norb']
    op = FermionOperator()
    for ops, re, im in case['ham']['entries']:
        op += FermionOperator(tuple((q, d) for q, d in ops), complex(re, im))
    # the caller's expression is an input: every use below must leave it as it was (the same object is used three
    # times: compiled, applied directly, applied directly again at the end)
    op_before = {k: complex(v) for k, v in op.terms.items()}
    ham = fqe.get_hamiltonian_from_openfermion(op, norb=norb, conserve_number=True)
    desc = {'cls': type(ham).__name__, 'quadratic': bool(ham.quadratic()), 'diagonal': bool(ham.diagonal()),
            'dc': bool(ham.diagonal_coulomb()), 'cn': bool(ham.conserve_number()), 'rank': int(ham.rank()),
            'e0': [complex(ham.e_0()).real, complex(ham.e_0()).imag]}
    try:
        desc['dim'] = int(ham.dim())
    except NotImplementedError:
        desc['dim'] = None
    wfn = fqeio.make_wfn(norb, case['mode'], case['n'], case['sz'], case['vec'])
    res = {'desc': desc}
    if desc['cls'] in ('General', 'GSOHamiltonian', 'SSOHamiltonian'):
        ents = []
        for tns in ham.tensors():
            for ix in zip(*numpy.nonzero(tns)):
                v = complex(tns[ix])
                ents.append([[int(i) for i in ix], v.real, v.imag])
        res['compiled_entries'] = ents[:4000]
    try:
        out = wfn.apply(ham)
        res['out'] = fqeio.read_state(out)
    except Exception as e:  # noqa
        res['apply_exc'] = [type(e).__name__, str(e)[:200]]
    # the public route that compiles internally must agree with the explicit one
    try:
        out2 = wfn.apply(op)
        res['out_direct'] = fqeio.read_state(out2)
    except Exception as e:  # noqa
        res['direct_exc'] = [type(e).__name__, str(e)[:200]]
    # propagation data
    t = case['t']
    try:
        iht = ham.iht(t)
        if isinstance(iht, tuple):
            ok = all(numpy.array_equal(a, -1j * t * b) for a, b in zip(iht, ham.tensors())) and len(iht) == len(ham.tensors())
            res['iht'] = 'tensors_ok' if ok else 'tensors_differ'
        elif type(iht).__name__ == 'Diagonal':
            ok = numpy.array_equal(iht.diag_values(), -1j * t * ham.diag_values())
            res['iht'] = 'diag_ok' if ok else 'diag_differ'
        elif type(iht).__name__ == 'SparseHamiltonian':
            ok = all(abs(a[0] - (-1j * t * b[0])) == 0 and a[1:] == b[1:] for a, b in zip(iht.terms(), ham.terms()))
            res['iht'] = 'sparse_ok' if ok else 'sparse_differ'
            res['iht_e0'] = [complex(iht.e_0()).real, complex(iht.e_0()).imag]
        else:
            res['iht'] = 'unknown:' + type(iht).__name__
    except Exception as e:  # noqa
        res['iht'] = 'exc:%s:%s' % (type(e).__name__, str(e)[:120])
    # ... and the propagation data must ACT as -i t (H - e0), also on an object that has been used before
    # (the compiled object was applied above): this is how the polynomial propagators consume it
    try:
        iht2 = ham.iht(t)
        if not type(ham).__name__ == 'DiagonalCoulomb':
            res['iht_out'] = fqeio.read_state(wfn.apply(iht2))
    except Exception as e:  # noqa
        res['iht_apply_exc'] = [type(e).__name__, str(e)[:200]]
    # third use of the caller's expression object, and the expression itself
    try:
        res['out_direct_again'] = fqeio.read_state(wfn.apply(op))
    except Exception as e:  # noqa
        res['direct_again_exc'] = [type(e).__name__, str(e)[:200]]
    res['op_intact'] = ({k: complex(v) for k, v in op.terms.items()} == op_before)
    return res


# ------------------------------------------------------------------ model
def expected(model, case):
    if case['kind'] == 'gather':
        toks = [len(case['ops'])]
        for q, d in case['ops']:
            toks += [q, d]
        t = model.q('GATHER', *toks)
        na = int(t[1])
        vals = [int(x) for x in t[2:]]
        pairs = [[vals[2 * i], vals[2 * i + 1]] for i in range(len(vals) // 2)]
        return {'phase': -1 if t[0] == '1' else 1, 'ab': pairs[:na], 'bb': pairs[na:]}
    e = c01.expected(model, case)
    # semantic predicates of the source polynomial (normal ordered by openfermion: harness side)
    from openfermion import FermionOperator, normal_ordered
    op = FermionOperator()
    for ops, re, im in case['ham']['entries']:
        op += FermionOperator(tuple((q, d) for q, d in ops), complex(re, im))
    no = normal_ordered(op)
    terms = {t: c for t, c in no.terms.items() if abs(c) > 1e-12}
    degs = sorted(set(len(t) for t in terms if len(t) > 0))
    e['maxdeg'] = max(degs) if degs else 0
    e['degs'] = degs

    def is_number_product(t):
        cr = sorted(q for q, d in t if d)
        an = sorted(q for q, d in t if not d)
        return cr == an
    e['all_number'] = all(is_number_product(t) for t in terms if len(t) > 0)
    e['const'] = [complex(terms.get((), 0)).real, complex(terms.get((), 0)).imag]
    e['nterms_raw'] = len(op.terms)
    return e


def compare(case, got, exp, mode):
    if 'exc' in got or 'crash' in got:
        return ['build_hamiltonian raised %s: %s' % (got.get('exc', 'CRASH'), str({k: got[k] for k in got if k != 'tb'})[:300])]
    bad = []
    if case['kind'] == 'gather':
        if got['coeff'] != [1.0, 0.0]:
            bad.append('gather_nbody_spin_sectors changed the coefficient: %s' % got['coeff'])
        for k in ('phase', 'ab', 'bb'):
            if got[k] != exp[k]:
                bad.append('gather_nbody_spin_sectors(%s): %s = %s, model (Sort.gather) gives %s' % (case['ops'], k, got[k], exp[k]))
        return bad
    d = got['desc']
    # --- truthful self-description
    if d['quadratic'] and exp['maxdeg'] > 2:
        bad.append('quadratic() is True but the operator has a degree-%d term' % exp['maxdeg'])
    if d['diagonal'] and not (exp['all_number'] and exp['maxdeg'] <= 2):
        bad.append('diagonal() is True but the operator is not a sum of number operators')
    if d['dc'] and not exp['all_number']:
        bad.append('diagonal_coulomb() is True but the operator is not built from number operators')
    if not d['cn']:
        bad.append('conserve_number() is False for a number-conserving request')
    if d['cls'] != 'SparseHamiltonian' and exp['maxdeg'] and d['rank'] != exp['maxdeg'] and not d['dc']:
        bad.append('rank() = %d but the highest operator degree is %d' % (d['rank'], exp['maxdeg']))
    if d['dim'] is not None and d['dim'] not in (case['norb'], 2 * case['norb']):
        bad.append('dim() = %s for norb = %d' % (d['dim'], case['norb']))
    if got['iht'] not in ('tensors_ok', 'diag_ok', 'sparse_ok'):
        bad.append('iht(%d): %s' % (case['t'], got['iht']))
    # --- the propagation data acts as -i t (H - e0)
    if 'iht_apply_exc' in got:
        bad.append('apply(iht(%d)) raised %s' % (case['t'], got['iht_apply_exc']))
    elif 'iht_out' in got:
        t = case['t']
        e0 = complex(*exp['const'])
        src = {'%d,%d' % (a, b): complex(re, im) for a, b, re, im in case['vec']}
        g = {'%d,%d' % (a, b): complex(re, im) for a, b, re, im in got['iht_out']}
        scale = 1.0 + max([abs(x) for v in exp['out'].values() for x in v] + [0])
        for k in sorted(set(g) | set(exp['out']) | set(src)):
            want = -1j * t * (complex(*exp['out'].get(k, (0, 0))) - e0 * src.get(k, 0))
            if abs(g.get(k, 0) - want) > 1e-9 * scale * (1 + abs(t)):
                bad.append('apply(iht(%d)) [%s]: coefficient of %s is %r, -i t (H - e0) psi has %r' % (t, d['cls'], k, g.get(k, 0), want))
                break
    # --- action
    if got.get('op_intact') is False:
        bad.append('the source FermionOperator was modified by compiling / applying it [%s]' % d['cls'])
    for key, label in (('out', 'apply(build_hamiltonian(op))'), ('out_direct', 'apply(op)'),
                       ('out_direct_again', 'apply(op), same expression object used again')):
        if key not in got:
            exc = got.get({'out': 'apply_exc', 'out_direct': 'direct_exc', 'out_direct_again': 'direct_again_exc'}[key])
            bad.append('%s raised %s' % (label, exc))
            continue
        g = {'%d,%d' % (a, b): (re, im) for a, b, re, im in got[key]}
        scale = 1.0 + max([abs(x) for v in exp['out'].values() for x in v] + [0])
        for k in sorted(set(g) | set(exp['out'])):
            gr, gi = g.get(k, (0.0, 0.0))
            er, ei = exp['out'].get(k, (0, 0))
            if abs(gr - er) > 1e-9 * scale or abs(gi - ei) > 1e-9 * scale:
                bad.append('%s [%s]: coefficient of %s is %r%+rj, source expression gives %d%+dj' % (label, d['cls'], k, gr, gi, er, ei))
                break
    return bad


def classify(case, mode, bad, got, exp):
    if case['kind'] == 'gather':
        return None
    d = got.get('desc', {})
    if got.get('exc') == 'AssertionError' and exp.get('maxdeg') == 0 and exp.get('nterms_raw', 0) >= 3:
        return 'F-C06-constant-only-operator'
    if all('raised' in b and 'not spin complete' in b for b in bad):
        return None
    # (no F-C01-spinorb-single-sector here: tensors compiled from FermionOperators are symmetrised by
    #  fermionops_tomatrix and are applied correctly by the single-sector kernels; the class used to mask real failures)
    if d.get('cls') == 'DiagonalCoulomb' and d.get('dim') == 2 * case['norb']:
        return 'F-C06-dc-spinorbital'
    if case.get('mode') == 'sb' and d.get('cls') == 'RestrictedHamiltonian' and \
            (got.get('apply_exc') or [''])[0] == 'AssertionError' and all('raised' in b for b in bad):
        return 'F-C06-restricted-on-spin-broken'
    if d.get('cls') == 'SparseHamiltonian' and c01.sparse_normal_orders_to_zero(case):
        return 'F-C01-empty-sparse-is-identity'
    return None


def nontrivial(case, exp):
    if case['kind'] == 'gather':
        return len(exp['ab']) >= 1 and len(exp['bb']) >= 1 and len(case['ops']) >= 3
    return len(exp['out']) >= 2 and len(exp['degs']) >= 1 and exp['nterms_raw'] >= 3


def case_class(case):
    if case['kind'] == 'gather':
        return 'gather/%s/len%d' % ('normal' if case['normal'] else 'any', len(case['ops']))
    return 'fop/%s/%s/norb%d' % (case['recipe'], case['mode'], case['norb'])


def shrink(case):
    out = []
    if case['kind'] == 'gather':
        return [dict(case, ops=case['ops'][:k] + case['ops'][k + 1:]) for k in range(len(case['ops']))]
    ents = case['ham']['entries']
    # remove hermitian pairs
    for k in range(0, len(ents) - 1, 2):
        if len(ents) > 2:
            out.append(dict(case, ham=dict(case['ham'], entries=ents[:k] + ents[k + 2:])))
    v = case['vec']
    if len(v) > 1:
        for k in range(len(v)):
            out.append(dict(case, vec=[v[k]]))
    return out


def sample(case):
    return case if case['kind'] == 'gather' else c01.sample(case)


THEOREM_FILES = ['P_C06', 'P_C06_gen']
THEOREM_NEEDS = {'P_C06_gen': ['Equiv_sorts']}
RULE = ('random Hermitian FermionOperators q+q† (number operators, hops incl. spin flips, products of number '
        'operators, n-body strings of degree 4-8 in arbitrary operator order, constants, duplicate terms; '
        'coefficients multiples of 24) compiled for spin-conserving and spin-broken wavefunctions; plus single operator '
        'strings (normal-ordered and arbitrary, length 0-6, up to 8 modes) through gather_nbody_spin_sectors vs the '
        'mirrored Sort.gather. non-trivial: >= 3 source terms and >= 2 determinants in the result / both spin blocks non-empty')
NOT_PROVED = ['openfermion.normal_ordered and fermionops_tomatrix are not mirrored: the compiled object is compared with the '
              'Fock-space action of the SOURCE expression (whose CAR are proved); proved: the swap-counting bubble sorts '
              '(paritysort_list / reverse_bubble_list) with sign (-1)^swaps preserve the action of a string, and '
              'gather_nbody_spin_sectors as coded is sound on normal-ordered input']
