"""C14 — incompatible requests are refused with an exception, never answered or crashed.
The malformed stream: for each entry point, grids of argument combinations around every
boundary.  Observation per call (in a subprocess: process death is an observation):
{exception kind | value} + byte-level snapshots of the operands.  Expected verdicts
come from Guards.v / Ctor.v (extracted).  A rejected call must leave operands unchanged;
an accepted call is only checked for 'did not raise' here (values: C01/C02/C03)."""
import fqeio
from props import c01

PID = 'C14'
MODES = ['C', 'PY0']
COMPARE_ARITY = 4
KIND_TAG = {'restricted': 'R', 'gso': 'S', 'sso': 'S', 'general': 'S', 'diag': 'D', 'diag2': 'D', 'dc2': 'C', 'sparse': 'P'}


def gen_cases(rng, tier):
    cases = []
    reps = 1 if tier == 'quick' else 4
    # ---- A. raw Wavefunction constructor
    grid = []
    for norb in range(0, 4):
        for nele in range(-1, 2 * norb + 3):
            for ms in range(-norb - 2, norb + 3):
                grid.append([nele, ms, norb])
    for i in range(0, len(grid), 80):
        cases.append({'kind': 'ctor', 'grid': grid[i:i + 80]})
    cases.append({'kind': 'ctor_misc'})
    # ---- B. apply / time_evolve compatibility
    for _ in range(reps):
        for wmode in ('ns', 'sb', 'nb'):
            for cls in ('restricted', 'gso', 'sso', 'diag', 'diag2', 'dc2', 'sparse'):
                for ddim in (-1, 0, 1, 'half', 'double'):
                    for hcn in (True, False):
                        norb = rng.randint(2, 3)
                        if ddim in ('half', 'double'):
                            # a spin-orbital tensor whose dimension equals norb (built for norb/2 orbitals), a spatial one of
                            # dimension 2*norb: the sizes at which re-wrapping bare tensors by shape goes wrong
                            if cls not in ('restricted', 'gso', 'sso') or not hcn:
                                continue
                            norb = 2
                        if wmode == 'ns':
                            na, nb = rng.randint(0, norb), rng.randint(0, norb)
                            nn, sz = na + nb, na - nb
                        elif wmode == 'sb':
                            nn, sz = rng.randint(0, 2 * norb), 0
                        else:
                            nn, sz = 0, rng.randint(-norb + 1, norb - 1)
                        hnorb = norb // 2 if ddim == 'half' else (2 * norb if ddim == 'double' else norb + ddim)
                        if hnorb < 1:
                            continue
                        hrank = 2 if cls == 'dc2' else (rng.choice([1, 2]) if cls in ('restricted', 'gso', 'sso') else 1)
                        ham = c01.gen_ham(rng, cls, hrank, hnorb, 'dense' if hrank == 1 else 'sparse', False, True)
                        if hrank == 2 and cls in ('gso', 'sso'):
                            ham['entries'] = c01.pair_symmetrise(ham['entries'])
                        if cls == 'sso':
                            ham['entries'] = c01._sso_filter(ham['entries'], hnorb)
                        if cls == 'sparse':
                            ham['entries'] = [[[[0, 1], [0, 0]], 2, 0]]
                        keys = fqeio.sector_keys(norb, wmode, nn, sz)
                        cases.append({'kind': 'apply', 'norb': norb, 'hnorb': hnorb, 'mode': wmode, 'n': nn, 'sz': sz,
                                      'vec': fqeio.random_state(rng, norb, keys, density=0.7), 'ham': ham, 'hcn': hcn,
                                      'evolve': rng.random() < (0.4 if ddim not in ('half', 'double') else 0.7)})
    # ---- C. RDM patterns
    pats = ['i^ j', 'i j^', 'i^ j^ k l', 'i^ k j^ l', 'i^ j^ k', 'i^ i', 'i^ j^ k^ l m n', 'i^ j k^ l', 'I^ j', 'i^^ j',
            'i^ 1', '0^ 1', '0^ 1^ 2', '0^ x', 'i^ j^ k^ l^ m n o p', 'a^ b^ c^ d^ e^ f g h i j', '', 'i j', 'i^ j^',
            'ij^ k', 'i^ j k l^', 'i j k^ l^', 'i^ j^ k l m', '1^ 0 2^ 2', 'i^  j', 'i^ j ', 'i^ j^ l k']
    for p in pats:
        for wmode in ('ns', 'sb'):
            cases.append({'kind': 'rdm', 'pattern': p, 'mode': wmode})
    # ---- D. in-place evolution
    for _ in range(reps):
        for cls, rank in (('diag', 1), ('restricted', 1), ('dc2', 2), ('restricted', 2), ('gso', 2), ('sparse1', 0), ('sparse3', 0)):
            for inplace in (True, False):
                norb = 2
                cases.append({'kind': 'inplace', 'cls': cls, 'rank': rank, 'inplace': inplace, 'norb': norb,
                              'seed': rng.randrange(10 ** 6)})
    # ---- E. propagator options
    for algo in ('taylor', 'chebyshev', 'Taylor', 'lanczos', ''):
        for sl in (True, False):
            for exp_ in (30, 30.0, '30'):
                cases.append({'kind': 'genu', 'algo': algo, 'speclim': sl, 'expansion': exp_})
    # ---- F. set_wfn(from_data) with wrong shapes
    for _ in range(6 * reps):
        norb = rng.randint(2, 3)
        nn = rng.randint(1, 2 * norb - 1)
        keys = fqeio.sector_keys(norb, 'sb', nn, 0)
        which = rng.randrange(len(keys) + 1)   # index of the sector given a wrong shape (len = none)
        cases.append({'kind': 'setdata', 'norb': norb, 'n': nn, 'bad': which,
                      'vec': fqeio.random_state(rng, norb, keys, density=0.8), 'how': rng.choice(['rows', 'cols', 'transpose'])})
    # ---- H. spin-orbital labels of FermionOperators at the boundary of the orbital space: the largest label L in
    # {2norb-2, 2norb-1} addresses an existing spin orbital, L in {2norb, 2norb+1, 2norb+2} does not (even and odd
    # labels, i.e. alpha and beta of the first missing orbital, are separate boundaries); few-term and many-term routes
    for norb in (2, 3):
        for dl in (-2, -1, 0, 1, 2):
            for nterms in (1, 3):
                for entry in ('apply', 'evolve', 'build'):
                    for wmode in ('ns', 'sb'):
                        if rng.random() < (0.5 if tier == 'quick' else 0.0):
                            continue
                        L = 2 * norb + dl
                        partner = L - 2 if L - 2 >= 0 else L % 2      # same spin: S_z conserving hop
                        terms = [[[[L, 1], [partner, 0]], 1, 0], [[[partner, 1], [L, 0]], 1, 0]]
                        for t in range(nterms - 1):
                            q = rng.randrange(2 * norb - 1)
                            terms.append([[[q, 1], [q, 0]], rng.randint(1, 3), 0])
                        cases.append({'kind': 'label', 'norb': norb, 'L': L, 'terms': terms, 'entry': entry, 'mode': wmode})
    # ---- I. operands with overlapping but different sector sets (delegated to the C08 module's cases)
    from props import c08
    for c in c08.gen_cases(rng, 'quick'):
        if c['kind'] == 'mismatch_sets':
            cases.append({'kind': 'sets', 'inner': c})
    # ---- G. non-Hermitian single-term generators
    for ops, c in (([[0, 1], [2, 0]], [1, 0]), ([[0, 1], [2, 0]], [0, 1]), ([[0, 1], [0, 0]], [0, 1]), ([[0, 1], [0, 0]], [2, 0])):
        for two in (False, True):
            cases.append({'kind': 'nonherm', 'ops': ops, 'c': c, 'two': two})
    # ---- G2. two-term generators T0 + T1 handed over as SparseHamiltonian objects: T1 is the adjoint of T0 except for a
    # controlled corruption of its alpha part, of its beta part or of its coefficient - every combination, with
    # excitations, number operators and empty parts on either spin (the Hermiticity test of the single-term route looks
    # at the alpha operators, the beta operators and the coefficients separately)
    norb = 3
    exc = [(p_, q_) for p_ in range(norb) for q_ in range(norb) if p_ != q_]

    def part(kind, spin, pq):
        if kind == 'none':
            return []
        if kind == 'num':
            return [[2 * pq[0] + spin, 1], [2 * pq[0] + spin, 0]]
        return [[2 * pq[0] + spin, 1], [2 * pq[1] + spin, 0]]

    def adj(ops):
        return [[q, 1 - d] for q, d in reversed(ops)]
    combos = []
    for ka in ('exc', 'num', 'none'):
        for kb in ('exc', 'num', 'none'):
            if (ka, kb) in (('num', 'num'), ('none', 'none'), ('num', 'none'), ('none', 'num')):
                continue      # diagonal generators take another route
            for ca in (False, True):
                for cb in (False, True):
                    for cc in ('conj', 'same', 'negconj'):
                        if (ca and ka != 'exc') or (cb and kb != 'exc'):
                            continue
                        combos.append((ka, kb, ca, cb, cc))
    for (ka, kb, ca, cb, cc) in (combos if tier != 'quick' else combos):
        for rep in range(1 if tier == 'quick' else 3):
            a0, b0 = rng.choice(exc), rng.choice(exc)
            A0, B0 = part(ka, 0, a0), part(kb, 1, b0)
            a1 = rng.choice([e for e in exc if e != (a0[1], a0[0]) and e != a0]) if ca else (a0[1], a0[0])
            b1 = rng.choice([e for e in exc if e != (b0[1], b0[0]) and e != b0]) if cb else (b0[1], b0[0])
            A1 = part(ka, 0, a1) if ka == 'exc' else adj(A0)
            B1 = part(kb, 1, b1) if kb == 'exc' else adj(B0)
            c0 = [rng.randint(1, 2), rng.choice([0, 1, -2])]
            c1 = {'conj': [c0[0], -c0[1]], 'same': list(c0), 'negconj': [-c0[0], c0[1]]}[cc]
            cases.append({'kind': 'nonherm2', 'norb': norb, 'terms': [[A0 + B0, c0[0], c0[1]], [A1 + B1, c1[0], c1[1]]],
                          'tag': '%s/%s/%s%s%s' % (ka, kb, 'A' if ca else '-', 'B' if cb else '-', cc)})
    return cases


# ------------------------------------------------------------------ implementation
def _snap(w):
    return [(tuple(map(int, k)), w.sector(k).coeff.tobytes()) for k in sorted(w.sectors())]


def _try(fn):
    try:
        r = fn()
        return {'ok': True}, r
    except BaseException as e:  # noqa
        if isinstance(e, (SystemExit, KeyboardInterrupt)):
            raise
        return {'ok': False, 'raised': type(e).__name__, 'msg': str(e)[:100]}, None


def run_impl(case, mode):
    import numpy
    import fqe
    from openfermion import FermionOperator
    k = case['kind']
    if k == 'ctor':
        out = []
        for nele, ms, norb in case['grid']:
            st, w = _try(lambda: fqe.Wavefunction([[nele, ms, norb]]))
            if st['ok']:
                st['keys'] = [[int(a), int(b), int(w.sector(kk).coeff.shape[0]), int(w.sector(kk).coeff.shape[1])] for kk in w.sectors() for a, b in [kk]]
            out.append(st)
        return {'rows': out}
    if k == 'ctor_misc':
        r = {}
        r['norb_mismatch'], _ = _try(lambda: fqe.Wavefunction([[2, 0, 2], [2, 0, 3]]))
        r['both_broken'], _ = _try(lambda: fqe.Wavefunction([[2, 0, 2]], broken=['spin', 'number']))
        r['graph_neg'], _ = _try(lambda: fqe.fci_graph.FciGraph(-1, 0, 2))
        r['graph_big'], _ = _try(lambda: fqe.fci_graph.FciGraph(3, 0, 2))
        r['lexgen'], _ = _try(lambda: fqe.bitstring.lexicographic_bitstring_generator(3, 2))
        r['add_mismatch'], _ = _try(lambda: fqe.Wavefunction([[2, 0, 2]]) + fqe.Wavefunction([[1, 1, 2]]))
        return r
    if k == 'apply':
        w = fqeio.make_wfn(case['norb'], case['mode'], case['n'], case['sz'], case['vec'])
        ham = c01.build_ham(case['ham'], case['hnorb'])
        ham._conserve_number = case['hcn']
        before = _snap(w)
        if case['evolve']:
            st, out = _try(lambda: w.time_evolve(0.1, ham))
        else:
            st, out = _try(lambda: w.apply(ham))
        st['unchanged'] = _snap(w) == before
        st['dim'] = None
        try:
            st['dim'] = int(ham.dim())
        except Exception:  # noqa
            pass
        return st
    if k == 'rdm':
        w = fqeio.make_wfn(2, case['mode'], 2, 0, None)
        w.set_wfn(strategy='ones')
        before = _snap(w)
        st, out = _try(lambda: w.rdm(case['pattern']))
        st['unchanged'] = _snap(w) == before
        return st
    if k == 'inplace':
        rng = __import__('random').Random(case['seed'])
        norb = case['norb']
        w = fqeio.make_wfn(norb, 'ns', 2, 0, None)
        w.set_wfn(strategy='ones')
        cls = case['cls']
        if cls == 'sparse1':
            ham = fqe.get_sparse_hamiltonian(FermionOperator('0^ 2', 1.0) + FermionOperator('2^ 0', 1.0))
        elif cls == 'sparse3':
            ham = fqe.get_sparse_hamiltonian(FermionOperator('0^ 2', 1.0) + FermionOperator('2^ 0', 1.0) + FermionOperator('1^ 1', 1.0))
        else:
            ham = c01.build_ham(c01.gen_ham(rng, cls, case['rank'], norb, 'dense', True, True), norb)
        before = _snap(w)
        st, out = _try(lambda: w.time_evolve(0.1, ham, case['inplace']))
        st['unchanged'] = _snap(w) == before
        st['flags'] = {'individual': bool(cls.startswith('sparse') and ham.is_individual()), 'quadratic': bool(ham.quadratic()),
                       'diag': bool(ham.diagonal()), 'dc': bool(ham.diagonal_coulomb())}
        return st
    if k == 'genu':
        w = fqeio.make_wfn(2, 'ns', 2, 0, None)
        w.set_wfn(strategy='ones')
        ham = fqe.get_restricted_hamiltonian((numpy.array([[0.0, 0.1], [0.1, 0.0]]),))
        before = _snap(w)
        kw = {'spec_lim': [-1.0, 1.0]} if case['speclim'] else {}
        st, out = _try(lambda: w.apply_generated_unitary(0.1, case['algo'], ham, accuracy=1e-10, expansion=case['expansion'], **kw))
        st['unchanged'] = _snap(w) == before
        return st
    if k == 'setdata':
        norb = case['norb']
        w = fqeio.make_wfn(norb, 'sb', case['n'], 0, case['vec'])
        keys = sorted(w.sectors())
        data = {}
        for i, key in enumerate(keys):
            shp = w.sector(key).coeff.shape
            arr = numpy.full(shp, 7.0 + 0j)
            if i == case['bad']:
                if case['how'] == 'rows':
                    arr = numpy.full((shp[0] + 1, shp[1]), 7.0 + 0j)
                elif case['how'] == 'cols':
                    arr = numpy.full((shp[0], shp[1] + 1), 7.0 + 0j)
                else:
                    arr = numpy.full((shp[1] + 1, shp[0]), 7.0 + 0j)
            data[key] = arr
        before = _snap(w)
        st, _ = _try(lambda: w.set_wfn(strategy='from_data', raw_data=data))
        st['unchanged'] = _snap(w) == before
        st['nsec'] = len(keys)
        return st
    if k == 'sets':
        from props import c08
        return c08.run_impl(case['inner'], mode)
    if k == 'label':
        norb = case['norb']
        w = fqeio.make_wfn(norb, case['mode'], norb, 0 if case['mode'] == 'sb' or norb % 2 == 0 else 1, None)
        w.set_wfn(strategy='ones')
        op = FermionOperator()
        for ops, re, im in case['terms']:
            op += FermionOperator(tuple((q, d) for q, d in ops), complex(re, im))
        before = _snap(w)
        if case['entry'] == 'apply':
            st, _ = _try(lambda: w.apply(op))
        elif case['entry'] == 'evolve':
            st, _ = _try(lambda: w.time_evolve(0.1, op))
        elif case['entry'] == 'expect':
            st, _ = _try(lambda: w.expectationValue(op))
        else:
            st, _ = _try(lambda: fqe.get_hamiltonian_from_openfermion(op, norb=norb))
        st['unchanged'] = _snap(w) == before
        return st
    if k == 'nonherm':
        w = fqeio.make_wfn(2, 'ns', 2, 0, None)
        w.set_wfn(strategy='ones')
        op = FermionOperator(tuple((q, d) for q, d in case['ops']), complex(*case['c']))
        if case['two']:
            op += FermionOperator(tuple((q, 1 - d) for q, d in reversed(case['ops'])), complex(case['c'][0], case['c'][1]))  # NOT conjugated
        ham = fqe.get_sparse_hamiltonian(op)
        before = _snap(w)
        st, out = _try(lambda: w.time_evolve(0.1, ham))
        st['unchanged'] = _snap(w) == before
        if out is not None:
            st['norm_ratio'] = float(out.norm() / w.norm())
        return st
    if k == 'nonherm2':
        norb = case['norb']
        w = fqe.Wavefunction([[3, 1, norb]])
        numpy.random.seed(7)
        w.set_wfn(strategy='random')
        op = FermionOperator()
        for ops, re, im in case['terms']:
            op += FermionOperator(tuple((q, d) for q, d in ops), complex(re, im))
        st0, ham = _try(lambda: fqe.get_sparse_hamiltonian(op))
        if ham is None:
            st0['stage'] = 'construct'
            st0['unchanged'] = True
            return st0
        before = _snap(w)
        st, out = _try(lambda: w.time_evolve(0.3, ham))
        st['unchanged'] = _snap(w) == before
        st['individual'] = bool(ham.is_individual())
        if out is not None:
            st['norm_ratio'] = float(out.norm() / w.norm())
        return st
    raise ValueError(k)


# ------------------------------------------------------------------ model verdicts
LET = 'abcdefghijklmnopqrstuvwxyz'


def _tokens(pattern):
    """harness-side lexer only (splitting on blanks, classifying characters); the DECISION is Guards.v"""
    toks = []
    for t in pattern.split():
        dag = t.endswith('^')
        body = t[:-1] if dag else t
        if len(body) == 1 and body in LET:
            toks += ['L', LET.index(body), int(dag)]
        elif body.isdigit() and body.isascii():
            toks += ['N', int(body), int(dag)]
        else:
            toks += ['B']
    return len(pattern.split()), toks


def expected(model, case):
    k = case['kind']
    if k == 'ctor':
        rows = []
        for nele, ms, norb in case['grid']:
            t = model.q('CTOR', 0, nele, ms, norb)
            rows.append('REJECT' if t[0] == 'REJECT' else [[int(x) for x in t[1:5]]])
        return {'rows': rows}
    if k == 'apply':
        cls = case['ham']['cls']
        dim = case['hnorb'] * (1 if cls in ('restricted', 'diag', 'dc2') else 2)
        wcn = case['mode'] != 'nb'
        wcs = case['mode'] != 'sb'
        t = model.q('GAPPLY', int(wcn), int(wcs), case['norb'], int(case['hcn']), KIND_TAG[cls], dim)
        return {'accept': t[0] == '1'}
    if k == 'rdm':
        n, toks = _tokens(case['pattern'])
        any_digit = 'N' in toks[::1] and any(x == 'N' for x in toks if isinstance(x, str))
        if any(ch.isdigit() for ch in case['pattern']):
            return {'accept': None}     # numeric element requests: only "raise or value", no crash
        t = model.q('GRDM', int(case['mode'] != 'sb'), n, *toks)
        return {'accept': t[0] == '1'}
    if k == 'genu':
        t = model.q('GGENU', case['algo'] if case['algo'] in ('taylor', 'chebyshev') else 'other',
                    int(case['speclim']), int(isinstance(case['expansion'], int)))
        return {'accept': t[0] == '1'}
    if k == 'setdata':
        return {'accept': case['bad'] >= 99}   # filled in compare (needs the sector count)
    if k == 'nonherm2':
        # Hermiticity of the SOURCE expression, decided independently of FQE (openfermion's normal ordering)
        from openfermion import FermionOperator, normal_ordered, hermitian_conjugated
        op = FermionOperator()
        for ops, re, im in case['terms']:
            op += FermionOperator(tuple((q, d) for q, d in ops), complex(re, im))
        diff = normal_ordered(op - hermitian_conjugated(op))
        herm = all(abs(c) < 1e-12 for c in diff.terms.values())
        return {'herm': herm, 'nterms': len([c for c in normal_ordered(op).terms.values() if abs(c) > 1e-12])}
    return {}


def compare(case, got, exp, mode):
    if 'crash' in got:
        return ['INTERPRETER DIED: %s' % str(got)[:300]]
    if 'exc' in got:
        return ['harness-level exception %s: %s' % (got.get('exc'), got.get('msg'))]
    bad = []
    k = case['kind']
    if k == 'ctor':
        for (nele, ms, norb), g, e in zip(case['grid'], got['rows'], exp['rows']):
            if e == 'REJECT':
                if g['ok']:
                    bad.append('Wavefunction([[%d,%d,%d]]) accepted an impossible sector: %s' % (nele, ms, norb, g.get('keys')))
            else:
                if not g['ok']:
                    bad.append('Wavefunction([[%d,%d,%d]]) rejected a valid sector (%s)' % (nele, ms, norb, g.get('raised')))
                elif g['keys'] != e:
                    bad.append('Wavefunction([[%d,%d,%d]]) sector %s, expected %s' % (nele, ms, norb, g['keys'], e))
            if len(bad) > 3:
                break
        return bad
    if k == 'ctor_misc':
        for name, st in got.items():
            if st['ok']:
                bad.append('%s: accepted' % name)
        return bad
    if k in ('apply', 'rdm', 'genu'):
        if exp['accept'] is None:
            pass
        elif exp['accept'] and not got['ok']:
            # a refusal of a valid request is not a C14 violation unless the call is documented as supported;
            # sparse Sz-changing terms on one sector etc. are honest refusals
            if k == 'apply' and got.get('raised') in ('ValueError', 'TypeError', 'AssertionError'):
                pass
            else:
                bad.append('%s: valid request raised %s(%s)' % (k, got.get('raised'), got.get('msg')))
        elif not exp['accept'] and got['ok']:
            what = {'apply': 'incompatible Hamiltonian/wavefunction pair (mode %s, class %s, dim for norb %s vs %s, conserve_number %s)' %
                    (case.get('mode'), case.get('ham', {}).get('cls'), case.get('hnorb'), case.get('norb'), case.get('hcn')),
                    'rdm': "malformed RDM pattern '%s'" % case.get('pattern'),
                    'genu': 'apply_generated_unitary(algo=%r, spec_lim=%s, expansion=%r)' % (case.get('algo'), case.get('speclim'), case.get('expansion'))}[k]
            bad.append('%s was answered instead of refused' % what)
        if not got['ok'] and not got.get('unchanged', True):
            bad.append('%s raised %s but modified its operand' % (k, got.get('raised')))
        if got['ok'] and k in ('apply', 'rdm') and not got.get('unchanged', True):
            bad.append('%s modified its operand' % k)
        return bad
    if k == 'inplace':
        f = got['flags']
        valid = (not case['inplace']) or f['individual'] or f['quadratic'] or f['dc']
        # a polynomial propagator that gives up ("maximum ... expansion limit reached") is the permitted outcome of
        # C16 (converge or raise), not a refusal of an incompatible request
        gave_up = got.get('raised') == 'RuntimeError' and 'expansion limit' in (got.get('msg') or '')
        if valid and not got['ok'] and not gave_up:
            bad.append('time_evolve(inplace=%s) on %s raised %s' % (case['inplace'], case['cls'], got.get('raised')))
        if not valid and got['ok']:
            bad.append('unsupported in-place evolution (%s) was answered' % case['cls'])
        if not got['ok'] and not got['unchanged']:
            bad.append('refused in-place evolution modified the wavefunction')
        if got['ok'] and not case['inplace'] and not got['unchanged']:
            bad.append('out-of-place evolution modified the wavefunction')
        return bad
    if k == 'setdata':
        accept = case['bad'] >= got['nsec']
        if accept and not got['ok']:
            bad.append('set_wfn(from_data) with correct shapes raised %s' % got.get('raised'))
        if not accept:
            if got['ok']:
                bad.append('set_wfn(from_data) accepted data of the wrong shape for sector #%d' % case['bad'])
            elif not got['unchanged']:
                bad.append('PARTIAL-UPDATE set_wfn(from_data) raised %s for sector #%d but had already overwritten other sectors' % (got.get('raised'), case['bad']))
        return bad
    if k == 'sets':
        from props import c08
        return c08.compare(case['inner'], got, {'raised': True}, mode)
    if k == 'label':
        inside = case['L'] < 2 * case['norb']
        what = '%s with a FermionOperator whose largest spin-orbital label is %d (norb = %d, %d terms)' % (
            case['entry'], case['L'], case['norb'], len(case['terms']))
        if inside and not got['ok']:
            bad.append('%s raised %s: %s' % (what, got.get('raised'), got.get('msg')))
        if not inside and got['ok']:
            bad.append('%s was answered instead of refused: the label addresses no spin orbital of the space' % what)
        if not got['unchanged']:
            bad.append('%s modified the wavefunction' % what)
        return bad
    if k == 'nonherm2':
        if got.get('stage') == 'construct' or not got.get('individual', True):
            return bad          # refused at construction, or not routed through the single-term evolution
        if not exp['herm'] and got['ok']:
            bad.append('non-Hermitian two-term generator %s [%s] was evolved (norm ratio %s) instead of refused' %
                       (case['terms'], case['tag'], got.get('norm_ratio')))
        if exp['herm'] and got['ok'] and abs(got.get('norm_ratio', 1.0) - 1.0) > 1e-9:
            bad.append('Hermitian generator %s evolved to norm ratio %r' % (case['terms'], got.get('norm_ratio')))
        if not got['ok'] and not got['unchanged']:
            bad.append('refused evolution modified the wavefunction')
        return bad
    if k == 'nonherm':
        herm = (not case['two'] and sorted(q for q, d in case['ops'] if d) == sorted(q for q, d in case['ops'] if not d) and case['c'][1] == 0) or \
               (case['two'] and case['c'][1] == 0)
        if not herm and got['ok']:
            bad.append('non-Hermitian single-term generator %s (coefficient %s%s) was evolved (norm ratio %s)' %
                       (case['ops'], case['c'], ', second term not conjugated' if case['two'] else '', got.get('norm_ratio')))
        if not got['ok'] and not got['unchanged']:
            bad.append('refused evolution modified the wavefunction')
        return bad
    return bad


def classify(case, mode, bad, got, exp):
    return None


def nontrivial(case, exp):
    return True


def case_class(case):
    k = case['kind']
    if k == 'apply':
        return 'apply/%s/%s/d%+d/hcn%d' % (case['mode'], case['ham']['cls'], case['hnorb'] - case['norb'], case['hcn'])
    if k == 'label':
        return 'label/%s/%s/L%+d/%dterms' % (case['entry'], case['mode'], case['L'] - 2 * case['norb'], len(case['terms']))
    return k


def shrink(case):
    if case['kind'] == 'ctor':
        return [dict(case, grid=[g]) for g in case['grid']]
    return []


def sample(case):
    c = dict(case)
    for key in ('vec', 'grid'):
        if key in c and isinstance(c[key], list):
            c[key] = c[key][:3]
    if 'ham' in c:
        c['ham'] = dict(c['ham'], entries=c['ham']['entries'][:3])
    return c


THEOREM_FILES = ['P_C14']
RULE = ('malformed stream: exhaustive sector grid for the raw constructor; wavefunction mode x Hamiltonian class x '
        'orbital dimension off by -1/0/+1 x number-conservation flag for apply and time_evolve; 27 RDM pattern strings '
        '(valid, wrong counts, repeated/upper-case letters, mixed digits, rank 5, empty, stray blanks); in-place evolution '
        'for every class; algorithm name / spectral bounds / expansion type; from_data with one wrong shape; '
        'non-Hermitian single-term generators. Every call in a subprocess; operand bytes snapshotted')
NOT_PROVED = ['the lexer that splits an RDM string into tokens is harness code; the grammar decision is Guards.v']
