"""C17 — low-rank, Givens and charge-charge evolution helpers equal the named unitaries.
* evolve_fqe_givens / _sector / _unrestricted (wfn, u)  ==  Ext(u) psi: the many-body unitary
  a†_p -> sum_q u[q,p] a†_q  (oracle: exact minors, Ext.v), on exactly unitary
  Gaussian-rational u incl. identity blocks, pure phases and permutations (vanishing
  Givens angles / phases);
* charge-charge helpers == exp(-i t sum v_pq n_p n_q) in each documented index convention
  (oracle: exact Taylor sums of the Fock-space model, C02);
* double_factor_trotter_evolution == ordered product of those (each piece is tied to the
  model separately);
* LowRankTrotter factor data reassemble to the two-electron operator (square_expand
  identity, numpy on the returned floats)."""
import math

import fqeio
from props import c01, c02, c12

PID = 'C17'
MODES = ['C', 'PY0']
COMPARE_ARITY = 4


def gen_cases(rng, tier):
    cases = []
    for _ in range(24 if tier == 'quick' else 150):
        norb = rng.randint(1, 3)
        variant = rng.choice(['both', 'alpha', 'beta', 'unrestricted'])
        nfac = rng.choice([0, 1, 2, 3])
        real = rng.random() < 0.4        # real orthogonal matrices: Givens angles of either sign, no phases
        if real:
            nfac = rng.choice([1, 2, 3, 4])
        if variant == 'unrestricted':
            mode = 'sb'
            nn, sz = rng.randint(0, 2 * norb), 0
            if norb == 3:
                nn = rng.choice([1, 2, 5])
            G, d = c12.random_unitary(rng, 2 * norb, nfac, real=real)
        else:
            mode = 'ns'
            na, nb = rng.randint(0, norb), rng.randint(0, norb)
            if norb >= 2 and rng.random() < 0.75:
                # partially filled shells: on an empty or full shell a rotation is only a phase
                na, nb = rng.randint(1, norb - 1), rng.randint(1, norb - 1)
            nn, sz = na + nb, na - nb
            G, d = c12.random_unitary(rng, norb, nfac, real=real)
        keys = fqeio.sector_keys(norb, mode, nn, sz)
        cases.append({'kind': 'givens', 'variant': variant, 'norb': norb, 'mode': mode, 'n': nn, 'sz': sz,
                      'vec': fqeio.random_state(rng, norb, keys, density=0.8, amp=2),
                      'G': [[list(x) for x in row] for row in G], 'd': d})
    # unrestricted rotations (every rotation between neighbouring spin orbitals of different spin changes S_z), systematically
    # over the electron number - odd and even - for 1, 2 and 3 orbitals, real and complex, at least two Givens factors
    for norb in (1, 2, 3):
        for nn in range(0, 2 * norb + 1):
            if tier == 'quick' and norb == 3 and nn in (0, 4, 6):
                continue
            for real in ((False, True) if tier != 'quick' else (nn % 2 == 0,)):
                G, d = c12.random_unitary(rng, 2 * norb, rng.choice([2, 3, 4]), real=real)
                keys = fqeio.sector_keys(norb, 'sb', nn, 0)
                cases.append({'kind': 'givens', 'variant': 'unrestricted', 'norb': norb, 'mode': 'sb', 'n': nn, 'sz': 0,
                              'vec': fqeio.random_state(rng, norb, keys, density=0.8, amp=2),
                              'G': [[list(x) for x in row] for row in G], 'd': d})
    for _ in range(20 if tier == 'quick' else 120):
        norb = rng.randint(1, 3)
        conv = rng.choice(['unrestricted', 'alpha_beta', 'alpha', 'beta', 'dc'])
        if conv == 'unrestricted':
            mode = 'sb'
            nn, sz = rng.randint(0, 2 * norb), 0
            dim = 2 * norb
        else:
            mode = 'ns'
            na, nb = rng.randint(0, norb), rng.randint(0, norb)
            nn, sz = na + nb, na - nb
            dim = norb
        v = [[rng.choice([0, 0, 1, -1, 2, -3]) for _ in range(dim)] for _ in range(dim)]
        keys = fqeio.sector_keys(norb, mode, nn, sz)
        cases.append({'kind': 'cc', 'conv': conv, 'norb': norb, 'mode': mode, 'n': nn, 'sz': sz, 'v': v,
                      't': rng.choice([0.0, 0.125, -0.3, 1.0, 0.7]),
                      'vec': fqeio.random_state(rng, norb, keys, density=0.8, amp=2)})
    # every (n_alpha, n_beta) sector of 3 (thorough: 2 to 4) orbitals for every single-sector convention: the kernels share
    # work between the spins when they deem the two string spaces equal (equal counts, equal electron numbers, ...)
    for norb in ((3,) if tier == 'quick' else (2, 3, 4)):
        for conv in ('alpha_beta', 'alpha', 'beta', 'dc'):
            for na in range(norb + 1):
                for nb in range(norb + 1):
                    if norb == 4 and (na + nb != norb or na == nb) and rng.random() < 0.7:
                        continue
                    v = [[rng.choice([0, 1, -1, 2, -3]) for _ in range(norb)] for _ in range(norb)]
                    cases.append({'kind': 'cc', 'conv': conv, 'norb': norb, 'mode': 'ns', 'n': na + nb, 'sz': na - nb, 'v': v,
                                  't': rng.choice([0.125, -0.3, 1.0, 0.7]),
                                  'vec': fqeio.random_state(rng, norb, [(na + nb, na - nb)], density=0.9, amp=2)})
    for _ in range(6 if tier == 'quick' else 40):
        norb = rng.randint(2, 3)
        na, nb = rng.randint(0, norb), rng.randint(0, norb)
        L = rng.randint(1, 3)
        us = [c12.random_unitary(rng, norb, rng.randint(0, 3), real=rng.random() < 0.4) for _ in range(L + 1)]
        vs = [[[rng.choice([0, 1, -1, 2]) for _ in range(norb)] for _ in range(norb)] for _ in range(L)]
        cases.append({'kind': 'trotter', 'norb': norb, 'n': na + nb, 'sz': na - nb,
                      'us': [{'G': [[list(x) for x in row] for row in G], 'd': d} for G, d in us], 'vs': vs,
                      'dt': rng.choice([0.1, 0.5, -0.25]),
                      'vec': fqeio.random_state(rng, norb, [(na + nb, na - nb)], density=0.8, amp=2)})
    for _ in range(5 if tier == 'quick' else 30):
        cases.append({'kind': 'factor', 'norb': rng.randint(2, 3), 'seed': rng.randrange(10 ** 6),
                      'cutoff': rng.choice([1e-8, 1e-3, 0.2])})
    return cases


# ---------------------------------------------------------------- implementation
def _U(spec):
    import numpy
    return numpy.array([[complex(*x) for x in row] for row in spec['G']]) / spec['d']


def run_impl(case, mode):
    import copy
    import numpy
    import fqe
    from fqe.algorithm import low_rank
    norb = case['norb']
    if case['kind'] == 'givens':
        w = fqeio.make_wfn(norb, case['mode'], case['n'], case['sz'], case['vec'])
        before = fqeio.read_state(w)
        u = _U(case)
        if case['variant'] == 'both':
            out = low_rank.evolve_fqe_givens(w, u)
        elif case['variant'] in ('alpha', 'beta'):
            out = low_rank.evolve_fqe_givens_sector(w, u, sector=case['variant'])
        else:
            out = low_rank.evolve_fqe_givens_unrestricted(w, u)
        return {'out': fqeio.read_state(out), 'unchanged': fqeio.read_state(w) == before,
                'norm': [float(w.norm()), float(out.norm())]}
    if case['kind'] == 'cc':
        w = fqeio.make_wfn(norb, case['mode'], case['n'], case['sz'], case['vec'])
        before = fqeio.read_state(w)
        v = numpy.array(case['v'], dtype=float)
        t = case['t']
        conv = case['conv']
        if conv == 'unrestricted':
            out = low_rank.evolve_fqe_charge_charge_unrestricted(w, v, t)
        elif conv == 'alpha_beta':
            out = low_rank.evolve_fqe_charge_charge_alpha_beta(w, v, t)
        elif conv in ('alpha', 'beta'):
            out = low_rank.evolve_fqe_charge_charge_sector(w, v, sector=conv, time=t)
        else:
            out = low_rank.evolve_fqe_diagonal_coulomb(w, v, t)
        return {'out': fqeio.read_state(out), 'unchanged': fqeio.read_state(w) == before}
    if case['kind'] == 'trotter':
        w = fqeio.make_wfn(norb, 'ns', case['n'], case['sz'], case['vec'])
        us = [_U(s) for s in case['us']]
        vs = [numpy.array(v, dtype=float) for v in case['vs']]
        out = low_rank.double_factor_trotter_evolution(w, us, vs, case['dt'])
        ref = low_rank.evolve_fqe_givens(w, us[0])
        for k in range(1, len(us)):
            ref = low_rank.evolve_fqe_diagonal_coulomb(ref, vs[k - 1], case['dt'])
            ref = low_rank.evolve_fqe_givens(ref, us[k])
        wrong = None
        try:
            low_rank.double_factor_trotter_evolution(w, us, vs[:-1] if len(vs) > 0 else vs + [vs], case['dt'])
            wrong = 'accepted'
        except ValueError:
            wrong = 'ValueError'
        except Exception as e:  # noqa
            wrong = type(e).__name__
        return {'diff': float((out - ref).norm()), 'norm': [float(w.norm()), float(out.norm())], 'wrong_len': wrong}
    if case['kind'] == 'factor':
        from fqe.algorithm.low_rank_api import LowRankTrotter
        rs = numpy.random.RandomState(case['seed'])
        n = norb
        # two-electron tensor with the 8-fold symmetry of real orbitals, physics ordering V[i,j,k,l] a†_i a†_j a_k a_l
        L = rs.randint(-2, 3, size=(3, n, n)).astype(float)
        L = L + L.transpose(0, 2, 1)
        chem = numpy.einsum('lpq,lrs->pqrs', L, L)              # (pq|rs)
        tei = numpy.einsum('psqr->pqrs', chem) if False else chem.transpose(0, 2, 3, 1)  # V[p,r,s,q] = (pq|rs)
        oei = rs.randint(-2, 3, size=(n, n)).astype(float)
        oei = oei + oei.T
        lrt = LowRankTrotter(oei=oei, tei=tei, integral_cutoff=case['cutoff'])
        ev, obs, obc = lrt.first_factorization()
        # reassemble: sum_l ev_l (sum_pq obs_l[p,q] a†_p a_q)^2 + sum obc[p,q] a†_p a_q  vs  1/2 sum V[ijkl] a†_i a†_j a_k a_l
        nso = 2 * n
        two = numpy.zeros((nso,) * 4, dtype=complex)     # coefficient of a†_p a†_r a_s a_q
        one = numpy.array(obc, dtype=complex).copy()
        for lam, h in zip(ev, obs):
            two += lam * numpy.einsum('pq,rs->prsq', h, h)
            one += lam * (h @ h)
        ref2 = numpy.zeros((nso,) * 4, dtype=complex)
        for s in range(2):
            for tt in range(2):
                ref2[s::2, tt::2, tt::2, s::2] += 0.5 * tei
        def asym(T):
            return T - T.transpose(1, 0, 2, 3) - T.transpose(0, 1, 3, 2) + T.transpose(1, 0, 3, 2)
        err2 = float(numpy.abs(asym(two) - asym(ref2)).max())
        err1 = float(numpy.abs(one).max())          # one-body remainder must cancel
        dropped = float(numpy.sum(numpy.abs(numpy.linalg.eigvalsh(0.5 * chem.reshape(n * n, n * n)))) - numpy.sum(numpy.abs(ev)))
        dd, bc = lrt.second_factorization(ev, obs)
        err_sq = 0.0
        for lam, h, D, B in zip(ev, obs, dd, bc):
            hs = h[::2, ::2]
            err_sq = max(err_sq, float(numpy.abs(B.conj().T @ B - numpy.eye(n)).max()))
            # B must diagonalise hs (in one of the two orientations a basis change can be documented in) and
            # D must be lam * outer(w, w) for the resulting diagonal w
            M1, M2 = B @ hs @ B.conj().T, B.conj().T @ hs @ B
            off = lambda M: float(numpy.abs(M - numpy.diag(numpy.diag(M))).max())
            M = M1 if off(M1) <= off(M2) else M2
            err_sq = max(err_sq, off(M))
            diag = numpy.diag(M)
            err_sq = max(err_sq, float(numpy.abs(D - numpy.real(lam) * numpy.outer(diag, diag).real).max()))
        return {'err2': err2, 'err1': err1, 'err_sq': err_sq, 'nfac': int(len(ev)), 'dropped': dropped, 'scale': float(numpy.abs(tei).max())}
    raise ValueError(case['kind'])


# ---------------------------------------------------------------- model
_MODEL = {}


def expected(model, case):
    _MODEL['m'] = model
    norb = case['norb']
    if case['kind'] == 'givens':
        G = [[tuple(x) for x in row] for row in case['G']]
        keys = fqeio.sector_keys(norb, case['mode'], case['n'], case['sz'])
        basis = fqeio.basis_of(norb, keys)
        I = c12.ident(norb)
        Id = [[(x[0] * case['d'], x[1] * case['d']) for x in row] for row in I]
        if case['variant'] == 'unrestricted':
            # OpenFermion mode order 2i+sigma -> blocked (sigma*norb + i)
            n2 = 2 * norb
            blk = lambda q: (q % 2) * norb + q // 2
            X = [[(0, 0)] * n2 for _ in range(n2)]
            for p in range(n2):
                for q in range(n2):
                    X[blk(p)][blk(q)] = G[p][q]
            t = model.q('EXTF', norb, n2, *c12._mat_tokens(X), *fqeio.vec_tokens(case['vec']), *fqeio.basis_tokens(basis))
            pw = lambda a, b: bin(a).count('1') + bin(b).count('1')
        else:
            Ma = G if case['variant'] in ('both', 'alpha') else Id
            Mb = G if case['variant'] in ('both', 'beta') else Id
            t = model.q('EXTB', norb, norb, *c12._mat_tokens(Ma), *c12._mat_tokens(Mb), *fqeio.vec_tokens(case['vec']), *fqeio.basis_tokens(basis))
            pw = lambda a, b: bin(a).count('1') + bin(b).count('1')
        out = {}
        for k, (a, b) in enumerate(basis):
            den = case['d'] ** pw(a, b)
            out['%d,%d' % (a, b)] = [int(t[2 * k]) / den, int(t[2 * k + 1]) / den]
        return {'out': out}
    if case['kind'] == 'cc':
        v = case['v']
        ents = []
        conv = case['conv']
        dim = len(v)
        for p in range(dim):
            for q in range(dim):
                if v[p][q] == 0:
                    continue
                if conv == 'unrestricted':
                    pairs = [(p, q)]
                elif conv == 'alpha_beta':
                    pairs = [(2 * p, 2 * q + 1)]
                elif conv == 'alpha':
                    pairs = [(2 * p, 2 * q)]
                elif conv == 'beta':
                    pairs = [(2 * p + 1, 2 * q + 1)]
                else:
                    pairs = [(2 * p + s, 2 * q + u) for s in (0, 1) for u in (0, 1)]
                for a, b in pairs:
                    ents.append([[[a, 1], [a, 0], [b, 1], [b, 0]], v[p][q], 0])
        ham = {'cls': 'sparse', 'rank': 0, 'entries': ents, 'e0': [0, 0], 'real': True}
        c = dict(case, ham=ham)
        if not ents or case['t'] == 0.0:
            return {'out': {'%d,%d' % (a, b): [float(re), float(im)] for a, b, re, im in case['vec']}}
        r = c02.taylor_oracle(model, c)
        if r is None:
            return {'skip': True}
        return {'out': r[0]}
    return {}


def compare(case, got, exp, mode):
    if 'exc' in got or 'crash' in got:
        return ['raised %s: %s' % (got.get('exc', 'CRASH'), str({k: got[k] for k in got if k != 'tb'})[:300])]
    bad = []
    if case['kind'] in ('givens', 'cc'):
        if exp.get('skip'):
            return []
        if not got['unchanged']:
            bad.append('helper modified its input wavefunction')
        g = {'%d,%d' % (a, b): complex(re, im) for a, b, re, im in got['out']}
        nrm = math.sqrt(sum(re * re + im * im for a, b, re, im in case['vec']))
        worst, wk = 0.0, None
        for k in set(g) | set(exp['out']):
            e = complex(*exp['out'].get(k, [0.0, 0.0]))
            d = abs(g.get(k, 0) - e)
            if d > worst:
                worst, wk = d, k
        if worst > 1e-8 * (1 + nrm):
            what = ('evolve_fqe_givens[%s] vs Ext(u) psi' % case['variant']) if case['kind'] == 'givens' else \
                ('charge-charge[%s](t=%g) vs exp(-it sum v n n)' % (case['conv'], case['t']))
            bad.append('%s: coefficient of %s is %r, expected %r' % (what, wk, g.get(wk, 0), complex(*exp['out'].get(wk, [0.0, 0.0]))))
        return bad
    if case['kind'] == 'trotter':
        if got['diff'] > 1e-9 * (1 + got['norm'][0]):
            bad.append('double_factor_trotter_evolution differs from the ordered product of its factors by %.3g' % got['diff'])
        if abs(got['norm'][0] - got['norm'][1]) > 1e-8 * (1 + got['norm'][0]):
            bad.append('Trotter step changed the norm %s' % got['norm'])
        if got['wrong_len'] != 'ValueError':
            bad.append('inconsistent number of basis changes / interaction matrices: %s' % got['wrong_len'])
        return bad
    if case['kind'] == 'factor':
        tol = 1e-8 * (1 + got['scale']) + 2.5 * max(got['dropped'], 0.0) + (case['cutoff'] if case['cutoff'] > 1e-6 else 0.0) * 4
        if got['err2'] > tol:
            bad.append('low-rank factors do not reassemble to the two-electron operator: max deviation %.3g (allowed %.3g, %d factors)' % (got['err2'], tol, got['nfac']))
        if got['err1'] > tol:
            bad.append('one-body correction does not cancel the normal-ordering remainder of the squares: %.3g' % got['err1'])
        if got['err_sq'] > 1e-8 * (1 + got['scale']):
            bad.append('second factorization data (basis change, density-density matrix) inconsistent: %.3g' % got['err_sq'])
        return bad
    return bad


def classify(case, mode, bad, got, exp):
    return None


def nontrivial(case, exp):
    if case['kind'] == 'givens':
        n = len(case['G'])
        return any(case['G'][i][j] != [0, 0] for i in range(n) for j in range(n) if i != j) and len(case['vec']) >= 2
    if case['kind'] == 'cc':
        return case['t'] != 0.0 and any(x for row in case['v'] for x in row)
    return True


def case_class(case):
    return '%s/%s' % (case['kind'], case.get('variant', case.get('conv', '')))


def shrink(case):
    return []


def sample(case):
    c = dict(case)
    if 'vec' in c:
        c['vec'] = c['vec'][:3]
    if 'us' in c:
        c['us'] = '%d unitaries' % len(c['us'])
    return c


THEOREM_FILES = ['P_C17']
RULE = ('exactly unitary Gaussian-rational u with 0-3 elementary factors (identity, pure phases, swaps, Pythagorean Givens '
        'rotations) through evolve_fqe_givens / _sector / _unrestricted; integer interaction matrices with zeros through the '
        'four charge-charge helpers and the diagonal-Coulomb helper at t in {0, 0.125, -0.3, 0.7, 1}; Trotter steps with 1-3 '
        'factors; random symmetric two-electron tensors through LowRankTrotter with cut-offs {1e-8, 1e-3, 0.2}')
NOT_PROVED = ['whole Givens network = Ext(u) needs ext_mul (Cauchy-Binet); OpenFermion givens_decomposition_square and '
              'low_rank_two_body_decomposition are library code, checked end to end only']
