"""C03 — RDMs and expectation values are the true matrix elements.
Oracle: Rdm.v (tensor of <bra| op_0 ... op_{2r-1} |ket>, spin-summed by positional
label or spin-orbital) and m_matel_h for Hamiltonian expectation values; exact."""
import itertools

import fqeio
from props import c01

PID = 'C03'
MODES = ['C', 'PY0']
COMPARE_ARITY = 4
LETTERS = 'ijklmnop'


def valid_spinfree(pat):
    r = len(pat) // 2
    return all(pat[p] != pat[p + r] for p in range(r))


def patterns(rank, spinfree):
    out = []
    for pat in itertools.product([0, 1], repeat=2 * rank):
        if sum(pat) != rank:
            continue
        if spinfree and not valid_spinfree(pat):
            continue
        out.append(list(pat))
    return out


def pat_string(pat, letters=None):
    letters = letters or LETTERS
    return ' '.join(letters[p] + ('^' if d else '') for p, d in enumerate(pat))


def gen_cases(rng, tier):
    cases = []

    def add(norb, mode, nn, sz, pat, transition, unnorm=True, letters=None):
        keys = fqeio.sector_keys(norb, mode, nn, sz)
        ket = fqeio.random_state(rng, norb, keys, density=0.8, amp=2)
        bra = fqeio.random_state(rng, norb, keys, density=0.8, amp=2) if transition else None
        cases.append({'kind': 'rdm', 'norb': norb, 'mode': mode, 'n': nn, 'sz': sz, 'pat': pat,
                      'ket': ket, 'bra': bra, 'letters': letters})

    def sector(norb, mode):
        if mode == 'ns':
            na, nb = rng.randint(0, norb), rng.randint(0, norb)
            return na + nb, na - nb
        return rng.randint(0, 2 * norb), 0

    # ranks 1 and 2: every ordering, both readings
    for mode in ('ns', 'sb'):
        for rank in (1, 2):
            for pat in patterns(rank, mode == 'ns'):
                for rep in range(2 if tier == 'quick' else 6):
                    norb = rng.randint(1, 3 if rank == 1 else 2) if mode == 'sb' else rng.randint(1, 3)
                    nn, sz = sector(norb, mode)
                    add(norb, mode, nn, sz, pat, transition=(rep % 2 == 1))
    # ranks 3 and 4: random orderings
    for mode in ('ns', 'sb'):
        for rank, cnt in ((3, 8 if tier == 'quick' else 20), (4, 3 if tier == 'quick' else 6)):
            pats = patterns(rank, mode == 'ns')
            for pat in rng.sample(pats, min(cnt, len(pats))):
                norb = 2 if (mode == 'ns' and rank == 3) else (2 if mode == 'ns' else 1)
                if mode == 'sb' and rank == 3:
                    norb = rng.choice([1, 2]) if tier != 'quick' else 1
                nn, sz = sector(norb, mode)
                add(norb, mode, nn, sz, pat, transition=rng.random() < 0.5)
    # spin-broken wavefunctions with MORE electrons than the rank - 1: the 3- and 4-RDM of FqeDataSet add the lower RDMs back
    # (delta terms), which vanish identically for N < rank; two orbitals, N = 3 and 4, every sector of that N populated
    for rank, nn in ((4, 3), (4, 4), (3, 3)) if tier == 'quick' else ((4, 3), (4, 4), (4, 3), (3, 3), (3, 4), (3, 2), (4, 2)):
        pats = patterns(rank, False)
        add(2, 'sb', nn, 0, rng.choice(pats), transition=(nn == 4))
    # letters in a different alphabetical order than positions
    for _ in range(4):
        norb = rng.randint(2, 3)
        nn, sz = sector(norb, 'ns')
        pat = rng.choice(patterns(2, True))
        letters = list('ijkl')
        rng.shuffle(letters)
        add(norb, 'ns', nn, sz, pat, transition=True, letters=''.join(letters))
    # low filling (reference path uses other kernels), ranks 1-2
    for _ in range(4 if tier == 'quick' else 20):
        norb = rng.choice([4, 5])
        na, nb = rng.randint(0, 1), rng.randint(0, 1)
        add(norb, 'ns', na + nb, na - nb, rng.choice(patterns(rng.choice([1, 2]), True)), transition=rng.random() < 0.5)
    # large sectors (more than 100 / 200 strings of one spin: several determinant blocks of the blocked RDM kernels),
    # sparse Gaussian-integer states spread over the blocks; ranks 1-2
    for _ in range(4 if tier == 'quick' else 16):
        norb, na, nb = rng.choice([(10, 4, 1), (10, 5, 1), (12, 3, 1), (11, 4, 0), (10, 1, 5), (9, 4, 2), (10, 5, 0)])
        keys = fqeio.sector_keys(norb, 'ns', na + nb, na - nb)
        basis = fqeio.basis_of(norb, keys)

        def sparse_state():
            sel = rng.sample(basis, min(len(basis), 14))
            # make connected pairs likely: add single excitations of chosen determinants
            return [[a, b, rng.randint(-2, 2) or 1, rng.randint(-2, 2)] for a, b in sel]
        pat = rng.choice(patterns(rng.choice([1, 2, 2]), True))
        cases.append({'kind': 'rdm', 'norb': norb, 'mode': 'ns', 'n': na + nb, 'sz': na - nb, 'pat': pat, 'big': True,
                      'ket': sparse_state(), 'bra': sparse_state() if rng.random() < 0.5 else None, 'letters': None})
    # low filling with two electrons of one spin (>= 7 orbitals): same-spin blocks of the low-filling RDM kernels
    # (reference path), complex sparse states, bra = ket and transition
    for _ in range(4 if tier == 'quick' else 16):
        norb = rng.choice([7, 7, 8])
        na, nb = rng.choice([(2, 0), (0, 2), (2, 1), (1, 2), (2, 2)])
        keys = fqeio.sector_keys(norb, 'ns', na + nb, na - nb)
        basis = fqeio.basis_of(norb, keys)

        def sparse_lf():
            return [[a, b, rng.randint(-2, 2) or 1, rng.randint(-2, 2) or 1] for a, b in rng.sample(basis, min(len(basis), 12))]
        cases.append({'kind': 'rdm', 'norb': norb, 'mode': 'ns', 'n': na + nb, 'sz': na - nb, 'pat': rng.choice(patterns(2, True)),
                      'big': True, 'ket': sparse_lf(), 'bra': sparse_lf() if rng.random() < 0.5 else None, 'letters': None})
    # numeric elements and Hamiltonian expectation values
    for _ in range(20 if tier == 'quick' else 120):
        norb = rng.randint(1, 3)
        mode = rng.choice(['ns', 'sb'])
        nn, sz = sector(norb, mode)
        keys = fqeio.sector_keys(norb, mode, nn, sz)
        ket = fqeio.random_state(rng, norb, keys, density=0.8, amp=2)
        bra = fqeio.random_state(rng, norb, keys, density=0.8, amp=2) if rng.random() < 0.5 else None
        r = rng.randint(1, 3)
        cr = [rng.randrange(2 * norb) for _ in range(r)]
        an = [rng.randrange(2 * norb) for _ in range(r)]
        ops = [[q, 1] for q in cr] + [[q, 0] for q in an]
        rng.shuffle(ops)
        if mode == 'ns' and not c01._sz_conserving(ops):
            ops = [[2 * (cr[0] // 2), 1], [2 * (an[0] // 2), 0]]
        cases.append({'kind': 'element', 'norb': norb, 'mode': mode, 'n': nn, 'sz': sz, 'ket': ket, 'bra': bra, 'ops': ops})
    for _ in range(20 if tier == 'quick' else 120):
        norb = rng.randint(1, 3)
        mode = rng.choice(['ns', 'sb'])
        nn, sz = sector(norb, mode)
        keys = fqeio.sector_keys(norb, mode, nn, sz)
        cls = rng.choice(['restricted', 'sso', 'gso', 'diag', 'dc2', 'sparse'] if mode == 'ns' else ['gso', 'diag2', 'sparse'])
        rank = rng.randint(1, 2)
        ham = c01.gen_ham(rng, cls, rank, norb, 'sparse', rng.random() < 0.4, rng.random() < 0.5)
        if mode == 'ns' and cls in ('gso', 'sso'):
            ham['entries'] = c01.pair_symmetrise(c01._sso_filter(ham['entries'], norb))
        if cls == 'sparse' and mode == 'ns':
            ham['entries'] = [e for e in ham['entries'] if c01._sz_conserving(e[0])] or [[[[0, 1], [0, 0]], 2, 1]]
        cases.append({'kind': 'expect', 'norb': norb, 'mode': mode, 'n': nn, 'sz': sz, 'ham': ham,
                      'ket': fqeio.random_state(rng, norb, keys, density=0.8, amp=2),
                      'bra': fqeio.random_state(rng, norb, keys, density=0.8, amp=2) if rng.random() < 0.5 else None})
    # transition quantities must not depend on the ORDER in which the sectors of the bra were created (same sectors, same
    # amplitudes): multi-sector wavefunctions of both broken-symmetry modes, every rank-1 and rank-2 pattern family
    for k in range(9 if tier == 'quick' else 45):
        mode = ['bare', 'nb', 'sb'][k % 3]
        norb = rng.randint(2, 3)
        if mode == 'sb':
            nn, sz = rng.randint(1, 2 * norb - 1), 0
            keys = fqeio.sector_keys(norb, mode, nn, sz)
        elif mode == 'nb':
            nn, sz = 0, rng.randint(-norb + 1, norb - 1)
            keys = fqeio.sector_keys(norb, mode, nn, sz)
        else:
            # wavefunctions from the bare constructor (default symmetry flags) holding several particle numbers of one s_z
            nn, sz = 0, rng.choice([0, 0, 1, -1])
            allk = [(n, sz) for n in range(abs(sz), 2 * norb - abs(sz) + 1, 2)]
            keys = sorted(rng.sample(allk, min(len(allk), rng.randint(2, 3))))
        if len(keys) < 2:
            continue
        pat = rng.choice(patterns(1, mode != 'sb') + patterns(2, mode != 'sb'))
        cases.append({'kind': 'order', 'norb': norb, 'mode': mode, 'n': nn, 'sz': sz, 'pat': pat,
                      'keys': [list(x) for x in keys],
                      'ket': fqeio.random_state(rng, norb, keys, density=0.9, amp=2),
                      'bra': fqeio.random_state(rng, norb, keys, density=0.9, amp=2)})
    for k, c in enumerate(cases):
        if c['kind'] in ('rdm', 'expect') and k % 3 == 1 and not c.get('big'):
            c['prelude'] = True
        if c.get('bra') and c.get('mode') in ('sb', 'nb') and k % 2 == 0:
            c['bra_order'] = 'rev'
    return cases


# ------------------------------------------------------------------ implementation
def run_impl(case, mode):
    import numpy
    import fqe
    norb = case['norb']
    if case['kind'] == 'order':
        keys = [tuple(x) for x in case['keys']]
        br = {'sb': ['spin'], 'nb': ['number'], 'bare': None}[case['mode']]
        ket = fqe.Wavefunction([[k[0], k[1], norb] for k in keys], broken=br)
        fqeio.set_state(ket, case['ket'])
        outs = []
        for order in (keys, list(reversed(keys)), keys[1:] + keys[:1]):
            b = fqe.Wavefunction([[k[0], k[1], norb] for k in order], broken=br)
            fqeio.set_state(b, case['bra'])
            try:
                t = numpy.asarray(ket.rdm(pat_string(case['pat'], case.get('letters')), brawfn=b))
                outs.append([[float(z.real), float(z.imag)] for z in t.reshape(-1)])
            except Exception as e:  # noqa
                outs.append('exc:' + type(e).__name__)
        return {'outs': outs}
    ket = fqeio.make_wfn(norb, case['mode'], case['n'], case['sz'], case['ket'])
    bra = fqeio.make_wfn(norb, case['mode'], case['n'], case['sz'], case['bra']) if case['bra'] else None
    if bra is not None and case.get('bra_order') == 'rev' and case['mode'] in ('sb', 'nb'):
        # the same sectors created in the opposite order (sector dictionaries of bra and ket then iterate differently)
        keys = fqeio.sector_keys(norb, case['mode'], case['n'], case['sz'])
        bra = fqe.Wavefunction([[k[0], k[1], norb] for k in reversed(keys)], broken=['spin'] if case['mode'] == 'sb' else ['number'])
        fqeio.set_state(bra, case['bra'])
    if case.get('prelude'):
        # the ket reaches its amplitudes through IN-PLACE updates of a held object on which the same quantity was
        # requested before (2 psi, request, back to psi): results must be those of the current coefficients
        import copy
        other = copy.deepcopy(ket)
        ket.ax_plus_y(1.0, other)
        try:
            if case['kind'] == 'rdm':
                ket.rdm(pat_string(case['pat'], case.get('letters')), brawfn=bra)
            elif case['kind'] == 'expect':
                ket.expectationValue(c01.build_ham(case['ham'], norb), brawfn=bra)
            for key in ket.sectors():
                sec = ket.sector(key)
                sec.get_openfermion_rdms()
        except Exception:  # noqa
            pass
        ket.ax_plus_y(-1.0, other)
    before = fqeio.read_state(ket)
    if case['kind'] == 'rdm':
        t = ket.rdm(pat_string(case['pat'], case.get('letters')), brawfn=bra)
        t = numpy.asarray(t)
        flat = t.reshape(-1)
        return {'shape': list(t.shape), 're': [float(x) for x in flat.real], 'im': [float(x) for x in flat.imag],
                'unchanged': fqeio.read_state(ket) == before}
    if case['kind'] == 'element':
        s = ' '.join('%d%s' % (q, '^' if d else '') for q, d in case['ops'])
        v = complex(ket.rdm(s, brawfn=bra))
        v2 = complex(ket.expectationValue(s, brawfn=bra))
        return {'val': [v.real, v.imag], 'val2': [v2.real, v2.imag]}
    if case['kind'] == 'expect':
        ham = c01.build_ham(case['ham'], norb)
        v = complex(ket.expectationValue(ham, brawfn=bra))
        import fqe
        v3 = complex(fqe.expectationValue(ket, ham, bra))          # the module-level entry point is the same operation
        return {'val': [v.real, v.imag], 'unchanged': fqeio.read_state(ket) == before, 'api_same': v3 == v}
    raise ValueError(case['kind'])


# ------------------------------------------------------------------ model
def expected(model, case):
    if case['kind'] == 'order':
        return {}
    norb = case['norb']
    ket = case['ket']
    bra = case['bra'] if case['bra'] else case['ket']
    if case['kind'] == 'rdm':
        sf = 1 if case['mode'] != 'sb' else 0
        t = model.q('RDM', norb, sf, len(case['pat']), *case['pat'], *fqeio.vec_tokens(bra), *fqeio.vec_tokens(ket))
        vals = [int(x) for x in t]
        dim = norb if sf else 2 * norb
        return {'shape': [dim] * len(case['pat']), 're': vals[0::2], 'im': vals[1::2]}
    if case['kind'] == 'element':
        ops = case['ops']
        t = model.q('MATELH', norb, 1, 'T', len(ops), *[x for q, d in ops for x in (q, d)], 1, 0,
                    *fqeio.vec_tokens(bra), *fqeio.vec_tokens(ket))
        return {'val': [int(t[0]), int(t[1])]}
    if case['kind'] == 'expect':
        t = model.q('MATELH', norb, *c01.ham_tokens(case['ham'], norb), *fqeio.vec_tokens(bra), *fqeio.vec_tokens(ket))
        return {'val': [int(t[0]), int(t[1])]}
    raise ValueError(case['kind'])


def compare(case, got, exp, mode):
    if 'exc' in got or 'crash' in got:
        return ['raised %s: %s' % (got.get('exc', 'CRASH'), str({k: got[k] for k in got if k != 'tb'})[:300])]
    bad = []
    if case['kind'] == 'order':
        o = got['outs']
        ref = o[0]
        for tag, other in (('reversed', o[1]), ('rotated', o[2])):
            if isinstance(ref, str) or isinstance(other, str):
                if ref != other:
                    bad.append('rdm with a bra whose sectors were created in %s order: %s, in sorted order: %s' % (tag, str(other)[:60], str(ref)[:60]))
                continue
            d = max([abs(x[0] - y[0]) + abs(x[1] - y[1]) for x, y in zip(ref, other)] + [0.0])
            if d > 1e-12 or len(ref) != len(other):
                bad.append('transition RDM depends on the order in which the sectors of the bra were created (%s vs sorted): max difference %.3g' % (tag, d))
        return bad
    if case['kind'] == 'rdm':
        if got['shape'] != exp['shape']:
            return ['rdm shape %s, expected %s' % (got['shape'], exp['shape'])]
        if not got['unchanged']:
            bad.append('rdm() modified the ket')
        dim = exp['shape'][0] if exp['shape'] else 1
        nidx = len(exp['shape'])
        for k, (gr, gi, er, ei) in enumerate(zip(got['re'], got['im'], exp['re'], exp['im'])):
            if abs(gr - er) > 1e-9 * (1 + abs(er)) or abs(gi - ei) > 1e-9 * (1 + abs(ei)):
                idx = []
                kk = k
                for _ in range(nidx):
                    idx.append(kk % dim)
                    kk //= dim
                bad.append("rdm('%s')%s = %r%+rj, exact <bra|..|ket> = %d%+dj" % (pat_string(case['pat']), list(reversed(idx)), gr, gi, er, ei))
                break
        return bad
    for key in ('val', 'val2'):
        if key in got:
            g, e = got[key], exp['val']
            if abs(g[0] - e[0]) > 1e-9 * (1 + abs(e[0])) or abs(g[1] - e[1]) > 1e-9 * (1 + abs(e[1])):
                bad.append('%s %s = %r%+rj, exact %d%+dj' % (case['kind'], 'rdm(str)' if key == 'val' else 'expectationValue', g[0], g[1], e[0], e[1]))
    if case['kind'] == 'expect' and not got.get('unchanged', True):
        bad.append('expectationValue modified the ket')
    if got.get('api_same') is False:
        bad.append('fqe.expectationValue(wfn, ops, bra) differs from wfn.expectationValue(ops, bra)')
    return bad


def classify(case, mode, bad, got, exp):
    if case['kind'] == 'element':
        pseudo = {'ham': {'cls': 'sparse', 'entries': [[case['ops'], 1, 0]]}}
        if c01.sparse_normal_orders_to_zero(pseudo):
            return 'F-C01-empty-sparse-is-identity'
    if case['kind'] == 'expect':
        if c01.in_spinorb_single_sector_class({'mode': case['mode'], 'norb': case['norb'], 'ham': case['ham']}):
            return 'F-C01-spinorb-single-sector'
        if c01.sparse_normal_orders_to_zero({'ham': case['ham']}):
            return 'F-C01-empty-sparse-is-identity'
    return None


def nontrivial(case, exp):
    if case['kind'] == 'order':
        return True
    if case['kind'] == 'rdm':
        vals = set(zip(exp['re'], exp['im'])) - {(0, 0)}
        return len(vals) >= 2
    return exp['val'] != [0, 0]


def case_class(case):
    if case['kind'] == 'rdm' and case.get('big'):
        return 'rdm/big/norb%d/r%d' % (case['norb'], len(case['pat']) // 2)
    if case['kind'] == 'rdm':
        return 'rdm/r%d/%s/%s' % (len(case['pat']) // 2, case['mode'], 'transition' if case['bra'] else 'diag')
    return '%s/%s' % (case['kind'], case['mode'])


def shrink(case):
    out = []
    for key in ('ket', 'bra'):
        if case.get(key) and len(case[key]) > 1:
            for k in range(len(case[key])):
                out.append(dict(case, **{key: case[key][:k] + case[key][k + 1:]}))
    return out


THEOREM_FILES = ['P_C03']
RULE = ('every operator ordering of rank 1-2 (spin-free for spin-conserving, spin-orbital for spin-broken '
        'wavefunctions), random orderings of rank 3-4, bra=ket and transition, unnormalised Gaussian-integer '
        'states, low-filling sectors, shuffled letters; sparse states on sectors with 126-330 strings of one spin (several '
        'blocks of the blocked kernels); numeric-index elements; expectationValue(H) for the C01 '
        'Hamiltonian classes. non-trivial: tensor with >= 2 distinct non-zero entries / non-zero value')
NOT_PROVED = ['the Wick expansions (plain and spin-summed) are proved sound as operator identities (C03_wick_*, C03_spinfree_*); '
              'the D-vector formula of the 2-RDM (overlap of two D-vectors plus the delta term) is a theorem (C03_two_rdm_by_dvectors); '
              'the index bookkeeping of the implementation\'s RDM kernels (transposes, blocking, 3- and 4-RDM recursions) is not: '
              'the implementation is compared with the matrix-element specification directly']
