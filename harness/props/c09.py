"""C09 — symmetry sectors and operators are exact; symmetric dynamics conserve them.
(a) the three constructors over the full (nele, m_s, norb) grid incl. impossible
    requests vs Ctor.v; (b) N, Sz, S^2, time-reversal expectation / transition values vs
    the Fock-space oracle (exact: 4*S^2, 2*Sz are integers); (c) conservation under
    apply / time_evolve with symmetric Hamiltonians (implementation alone)."""
import fqeio

PID = 'C09'
MODES = ['C', 'PY0']
COMPARE_ARITY = 4


def gen_cases(rng, tier):
    cases = []
    nmax = 3 if tier == 'quick' else 5
    # (a) constructor grid, exhaustive
    for norb in range(0, nmax + 1):
        grid = []
        for nele in range(-1, 2 * norb + 3):
            for ms in range(-norb - 2, norb + 3):
                grid.append([nele, ms])
        cases.append({'kind': 'ctor', 'norb': norb, 'grid': grid})
    # (b) operators
    for _ in range(40 if tier == 'quick' else 300):
        norb = rng.randint(1, 3 if tier == 'quick' else 4)
        mode = rng.choice(['ns', 'sb', 'sb', 'nb'])
        if mode == 'ns':
            na, nb = rng.randint(0, norb), rng.randint(0, norb)
            nn, sz = na + nb, na - nb
        elif mode == 'sb':
            nn, sz = rng.randint(0, 2 * norb), 0
        else:
            nn, sz = 0, rng.randint(-norb, norb)
        keys = fqeio.sector_keys(norb, mode, nn, sz)
        ket = fqeio.random_state(rng, norb, keys, density=0.8)
        bra = fqeio.random_state(rng, norb, keys, density=0.8) if rng.random() < 0.5 else None
        # provenance of the ket: built by the library's constructors with the right symmetry flags ('direct'), by the
        # bare constructor without `broken=` ('bare'), returned by a Cirq round trip ('cirq') or by apply() of a sparse
        # Hamiltonian ('sparse': a number- and spin-conserving hop + h.c.) - the last three carry default flags
        # whatever sectors they hold (finding F-C11-flags-dropped); the operators must not trust the flags
        # (a number-conserving sparse Hamiltonian is refused on a number-broken wavefunction: no 'sparse' there)
        prov = rng.choice({'ns': ['direct', 'sparse'], 'sb': ['direct', 'direct', 'bare', 'cirq', 'sparse'],
                           'nb': ['direct', 'direct', 'bare', 'cirq']}[mode])
        case = {'kind': 'ops', 'norb': norb, 'mode': mode, 'n': nn, 'sz': sz, 'ket': ket, 'bra': bra, 'prov': prov}
        if prov == 'sparse':
            spin = rng.randint(0, 1)
            p_, q_ = rng.randrange(norb), rng.randrange(norb)
            re, im = rng.randint(1, 2), (rng.randint(-2, 2) if p_ != q_ else 0)
            ents = [[[[2 * p_ + spin, 1], [2 * q_ + spin, 0]], re, im]]
            if p_ != q_:
                ents.append([[[2 * q_ + spin, 1], [2 * p_ + spin, 0]], re, -im])
            case['hop'] = {'cls': 'sparse', 'rank': 0, 'entries': ents, 'e0': [0, 0], 'real': False}
        cases.append(case)
    # (c) conservation under symmetric dynamics
    for _ in range(10 if tier == 'quick' else 60):
        norb = rng.randint(2, 3)
        na, nb = rng.randint(0, norb), rng.randint(0, norb)
        keys = [(na + nb, na - nb)]
        import itertools
        h1 = {}
        for i in range(norb):
            for j in range(i, norb):
                v = rng.randint(-2, 2)
                h1[(i, j)] = v
                h1[(j, i)] = v
        h2 = {}
        for _k in range(rng.randint(0, 6)):
            i, j, k, l = [rng.randrange(norb) for _ in range(4)]
            v = rng.randint(-2, 2)
            for ix in ((i, j, k, l), (j, i, l, k), (k, l, i, j), (l, k, j, i)):
                h2[ix] = v
        ents = [[list(ix), v, 0] for ix, v in sorted(h1.items()) if v] + [[list(ix), v, 0] for ix, v in sorted(h2.items()) if v]
        cases.append({'kind': 'conserve', 'norb': norb, 'n': na + nb, 'sz': na - nb,
                      'vec': fqeio.random_state(rng, norb, keys, density=0.9),
                      'entries': ents, 'rank': 2 if h2 else 1,
                      'time': rng.choice([0.05, -0.3, 1.0, 7.5]) if not h2 else rng.choice([0.05, -0.1, 0.2])})
    # conservation on sectors whose string counts cross the batch sizes of the compiled kernels (462 / 495 strings of one
    # spin, on either spin): quadratic spin-free Hamiltonians (orbital-rotation route) and one- plus two-body ones
    big = [(11, 1, 5), (11, 5, 1), (12, 4, 1), (12, 1, 4)]
    for k, (norb, na, nb) in enumerate(big if tier != 'quick' else big[:2]):
        keys = fqeio.sector_keys(norb, 'ns', na + nb, na - nb)
        basis = fqeio.basis_of(norb, keys)
        vec = [[a, b, rng.randint(-2, 2) or 1, rng.randint(-2, 2)] for a, b in rng.sample(basis, 40)]
        h1 = {}
        for i in range(norb):
            for j in range(i, norb):
                v = rng.randint(-2, 2) if (j - i) <= 2 else 0
                h1[(i, j)] = v
                h1[(j, i)] = v
        ents = [[list(ix), v, 0] for ix, v in sorted(h1.items()) if v]
        cases.append({'kind': 'conserve', 'norb': norb, 'n': na + nb, 'sz': na - nb, 'vec': vec, 'entries': ents, 'rank': 1,
                      'time': rng.choice([0.3, -0.7]), 'big': True})
    return cases


# ------------------------------------------------------------------ implementation
def _keys_shapes(wfn):
    out = []
    for key in sorted(wfn.sectors()):
        sec = wfn.sector(key)
        out.append([int(key[0]), int(key[1]), int(sec.coeff.shape[0]), int(sec.coeff.shape[1])])
    return out


def run_impl(case, mode):
    import numpy
    import fqe
    if case['kind'] == 'ctor':
        norb = case['norb']
        out = []
        for nele, ms in case['grid']:
            row = []
            for fn, args in ((fqe.get_wavefunction, (nele, ms, norb)),
                             (fqe.get_number_conserving_wavefunction, (nele, norb)),
                             (fqe.get_spin_conserving_wavefunction, (ms, norb))):
                try:
                    w = fn(*args)
                    row.append({'keys': _keys_shapes(w), 'cn': bool(w.conserve_number()), 'cs': bool(w.conserve_spin()),
                                'norb': int(w.norb())})
                except Exception as e:  # noqa
                    row.append({'reject': type(e).__name__})
            # get_wavefunction_multiple builds the same single-sector objects, one per parameter triple
            if 'keys' in row[0]:
                try:
                    many = fqe.get_wavefunction_multiple([[nele, ms, norb], [nele, ms, norb]])
                    row[0]['multiple_same'] = (len(many) == 2 and all(_keys_shapes(w) == row[0]['keys'] for w in many))
                except Exception as e:  # noqa
                    row[0]['multiple_same'] = 'raised %s' % type(e).__name__
            out.append(row)
        return {'rows': out}
    if case['kind'] == 'ops':
        norb = case['norb']
        ket = fqeio.make_wfn(norb, case['mode'], case['n'], case['sz'], case['ket'])
        bra = fqeio.make_wfn(norb, case['mode'], case['n'], case['sz'], case['bra']) if case['bra'] else None
        res = {}
        prov = case.get('prov', 'direct')
        if prov == 'bare':
            keys = fqeio.sector_keys(norb, case['mode'], case['n'], case['sz'])
            ket = fqe.Wavefunction([[k[0], k[1], norb] for k in keys])
            fqeio.set_state(ket, case['ket'])
        elif prov == 'cirq':
            ket = fqe.from_cirq(fqe.to_cirq(ket), 1e-12)
        elif prov == 'sparse':
            from props import c01
            ket = ket.apply(c01.build_ham(case['hop'], norb))
        res['ket_after_prov'] = fqeio.read_state(ket)
        before = fqeio.read_state(ket)
        for name, op in (('N', fqe.get_number_operator()), ('Sz', fqe.get_sz_operator()),
                         ('S2', fqe.get_s2_operator()), ('T', fqe.get_time_reversal_operator())):
            try:
                v = complex(ket.expectationValue(op, brawfn=bra)) if bra is not None else complex(ket.expectationValue(op))
                res[name] = [v.real, v.imag]
            except Exception as e:  # noqa
                res[name] = {'exc': type(e).__name__, 'msg': str(e)[:100]}
        res['unchanged'] = fqeio.read_state(ket) == before
        return res
    if case['kind'] == 'conserve':
        norb = case['norb']
        wfn = fqeio.make_wfn(norb, 'ns', case['n'], case['sz'], case['vec'])
        ham = fqe.get_restricted_hamiltonian(fqeio.dense_tensors(norb, case['rank'], case['entries'], float))
        ops = (('N', fqe.get_number_operator()), ('Sz', fqe.get_sz_operator()), ('S2', fqe.get_s2_operator()))
        nrm = wfn.norm()
        wfn.scale(1.0 / nrm)
        b = {k: complex(wfn.expectationValue(o)) for k, o in ops}
        try:
            ev = wfn.time_evolve(case['time'], ham)
        except RuntimeError as e:
            # converge-or-raise (C16): an honest refusal, nothing to compare
            return {'refused': str(e)[:80]}
        a = {k: complex(ev.expectationValue(o)) for k, o in ops}
        ap = wfn.apply(ham)
        # [H, S^2] = 0 :  S^2 H psi == H S^2 psi  (compare through <phi| . > with phi = psi)
        s2 = fqe.get_s2_operator()
        lhs = complex(ap.expectationValue(s2, brawfn=wfn))
        import copy
        w2 = copy.deepcopy(wfn)
        for _, sec in w2._civec.items():
            sec.apply_inplace_s2()
        rhs = complex(fqe.vdot(wfn, w2.apply(ham)))
        return {'before': {k: [v.real, v.imag] for k, v in b.items()},
                'after': {k: [v.real, v.imag] for k, v in a.items()},
                'keys_after': sorted([list(k) for k in ev.sectors()]),
                'norm_after': float(ev.norm()), 'comm': [abs(lhs - rhs), abs(lhs)]}
    raise ValueError(case['kind'])


# ------------------------------------------------------------------ model
def expected(model, case):
    if case['kind'] == 'ctor':
        norb = case['norb']
        rows = []
        for nele, ms in case['grid']:
            row = []
            for kind, args in ((0, (nele, ms, norb)), (1, (nele, 0, norb)), (2, (ms, 0, norb))):
                t = model.q('CTOR', kind, *args)
                if t[0] == 'REJECT':
                    row.append('REJECT')
                else:
                    n = int(t[0])
                    row.append(sorted([[int(t[1 + 4 * k]), int(t[2 + 4 * k]), int(t[3 + 4 * k]), int(t[4 + 4 * k])] for k in range(n)]))
            rows.append(row)
        return {'rows': rows}
    if case['kind'] == 'ops':
        norb = case['norb']
        ket = case['ket']
        if case.get('prov') == 'sparse':
            from props import c01
            e = c01.expected(model, {'norb': norb, 'mode': case['mode'], 'n': case['n'], 'sz': case['sz'],
                                     'vec': ket, 'ham': case['hop']})
            ket = [[int(k.split(',')[0]), int(k.split(',')[1]), v[0], v[1]] for k, v in sorted(e['out'].items())]
        bra = case['bra'] if case['bra'] else ket
        res = {'ket': ket}
        if not ket:
            res.update({'N': [0, 0], 'Sz': [0, 0], 'S2': [0, 0], 'T': [0, 0], 'T_closed': False, 'empty': True})
            return res
        for name, tag in (('N', 'NUM'), ('Sz', 'SZ2'), ('S2', 'S2x4')):
            t = model.q('MATELH', norb, 1, tag, 1, 0, *fqeio.vec_tokens(bra), *fqeio.vec_tokens(ket))
            res[name] = [int(t[0]), int(t[1])]
        # time reversal: <bra| T ket>
        t = model.q('TREV', *fqeio.vec_tokens(ket))
        tk = [[int(t[4 * k]), int(t[4 * k + 1]), int(t[4 * k + 2]), int(t[4 * k + 3])] for k in range(len(ket))]
        t = model.q('INNER', norb, *fqeio.vec_tokens(bra), *fqeio.vec_tokens(tk))
        res['T'] = [int(t[0]), int(t[1])]
        keys = set(fqeio.sector_keys(norb, case['mode'], case['n'], case['sz']))
        if case.get('prov') == 'cirq':
            # the import creates only the sectors that carry amplitude
            keys = set((bin(a).count('1') + bin(b).count('1'), bin(a).count('1') - bin(b).count('1')) for a, b, _, _ in ket)
        res['T_closed'] = all((n, -s) in keys for (n, s) in keys)
        return res
    return {}


FACT = {'N': 1, 'Sz': 2, 'S2': 4, 'T': 1}


def compare(case, got, exp, mode):
    if 'exc' in got or 'crash' in got:
        return ['raised %s: %s' % (got.get('exc', 'CRASH'), str({k: got[k] for k in got if k != 'tb'})[:300])]
    bad = []
    if case['kind'] == 'ctor':
        names = ['get_wavefunction', 'get_number_conserving_wavefunction', 'get_spin_conserving_wavefunction']
        flags = [(True, True), (True, False), (False, True)]
        for (nele, ms), g, e in zip(case['grid'], got['rows'], exp['rows']):
            for k in range(3):
                arg = (nele, ms, case['norb']) if k == 0 else ((nele, case['norb']) if k == 1 else (ms, case['norb']))
                if e[k] == 'REJECT':
                    if 'reject' not in g[k]:
                        bad.append('%s%s: impossible request answered with sectors %s instead of an exception' % (names[k], arg, g[k]['keys']))
                else:
                    if 'reject' in g[k]:
                        bad.append('%s%s: valid request rejected (%s)' % (names[k], arg, g[k]['reject']))
                    elif g[k]['keys'] != e[k]:
                        bad.append('%s%s: sectors/dimensions %s, expected %s' % (names[k], arg, g[k]['keys'], e[k]))
                    elif (g[k]['cn'], g[k]['cs']) != flags[k] or g[k]['norb'] != case['norb']:
                        bad.append('%s%s: flags/norb wrong' % (names[k], arg))
                    if k == 0 and g[k].get('multiple_same', True) is not True:
                        bad.append('get_wavefunction_multiple([%s, %s]) does not build the sectors of get_wavefunction: %s' % (list(arg), list(arg), g[k]['multiple_same']))
            if len(bad) > 4:
                break
        return bad
    if case['kind'] == 'ops':
        if not got['unchanged']:
            bad.append('expectationValue modified the ket')
        gk = {(a, b): (re, im) for a, b, re, im in got['ket_after_prov']}
        ek = {(a, b): (re, im) for a, b, re, im in exp['ket']}
        if any(abs(gk.get(k, (0, 0))[0] - ek.get(k, (0, 0))[0]) + abs(gk.get(k, (0, 0))[1] - ek.get(k, (0, 0))[1]) > 1e-9
               for k in set(gk) | set(ek)):
            bad.append('the ket prepared through %r does not have the expected amplitudes' % case.get('prov'))
            return bad
        if exp.get('empty'):
            return bad
        for name in ('N', 'Sz', 'S2', 'T'):
            g = got[name]
            if name == 'T' and not exp['T_closed']:
                if not isinstance(g, dict):
                    bad.append('time reversal on a space not closed under it returned %s' % g)
                continue
            if isinstance(g, dict):
                bad.append('%s raised %s' % (name, g))
                continue
            e = exp[name]
            f = FACT[name]
            tol = 1e-9 * (1 + abs(e[0]) + abs(e[1]))
            if abs(g[0] * f - e[0]) > tol or abs(g[1] * f - e[1]) > tol:
                bad.append('<%s> = %r%+rj, exact %s/%d' % (name, g[0], g[1], e, f))
        return bad
    if case['kind'] == 'conserve':
        if 'refused' in got:
            return []
        for k in ('N', 'Sz', 'S2'):
            b, a = got['before'][k], got['after'][k]
            if abs(b[0] - a[0]) > 1e-9 or abs(b[1] - a[1]) > 1e-9:
                bad.append('<%s> changed under time_evolve with a spin-free Hamiltonian: %s -> %s' % (k, b, a))
        if got['keys_after'] != [[case['n'], case['sz']]]:
            bad.append('sectors changed under evolution: %s' % got['keys_after'])
        if abs(got['norm_after'] - 1.0) > 1e-9:
            bad.append('norm after evolution %r' % got['norm_after'])
        if got['comm'][0] > 1e-9 * (1 + got['comm'][1]):
            bad.append('[H, S^2] psi != 0: %s' % got['comm'])
        return bad
    return bad


def classify(case, mode, bad, got, exp):
    return None


def nontrivial(case, exp):
    if case['kind'] == 'ctor':
        return case['norb'] >= 1
    if case['kind'] == 'ops':
        return not exp.get('empty') and (exp['S2'] != [0, 0] or exp['T'] != [0, 0])
    return True


def case_class(case):
    if case['kind'] == 'ops':
        return 'ops/%s/norb%d/%s/%s' % (case['mode'], case['norb'], 'transition' if case['bra'] else 'expectation', case.get('prov', 'direct'))
    return '%s/norb%d' % (case['kind'], case['norb'])


def shrink(case):
    out = []
    if case['kind'] == 'ctor':
        for g in case['grid']:
            out.append(dict(case, grid=[g]))
    if case['kind'] == 'ops':
        for k in range(len(case['ket'])):
            if len(case['ket']) > 1:
                out.append(dict(case, ket=case['ket'][:k] + case['ket'][k + 1:]))
    return out


def sample(case):
    c = dict(case)
    if 'grid' in c:
        c['grid'] = c['grid'][:4] + ['... %d more' % (len(c['grid']) - 4)]
    return c


THEOREM_FILES = ['P_C09', 'P_C09_gen', 'P_C09_ctors', 'P_C09_trev']
THEOREM_NEEDS = {'P_C09_gen': ['Equiv_guards'], 'P_C09_ctors': ['Equiv_ctors'], 'P_C09_trev': ['Equiv_trev']}
EXHAUSTIVE = False
RULE = ('(a) exhaustive grid nele in [-1, 2norb+2], m_s in [-norb-2, norb+2], norb up to the tier bound, three '
        'constructors; (b) random Gaussian-integer bra/ket, all symmetry modes, N/Sz/S^2/T as expectation and '
        'transition values; (c) restricted Hermitian Hamiltonians, time grid, conservation of <N>,<Sz>,<S^2>, '
        'sectors, norm and [H,S^2]psi=0. non-trivial: S^2 or T value non-zero / norb>=1')
NOT_PROVED = ['conservation is proved for every polynomial propagator (what the code computes), not for the limit '
              'exp(-iHt); that the spin-conserving (not spin-free) sparse Hamiltonians of the generator conserve Sz is '
              'covered by the zero-shift sector theorem, their S^2 behaviour is checked on the implementation only']
