"""C13 — accelerated kernels stay inside their buffers for every valid problem shape.
Theorems (Bounds.v): batch arithmetic of the 450-element ZAXPY batches, row-major and
batched accesses in bounds, no 32-bit overflow of partial indices when the array fits,
shift counts, exact fill count k(n-k+1) of de-excitation rows — for all shapes.
Runtime tie (supporting evidence): (a) extents and fill counts of every table the wrappers
allocate vs the counting formulas, on boundary shapes; (b) every kernel family driven
through the public API on those shapes with libfqe.so rebuilt from the CURRENT sources
with -fsanitize=address,undefined and asserts enabled: any report is a violation."""
import math

from props import c10

PID = 'C13'
MODES = ['C']
COMPARE_ARITY = 4


def comb(n, k):
    return math.comb(n, k) if 0 <= k <= n else 0


def boundary_shapes(tier):
    shapes = [(1, 0, 0), (1, 1, 0), (1, 1, 1), (2, 0, 2), (2, 2, 2), (3, 0, 0), (3, 3, 0), (4, 2, 2),
              (9, 1, 1), (10, 1, 1), (11, 1, 1),          # 9 / 10 / 11 beta states around the 10-state block
              (5, 2, 1), (14, 2, 0), (15, 2, 1),          # 91 / 105 alpha strings around block 100
              (30, 0, 2), (31, 1, 2),                     # row lengths 435 / 465 around the 450 batch
              (11, 1, 5),                                 # 462
              (32, 1, 0), (33, 1, 1), (63, 1, 0), (64, 1, 1), (64, 0, 1), (62, 2, 0)]
    if tier != 'quick':
        shapes += [(12, 0, 6), (9, 4, 4), (31, 2, 2), (64, 2, 0), (16, 8, 0), (6, 3, 3), (7, 0, 7), (8, 8, 8)]
    return shapes


def gen_cases(rng, tier):
    cases = []
    for norb, na, nb in boundary_shapes(tier):
        cases.append({'kind': 'extents', 'norb': norb, 'na': na, 'nb': nb})
        ops = ['graph', 'apply_sparse', 'evolve_ind', 'evolve_diag', 's2']
        if norb <= 16:
            ops += ['apply_r2', 'rdm12', 'evolve_dc', 'evolve_quad', 'apply_gso1', 'apply_gso1_col']
        else:
            ops += ['apply_r1']
        if norb <= 6:
            ops += ['apply_r3', 'rdm3', 'cirq']
        if norb <= 33 and comb(norb, na) * comb(norb, nb) <= 3000 and norb > 16:
            ops += ['evolve_dc', 'evolve_quad']
        for op in ops:
            if op in ('apply_gso1', 'apply_gso1_col') and norb > 8:
                continue
            cases.append({'kind': 'kern', 'norb': norb, 'na': na, 'nb': nb, 'op': op, 'seed': rng.randrange(10 ** 6)})
    # the low-filling kernels of the dense apply (c10.py: reached by setting FqeData._low_thresh): smallest and odd shapes
    for norb, na, nb in [(4, 1, 1), (4, 1, 0), (7, 2, 2), (7, 2, 0), (7, 0, 1), (8, 2, 1)] + ([] if tier == 'quick' else [(11, 3, 3), (12, 3, 1), (5, 0, 1)]):
        for op in ('apply_r2_low', 'apply_g2_low'):
            cases.append({'kind': 'kern', 'norb': norb, 'na': na, 'nb': nb, 'op': op, 'seed': rng.randrange(10 ** 6)})
    return cases


# ---------------------------------------------------------------- implementation
def run_impl(case, mode):
    import numpy
    import fqe
    if case['kind'] == 'kern':
        if case['op'] == 'apply_r1':
            norb, na, nb = case['norb'], case['na'], case['nb']
            rs = numpy.random.RandomState(case['seed'])
            w = fqe.Wavefunction([[na + nb, na - nb, norb]])
            shape = w.sector((na + nb, na - nb)).coeff.shape
            w.set_wfn(strategy='from_data', raw_data={(na + nb, na - nb): rs.randint(-2, 3, size=shape).astype(numpy.complex128)})
            h1 = rs.randint(-2, 3, size=(norb, norb)).astype(numpy.complex128)
            out = w.apply(fqe.get_restricted_hamiltonian((h1,)))
            # single non-zero column fast path
            h1c = numpy.zeros_like(h1)
            h1c[:, norb - 1] = h1[:, norb - 1]
            out2 = w.apply(fqe.get_restricted_hamiltonian((h1c,)))
            return {'digest': c10._digest([out.sector((na + nb, na - nb)).coeff, out2.sector((na + nb, na - nb)).coeff])}
        return c10.run_impl(case, mode)
    if case['kind'] == 'extents':
        norb, na, nb = case['norb'], case['na'], case['nb']
        g = fqe.fci_graph.FciGraph(na, nb, norb)
        res = {'lena': int(g.lena()), 'lenb': int(g.lenb()), 'dexca': list(g._dexca.shape), 'dexcb': list(g._dexcb.shape)}
        # every row of the de-excitation tables is completely filled (parity column is +-1)
        res['dexca_filled'] = bool((numpy.abs(g._dexca[:, :, 2]) == 1).all()) if g._dexca.size else True
        res['dexcb_filled'] = bool((numpy.abs(g._dexcb[:, :, 2]) == 1).all()) if g._dexcb.size else True
        res['dexca_max'] = [int(g._dexca[:, :, 0].max()) if g._dexca.size else -1, int(g._dexca[:, :, 1].max()) if g._dexca.size else -1]
        try:
            idx, exc, diag = g._map_to_deexc_alpha_icol()
            res['icol'] = [list(idx.shape), list(exc.shape), list(diag.shape)]
            res['icol_max'] = [int(idx.max()) if idx.size else -1, int(exc[..., 0].max()) if exc.size else -1,
                               int(exc[..., 1].max()) if exc.size else -1, int(diag.max()) if diag.size else -1]
        except Exception as e:  # noqa
            res['icol_exc'] = type(e).__name__ + ':' + str(e)[:80]
        nmaps = sum(v.shape[0] for v in g._alpha_map.values())
        res['nmaps_a'] = int(nmaps)
        return res
    raise ValueError(case['kind'])


def expected(model, case):
    if case['kind'] != 'extents':
        return {}
    n, ka, kb = case['norb'], case['na'], case['nb']
    # counting formulas (Bounds.v: deexc_row_count; binomials from the model)
    b = lambda a, k: int(model.q('BINOM', a, k)[0]) if 0 <= k <= a else 0
    return {'lena': b(n, ka), 'lenb': b(n, kb), 'lka': ka * (n - ka + 1), 'lkb': kb * (n - kb + 1),
            'icol': [b(n - 1, ka), b(n - 1, ka - 1)], 'nmaps_a': b(n, ka) * ka * (n - ka + 1)}


def compare(case, got, exp, mode):
    if 'crash' in got:
        return ['PROCESS DIED in %s on (norb,na,nb)=(%d,%d,%d): %s' % (case.get('op', 'extents'), case['norb'], case['na'], case['nb'], str(got.get('stderr'))[-600:])]
    if 'exc' in got:
        return ['%s raised %s on (norb,na,nb)=(%d,%d,%d): %s' % (case.get('op', 'extents'), got['exc'], case['norb'], case['na'], case['nb'], got.get('msg'))]
    bad = []
    if case['kind'] == 'extents':
        n, ka = case['norb'], case['na']
        if got['lena'] != exp['lena'] or got['lenb'] != exp['lenb']:
            bad.append('table lengths %s,%s expected %s,%s' % (got['lena'], got['lenb'], exp['lena'], exp['lenb']))
        if got['dexca'] != [exp['lena'], exp['lka'], 3] or got['dexcb'] != [exp['lenb'], exp['lkb'], 3]:
            bad.append('de-excitation table extents %s / %s, expected [%d,%d,3] / [%d,%d,3]' % (got['dexca'], got['dexcb'], exp['lena'], exp['lka'], exp['lenb'], exp['lkb']))
        if not (got['dexca_filled'] and got['dexcb_filled']):
            bad.append('a de-excitation row is not completely filled (capacity k(n-k+1) not reached)')
        if got['dexca_max'][0] >= max(exp['lena'], 1) or got['dexca_max'][1] >= max(n * n, 1):
            bad.append('de-excitation entries out of range: %s' % got['dexca_max'])
        if got['nmaps_a'] != exp['nmaps_a']:
            bad.append('number of alpha excitation entries %d, expected C(n,k)*k*(n-k+1) = %d' % (got['nmaps_a'], exp['nmaps_a']))
        if 'icol' in got:
            l2, l1 = exp['icol']
            want = [[n, l2], [n, l2, ka, 3], [n, l1]]
            if got['icol'] != want:
                bad.append('column-map extents %s expected %s' % (got['icol'], want))
            m = got['icol_max']
            if m[0] >= max(exp['lena'], 1) or m[1] >= max(exp['lena'], 1) or m[2] >= max(n, 1) or m[3] >= max(exp['lena'], 1):
                bad.append('column-map entries out of range: %s' % m)
        elif n >= 1 and not (ka == 0):
            bad.append('_map_to_deexc_alpha_icol failed: %s' % got.get('icol_exc'))
    return bad


def extra_checks(bdir, model, rng, tier, stats):
    """sanitizer runs: the same kernel cases on libfqe.so built with ASan/UBSan and asserts on"""
    import os
    import core
    out = []
    seed = int(os.environ.get('VERIF_SEED', '0') or 0)
    cases = [c for c in gen_cases(core.rng_for(seed, PID), tier) if c['kind'] == 'kern']
    try:
        adir, env = core.ensure_asan_build()
    except core.BuildError as e:
        return [('sanitizer build failed: %s' % str(e)[-300:], {'property': PID}, None)]
    env = dict(env, FQE_VERIF_GUARD='1')
    res = core.run_impl(adir, 'c13', cases, 'C', threads=4, extra_env=env, timeout=3000)
    nrep = 0
    for c, r in zip(cases, res):
        stats['evaluations'] += 1
        if r is None:
            continue
        if r.get('guard_nan_in_output') or r.get('guard_band_damaged'):
            what = 'read outside its coefficient matrix (NaN from the guard band reached the result)' if r.get('guard_nan_in_output') \
                else 'wrote outside its coefficient matrix (guard band damaged)'
            out.append(('kernel %s on (norb,na,nb)=(%d,%d,%d) %s' % (c['op'], c['norb'], c['na'], c['nb'], what),
                        {'property': PID, 'case': c, 'result': {k: v for k, v in r.items() if k != 'raw'},
                         'how': 'FQE_VERIF_GUARD=1: coefficient matrices are views into NaN-padded buffers (harness/props/c10.py)'}, None))
            nrep += 1
            if nrep >= 4:
                break
            continue
        if 'crash' in r:
            txt = r.get('stderr', '')
            kind = 'AddressSanitizer' if 'AddressSanitizer' in txt else ('UndefinedBehaviorSanitizer' if 'runtime error' in txt else 'process death (rc %s)' % r.get('returncode'))
            key = [ln.strip() for ln in txt.splitlines() if 'runtime error' in ln or 'ERROR: AddressSanitizer' in ln or 'Assertion' in ln]
            head = (key[0][:300] + ' || ') if key else ''
            out.append(('%s in kernel %s on (norb,na,nb)=(%d,%d,%d): %s%s' % (kind, c['op'], c['norb'], c['na'], c['nb'], head, txt[-300:].replace('\n', ' | ')),
                        {'property': PID, 'case': c, 'report': txt, 'how': 'sanitizer build of libfqe.so, LD_PRELOAD=libasan:libubsan'}, None))
            nrep += 1
            if nrep >= 4:
                break
    _COV['sanitizer_cases'] = len(cases)
    _COV['sanitizer_reports'] = nrep
    return out


_COV = {}


def extra_coverage():
    return dict(_COV)


def classify(case, mode, bad, got, exp):
    return None


def nontrivial(case, exp):
    return True


def case_class(case):
    return '%s/norb%d' % (case.get('op', 'extents'), case['norb'])


def shrink(case):
    return []


def sample(case):
    return case


THEOREM_FILES = ['P_C13', 'P_C13_ast', 'P_C13_zmat']      # P_C13_ast: the header's helpers are DEFINED (no undefined shift) for all positions
THEOREM_NEEDS = {'P_C13_ast': ['Equiv_cdef'], 'P_C13_zmat': ['Equiv_zmat_c']}
RULE = ('boundary shapes: empty / full shells, one orbital, 9-10-11 beta states (10-state block), 91/105/126 alpha strings '
        '(block 100), row lengths 435/462/465/924 (450 batch), orbital counts 30-33 and 62-64 with one or two electrons; '
        'extents and fill counts of all wrapper-allocated tables vs the counting formulas; every kernel family through the '
        'public API on the normal build and on an ASan+UBSan build (asserts on) of the current C sources')
NOT_PROVED = ['stack exhaustion, allocator failure paths (exit() in safe_malloc) and what an optimiser does with undefined '
              'behaviour outside the listed accesses; the correspondence between the C index expressions and the Coq '
              'statements is by reading the C text']
