"""C02 — time evolution is exp(-iHt) with the scalar phase applied once.
Oracle: exact Taylor partial sums of the SPEC operator: v_k = H^k psi computed exactly
(Gaussian integers) by the extracted Fock-space model, summed with exact rational
arithmetic sum_k (-it)^k v_k / k!  (t read as the dyadic rational the float is), with
the explicit tail bound  sum_{k>K} x^k/k! * |psi| <= x^{K+1}/(K+1)! * (K+2)/(K+2-x) * |psi|,
x = |t| * L1(H), L1(H) = sum of |coefficients| over operator strings (>= spectral radius).
Uniform over every route (diagonal, quadratic, diagonal-Coulomb, single term, Taylor,
Chebyshev).  Derived checks on the implementation: norm, in-place = out-of-place,
t1 then t2 = t1+t2, -t undoes t, input untouched."""
from fractions import Fraction
import math

import fqeio
from props import c01

PID = 'C02'
MODES = ['C', 'PY0']
COMPARE_ARITY = 4
TOL = 2e-9


def l1_norm(ham, norb):
    """sum of |c| over the operator strings of denote(ham) (exact rational upper bound as float+eps)"""
    tot = 0.0
    cls = ham['cls']
    for ix, re, im in ham['entries']:
        a = math.hypot(re, im)
        if cls in ('restricted', 'dc4'):
            tot += a * (2 ** (len(ix) // 2))
        elif cls in ('diag', 'dc2'):
            tot += a * (2 if cls == 'diag' else 4)
        else:
            tot += a
    return tot


def gen_cases(rng, tier):
    cases = []
    n = 80 if tier == 'quick' else 560
    recipes = ['diag', 'diag2', 'quad_restr', 'quad_gso', 'quad_sso', 'dc2', 'dc4', 'individual', 'individual_num',
               'restricted2', 'sso2', 'gso2_sb', 'sparse_multi', 'restricted3', 'individual_flip', 'individual_flip']
    for k in range(n):
        rec = recipes[k % len(recipes)]
        norb = rng.randint(1, 3)
        mode = 'ns'
        if rec in ('gso2_sb',) or (rec in ('quad_gso', 'diag2', 'sparse_multi') and rng.random() < 0.6):
            mode = 'sb'
        if rec in ('quad_gso', 'individual_flip'):
            mode = 'sb'
        if rec == 'individual_flip':
            norb = rng.randint(2, 3)
        if mode == 'ns':
            na, nb = rng.randint(0, norb), rng.randint(0, norb)
            nn, sz = na + nb, na - nb
        else:
            nn, sz = rng.randint(0, 2 * norb), 0
        real = rng.random() < 0.4
        if rec == 'diag':
            ham = c01.gen_ham(rng, 'diag', 1, norb, 'sparse', True, True)
        elif rec == 'diag2':
            ham = c01.gen_ham(rng, 'diag2', 1, norb, 'sparse', True, True)
        elif rec == 'quad_restr':
            ham = c01.gen_ham(rng, 'restricted', 1, norb, 'dense', real, True)
        elif rec == 'quad_gso':
            ham = c01.gen_ham(rng, 'gso', 1, norb, 'dense', real, True)
        elif rec == 'quad_sso':
            ham = c01.gen_ham(rng, 'sso', 1, norb, 'dense', real, True)
        elif rec == 'dc2':
            ham = c01.gen_ham(rng, 'dc2', 2, norb, 'sparse', True, True)
        elif rec == 'dc4':
            ham = c01.gen_ham(rng, 'dc4', 2, norb, 'sparse', True, True)
        elif rec in ('individual', 'individual_num'):
            m = rng.randint(1, min(2, norb))
            if rec == 'individual_num':
                cr = rng.sample(range(2 * norb), m)
                ops = [[q, 1] for q in cr] + [[q, 0] for q in reversed(cr)]
                c = [rng.randint(-3, 3) or 2, 0]
                ents = [[ops, c[0], 0]]
            else:
                sp = [rng.randrange(2) for _ in range(m)]
                cr = [2 * rng.randrange(norb) + s for s in sp]
                an = [2 * rng.randrange(norb) + s for s in sp]
                if len(set(cr)) < m or len(set(an)) < m or sorted(cr) == sorted(an):
                    cr, an = [0], [2] if norb > 1 else [0]
                    if norb == 1:
                        continue
                ops = [[q, 1] for q in cr] + [[q, 0] for q in an]
                re, im = c01._rand_c(rng)
                ents = [[ops, re, im], [c01._adjoint_ops(ops), re, -im]]
            ham = {'cls': 'sparse', 'rank': 0, 'entries': ents, 'e0': [0, 0], 'real': False}
        elif rec == 'individual_flip':
            # one string + h.c. that changes S_z (single, double, triple spin flips, mixed), on a spin-broken wavefunction:
            # the closed-form route of FqeDataSet.evolve_individual_nbody
            # net spin transfer nda in {+-1, +-2, +-3}: creators of one spin, annihilators of the other,
            # optionally a spectator operator pair; or a mixed pattern
            m = rng.randint(1, min(3, norb))
            up = [2 * i for i in rng.sample(range(norb), m)]
            dn = [2 * i + 1 for i in rng.sample(range(norb), m)]
            cr, an = (up, dn) if rng.random() < 0.5 else (dn, up)
            if rng.random() < 0.3 and m < 3:
                q = rng.randrange(2 * norb)
                if q not in cr and q not in an:
                    cr, an = cr + [q], an + [q]
            nn = rng.randint(2, 2 * norb - 1)
            ops = [[q, 1] for q in cr] + [[q, 0] for q in an]
            re, im = c01._rand_c(rng)
            ents = [[ops, re, im], [c01._adjoint_ops(ops), re, -im]]
            ham = {'cls': 'sparse', 'rank': 0, 'entries': ents, 'e0': [0, 0], 'real': False}
        elif rec == 'restricted2':
            ham = c01.gen_ham(rng, 'restricted', 2, norb, 'sparse', real, True)
        elif rec == 'restricted3':
            norb = min(norb, 2)
            na, nb = rng.randint(0, norb), rng.randint(0, norb)
            nn, sz = na + nb, na - nb
            ham = c01.gen_ham(rng, 'restricted', 3, norb, 'sparse', real, True)
        elif rec == 'sso2':
            ham = c01.gen_ham(rng, 'sso', 2, norb, 'sparse', real, True)
            ham['entries'] = c01.pair_symmetrise(c01._sso_filter(ham['entries'], norb))
        elif rec == 'gso2_sb':
            ham = c01.gen_ham(rng, 'gso', 2, norb, 'sparse', real, True)
        else:
            terms = c01.gen_fop_terms(rng, norb, number_breaking=False, nterms=rng.randint(2, 3))
            terms = [[ops, re // 24, im // 24] for ops, re, im in terms]
            if mode == 'ns':
                terms = [t for t in terms if c01._sz_conserving(t[0])]
            if not terms:
                continue
            ham = {'cls': 'sparse', 'rank': 0, 'entries': terms, 'e0': [0, 0], 'real': False}
        ham['e0'] = rng.choice([[0, 0], [0, 0], [1, 0], [-2, 0], [3, 0]])
        t = rng.choice([0.0, 0.015625, -0.015625, 0.05, -0.3, 1.0, 0.7])
        if rec in ('diag', 'diag2', 'dc2', 'dc4', 'individual', 'individual_num', 'individual_flip', 'quad_restr', 'quad_gso', 'quad_sso') \
                and rng.random() < 0.3:
            t = rng.choice([7.5, -12.25, 40.0])
        algo = [None, 'taylor', 'chebyshev', None][(k // len(recipes) + recipes.index(rec)) % 4]
        if algo and t == 0.0:
            t = rng.choice([0.05, -0.3, 0.7])     # t = 0 says nothing about a propagator (kept for the closed-form routes)
        keys = fqeio.sector_keys(norb, mode, nn, sz)
        cases.append({'kind': 'evolve', 'recipe': rec, 'norb': norb, 'mode': mode, 'n': nn, 'sz': sz,
                      'vec': fqeio.random_state(rng, norb, keys, density=0.8, amp=2), 'ham': ham, 't': t,
                      # every recipe meets every propagator: the k-th case of a recipe cycles through the choices
                      'algo': algo,
                      # the same Hamiltonian OBJECT used before the evolution (energy measurement, apply)
                      'warm': rng.choice([None, None, 'apply', 'expect'])})
    for c in cases:
        c['L1'] = l1_norm(c['ham'], c['norb'])
    # quadratic (orbital-rotation) route on large sectors: H = sum h_pq a+_p a_q with h = i log(u) for an EXACTLY unitary
    # Gaussian-rational u = G/d, so that exp(-iH) psi = Ext(u) psi is known exactly (exterior-power oracle of C12/C17).
    # Sectors with more than 450 strings of one spin, count not a multiple of 450 (windows of the column kernels).
    from props import c12
    shapes = [(15, 1, 3), (15, 3, 1), (31, 1, 2), (31, 2, 1), (12, 1, 4), (12, 4, 1), (4, 2, 2), (5, 2, 1)]
    rng.shuffle(shapes)
    for norb, na, nb in (shapes[:3] if tier == 'quick' else shapes + shapes):
        G, d = c12.random_unitary(rng, norb, rng.randint(2, 4), real=rng.random() < 0.3)
        keys = fqeio.sector_keys(norb, 'ns', na + nb, na - nb)
        basis = fqeio.basis_of(norb, keys)
        vec = [[a, b, rng.randint(-2, 2) or 1, rng.randint(-2, 2)] for a, b in rng.sample(basis, min(12, len(basis)))]
        cases.append({'kind': 'evolve_ext', 'recipe': 'quad_ext', 'norb': norb, 'mode': 'ns', 'n': na + nb, 'sz': na - nb,
                      'vec': vec, 'G': [[list(x) for x in row] for row in G], 'd': d, 't': 1.0, 'algo': None,
                      'ham': {'cls': 'restricted', 'rank': 1, 'entries': [], 'e0': [0, 0], 'real': False}})
    return cases


# ------------------------------------------------------------------ implementation
def run_impl(case, mode):
    import copy
    import numpy
    import fqe
    norb = case['norb']
    if case['kind'] == 'evolve_ext':
        import scipy.linalg
        u = numpy.array([[complex(*x) for x in row] for row in case['G']]) / case['d']
        h = 1j * scipy.linalg.logm(u)
        h = 0.5 * (h + h.conj().T)
        wfn = fqeio.make_wfn(norb, 'ns', case['n'], case['sz'], case['vec'])
        before = fqeio.read_state(wfn)
        ham = fqe.get_restricted_hamiltonian((h,))
        out = wfn.time_evolve(1.0, ham)
        back = out.time_evolve(-1.0, ham)
        return {'state': fqeio.read_state(out), 'unchanged': fqeio.read_state(wfn) == before,
                'norm': [float(wfn.norm()), float(out.norm())], 'undo_err': float((back - wfn).norm()),
                'herm_err': float(numpy.abs(scipy.linalg.expm(-1j * h) - u).max())}
    wfn = fqeio.make_wfn(norb, case['mode'], case['n'], case['sz'], case['vec'])
    ham = c01.build_ham(case['ham'], norb)
    t = case['t']
    try:
        if case.get('warm') == 'apply':
            wfn.apply(ham)
        elif case.get('warm') == 'expect':
            wfn.expectationValue(ham)
    except Exception:  # noqa -- refusals of apply are C14's business; the evolution below is what is under test
        pass
    before = fqeio.read_state(wfn)
    res = {'route': {'cls': type(ham).__name__, 'quadratic': bool(ham.quadratic()), 'diagonal': bool(ham.diagonal()),
                     'dc': bool(ham.diagonal_coulomb())}}

    def attempt(fn):
        try:
            return fn(), None
        except RuntimeError as e:
            return None, 'RuntimeError:' + str(e)[:60]
        except Exception as e:  # noqa
            return None, type(e).__name__ + ':' + str(e)[:100]

    out, err = attempt(lambda: wfn.time_evolve(t, ham))
    res['evolve'] = fqeio.read_state(out) if out is not None else None
    res['evolve_err'] = err
    res['unchanged'] = fqeio.read_state(wfn) == before
    if out is not None:
        # the module-level entry points are the same operations
        o2, _e = attempt(lambda: fqe.time_evolve(wfn, t, ham))
        res['api_same'] = (o2 is not None and float((o2 - out).norm()) == 0.0)
        res['norm_in'] = float(wfn.norm())
        res['norm_out'] = float(out.norm())
        # composition: t then -t, and t/2 twice
        back, e2 = attempt(lambda: out.time_evolve(-t, ham))
        if back is not None:
            res['undo_err'] = float((back - wfn).norm())
        half, e3 = attempt(lambda: wfn.time_evolve(t / 2, ham).time_evolve(t / 2, ham))
        if half is not None:
            res['compose_err'] = float((half - out).norm())
        # in place
        w2 = copy.deepcopy(wfn)
        ip, e4 = attempt(lambda: w2.time_evolve(t, ham, True))
        if ip is not None:
            res['inplace_err'] = float((ip - out).norm())
        else:
            res['inplace_exc'] = e4
    if case['algo']:
        L = case['L1'] + abs(case['ham']['e0'][0]) + 1.0
        kw = {'spec_lim': [-L, L]} if case['algo'] == 'chebyshev' else {}
        gu, err = attempt(lambda: wfn.apply_generated_unitary(t, case['algo'], ham, accuracy=1e-13, expansion=80, **kw))
        res['genu'] = fqeio.read_state(gu) if gu is not None else None
        res['genu_err'] = err
        # the Hamiltonian object after the polynomial propagator consumed it: both routes once more
        if gu is not None:
            g3, _e3 = attempt(lambda: fqe.apply_generated_unitary(wfn, t, case['algo'], ham, accuracy=1e-13, expansion=80, **kw))
            res['genu_api_same'] = (g3 is not None and float((g3 - gu).norm()) == 0.0)
            gu2, err2 = attempt(lambda: wfn.apply_generated_unitary(t, case['algo'], ham, accuracy=1e-13, expansion=80, **kw))
            res['genu_again'] = fqeio.read_state(gu2) if gu2 is not None else None
            res['genu_again_err'] = err2
            if out is not None:
                out3, err3 = attempt(lambda: wfn.time_evolve(t, ham))
                res['evolve_after_genu'] = fqeio.read_state(out3) if out3 is not None else None
                res['evolve_after_genu_err'] = err3
    return res


# ------------------------------------------------------------------ model (exact Taylor oracle)
def taylor_oracle(model, case):
    norb = case['norb']
    keys = fqeio.sector_keys(norb, case['mode'], case['n'], case['sz'])
    basis = fqeio.basis_of(norb, keys)
    htok = c01.ham_tokens(case['ham'], norb)
    t = Fraction(case['t'])
    # truncation order from the two proved bounds: |coeff (H^k psi) d| <= L1^k * mass (C02_oracle_power_bound, with
    # L1 = m_l1 and mass = m_mass of the extracted model) and the scalar tail (C16_taylor_tail_bound): every
    # coefficient of the remainder after K terms is below tail(x) * mass, x = |t| * L1
    L1 = int(model.q('L1H', norb, *htok)[0])
    mass = int(model.q('MASS', norb, *fqeio.vec_tokens(case['vec']))[0])
    nrm = math.sqrt(sum(re * re + im * im for a, b, re, im in case['vec']))
    ratio = mass / nrm if nrm > 0 else 1.0
    x = abs(float(t)) * L1
    # order K with the remainder below 1e-13 |psi| in every coefficient
    K = 2
    while True:
        if K + 2 > x:
            tail = x ** (K + 1) / math.factorial(K + 1) * (K + 2) / (K + 2 - x)
            if tail * ratio < 1e-13:
                break
        K += 1
        if K > 140:
            return None
    vec = {(a, b): (re, im) for a, b, re, im in case['vec']}
    acc = {k: (Fraction(v[0]), Fraction(v[1])) for k, v in vec.items()}
    cur = [[a, b, re, im] for (a, b), (re, im) in vec.items()]
    coef = (Fraction(1), Fraction(0))      # (-i t)^k / k!
    for k in range(1, K + 1):
        tk = model.q('APPLYH', norb, *htok, *fqeio.vec_tokens(cur), *fqeio.basis_tokens(basis))
        cur = []
        for j, (a, b) in enumerate(basis):
            re, im = int(tk[2 * j]), int(tk[2 * j + 1])
            if re or im:
                cur.append([a, b, re, im])
        # coef *= (-i t)/k :  (x+iy)(-i t) = (y t) + i(-x t)
        coef = (coef[1] * t / k, -coef[0] * t / k)
        if not cur:
            break
        for a, b, re, im in cur:
            o = acc.get((a, b), (Fraction(0), Fraction(0)))
            acc[(a, b)] = (o[0] + coef[0] * re - coef[1] * im, o[1] + coef[0] * im + coef[1] * re)
    return {'%d,%d' % k: [float(v[0]), float(v[1])] for k, v in acc.items()}, K


def expected(model, case):
    if case['kind'] == 'evolve_ext':
        from props import c17
        e = c17.expected(model, {'kind': 'givens', 'variant': 'both', 'norb': case['norb'], 'mode': 'ns', 'n': case['n'],
                                 'sz': case['sz'], 'vec': case['vec'], 'G': case['G'], 'd': case['d']})
        nrm = math.sqrt(sum(re * re + im * im for a, b, re, im in case['vec']))
        return {'out': {k: tuple(v) for k, v in e['out'].items() if v != [0.0, 0.0]}, 'norm': nrm}
    r = taylor_oracle(model, case)
    if r is None:
        return {'skip': 'x too large for the exact oracle'}
    out, K = r
    nrm = math.sqrt(sum(re * re + im * im for a, b, re, im in case['vec']))
    return {'out': out, 'K': K, 'norm': nrm}


def _cmp_state(got_state, exp, label, bad, scale):
    g = {'%d,%d' % (a, b): (re, im) for a, b, re, im in got_state}
    worst = 0.0
    wk = None
    for k in set(g) | set(exp):
        gr, gi = g.get(k, (0.0, 0.0))
        er, ei = exp.get(k, (0.0, 0.0))
        d = math.hypot(gr - er, gi - ei)
        if d > worst:
            worst, wk = d, k
    if worst > TOL * scale:
        gr, gi = g.get(wk, (0.0, 0.0))
        er, ei = exp.get(wk, (0.0, 0.0))
        bad.append('%s: amplitude of %s is %.12g%+.12gj, exp(-iHt)psi has %.12g%+.12gj (|diff| %.3g)' % (label, wk, gr, gi, er, ei, worst))


def compare(case, got, exp, mode):
    if 'exc' in got or 'crash' in got:
        return ['raised %s: %s' % (got.get('exc', 'CRASH'), str({k: got[k] for k in got if k != 'tb'})[:300])]
    if 'skip' in exp:
        return []
    bad = []
    scale = 1.0 + exp['norm']
    if case['kind'] == 'evolve_ext':
        if got['herm_err'] > 1e-10:
            return []          # the harness could not build h = i log(u) accurately: no verdict
        if not got['unchanged']:
            bad.append('time_evolve (out of place) modified its input')
        _cmp_state(got['state'], exp['out'], 'time_evolve(1, quadratic H = i log u) on (norb,n,sz)=(%d,%d,%d)' % (case['norb'], case['n'], case['sz']), bad, scale)
        if abs(got['norm'][0] - got['norm'][1]) > TOL * scale:
            bad.append('norm changed: %r -> %r' % tuple(got['norm']))
        if got['undo_err'] > 10 * TOL * scale:
            bad.append('-t does not undo t: |difference| = %.3g' % got['undo_err'])
        return bad
    if not got['unchanged']:
        bad.append('time_evolve (out of place) modified its input')
    if got['evolve'] is None:
        if not (got['evolve_err'] or '').startswith('RuntimeError:maximum'):
            bad.append('time_evolve raised %s' % got['evolve_err'])
    else:
        _cmp_state(got['evolve'], exp['out'], 'time_evolve(t=%r) [%s]' % (case['t'], got['route']['cls']), bad, scale)
        if abs(got['norm_out'] - got['norm_in']) > TOL * scale:
            bad.append('norm changed: %r -> %r' % (got['norm_in'], got['norm_out']))
        for key, label in (('undo_err', '-t does not undo t'), ('compose_err', 't/2 twice differs from t'),
                           ('inplace_err', 'in-place differs from out-of-place')):
            if key in got and got[key] > 10 * TOL * scale:
                bad.append('%s: |difference| = %.3g' % (label, got[key]))
    if got.get('api_same') is False:
        bad.append('fqe.time_evolve(wfn, t, H) differs from wfn.time_evolve(t, H)')
    if got.get('genu_api_same') is False:
        bad.append('fqe.apply_generated_unitary(wfn, ...) differs from wfn.apply_generated_unitary(...)')
    if case['algo']:
        if got.get('genu') is None:
            if not (got.get('genu_err') or '').startswith('RuntimeError:maximum'):
                bad.append('apply_generated_unitary(%s) raised %s' % (case['algo'], got.get('genu_err')))
        else:
            _cmp_state(got['genu'], exp['out'], 'apply_generated_unitary(%s, t=%r) [%s]' % (case['algo'], case['t'], got['route']['cls']), bad, scale)
            if got.get('genu_again') is None:
                bad.append('apply_generated_unitary(%s) with the same Hamiltonian object a second time raised %s' % (case['algo'], got.get('genu_again_err')))
            else:
                _cmp_state(got['genu_again'], exp['out'], 'apply_generated_unitary(%s, t=%r) a second time with the same Hamiltonian object [%s]' %
                           (case['algo'], case['t'], got['route']['cls']), bad, scale)
            if 'evolve_after_genu' in got:
                if got['evolve_after_genu'] is None:
                    bad.append('time_evolve after apply_generated_unitary(%s) with the same Hamiltonian object raised %s' % (case['algo'], got.get('evolve_after_genu_err')))
                else:
                    _cmp_state(got['evolve_after_genu'], exp['out'], 'time_evolve(t=%r) after apply_generated_unitary(%s) with the same Hamiltonian object [%s]' %
                               (case['t'], case['algo'], got['route']['cls']), bad, scale)
    return bad


def classify(case, mode, bad, got, exp):
    if case['kind'] == 'evolve_ext':
        return None
    if c01.sparse_normal_orders_to_zero(case):
        return 'F-C01-empty-sparse-is-identity'
    pseudo = {'mode': case['mode'], 'norb': case['norb'], 'ham': case['ham']}
    if c01.in_spinorb_single_sector_class(pseudo):
        return 'F-C01-spinorb-single-sector'
    return None


def nontrivial(case, exp):
    if 'skip' in exp:
        return False
    return case['t'] != 0.0 and len(exp['out']) >= 2


def case_class(case):
    return '%s/%s/t=%g/e0=%d/%s' % (case['recipe'], case['mode'], case['t'], case['ham']['e0'][0], case['algo'])


def shrink(case):
    out = []
    if case['kind'] == 'evolve_ext':
        v = case['vec']
        return [dict(case, vec=[v[k]]) for k in range(len(v))] if len(v) > 1 else []
    if case['ham']['e0'] != [0, 0]:
        out.append(dict(case, ham=dict(case['ham'], e0=[0, 0])))
    ents = case['ham']['entries']
    if len(ents) > 2 and case['ham']['cls'] not in ('sparse',):
        for k in range(len(ents)):
            out.append(dict(case, ham=dict(case['ham'], entries=ents[:k] + ents[k + 1:])))
    v = case['vec']
    if len(v) > 1:
        for k in range(len(v)):
            out.append(dict(case, vec=[v[k]]))
    return out


sample = c01.sample
THEOREM_FILES = ['P_C02', 'P_C02_norm']
RULE = ('Hermitian Hamiltonians of every route (diagonal, quadratic restricted/GSO/SSO, diagonal-Coulomb from 2- and '
        '4-index data, single term + h.c., number-operator term, dense rank 2-3, multi-term sparse), scalar offsets '
        '{0,1,-2,3}, times {0, +-2^-6, 0.05, -0.3, 0.7, 1, 7.5, -12.25, 40}, unnormalised Gaussian-integer states, '
        'both wavefunction modes, both paths, default route + Taylor + Chebyshev. non-trivial: t != 0 and >= 2 '
        'determinants in the result')
NOT_PROVED = ['the scalar tail bound of the exact Taylor oracle (TaylorTail.v, stated in P_C16) and the operator-norm step in l1 '
              'form (C02_oracle_power_bound) are proved; the convergence of the series to exp(-iHt) psi itself (the limit) is not a '
              'Coq object here; the quadratic (orbital-rotation) route has no closed-form theorem: it is tied through the '
              'exterior-power oracle (kind evolve_ext)']
