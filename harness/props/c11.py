"""C11 — operations leave their inputs intact; results do not depend on call history.
Random histories over a pool of wavefunctions (sharing FciGraph objects through copies)
and Hamiltonians, with code-path flips in mid-history.  After every step the worker
compares byte snapshots of every live object that is not the step's target; the result
of every step is recomputed in a SECOND, fresh process from freshly rebuilt arguments
(other history, other cache contents) and must coincide.
The theorems (Heap.v) say why this must hold: memoised tables are functions of their
keys, so caches are unobservable."""
import fqeio
from props import c01

PID = 'C11'
MODES = ['C', 'PY0']
COMPARE_ARITY = 4
NW, NH = 4, 3


def gen_cases(rng, tier):
    cases = []
    for _ in range(14 if tier == 'quick' else 100):
        norb = rng.randint(2, 3)
        mode = rng.choice(['ns', 'ns', 'sb', 'nb'])
        if mode == 'ns':
            na, nb = rng.randint(0, norb), rng.randint(0, norb)
            nn, sz = na + nb, na - nb
        elif mode == 'nb':
            nn, sz = 0, rng.randint(-norb + 1, norb - 1)
        else:
            nn, sz = rng.randint(1, 2 * norb - 1), 0
        keys = fqeio.sector_keys(norb, mode, nn, sz)
        wf = [fqeio.random_state(rng, norb, keys, density=0.8, amp=2) for _ in range(NW)]
        hams = []
        for _h in range(NH):
            if mode == 'nb':
                # number-broken family: Hermitian FermionOperators with pairing terms (>= 3 terms: dense route through
                # the particle-hole flipped copy; quadratic ones take the orbital-rotation route in time_evolve)
                terms = c01.gen_fop_terms(rng, norb, number_breaking=True, nterms=rng.randint(2, 4))
                if _h == 0:
                    terms = [t for t in terms if len(t[0]) == 2] or terms
                hams.append({'cls': 'fop', 'rank': 0, 'entries': terms, 'e0': [0, 0], 'real': False})
                continue
            cls = rng.choice(['restricted', 'sso', 'diag', 'dc2', 'sparse'] if mode == 'ns' else ['gso', 'diag2', 'sparse'])
            rank = rng.randint(1, 2)
            real = rng.random() < 0.5
            if cls == 'restricted':
                rank = rng.choice([1, 2, 2, 3])
            if _h == 0 and mode == 'ns' and rng.random() < 0.5:
                # a three-body restricted Hamiltonian with complex128 tensors in every other single-sector history
                # (the 1+2+3-body kernels fold the three-body tensor into working copies of the lower ones)
                cls, rank, real = 'restricted', 3, False
            # complex tensors as often as real ones: a complex128 array is what the kernels would not need to convert
            ham = c01.gen_ham(rng, cls, rank, norb, 'sparse', real, True)
            if cls == 'sso':
                ham['entries'] = c01.pair_symmetrise(c01._sso_filter(ham['entries'], norb))
            if cls == 'sparse':
                ents = []
                i, j = rng.randrange(norb), rng.randrange(norb)
                s = rng.randrange(2)
                ops = [[2 * i + s, 1], [2 * j + s, 0]]
                ents = [[ops, 2, 1], [c01._adjoint_ops(ops), 2, -1]]
                if rng.random() < 0.6:
                    # three or more terms: not "individual", so time_evolve goes through iht() and the Taylor propagator
                    # while apply goes through terms_hamiltonian() - the same HELD object on both routes
                    p2, q2 = rng.randrange(norb), rng.randrange(norb)
                    s2 = rng.randrange(2)
                    ents.append([[[2 * p2 + s2, 1], [2 * p2 + s2, 0]], rng.randint(1, 2), 0])
                    if rng.random() < 0.5 and p2 != q2:
                        o2 = [[2 * p2 + s2, 1], [2 * q2 + s2, 0]]
                        ents += [[o2, 1, -1], [c01._adjoint_ops(o2), 1, 1]]
                ham = {'cls': 'sparse', 'rank': 0, 'entries': ents, 'e0': [0, 0], 'real': False}
            ham['e0'] = rng.choice([[0, 0], [1, 0]])
            hams.append(ham)
        if mode == 'ns' and rng.random() < 0.6:
            # a "field scan": two restricted Hamiltonians built from the SAME two-body array object with different one-body
            # matrices (in the history; the fresh process rebuilds each from its own arrays)
            base = c01.gen_ham(rng, 'restricted', 2, norb, 'sparse', rng.random() < 0.5, True)
            other = c01.gen_ham(rng, 'restricted', 1, norb, 'dense', base['real'], True)
            two = [e for e in base['entries'] if len(e[0]) == 4]
            hams[0] = dict(base, e0=[0, 0])
            hams[1] = {'cls': 'restricted', 'rank': 2, 'entries': [e for e in other['entries'] if len(e[0]) == 2] + two,
                       'e0': [0, 0], 'real': base['real'], 'share_rank2_with': 0}
        ops = []
        for _k in range(rng.randint(4, 12 if tier == 'quick' else 25)):
            kind = rng.choice(['apply', 'apply', 'evolve', 'evolve_inplace', 'rdm', 'expect', 'add', 'axpy', 'scale',
                               'copy', 'to_cirq', 'iht', 'flip', 'norm', 'empty_copy', 'apply_op', 'genu'])
            i, j, t = rng.randrange(NW), rng.randrange(NW), rng.randrange(NW)
            h = rng.randrange(NH)
            if kind in ('apply', 'evolve', 'apply_op', 'genu'):
                ops.append([kind, i, h, t])
            elif kind == 'evolve_inplace':
                ops.append([kind, i, h])
            elif kind in ('rdm', 'expect', 'to_cirq', 'norm'):
                ops.append([kind, i, h, j])
            elif kind == 'add':
                ops.append([kind, i, j, t])
            elif kind == 'axpy':
                ops.append([kind, i, j])
            elif kind == 'scale':
                ops.append([kind, i])
            elif kind in ('copy', 'empty_copy'):
                ops.append([kind, i, t])
            elif kind == 'iht':
                ops.append([kind, h])
            else:
                ops.append(['flip'])
        # every held Hamiltonian object is used on one route and then on another (apply / expectation value first, then
        # propagation and its iht data, then apply again): results must not depend on that order
        for h in range(NH):
            a, b, t = rng.randrange(NW), rng.randrange(NW), rng.randrange(NW)
            ops += [['apply', a, h, t], ['evolve', b, h, t], ['iht', h], ['expect', a, h, b], ['apply', b, h, t],
                    ['genu', a, h, t], ['iht', h], ['evolve', b, h, t], ['apply', a, h, t]]
        cases.append({'kind': 'hist', 'norb': norb, 'mode': mode, 'n': nn, 'sz': sz, 'wf': wf, 'hams': hams, 'ops': ops})
    return cases


# ------------------------------------------------------------------ implementation
def _wsnap(w):
    return [(tuple(map(int, k)), w.sector(k).coeff.tobytes()) for k in sorted(w.sectors())]


def _mkham(h, norb):
    """Hamiltonian object of a case entry; FermionOperators of the number-broken family are compiled"""
    import fqe
    obj = c01.build_ham(h, norb)
    if h['cls'] == 'fop':
        obj = fqe.get_hamiltonian_from_openfermion(obj, norb=norb, conserve_number=False)
    return obj


def _hsnap(h):
    import numpy
    if not hasattr(h, 'e_0'):
        return [type(h).__name__, str(h)]
    out = [type(h).__name__, repr(complex(h.e_0()))]
    for name in ('_tensor', '_hdiag', '_operators'):
        if hasattr(h, name):
            v = getattr(h, name)
            if isinstance(v, dict):
                out.append([(k, numpy.asarray(x).tobytes()) for k, x in sorted(v.items())])
            elif isinstance(v, list):
                out.append(repr(v))
            else:
                out.append(numpy.asarray(v).tobytes())
    return out


def _do(op, W, H, fqe, copy, numpy):
    """perform one operation; returns (target kind, target index or None, result summary)"""
    k = op[0]
    if k == 'apply':
        W[op[3]] = W[op[1]].apply(H[op[2]])
        return ('w', op[3], fqeio.read_state(W[op[3]]))
    if k == 'apply_op':
        from openfermion import FermionOperator
        fop = FermionOperator('0^ 0', 2.0) + FermionOperator('2^ 2', 1.0) + FermionOperator('0^ 2', 1.0) + FermionOperator('2^ 0', 1.0)
        before = str(fop)
        W[op[3]] = W[op[1]].apply(fop)
        return ('w', op[3], [fqeio.read_state(W[op[3]]), before == str(fop)])
    if k == 'evolve':
        try:
            W[op[3]] = W[op[1]].time_evolve(0.05, H[op[2]])
        except RuntimeError:
            return ('n', None, 'refused')
        return ('w', op[3], fqeio.read_state(W[op[3]]))
    if k == 'genu':
        # the polynomial propagator given the Hamiltonian object directly (it builds and consumes iht data itself)
        try:
            W[op[3]] = W[op[1]].apply_generated_unitary(0.05, 'taylor', H[op[2]], accuracy=1e-12, expansion=60)
        except Exception as e:  # noqa
            return ('n', None, 'refused:' + type(e).__name__)
        return ('w', op[3], fqeio.read_state(W[op[3]]))
    if k == 'evolve_inplace':
        try:
            W[op[1]] = W[op[1]].time_evolve(0.05, H[op[2]], True)
        except (ValueError, RuntimeError):
            return ('w', op[1], 'refused')
        return ('w', op[1], fqeio.read_state(W[op[1]]))
    if k == 'rdm':
        r = numpy.asarray(W[op[1]].rdm('i^ j', brawfn=W[op[3]]))
        return ('n', None, [r.real.tolist(), r.imag.tolist()])
    if k == 'expect':
        v = complex(W[op[1]].expectationValue(H[op[2]], brawfn=W[op[3]]))
        return ('n', None, [v.real, v.imag])
    if k == 'to_cirq':
        v = fqe.to_cirq(W[op[1]])
        nz = numpy.nonzero(v)[0]
        return ('n', None, [[int(i), float(v[i].real), float(v[i].imag)] for i in nz])
    if k == 'norm':
        return ('n', None, float(W[op[1]].norm()))
    if k == 'add':
        W[op[3]] = W[op[1]] + W[op[2]]
        return ('w', op[3], fqeio.read_state(W[op[3]]))
    if k == 'axpy':
        src = W[op[2]] if op[2] != op[1] else copy.deepcopy(W[op[2]])
        W[op[1]].ax_plus_y(0.5 - 1.0j, src)
        return ('w', op[1], fqeio.read_state(W[op[1]]))
    if k == 'scale':
        W[op[1]].scale(0.5j)
        return ('w', op[1], fqeio.read_state(W[op[1]]))
    if k == 'copy':
        W[op[2]] = copy.deepcopy(W[op[1]])
        return ('w', op[2], fqeio.read_state(W[op[2]]))
    if k == 'empty_copy':
        W[op[2]] = W[op[1]].empty_copy()
        return ('w', op[2], fqeio.read_state(W[op[2]]))
    if k == 'iht':
        r = H[op[1]].iht(0.25)
        if isinstance(r, tuple):
            return ('n', None, [[numpy.asarray(a).real.tolist(), numpy.asarray(a).imag.tolist()] for a in r])
        import hashlib
        return ('n', None, [_hsnap(r)[0], hashlib.sha256(repr(_hsnap(r)).encode()).hexdigest()])
    if k == 'flip':
        import fqe.settings
        fqe.settings.use_accelerated_code = not fqe.settings.use_accelerated_code
        return ('n', None, None)
    raise ValueError(k)


def run_impl(case, mode):
    import copy
    import numpy
    import fqe
    import fqe.settings
    norb = case['norb']
    start_flag = fqe.settings.use_accelerated_code

    def build():
        W = [fqeio.make_wfn(norb, case['mode'], case['n'], case['sz'], v) for v in case['wf']]
        # objects obtained by copying share their FciGraph with the source
        W[1] = copy.deepcopy(W[0])
        fqeio.set_state(W[1], case['wf'][1])
        H = [_mkham(h, norb) for h in case['hams']]
        for k, h in enumerate(case['hams']):
            if 'share_rank2_with' in h:
                j = h['share_rank2_with']
                dt = float if h.get('real') else complex
                t_j = fqeio.dense_tensors(norb, 2, case['hams'][j]['entries'], dt)
                t_k = fqeio.dense_tensors(norb, 2, h['entries'], dt)
                H[j] = fqe.get_restricted_hamiltonian((t_j[0], t_j[1]), e_0=complex(*case['hams'][j]['e0']))
                H[k] = fqe.get_restricted_hamiltonian((t_k[0], t_j[1]), e_0=complex(*h['e0']))     # the same array object
        return W, H

    if case.get('phase') == 'fresh':
        # recompute every recorded step in isolation from freshly rebuilt arguments
        out = []
        for step in case['steps']:
            fqe.settings.use_accelerated_code = step['flag']
            W = [fqeio.make_wfn(norb, case['mode'], case['n'], case['sz'], None) for _ in range(NW)]
            for i, st in enumerate(step['wstates']):
                fqeio.set_state(W[i], st) if st else W[i].set_wfn(strategy='zero')
            H = [_mkham(h, norb) for h in case['hams']]
            try:
                _, _, res = _do(step['op'], W, H, fqe, copy, numpy)
            except Exception as e:  # noqa
                res = 'EXC:' + type(e).__name__
            out.append(res)
        fqe.settings.use_accelerated_code = start_flag
        return {'results': out}

    fqeio.reset_sources()
    W, H = build()
    modeflags = [bool(W[0]._conserve_spin), bool(W[0]._conserve_number)]
    frame_bad = []
    steps = []
    for n, op in enumerate(case['ops']):
        wbefore = [_wsnap(w) for w in W]
        hbefore = [_hsnap(h) for h in H]
        wstates = [fqeio.read_state(w) for w in W]
        wflags = [[bool(w._conserve_spin), bool(w._conserve_number)] for w in W]
        flag = bool(fqe.settings.use_accelerated_code)
        try:
            tk, ti, res = _do(op, W, H, fqe, copy, numpy)
        except Exception as e:  # noqa
            tk, ti, res = 'n', None, 'EXC:' + type(e).__name__
        for i, w in enumerate(W):
            if not (tk == 'w' and ti == i) and _wsnap(w) != wbefore[i]:
                frame_bad.append('step %d %s changed wavefunction #%d which is not its target' % (n, op, i))
        for i, h in enumerate(H):
            if _hsnap(h) != hbefore[i]:
                frame_bad.append('step %d %s changed Hamiltonian #%d' % (n, op, i))
        if op[0] != 'flip':
            steps.append({'op': op, 'wstates': wstates, 'flag': flag, 'res': res, 'wflags': wflags})
    # copies evolve independently of their source
    fqe.settings.use_accelerated_code = start_flag
    frame_bad += fqeio.modified_sources()
    return {'frame_bad': frame_bad[:5], 'steps': steps, 'modeflags': modeflags}


def expected(model, case):
    return {}


def compare(case, got, exp, mode):
    if 'exc' in got or 'crash' in got:
        return ['raised %s: %s' % (got.get('exc', 'CRASH'), str({k: got[k] for k in got if k != 'tb'})[:300])]
    return list(got.get('frame_bad', []))


def _close(a, b, tol=1e-11):
    if isinstance(a, (int, float)) and isinstance(b, (int, float)):
        return abs(a - b) <= tol * (1 + abs(b))
    if isinstance(a, list) and isinstance(b, list):
        return len(a) == len(b) and all(_close(x, y, tol) for x, y in zip(a, b))
    return a == b


def extra_checks(bdir, model, rng, tier, stats):
    """second phase: history independence against a fresh process"""
    import core
    out = []
    cases = gen_cases(core.rng_for(int(__import__('os').environ.get('VERIF_SEED', '0') or 0), PID + 'x'), tier)
    for mode in MODES:
        first = core.run_impl(bdir, 'c11', cases, mode)
        fresh_cases = []
        idx = []
        for ci, (c, r) in enumerate(zip(cases, first)):
            if r and 'steps' in r:
                fresh_cases.append(dict(c, phase='fresh', steps=[{k: s[k] for k in ('op', 'wstates', 'flag')} for s in r['steps']]))
                idx.append(ci)
            elif r and ('exc' in r or 'crash' in r):
                out.append(('history raised: %s' % str(r)[:200], {'property': PID, 'mode': mode, 'case': c, 'impl': r}, None))
        second = core.run_impl(bdir, 'c11', fresh_cases, mode)
        for ci, r2 in zip(idx, second):
            r1 = first[ci]
            stats['evaluations'] += len(r1['steps'])
            if not r2 or 'results' not in r2:
                out.append(('fresh replay failed: %s' % str(r2)[:200], {'property': PID, 'mode': mode, 'case': cases[ci]}, None))
                continue
            for n, (s, fr) in enumerate(zip(r1['steps'], r2['results'])):
                if not _close(s['res'], fr):
                    fid = 'F-C11-flags-dropped' if _operand_lost_flags(s, r1.get('modeflags')) else None
                    out.append(('result of step %d %s depends on history: in-history %s, fresh %s' %
                                (n, s['op'], str(s['res'])[:120], str(fr)[:120]),
                                {'property': PID, 'mode': mode, 'case': cases[ci], 'step': n, 'in_history': s['res'], 'fresh': fr,
                                 'finding_class': fid}, fid))
                    break
            if r1['frame_bad']:
                out.append((r1['frame_bad'][0], {'property': PID, 'mode': mode, 'case': cases[ci], 'frame': r1['frame_bad']}, None))
        if len(out) > 4:
            break
    return out[:5]


def _operand_lost_flags(step, modeflags):
    """finding class F-C11-flags-dropped: a wavefunction the failing step READS carries symmetry flags that differ
    from those of the wavefunction family of the case (they were reset to the defaults by empty_copy(), by
    apply(SparseHamiltonian) or by a single-term time_evolve earlier in the history)"""
    op = step['op']
    reads = {'apply': [1], 'apply_op': [1], 'evolve': [1], 'genu': [1], 'evolve_inplace': [1], 'rdm': [1, 3], 'expect': [1, 3],
             'to_cirq': [1], 'norm': [1], 'add': [1, 2], 'axpy': [1, 2], 'scale': [1], 'copy': [1], 'empty_copy': [1]}.get(op[0], [])
    fl = step.get('wflags')
    if not fl or not modeflags:
        return False
    return any(fl[op[i]] != modeflags for i in reads if i < len(op))


def classify(case, mode, bad, got, exp):
    return None


def nontrivial(case, exp):
    kinds = set(o[0] for o in case['ops'])
    return bool(kinds & {'evolve_inplace', 'axpy', 'scale'}) and bool(kinds & {'copy', 'empty_copy'}) and \
        bool(kinds & {'apply', 'evolve', 'rdm', 'expect'})


def case_class(case):
    return 'hist/%s/norb%d/len%d' % (case['mode'], case['norb'], len(case['ops']))


def shrink(case):
    ops = case['ops']
    return [dict(case, ops=ops[:k] + ops[k + 1:]) for k in range(len(ops))]


def sample(case):
    return {'norb': case['norb'], 'mode': case['mode'], 'ops': case['ops'], 'hams': [h['cls'] for h in case['hams']]}


THEOREM_FILES = ['P_C11']
RULE = ('random histories (4-25 operations: apply, apply(FermionOperator), evolve, in-place evolve, rdm, expectation, '
        'add, axpy, scale, deepcopy, empty_copy, to_cirq, iht, norm, code-path flips) over a pool of 4 wavefunctions '
        '(two sharing one FciGraph) and 3 Hamiltonians; byte snapshots of every non-target after every step; every '
        'step recomputed from rebuilt arguments in a second process. non-trivial: history with an in-place op, a copy '
        'and a table-filling op')
NOT_PROVED = ['that FQE\'s tables are functions of their keys is the cache invariant of Heap.v; for the real code it is '
              'what C05 establishes for the tables themselves']
