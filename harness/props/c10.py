"""C10 — results do not depend on the number of threads or the loop schedule.
Theorems (Par.v): pairwise-independent iterations => every interleaving equals sequential
execution; the footprint patterns of the kernels (row-parallel, per-thread scratch,
collapse(2), injective scatter, same-value stores) are independent.
Runtime tie (supporting runs, not the proof): every accelerated kernel is driven through
the public API on sectors large enough to cross the batch sizes (450-element ZAXPY batch,
10-state blocks, block 100 of the RDM code) with OMP_NUM_THREADS in {1,2,3,5,8,16}
(repeated), and on a build with OpenMP disabled; inputs are Gaussian integers, so every
intermediate is exact and the outputs must be BIT-IDENTICAL."""
import hashlib

PID = 'C10'
MODES = ['C']
COMPARE_ARITY = 4
THREADS_QUICK = [1, 2, 3, 5, 8, 16]
THREADS_THOROUGH = [1, 2, 3, 4, 5, 6, 7, 8, 11, 13, 16]


def gen_cases(rng, tier):
    cases = []
    shapes = [(6, 3, 3), (7, 3, 2), (5, 1, 4), (8, 4, 1), (6, 0, 3), (4, 4, 2), (2, 1, 1), (1, 1, 0)]
    if tier != 'quick':
        shapes += [(8, 4, 4), (9, 4, 2), (11, 5, 1), (12, 1, 6), (7, 7, 3)]
    # lenb = C(11,5) = 462 and C(12,6) = 924 cross the 450 batch; lena = C(9,4) = 126 crosses block 100
    for norb, na, nb in shapes:
        for op in ('apply_r2', 'apply_gso1', 'apply_gso1_col', 'apply_r3', 'evolve_diag', 'evolve_dc', 'evolve_ind', 'evolve_quad', 'rdm12', 'rdm3',
                   'cirq', 'graph', 'apply_sparse', 's2'):
            if op in ('apply_r3', 'rdm3') and norb > 6:
                continue
            if op == 'cirq' and norb > 8:
                continue
            cases.append({'kind': 'kern', 'norb': norb, 'na': na, 'nb': nb, 'op': op, 'seed': rng.randrange(10 ** 6)})
    # the low-filling kernels of the dense 1+2-body apply (n_alpha, n_beta < 0.3 norb; selected by FqeData._low_thresh,
    # which the accelerated path leaves at 0: the kernels are reached by setting it, as the repository's own tests do)
    low_shapes = [(4, 1, 1), (7, 2, 2), (7, 2, 1), (8, 1, 2)] + ([] if tier == 'quick' else [(5, 1, 1), (11, 3, 1), (11, 3, 3), (7, 0, 2), (10, 2, 2)])
    for norb, na, nb in low_shapes:
        for op in ('apply_r2_low', 'apply_g2_low'):
            cases.append({'kind': 'kern', 'norb': norb, 'na': na, 'nb': nb, 'op': op, 'seed': rng.randrange(10 ** 6)})
    if tier == 'quick':
        cases = [c for c in cases if not (c['op'] in ('apply_r3', 'rdm3') and c['norb'] > 5)]
        # rows / columns longer than one 450-element batch also in the quick tier (column kernels of the orbital
        # rotation, ZAXPY batches of the dense apply)
        for norb, na, nb in ((11, 1, 5), (11, 5, 1)):
            for op in ('evolve_quad', 'apply_r2', 'evolve_dc', 'evolve_diag'):
                cases.append({'kind': 'kern', 'norb': norb, 'na': na, 'nb': nb, 'op': op, 'seed': rng.randrange(10 ** 6)})
    return cases


def _digest(arrs):
    import numpy
    h = hashlib.sha256()
    for a in arrs:
        a = numpy.ascontiguousarray(a)
        h.update(str(a.shape).encode())
        h.update(a.tobytes())
    return h.hexdigest()


def run_impl(case, mode):
    import copy
    import numpy
    import fqe
    from openfermion import FermionOperator
    norb, na, nb = case['norb'], case['na'], case['nb']
    rs = numpy.random.RandomState(case['seed'])
    nele, sz = na + nb, na - nb
    op = case['op']

    def iarr(shape, herm=False, real=False):
        a = rs.randint(-2, 3, size=shape).astype(numpy.complex128)
        if not real:
            a = a + 1j * rs.randint(-2, 3, size=shape)
        return a

    # guard bands (used by the C13 sweep): every coefficient matrix handed to a kernel is a view into the middle of a
    # NaN-filled buffer four matrix sizes wide on either side, so that a strided out-of-bounds READ that stays inside the heap
    # (and therefore escapes the address sanitizer's red zones) puts NaN into the result, and an out-of-bounds WRITE damages
    # the band
    import os
    guard = os.environ.get('FQE_VERIF_GUARD') == '1'
    bands = []

    def rehome(wfn):
        if not guard:
            return
        for key in wfn.sectors():
            sc = wfn.sector(key)
            n = sc.coeff.size
            buf = numpy.full(9 * n + 2, numpy.nan + 1j * numpy.nan, dtype=numpy.complex128)
            view = buf[4 * n:5 * n].reshape(sc.coeff.shape)
            view[...] = sc.coeff
            sc.coeff = view
            bands.append((buf, 4 * n, 5 * n))

    w = fqe.Wavefunction([[nele, sz, norb]])
    sec = w.sector((nele, sz))
    shape = sec.coeff.shape
    w.set_wfn(strategy='from_data', raw_data={(nele, sz): iarr(shape)})
    rehome(w)
    outs = []
    exact = True
    if op == 'apply_r2':
        h1 = iarr((norb, norb))
        h2 = iarr((norb,) * 4)
        outs.append(w.apply(fqe.get_restricted_hamiltonian((h1, h2))).sector((nele, sz)).coeff)
    elif op in ('apply_r2_low', 'apply_g2_low'):
        for key in w.sectors():
            w.sector(key)._low_thresh = 0.3
        if op == 'apply_r2_low':
            ham = fqe.get_restricted_hamiltonian((iarr((norb, norb)), iarr((norb,) * 4)))
        else:
            h2 = numpy.zeros((2 * norb,) * 4, dtype=numpy.complex128)
            for _ in range(60):
                h2[tuple(rs.randint(0, 2 * norb, size=4))] = rs.randint(-2, 3) + 1j * rs.randint(-2, 3)
            ham = fqe.get_gso_hamiltonian((iarr((2 * norb, 2 * norb)), h2))
        outs.append(w.apply(ham).sector((nele, sz)).coeff)
    elif op == 'apply_gso1':
        wb = fqe.get_number_conserving_wavefunction(nele, norb)
        data = {k: iarr(wb.sector(k).coeff.shape) for k in wb.sectors()}
        wb.set_wfn(strategy='from_data', raw_data=data)
        rehome(wb)
        h1 = iarr((2 * norb, 2 * norb))
        o = wb.apply(fqe.get_gso_hamiltonian((h1,)))
        outs += [o.sector(k).coeff for k in sorted(o.sectors())]
    elif op == 'apply_gso1_col':
        # single non-zero column of a spin-orbital one-body operator (the fixed-column kernels: both spin blocks, spin
        # conserving and spin flipping parts), on every s_z sector of the particle number
        wb = fqe.get_number_conserving_wavefunction(nele, norb)
        data = {k: iarr(wb.sector(k).coeff.shape) for k in wb.sectors()}
        wb.set_wfn(strategy='from_data', raw_data=data)
        rehome(wb)
        h1 = iarr((2 * norb, 2 * norb))
        for col in sorted(set([0, norb - 1, norb, 2 * norb - 1, int(rs.randint(0, 2 * norb))])):
            hc = numpy.zeros_like(h1)
            hc[:, col] = h1[:, col]
            hc[col, col] = 1.0
            o = wb.apply(fqe.get_gso_hamiltonian((hc,)))
            outs += [o.sector(k).coeff for k in sorted(o.sectors())]
    elif op == 'apply_r3':
        h1 = iarr((norb, norb))
        h2 = iarr((norb,) * 4)
        h3 = numpy.zeros((norb,) * 6, dtype=numpy.complex128)
        for _ in range(12):
            h3[tuple(rs.randint(0, norb, size=6))] = rs.randint(-2, 3)
        outs.append(w.apply(fqe.get_restricted_hamiltonian((h1, h2, h3))).sector((nele, sz)).coeff)
    elif op == 'evolve_diag':
        exact = False
        outs.append(w.time_evolve(0.5, fqe.get_diagonal_hamiltonian(rs.randint(-3, 4, size=norb).astype(float))).sector((nele, sz)).coeff)
    elif op == 'evolve_dc':
        exact = False
        outs.append(w.time_evolve(0.25, fqe.get_diagonalcoulomb_hamiltonian(rs.randint(-2, 3, size=(norb, norb)).astype(float))).sector((nele, sz)).coeff)
    elif op == 'evolve_ind':
        exact = False
        if norb >= 2:
            ham = fqe.get_sparse_hamiltonian(FermionOperator('0^ 2', 1.5 + 0.5j) + FermionOperator('2^ 0', 1.5 - 0.5j))
            outs.append(w.time_evolve(0.3, ham).sector((nele, sz)).coeff)
    elif op == 'evolve_quad':
        exact = False
        a = rs.randint(-2, 3, size=(norb, norb)).astype(float)
        outs.append(w.time_evolve(0.2, fqe.get_restricted_hamiltonian((a + a.T,))).sector((nele, sz)).coeff)
    elif op == 'rdm12':
        outs += [numpy.asarray(w.rdm('i^ j')), numpy.asarray(w.rdm('i^ j^ k l'))]
    elif op == 'rdm3':
        outs += [numpy.asarray(w.rdm('i^ j^ k^ l m n'))]
    elif op == 'cirq':
        v = fqe.to_cirq(w)
        back = fqe.from_cirq(v, 1e-12)
        outs += [v] + [back.sector(k).coeff for k in sorted(back.sectors())]
    elif op == 'graph':
        g = fqe.fci_graph.FciGraph(na, nb, norb)
        outs += [g._astr, g._bstr, g._dexca, g._dexcb] + [g._alpha_map[k] for k in sorted(g._alpha_map)]
        idx, exc, diag = g._map_to_deexc_alpha_icol()
        outs += [idx, exc, diag]
    elif op == 'apply_sparse':
        if norb >= 2:
            ham = fqe.get_sparse_hamiltonian(FermionOperator('0^ 1^ 3 2', 2.0) + FermionOperator('2^ 0', 1.0j) + FermionOperator('1^ 1', -1.0))
            outs.append(w.apply(ham).sector((nele, sz)).coeff)
    elif op == 's2':
        c = copy.deepcopy(w)
        c.sector((nele, sz)).apply_inplace_s2()
        outs.append(c.sector((nele, sz)).coeff)
    # canonical: exact kernels bit-for-bit (digest); transcendental ones (libm / vector width may differ in the last ulp with
    # thread chunking and build flags) are returned as numbers and compared with a tolerance - rounding before hashing is
    # fragile at rounding boundaries (see DESIGN, corrections)
    gres = {}
    if guard:
        nan_out = any((not numpy.isfinite(numpy.asarray(o, dtype=numpy.complex128)).all()) for o in outs
                      if numpy.asarray(o).dtype.kind in 'fc')
        damaged = any((not numpy.isnan(buf[:lo]).all()) or (not numpy.isnan(buf[hi:]).all()) for buf, lo, hi in bands)
        gres = {'guard_nan_in_output': bool(nan_out), 'guard_band_damaged': bool(damaged), 'guard_bands': len(bands)}
    if not exact:
        import base64
        flat = numpy.concatenate([numpy.asarray(o, dtype=numpy.complex128).reshape(-1) for o in outs]) if outs else numpy.zeros(0, dtype=numpy.complex128)
        return dict(gres, digest='inexact', raw=base64.b64encode(flat.tobytes()).decode(), n=len(outs), exact=False,
                    dim=[int(shape[0]), int(shape[1])])
    return dict(gres, digest=_digest(outs), n=len(outs), exact=exact, dim=[int(shape[0]), int(shape[1])])


def expected(model, case):
    return {}


def compare(case, got, exp, mode):
    if 'exc' in got or 'crash' in got:
        return ['kernel run raised %s: %s' % (got.get('exc', 'CRASH'), str(got.get('msg'))[:200])]
    return []


def extra_checks(bdir, model, rng, tier, stats):
    import os
    import core
    out = []
    seed = int(os.environ.get('VERIF_SEED', '0') or 0)
    cases = gen_cases(core.rng_for(seed, PID + 'x'), tier)
    threads = THREADS_QUICK if tier == 'quick' else THREADS_THOROUGH
    ref = None
    runs = []
    reps = 1 if tier == 'quick' else 3
    for t in threads:
        for rep in range(reps):
            r = core.run_impl(bdir, 'c10', cases, 'C', threads=t)
            runs.append(('threads=%d#%d' % (t, rep), r))
    # build with OpenMP disabled
    try:
        bdir2 = core.ensure_build(extra_cflags='-fno-openmp', tag='noomp')
        runs.append(('no-openmp build', core.run_impl(bdir2, 'c10', cases, 'C', threads=1)))
    except core.BuildError as e:
        out.append(('build without OpenMP failed: %s' % str(e)[-200:], {'property': PID}, None))
    base_label, base = runs[0]
    for label, r in runs[1:]:
        for c, a, b in zip(cases, base, r):
            stats['evaluations'] += 1
            if a is None or b is None or 'digest' not in a or 'digest' not in b:
                out.append(('kernel %s on (norb,na,nb)=(%d,%d,%d) failed under %s: %s' % (c['op'], c['norb'], c['na'], c['nb'], label, str(b)[:200]),
                            {'property': PID, 'case': c, 'run': label, 'result': b}, None))
                continue
            differs = a['digest'] != b['digest']
            if not differs and 'raw' in a:
                import base64
                import numpy
                xa = numpy.frombuffer(base64.b64decode(a['raw']), dtype=numpy.complex128)
                xb = numpy.frombuffer(base64.b64decode(b.get('raw', '')), dtype=numpy.complex128)
                differs = xa.shape != xb.shape or (xa.size and float(numpy.abs(xa - xb).max()) > 1e-11 * (1.0 + float(numpy.abs(xa).max())))
            if differs:
                out.append(('output of %s on (norb,na,nb)=(%d,%d,%d) differs between %s and %s' % (c['op'], c['norb'], c['na'], c['nb'], base_label, label),
                            {'property': PID, 'case': c, 'runs': [base_label, label], 'how': 'OMP_NUM_THREADS=<n> ./check C10 --replay <this file>'}, None))
        if len(out) > 4:
            break
    _COV['thread_counts'] = threads
    _COV['runs'] = [l for l, _ in runs]
    return out[:5]


_COV = {}


def extra_coverage():
    return dict(_COV)


def classify(case, mode, bad, got, exp):
    return None


def nontrivial(case, exp):
    return case['norb'] >= 4


def case_class(case):
    return '%s/norb%d' % (case['op'], case['norb'])


def shrink(case):
    return []


def sample(case):
    return case


THEOREM_FILES = ['P_C10', 'P_C10_zmat']
THEOREM_NEEDS = {'P_C10_zmat': ['Equiv_zmat_c']}
RULE = ('kernels driven through the public API (restricted rank 2-3 apply, GSO apply on spin-broken states, sparse apply, '
        'diagonal / diagonal-Coulomb / single-term / quadratic evolution, RDMs rank 1-3, Cirq conversion both ways, graph and '
        'column-map construction, S^2) on 8-13 sector shapes incl. lenb = 462/924 (> 450 batch) and lena = 126 (> block 100) '
        'and degenerate ones, for every thread count of the tier and a -fno-openmp build: SHA-256 of the raw output bytes')
NOT_PROVED = ['libgomp scheduling, compiler reordering and false sharing are outside the model; per-kernel footprints are '
              'instances of the proved patterns, instantiated by reading the C text (not extracted from it)']
