"""impl_worker.py — runs inside the scratch build (PYTHONPATH=<scratch>/src).
argv: job.json out.jsonl.  One JSON result line per case, flushed, so that a
native crash is attributable to the case that was running."""
import importlib
import importlib.abc
import importlib.machinery
import json
import os
import sys
import traceback


def install_py0_hook():
    """Turn fqe.settings.use_accelerated_code off right after the module body
    ran, i.e. before any other fqe module snapshots it."""

    class Finder(importlib.abc.MetaPathFinder):

        def find_spec(self, name, path, target=None):
            if name != 'fqe.settings':
                return None
            spec = importlib.machinery.PathFinder.find_spec(name, path)
            if spec is None:
                return None
            orig = spec.loader

            class Loader(importlib.abc.Loader):

                def create_module(self, spec):
                    return orig.create_module(spec)

                def exec_module(self, module):
                    orig.exec_module(module)
                    module.use_accelerated_code = False

            spec.loader = Loader()
            return spec

    sys.meta_path.insert(0, Finder())


def install_kernel_census(path):
    """VERIF_COVER=<file>: count the calls of every compiled (fqe.lib.*) routine that the library's Python modules
    reach through their module-level names; appended as one JSON line per worker at exit.  Harness-side only
    (the names are rebound in the importing modules; nothing in /repo changes)."""
    import atexit
    import functools
    import fqe  # noqa: F401
    counts = {}

    def wrap(name, fn):
        @functools.wraps(fn)
        def inner(*a, **kw):
            counts[name] = counts.get(name, 0) + 1
            return fn(*a, **kw)
        inner._verif_census = True
        return inner

    for mname, m in list(sys.modules.items()):
        if not mname.startswith('fqe') or m is None or mname.startswith('fqe.lib'):
            continue
        for attr, val in list(vars(m).items()):
            if callable(val) and getattr(val, '__module__', '') and str(getattr(val, '__module__', '')).startswith('fqe.lib') \
                    and not getattr(val, '_verif_census', False) and not isinstance(val, type):
                key = '%s.%s' % (getattr(val, '__module__'), getattr(val, '__name__', attr))
                counts.setdefault(key, 0)
                setattr(m, attr, wrap(key, val))

    def dump():
        with open(path, 'a') as f:
            f.write(json.dumps(counts) + '\n')
    atexit.register(dump)


def install_python_census(path):
    """VERIF_PYCENSUS=<file> (development aid, not used by the registered commands): record which functions of the
    library's Python sources are entered, one JSON line per worker at exit"""
    import atexit
    seen = {}

    def prof(frame, event, arg):
        if event == 'call':
            fn = frame.f_code.co_filename
            i = fn.find('/src/fqe/')
            if i >= 0:
                key = '%s:%s:%d' % (fn[i + 5:], frame.f_code.co_name, frame.f_code.co_firstlineno)
                seen[key] = seen.get(key, 0) + 1
    sys.setprofile(prof)

    def dump():
        sys.setprofile(None)
        with open(path, 'a') as f:
            f.write(json.dumps(seen) + '\n')
    atexit.register(dump)


def _jsonable(o):
    if hasattr(o, 'item'):
        return o.item()
    if hasattr(o, 'tolist'):
        return o.tolist()
    return str(o)


def main():
    jin, jout = sys.argv[1:3]
    job = json.load(open(jin))
    mode = job['mode']
    if mode == 'PY0':
        install_py0_hook()
    mod = importlib.import_module('props.' + job['prop'])
    if mode == 'PY0':
        import fqe.settings
        assert fqe.settings.use_accelerated_code is False
        import fqe.bitstring
        assert fqe.bitstring.use_accelerated_code is False
    if mode == 'PY1':
        import fqe
        import fqe.settings
        fqe.settings.use_accelerated_code = False
    if os.environ.get('VERIF_COVER') and mode != 'PY0':
        install_kernel_census(os.environ['VERIF_COVER'])
    if os.environ.get('VERIF_PYCENSUS'):
        install_python_census(os.environ['VERIF_PYCENSUS'])
    with open(jout, 'a') as f:
        for case in job['cases']:
            try:
                res = mod.run_impl(case, mode)
            except BaseException as e:  # noqa
                if isinstance(e, (KeyboardInterrupt, SystemExit)):
                    res = {'exc': type(e).__name__, 'msg': str(e)[:300], 'fatal': True}
                else:
                    res = {'exc': type(e).__name__, 'msg': str(e)[:300],
                           'tb': traceback.format_exc()[-1500:]}
            f.write(json.dumps(res, default=_jsonable) + '\n')
            f.flush()
            os.fsync(f.fileno())


if __name__ == '__main__':
    main()
