#!/bin/bash
# Offline build of the framework from files on disk: translators -> generated .v,
# full Coq .vo build (coq_makefile + make), extraction, OCaml driver, and a first
# scratch build of /repo's working tree (cached by content hash).
set -e
cd "$(dirname "$0")"
exec /venv/bin/python - <<'PY'
import sys, os
sys.path.insert(0, 'harness')
import core, runner
gs = core.regenerate_gen()
skip = runner._skipped_files(gs)
ok, log = core.coq_make(skip=skip)
print(log[-3000:])
if not ok:
    print('SETUP: coq build failed'); sys.exit(1)
core.ensure_driver()
core.ensure_build()
print('SETUP OK')
PY
