"""py2coq.py — fail-closed translator for the integer leaf functions of
fqe/bitstring.py (and similar expression-level code) into Gallina over Z.

Supported: a function whose body is (docstring,) simple assignments `name = expr`
and a final `return expr`; expressions over int constants, names, int(x), the
operators & | ^ ~ << >> + - * // %, unary -, comparisons are NOT supported here,
calls to count_bits and to other translated functions.  Anything else raises
Unsupported (the leaf then falls back to correspondence only).

Mask pattern: `return count_bits(int(s) & E)` with E free of s is emitted as two
definitions, <f>_mask and <f>, so that the equivalence proof can reflect over the
finite index domain of the mask."""
import ast


class Unsupported(Exception):
    pass


BINOPS = {
    ast.BitAnd: 'Z.land', ast.BitOr: 'Z.lor', ast.BitXor: 'Z.lxor',
    ast.LShift: 'Z.shiftl', ast.RShift: 'Z.shiftr',
    ast.Add: 'Z.add', ast.Sub: 'Z.sub', ast.Mult: 'Z.mul',
    ast.FloorDiv: 'Z.div', ast.Mod: 'Z.modulo',
}


class Tr:

    def __init__(self, known):
        self.known = known  # python name -> coq name of translated functions

    def expr(self, e):
        if isinstance(e, ast.Constant) and isinstance(e.value, int) and not isinstance(e.value, bool):
            return '(%d)' % e.value if e.value >= 0 else '(%d)' % e.value
        if isinstance(e, ast.Name):
            return 'v_' + e.id
        if isinstance(e, ast.BinOp) and type(e.op) in BINOPS:
            return '(%s %s %s)' % (BINOPS[type(e.op)], self.expr(e.left), self.expr(e.right))
        if isinstance(e, ast.UnaryOp) and isinstance(e.op, ast.Invert):
            return '(Z.lnot %s)' % self.expr(e.operand)
        if isinstance(e, ast.UnaryOp) and isinstance(e.op, ast.USub):
            return '(Z.opp %s)' % self.expr(e.operand)
        if isinstance(e, ast.Call) and isinstance(e.func, ast.Name) and not e.keywords:
            fn = e.func.id
            if fn == 'int' and len(e.args) == 1:
                return self.expr(e.args[0])
            if fn == 'count_bits' and len(e.args) == 1:
                return '(zpopcount %s)' % self.expr(e.args[0])
            if fn in self.known:
                return '(%s %s)' % (self.known[fn], ' '.join(self.expr(a) for a in e.args))
        raise Unsupported(ast.dump(e)[:120])

    def names(self, e):
        return {n.id for n in ast.walk(e) if isinstance(n, ast.Name)}


def translate_function(fdef, known, prefix='py_'):
    tr = Tr(known)
    args = [a.arg for a in fdef.args.args]
    if fdef.args.vararg or fdef.args.kwarg or fdef.args.kwonlyargs or fdef.args.defaults:
        raise Unsupported('signature')
    body = list(fdef.body)
    if body and isinstance(body[0], ast.Expr) and isinstance(body[0].value, ast.Constant) \
            and isinstance(body[0].value.value, str):
        body = body[1:]
    lets = []
    ret = None
    for st in body:
        if isinstance(st, ast.Assign) and len(st.targets) == 1 and isinstance(st.targets[0], ast.Name):
            lets.append((st.targets[0].id, st.value))
        elif isinstance(st, ast.Return) and st.value is not None and st is body[-1]:
            ret = st.value
        else:
            raise Unsupported('statement ' + type(st).__name__)
    if ret is None:
        raise Unsupported('no return')
    name = prefix + fdef.name
    sig = ' '.join('(v_%s : Z)' % a for a in args)

    def wrap(lets, e):
        s = tr.expr(e)
        for n, v in reversed(lets):
            s = 'let v_%s := %s in %s' % (n, tr.expr(v), s)
        return s

    # mask pattern
    if (isinstance(ret, ast.Call) and isinstance(ret.func, ast.Name) and ret.func.id == 'count_bits'
            and len(ret.args) == 1 and isinstance(ret.args[0], ast.BinOp)
            and isinstance(ret.args[0].op, ast.BitAnd) and args):
        left, right = ret.args[0].left, ret.args[0].right
        s0 = args[0]

        def is_s(e):
            return (isinstance(e, ast.Name) and e.id == s0) or \
                   (isinstance(e, ast.Call) and isinstance(e.func, ast.Name) and e.func.id == 'int'
                    and len(e.args) == 1 and isinstance(e.args[0], ast.Name) and e.args[0].id == s0)

        mask = None
        if is_s(left):
            mask = right
        elif is_s(right):
            mask = left
        if mask is not None:
            used = tr.names(mask)
            for n, v in lets:
                used |= tr.names(v)
            if s0 not in used:
                msig = ' '.join('(v_%s : Z)' % a for a in args[1:])
                out = 'Definition %s_mask %s : Z := %s.\n' % (name, msig, wrap(lets, mask))
                out += 'Definition %s %s : Z := zpopcount (Z.land v_%s (%s_mask %s)).\n' % (
                    name, sig, s0, name, ' '.join('v_' + a for a in args[1:]))
                return name, out, 'mask'
    out = 'Definition %s %s : Z := %s.\n' % (name, sig, wrap(lets, ret))
    return name, out, 'plain'


CMPOPS = {ast.Lt: 'Z.ltb', ast.LtE: 'Z.leb', ast.Gt: 'Z.gtb', ast.GtE: 'Z.geb', ast.Eq: 'Z.eqb'}


class GTr(Tr):
    """expressions of guarded functions: adds abs(), %, comparisons"""

    def expr(self, e):
        if isinstance(e, ast.Call) and isinstance(e.func, ast.Name) and e.func.id == 'abs' \
                and len(e.args) == 1 and not e.keywords:
            return '(Z.abs %s)' % self.expr(e.args[0])
        return super().expr(e)

    def cond(self, t):
        if isinstance(t, ast.Compare) and len(t.ops) == 1 and len(t.comparators) == 1:
            a, b = self.expr(t.left), self.expr(t.comparators[0])
            op = type(t.ops[0])
            if op in CMPOPS:
                return '(%s %s %s)' % (CMPOPS[op], a, b)
            if op is ast.NotEq:
                return '(negb (Z.eqb %s %s))' % (a, b)
        if isinstance(t, ast.BoolOp):
            f = 'orb' if isinstance(t.op, ast.Or) else 'andb'
            parts = [self.cond(v) for v in t.values]
            out = parts[0]
            for q in parts[1:]:
                out = '(%s %s %s)' % (f, out, q)
            return out
        raise Unsupported('condition ' + ast.dump(t)[:100])


def translate_guarded(fdef, prefix='py_'):
    """function whose body is a sequence of `if cond: raise E(...)`, simple assignments and
    a final `return e` / `return e1, e2` -> option-valued Gallina (None = raises)"""
    tr = GTr({})
    args = [a.arg for a in fdef.args.args]
    if fdef.args.vararg or fdef.args.kwarg or fdef.args.kwonlyargs or fdef.args.defaults:
        raise Unsupported('signature')
    body = list(fdef.body)
    if body and isinstance(body[0], ast.Expr) and isinstance(body[0].value, ast.Constant) \
            and isinstance(body[0].value.value, str):
        body = body[1:]
    if not body or not isinstance(body[-1], ast.Return) or body[-1].value is None:
        raise Unsupported('no final return')
    rv = body[-1].value
    if isinstance(rv, ast.Tuple):
        ret = '(' + ', '.join(tr.expr(x) for x in rv.elts) + ')'
        rty = ' * '.join('Z' for _ in rv.elts)
    else:
        ret = tr.expr(rv)
        rty = 'Z'
    s = 'Some %s' % ret
    for st in reversed(body[:-1]):
        if isinstance(st, ast.If) and not st.orelse and len(st.body) == 1 and isinstance(st.body[0], ast.Raise):
            s = 'if %s then None else %s' % (tr.cond(st.test), s)
        elif isinstance(st, ast.Assign) and len(st.targets) == 1 and isinstance(st.targets[0], ast.Name):
            s = 'let v_%s := %s in %s' % (st.targets[0].id, tr.expr(st.value), s)
        else:
            raise Unsupported('statement ' + type(st).__name__)
    name = prefix + fdef.name
    sig = ' '.join('(v_%s : Z)' % a for a in args)
    return name, 'Definition %s %s : option (%s) := %s.\n' % (name, sig, rty, s)


def translate_guarded_module(src, wanted, prefix='py_'):
    tree = ast.parse(src)
    fdefs = {n.name: n for n in tree.body if isinstance(n, ast.FunctionDef)}
    chunks, status = [], {}
    for fn in wanted:
        if fn not in fdefs:
            status[fn] = 'unsupported: function not found'
            continue
        try:
            name, text = translate_guarded(fdefs[fn], prefix)
            chunks.append(text)
            status[fn] = 'guarded'
        except Unsupported as e:
            status[fn] = 'unsupported: %s' % e
    return ''.join(chunks), status


def translate_module(src, wanted, prefix='py_'):
    """Returns (coq_text, status) where status maps function -> 'mask'|'plain'|'unsupported: ...'"""
    tree = ast.parse(src)
    fdefs = {n.name: n for n in tree.body if isinstance(n, ast.FunctionDef)}
    known = {}
    chunks = []
    status = {}
    for fn in wanted:
        if fn not in fdefs:
            status[fn] = 'unsupported: function not found'
            continue
        try:
            name, text, kind = translate_function(fdefs[fn], known, prefix)
            known[fn] = name
            chunks.append(text)
            status[fn] = kind
        except Unsupported as e:
            status[fn] = 'unsupported: %s' % e
    return ''.join(chunks), status


def module_int_constants(src, wanted):
    tree = ast.parse(src)
    out = {}
    for n in tree.body:
        if isinstance(n, ast.Assign) and len(n.targets) == 1 and isinstance(n.targets[0], ast.Name) \
                and n.targets[0].id in wanted and isinstance(n.value, ast.Constant) \
                and isinstance(n.value.value, int) and not isinstance(n.value.value, bool):
            out[n.targets[0].id] = n.value.value
    return out


# ---------------------------------------------------------------------------------------------
# loop nests that fill an integer table:  for x in range(a, b): ... T[i, j] = e
class LTr(GTr):
    """expressions of table-filling loops: adds binom(a, b) and sum(e for m in range(a, b))"""

    def expr(self, e):
        if isinstance(e, ast.Call) and isinstance(e.func, ast.Name) and not e.keywords:
            if e.func.id == 'binom' and len(e.args) == 2:
                return '(binomZ %s %s)' % (self.expr(e.args[0]), self.expr(e.args[1]))
            if e.func.id == 'sum' and len(e.args) == 1 and isinstance(e.args[0], ast.GeneratorExp):
                g = e.args[0]
                if len(g.generators) == 1 and not g.generators[0].ifs and not g.generators[0].is_async \
                        and isinstance(g.generators[0].target, ast.Name):
                    lo, hi = self.range_of(g.generators[0].iter)
                    return '(zsum (fun v_%s => %s) %s %s)' % (g.generators[0].target.id, self.expr(g.elt), lo, hi)
        return super().expr(e)

    def range_of(self, it):
        if isinstance(it, ast.Call) and isinstance(it.func, ast.Name) and it.func.id == 'range' and not it.keywords:
            if len(it.args) == 1:
                return '(0)', self.expr(it.args[0])
            if len(it.args) == 2:
                return self.expr(it.args[0]), self.expr(it.args[1])
        raise Unsupported('loop range ' + ast.dump(it)[:100])

    def stmts(self, ss, table):
        """a statement list -> Gallina list of (row, col, value) assignments, in program order"""
        if not ss:
            return '[]'
        st, rest = ss[0], ss[1:]
        if isinstance(st, ast.For) and isinstance(st.target, ast.Name) and not st.orelse:
            lo, hi = self.range_of(st.iter)
            return '((flat_map (fun v_%s => %s) (zrange %s %s)) ++ %s)' % (
                st.target.id, self.stmts(st.body, table), lo, hi, self.stmts(rest, table))
        if isinstance(st, ast.Assign) and len(st.targets) == 1:
            tg = st.targets[0]
            if isinstance(tg, ast.Name):
                if tg.id == table:
                    raise Unsupported('table rebound')
                return '(let v_%s := %s in %s)' % (tg.id, self.expr(st.value), self.stmts(rest, table))
            if isinstance(tg, ast.Subscript) and isinstance(tg.value, ast.Name) and tg.value.id == table:
                sl = tg.slice
                if isinstance(sl, ast.Tuple) and len(sl.elts) == 2:
                    return '([(%s, %s, %s)] ++ %s)' % (self.expr(sl.elts[0]), self.expr(sl.elts[1]),
                                                        self.expr(st.value), self.stmts(rest, table))
        raise Unsupported('loop statement ' + ast.dump(st)[:120])


def translate_table_loops(src, fname, table, flag, prefix='py_'):
    """The reference-path branch of a function of the shape
           T = numpy.zeros((rows, cols), ...) ; [if T.size == 0: return T] ;
           if <flag> and ...: <accelerated call>  else: <loop nest assigning T[i, j]> ; return T
    -> Definition <prefix><fname>_assigns (args) : list (Z * Z * Z), plus the declared shape."""
    tree = ast.parse(src)
    fdefs = {n.name: n for n in tree.body if isinstance(n, ast.FunctionDef)}
    if fname not in fdefs:
        raise Unsupported('function not found')
    fdef = fdefs[fname]
    args = [a.arg for a in fdef.args.args]
    body = list(fdef.body)
    if body and isinstance(body[0], ast.Expr) and isinstance(body[0].value, ast.Constant) \
            and isinstance(body[0].value.value, str):
        body = body[1:]
    tr = LTr({})
    # T = numpy.zeros((r, c), ...)
    st = body[0]
    if not (isinstance(st, ast.Assign) and len(st.targets) == 1 and isinstance(st.targets[0], ast.Name)
            and st.targets[0].id == table and isinstance(st.value, ast.Call)
            and isinstance(st.value.func, ast.Attribute) and st.value.func.attr == 'zeros'
            and st.value.args and isinstance(st.value.args[0], ast.Tuple) and len(st.value.args[0].elts) == 2):
        raise Unsupported('table allocation')
    shape = [tr.expr(x) for x in st.value.args[0].elts]
    rest = body[1:]
    # optional early return for an empty table
    if rest and isinstance(rest[0], ast.If) and not rest[0].orelse and len(rest[0].body) == 1 \
            and isinstance(rest[0].body[0], ast.Return) and isinstance(rest[0].test, ast.Compare) \
            and isinstance(rest[0].test.left, ast.Attribute) and rest[0].test.left.attr == 'size':
        rest = rest[1:]
    if not (len(rest) == 2 and isinstance(rest[0], ast.If) and isinstance(rest[1], ast.Return)
            and isinstance(rest[1].value, ast.Name) and rest[1].value.id == table):
        raise Unsupported('function shape')
    names = {n.id for n in ast.walk(rest[0].test) if isinstance(n, ast.Name)}
    if flag not in names or not rest[0].orelse:
        raise Unsupported('path switch')
    lst = tr.stmts(rest[0].orelse, table)
    sig = ' '.join('(v_%s : Z)' % a for a in args)
    name = prefix + fname.lstrip('_')
    out = 'Definition %s_rows %s : Z := %s.\n' % (name, sig, shape[0])
    out += 'Definition %s_cols %s : Z := %s.\n' % (name, sig, shape[1])
    out += 'Definition %s_assigns %s : list (Z * Z * Z) :=\n  %s.\n' % (name, sig, lst)
    return out
