"""py2coq.py — fail-closed translator for the integer leaf functions of
fqe/bitstring.py (and similar expression-level code) into Gallina over Z.

Supported: a function whose body is (docstring,) simple assignments `name = expr`
and a final `return expr`; expressions over int constants, names, int(x), the
operators & | ^ ~ << >> + - * // %, unary -, comparisons are NOT supported here,
calls to count_bits and to other translated functions.  Anything else raises
Unsupported (the leaf then falls back to correspondence only).

Mask pattern: `return count_bits(int(s) & E)` with E free of s is emitted as two
definitions, <f>_mask and <f>, so that the equivalence proof can reflect over the
finite index domain of the mask."""
import ast


class Unsupported(Exception):
    pass


BINOPS = {
    ast.BitAnd: 'Z.land', ast.BitOr: 'Z.lor', ast.BitXor: 'Z.lxor',
    ast.LShift: 'Z.shiftl', ast.RShift: 'Z.shiftr',
    ast.Add: 'Z.add', ast.Sub: 'Z.sub', ast.Mult: 'Z.mul',
    ast.FloorDiv: 'Z.div', ast.Mod: 'Z.modulo',
}


class Tr:

    def __init__(self, known):
        self.known = known  # python name -> coq name of translated functions

    def expr(self, e):
        if isinstance(e, ast.Constant) and isinstance(e.value, int) and not isinstance(e.value, bool):
            return '(%d)' % e.value if e.value >= 0 else '(%d)' % e.value
        if isinstance(e, ast.Name):
            return 'v_' + e.id
        if isinstance(e, ast.BinOp) and type(e.op) in BINOPS:
            return '(%s %s %s)' % (BINOPS[type(e.op)], self.expr(e.left), self.expr(e.right))
        if isinstance(e, ast.UnaryOp) and isinstance(e.op, ast.Invert):
            return '(Z.lnot %s)' % self.expr(e.operand)
        if isinstance(e, ast.UnaryOp) and isinstance(e.op, ast.USub):
            return '(Z.opp %s)' % self.expr(e.operand)
        if isinstance(e, ast.Call) and isinstance(e.func, ast.Name) and not e.keywords:
            fn = e.func.id
            if fn == 'int' and len(e.args) == 1:
                return self.expr(e.args[0])
            if fn == 'count_bits' and len(e.args) == 1:
                return '(zpopcount %s)' % self.expr(e.args[0])
            if fn in self.known:
                return '(%s %s)' % (self.known[fn], ' '.join(self.expr(a) for a in e.args))
        raise Unsupported(ast.dump(e)[:120])

    def names(self, e):
        return {n.id for n in ast.walk(e) if isinstance(n, ast.Name)}


def translate_function(fdef, known, prefix='py_'):
    tr = Tr(known)
    args = [a.arg for a in fdef.args.args]
    if fdef.args.vararg or fdef.args.kwarg or fdef.args.kwonlyargs or fdef.args.defaults:
        raise Unsupported('signature')
    body = list(fdef.body)
    if body and isinstance(body[0], ast.Expr) and isinstance(body[0].value, ast.Constant) \
            and isinstance(body[0].value.value, str):
        body = body[1:]
    lets = []
    ret = None
    for st in body:
        if isinstance(st, ast.Assign) and len(st.targets) == 1 and isinstance(st.targets[0], ast.Name):
            lets.append((st.targets[0].id, st.value))
        elif isinstance(st, ast.Return) and st.value is not None and st is body[-1]:
            ret = st.value
        else:
            raise Unsupported('statement ' + type(st).__name__)
    if ret is None:
        raise Unsupported('no return')
    name = prefix + fdef.name
    sig = ' '.join('(v_%s : Z)' % a for a in args)

    def wrap(lets, e):
        s = tr.expr(e)
        for n, v in reversed(lets):
            s = 'let v_%s := %s in %s' % (n, tr.expr(v), s)
        return s

    # mask pattern
    if (isinstance(ret, ast.Call) and isinstance(ret.func, ast.Name) and ret.func.id == 'count_bits'
            and len(ret.args) == 1 and isinstance(ret.args[0], ast.BinOp)
            and isinstance(ret.args[0].op, ast.BitAnd) and args):
        left, right = ret.args[0].left, ret.args[0].right
        s0 = args[0]

        def is_s(e):
            return (isinstance(e, ast.Name) and e.id == s0) or \
                   (isinstance(e, ast.Call) and isinstance(e.func, ast.Name) and e.func.id == 'int'
                    and len(e.args) == 1 and isinstance(e.args[0], ast.Name) and e.args[0].id == s0)

        mask = None
        if is_s(left):
            mask = right
        elif is_s(right):
            mask = left
        if mask is not None:
            used = tr.names(mask)
            for n, v in lets:
                used |= tr.names(v)
            if s0 not in used:
                msig = ' '.join('(v_%s : Z)' % a for a in args[1:])
                out = 'Definition %s_mask %s : Z := %s.\n' % (name, msig, wrap(lets, mask))
                out += 'Definition %s %s : Z := zpopcount (Z.land v_%s (%s_mask %s)).\n' % (
                    name, sig, s0, name, ' '.join('v_' + a for a in args[1:]))
                return name, out, 'mask'
    out = 'Definition %s %s : Z := %s.\n' % (name, sig, wrap(lets, ret))
    return name, out, 'plain'


CMPOPS = {ast.Lt: 'Z.ltb', ast.LtE: 'Z.leb', ast.Gt: 'Z.gtb', ast.GtE: 'Z.geb', ast.Eq: 'Z.eqb'}


class GTr(Tr):
    """expressions of guarded functions: adds abs(), %, comparisons"""

    def expr(self, e):
        if isinstance(e, ast.Call) and isinstance(e.func, ast.Name) and e.func.id == 'abs' \
                and len(e.args) == 1 and not e.keywords:
            return '(Z.abs %s)' % self.expr(e.args[0])
        return super().expr(e)

    def cond(self, t):
        if isinstance(t, ast.Compare) and len(t.ops) == 1 and len(t.comparators) == 1:
            a, b = self.expr(t.left), self.expr(t.comparators[0])
            op = type(t.ops[0])
            if op in CMPOPS:
                return '(%s %s %s)' % (CMPOPS[op], a, b)
            if op is ast.NotEq:
                return '(negb (Z.eqb %s %s))' % (a, b)
        if isinstance(t, ast.BoolOp):
            f = 'orb' if isinstance(t.op, ast.Or) else 'andb'
            parts = [self.cond(v) for v in t.values]
            out = parts[0]
            for q in parts[1:]:
                out = '(%s %s %s)' % (f, out, q)
            return out
        raise Unsupported('condition ' + ast.dump(t)[:100])


def translate_guarded(fdef, prefix='py_'):
    """function whose body is a sequence of `if cond: raise E(...)`, simple assignments and
    a final `return e` / `return e1, e2` -> option-valued Gallina (None = raises)"""
    tr = GTr({})
    args = [a.arg for a in fdef.args.args]
    if fdef.args.vararg or fdef.args.kwarg or fdef.args.kwonlyargs or fdef.args.defaults:
        raise Unsupported('signature')
    body = list(fdef.body)
    if body and isinstance(body[0], ast.Expr) and isinstance(body[0].value, ast.Constant) \
            and isinstance(body[0].value.value, str):
        body = body[1:]
    if not body or not isinstance(body[-1], ast.Return) or body[-1].value is None:
        raise Unsupported('no final return')
    rv = body[-1].value
    if isinstance(rv, ast.Tuple):
        ret = '(' + ', '.join(tr.expr(x) for x in rv.elts) + ')'
        rty = ' * '.join('Z' for _ in rv.elts)
    else:
        ret = tr.expr(rv)
        rty = 'Z'
    s = 'Some %s' % ret
    for st in reversed(body[:-1]):
        if isinstance(st, ast.If) and not st.orelse and len(st.body) == 1 and isinstance(st.body[0], ast.Raise):
            s = 'if %s then None else %s' % (tr.cond(st.test), s)
        elif isinstance(st, ast.Assign) and len(st.targets) == 1 and isinstance(st.targets[0], ast.Name):
            s = 'let v_%s := %s in %s' % (st.targets[0].id, tr.expr(st.value), s)
        else:
            raise Unsupported('statement ' + type(st).__name__)
    name = prefix + fdef.name
    sig = ' '.join('(v_%s : Z)' % a for a in args)
    return name, 'Definition %s %s : option (%s) := %s.\n' % (name, sig, rty, s)


def translate_guarded_module(src, wanted, prefix='py_'):
    tree = ast.parse(src)
    fdefs = {n.name: n for n in tree.body if isinstance(n, ast.FunctionDef)}
    chunks, status = [], {}
    for fn in wanted:
        if fn not in fdefs:
            status[fn] = 'unsupported: function not found'
            continue
        try:
            name, text = translate_guarded(fdefs[fn], prefix)
            chunks.append(text)
            status[fn] = 'guarded'
        except Unsupported as e:
            status[fn] = 'unsupported: %s' % e
    return ''.join(chunks), status


def translate_module(src, wanted, prefix='py_'):
    """Returns (coq_text, status) where status maps function -> 'mask'|'plain'|'unsupported: ...'"""
    tree = ast.parse(src)
    fdefs = {n.name: n for n in tree.body if isinstance(n, ast.FunctionDef)}
    known = {}
    chunks = []
    status = {}
    for fn in wanted:
        if fn not in fdefs:
            status[fn] = 'unsupported: function not found'
            continue
        try:
            name, text, kind = translate_function(fdefs[fn], known, prefix)
            known[fn] = name
            chunks.append(text)
            status[fn] = kind
        except Unsupported as e:
            status[fn] = 'unsupported: %s' % e
    return ''.join(chunks), status


def module_int_constants(src, wanted):
    tree = ast.parse(src)
    out = {}
    for n in tree.body:
        if isinstance(n, ast.Assign) and len(n.targets) == 1 and isinstance(n.targets[0], ast.Name) \
                and n.targets[0].id in wanted and isinstance(n.value, ast.Constant) \
                and isinstance(n.value.value, int) and not isinstance(n.value.value, bool):
            out[n.targets[0].id] = n.value.value
    return out
