"""py2coq.py — fail-closed translator for the integer leaf functions of
fqe/bitstring.py (and similar expression-level code) into Gallina over Z.

Supported: a function whose body is (docstring,) simple assignments `name = expr`
and a final `return expr`; expressions over int constants, names, int(x), the
operators & | ^ ~ << >> + - * // %, unary -, comparisons are NOT supported here,
calls to count_bits and to other translated functions.  Anything else raises
Unsupported (the leaf then falls back to correspondence only).

Mask pattern: `return count_bits(int(s) & E)` with E free of s is emitted as two
definitions, <f>_mask and <f>, so that the equivalence proof can reflect over the
finite index domain of the mask."""
import ast


class Unsupported(Exception):
    pass


BINOPS = {
    ast.BitAnd: 'Z.land', ast.BitOr: 'Z.lor', ast.BitXor: 'Z.lxor',
    ast.LShift: 'Z.shiftl', ast.RShift: 'Z.shiftr',
    ast.Add: 'Z.add', ast.Sub: 'Z.sub', ast.Mult: 'Z.mul',
    ast.FloorDiv: 'Z.div', ast.Mod: 'Z.modulo',
}


class Tr:

    def __init__(self, known):
        self.known = known  # python name -> coq name of translated functions

    def expr(self, e):
        if isinstance(e, ast.Constant) and isinstance(e.value, int) and not isinstance(e.value, bool):
            return '(%d)' % e.value if e.value >= 0 else '(%d)' % e.value
        if isinstance(e, ast.Name):
            return 'v_' + e.id
        if isinstance(e, ast.BinOp) and type(e.op) in BINOPS:
            return '(%s %s %s)' % (BINOPS[type(e.op)], self.expr(e.left), self.expr(e.right))
        if isinstance(e, ast.UnaryOp) and isinstance(e.op, ast.Invert):
            return '(Z.lnot %s)' % self.expr(e.operand)
        if isinstance(e, ast.UnaryOp) and isinstance(e.op, ast.USub):
            return '(Z.opp %s)' % self.expr(e.operand)
        if isinstance(e, ast.Call) and isinstance(e.func, ast.Name) and not e.keywords:
            fn = e.func.id
            if fn == 'int' and len(e.args) == 1:
                return self.expr(e.args[0])
            if fn == 'count_bits' and len(e.args) == 1:
                return '(zpopcount %s)' % self.expr(e.args[0])
            if fn in self.known:
                return '(%s %s)' % (self.known[fn], ' '.join(self.expr(a) for a in e.args))
        raise Unsupported(ast.dump(e)[:120])

    def names(self, e):
        return {n.id for n in ast.walk(e) if isinstance(n, ast.Name)}


def translate_function(fdef, known, prefix='py_'):
    tr = Tr(known)
    args = [a.arg for a in fdef.args.args]
    if fdef.args.vararg or fdef.args.kwarg or fdef.args.kwonlyargs or fdef.args.defaults:
        raise Unsupported('signature')
    body = list(fdef.body)
    if body and isinstance(body[0], ast.Expr) and isinstance(body[0].value, ast.Constant) \
            and isinstance(body[0].value.value, str):
        body = body[1:]
    lets = []
    ret = None
    for st in body:
        if isinstance(st, ast.Assign) and len(st.targets) == 1 and isinstance(st.targets[0], ast.Name):
            lets.append((st.targets[0].id, st.value))
        elif isinstance(st, ast.Return) and st.value is not None and st is body[-1]:
            ret = st.value
        else:
            raise Unsupported('statement ' + type(st).__name__)
    if ret is None:
        raise Unsupported('no return')
    name = prefix + fdef.name
    sig = ' '.join('(v_%s : Z)' % a for a in args)

    def wrap(lets, e):
        s = tr.expr(e)
        for n, v in reversed(lets):
            s = 'let v_%s := %s in %s' % (n, tr.expr(v), s)
        return s

    # mask pattern
    if (isinstance(ret, ast.Call) and isinstance(ret.func, ast.Name) and ret.func.id == 'count_bits'
            and len(ret.args) == 1 and isinstance(ret.args[0], ast.BinOp)
            and isinstance(ret.args[0].op, ast.BitAnd) and args):
        left, right = ret.args[0].left, ret.args[0].right
        s0 = args[0]

        def is_s(e):
            return (isinstance(e, ast.Name) and e.id == s0) or \
                   (isinstance(e, ast.Call) and isinstance(e.func, ast.Name) and e.func.id == 'int'
                    and len(e.args) == 1 and isinstance(e.args[0], ast.Name) and e.args[0].id == s0)

        mask = None
        if is_s(left):
            mask = right
        elif is_s(right):
            mask = left
        if mask is not None:
            used = tr.names(mask)
            for n, v in lets:
                used |= tr.names(v)
            if s0 not in used:
                msig = ' '.join('(v_%s : Z)' % a for a in args[1:])
                out = 'Definition %s_mask %s : Z := %s.\n' % (name, msig, wrap(lets, mask))
                out += 'Definition %s %s : Z := zpopcount (Z.land v_%s (%s_mask %s)).\n' % (
                    name, sig, s0, name, ' '.join('v_' + a for a in args[1:]))
                return name, out, 'mask'
    out = 'Definition %s %s : Z := %s.\n' % (name, sig, wrap(lets, ret))
    return name, out, 'plain'


CMPOPS = {ast.Lt: 'Z.ltb', ast.LtE: 'Z.leb', ast.Gt: 'Z.gtb', ast.GtE: 'Z.geb', ast.Eq: 'Z.eqb'}


class GTr(Tr):
    """expressions of guarded functions: adds abs(), %, comparisons"""

    def expr(self, e):
        if isinstance(e, ast.Call) and isinstance(e.func, ast.Name) and e.func.id == 'abs' \
                and len(e.args) == 1 and not e.keywords:
            return '(Z.abs %s)' % self.expr(e.args[0])
        return super().expr(e)

    def cond(self, t):
        if isinstance(t, ast.Compare) and len(t.ops) == 1 and len(t.comparators) == 1:
            a, b = self.expr(t.left), self.expr(t.comparators[0])
            op = type(t.ops[0])
            if op in CMPOPS:
                return '(%s %s %s)' % (CMPOPS[op], a, b)
            if op is ast.NotEq:
                return '(negb (Z.eqb %s %s))' % (a, b)
        if isinstance(t, ast.BoolOp):
            f = 'orb' if isinstance(t.op, ast.Or) else 'andb'
            parts = [self.cond(v) for v in t.values]
            out = parts[0]
            for q in parts[1:]:
                out = '(%s %s %s)' % (f, out, q)
            return out
        raise Unsupported('condition ' + ast.dump(t)[:100])


def translate_guarded(fdef, prefix='py_'):
    """function whose body is a sequence of `if cond: raise E(...)`, simple assignments and
    a final `return e` / `return e1, e2` -> option-valued Gallina (None = raises)"""
    tr = GTr({})
    args = [a.arg for a in fdef.args.args]
    if fdef.args.vararg or fdef.args.kwarg or fdef.args.kwonlyargs or fdef.args.defaults:
        raise Unsupported('signature')
    body = list(fdef.body)
    if body and isinstance(body[0], ast.Expr) and isinstance(body[0].value, ast.Constant) \
            and isinstance(body[0].value.value, str):
        body = body[1:]
    if not body or not isinstance(body[-1], ast.Return) or body[-1].value is None:
        raise Unsupported('no final return')
    rv = body[-1].value
    if isinstance(rv, ast.Tuple):
        ret = '(' + ', '.join(tr.expr(x) for x in rv.elts) + ')'
        rty = ' * '.join('Z' for _ in rv.elts)
    else:
        ret = tr.expr(rv)
        rty = 'Z'
    s = 'Some %s' % ret
    for st in reversed(body[:-1]):
        if isinstance(st, ast.If) and not st.orelse and len(st.body) == 1 and isinstance(st.body[0], ast.Raise):
            s = 'if %s then None else %s' % (tr.cond(st.test), s)
        elif isinstance(st, ast.Assign) and len(st.targets) == 1 and isinstance(st.targets[0], ast.Name):
            s = 'let v_%s := %s in %s' % (st.targets[0].id, tr.expr(st.value), s)
        else:
            raise Unsupported('statement ' + type(st).__name__)
    name = prefix + fdef.name
    sig = ' '.join('(v_%s : Z)' % a for a in args)
    return name, 'Definition %s %s : option (%s) := %s.\n' % (name, sig, rty, s)


def translate_guarded_module(src, wanted, prefix='py_'):
    tree = ast.parse(src)
    fdefs = {n.name: n for n in tree.body if isinstance(n, ast.FunctionDef)}
    chunks, status = [], {}
    for fn in wanted:
        if fn not in fdefs:
            status[fn] = 'unsupported: function not found'
            continue
        try:
            name, text = translate_guarded(fdefs[fn], prefix)
            chunks.append(text)
            status[fn] = 'guarded'
        except Unsupported as e:
            status[fn] = 'unsupported: %s' % e
    return ''.join(chunks), status


def translate_module(src, wanted, prefix='py_'):
    """Returns (coq_text, status) where status maps function -> 'mask'|'plain'|'unsupported: ...'"""
    tree = ast.parse(src)
    fdefs = {n.name: n for n in tree.body if isinstance(n, ast.FunctionDef)}
    known = {}
    chunks = []
    status = {}
    for fn in wanted:
        if fn not in fdefs:
            status[fn] = 'unsupported: function not found'
            continue
        try:
            name, text, kind = translate_function(fdefs[fn], known, prefix)
            known[fn] = name
            chunks.append(text)
            status[fn] = kind
        except Unsupported as e:
            status[fn] = 'unsupported: %s' % e
    return ''.join(chunks), status


def module_int_constants(src, wanted):
    tree = ast.parse(src)
    out = {}
    for n in tree.body:
        if isinstance(n, ast.Assign) and len(n.targets) == 1 and isinstance(n.targets[0], ast.Name) \
                and n.targets[0].id in wanted and isinstance(n.value, ast.Constant) \
                and isinstance(n.value.value, int) and not isinstance(n.value.value, bool):
            out[n.targets[0].id] = n.value.value
    return out


# ---------------------------------------------------------------------------------------------
# loop nests that fill an integer table:  for x in range(a, b): ... T[i, j] = e
class LTr(GTr):
    """expressions of table-filling loops: adds binom(a, b) and sum(e for m in range(a, b))"""

    def expr(self, e):
        if isinstance(e, ast.Call) and isinstance(e.func, ast.Name) and not e.keywords:
            if e.func.id == 'binom' and len(e.args) == 2:
                return '(binomZ %s %s)' % (self.expr(e.args[0]), self.expr(e.args[1]))
            if e.func.id == 'sum' and len(e.args) == 1 and isinstance(e.args[0], ast.GeneratorExp):
                g = e.args[0]
                if len(g.generators) == 1 and not g.generators[0].ifs and not g.generators[0].is_async \
                        and isinstance(g.generators[0].target, ast.Name):
                    lo, hi = self.range_of(g.generators[0].iter)
                    return '(zsum (fun v_%s => %s) %s %s)' % (g.generators[0].target.id, self.expr(g.elt), lo, hi)
        return super().expr(e)

    def range_of(self, it):
        if isinstance(it, ast.Call) and isinstance(it.func, ast.Name) and it.func.id == 'range' and not it.keywords:
            if len(it.args) == 1:
                return '(0)', self.expr(it.args[0])
            if len(it.args) == 2:
                return self.expr(it.args[0]), self.expr(it.args[1])
        raise Unsupported('loop range ' + ast.dump(it)[:100])

    def stmts(self, ss, table):
        """a statement list -> Gallina list of (row, col, value) assignments, in program order"""
        if not ss:
            return '[]'
        st, rest = ss[0], ss[1:]
        if isinstance(st, ast.For) and isinstance(st.target, ast.Name) and not st.orelse:
            lo, hi = self.range_of(st.iter)
            return '((flat_map (fun v_%s => %s) (zrange %s %s)) ++ %s)' % (
                st.target.id, self.stmts(st.body, table), lo, hi, self.stmts(rest, table))
        if isinstance(st, ast.Assign) and len(st.targets) == 1:
            tg = st.targets[0]
            if isinstance(tg, ast.Name):
                if tg.id == table:
                    raise Unsupported('table rebound')
                return '(let v_%s := %s in %s)' % (tg.id, self.expr(st.value), self.stmts(rest, table))
            if isinstance(tg, ast.Subscript) and isinstance(tg.value, ast.Name) and tg.value.id == table:
                sl = tg.slice
                if isinstance(sl, ast.Tuple) and len(sl.elts) == 2:
                    return '([(%s, %s, %s)] ++ %s)' % (self.expr(sl.elts[0]), self.expr(sl.elts[1]),
                                                        self.expr(st.value), self.stmts(rest, table))
        raise Unsupported('loop statement ' + ast.dump(st)[:120])


def translate_table_loops(src, fname, table, flag, prefix='py_'):
    """The reference-path branch of a function of the shape
           T = numpy.zeros((rows, cols), ...) ; [if T.size == 0: return T] ;
           if <flag> and ...: <accelerated call>  else: <loop nest assigning T[i, j]> ; return T
    -> Definition <prefix><fname>_assigns (args) : list (Z * Z * Z), plus the declared shape."""
    tree = ast.parse(src)
    fdefs = {n.name: n for n in tree.body if isinstance(n, ast.FunctionDef)}
    if fname not in fdefs:
        raise Unsupported('function not found')
    fdef = fdefs[fname]
    args = [a.arg for a in fdef.args.args]
    body = list(fdef.body)
    if body and isinstance(body[0], ast.Expr) and isinstance(body[0].value, ast.Constant) \
            and isinstance(body[0].value.value, str):
        body = body[1:]
    tr = LTr({})
    # T = numpy.zeros((r, c), ...)
    st = body[0]
    if not (isinstance(st, ast.Assign) and len(st.targets) == 1 and isinstance(st.targets[0], ast.Name)
            and st.targets[0].id == table and isinstance(st.value, ast.Call)
            and isinstance(st.value.func, ast.Attribute) and st.value.func.attr == 'zeros'
            and st.value.args and isinstance(st.value.args[0], ast.Tuple) and len(st.value.args[0].elts) == 2):
        raise Unsupported('table allocation')
    shape = [tr.expr(x) for x in st.value.args[0].elts]
    rest = body[1:]
    # optional early return for an empty table
    if rest and isinstance(rest[0], ast.If) and not rest[0].orelse and len(rest[0].body) == 1 \
            and isinstance(rest[0].body[0], ast.Return) and isinstance(rest[0].test, ast.Compare) \
            and isinstance(rest[0].test.left, ast.Attribute) and rest[0].test.left.attr == 'size':
        rest = rest[1:]
    if not (len(rest) == 2 and isinstance(rest[0], ast.If) and isinstance(rest[1], ast.Return)
            and isinstance(rest[1].value, ast.Name) and rest[1].value.id == table):
        raise Unsupported('function shape')
    names = {n.id for n in ast.walk(rest[0].test) if isinstance(n, ast.Name)}
    if flag not in names or not rest[0].orelse:
        raise Unsupported('path switch')
    lst = tr.stmts(rest[0].orelse, table)
    sig = ' '.join('(v_%s : Z)' % a for a in args)
    name = prefix + fname.lstrip('_')
    out = 'Definition %s_rows %s : Z := %s.\n' % (name, sig, shape[0])
    out += 'Definition %s_cols %s : Z := %s.\n' % (name, sig, shape[1])
    out += 'Definition %s_assigns %s : list (Z * Z * Z) :=\n  %s.\n' % (name, sig, lst)
    return out


# ---------------------------------------------------------------------------------------------
# swap-counting exchange sorts:  for i in range(n): for j in range(a, b): if K(x[j]) REL K(x[j+1]): exchange; count += 1
def _is_name(e, n):
    return isinstance(e, ast.Name) and e.id == n


def translate_swap_sort(src, fname, prefix='py_'):
    """-> Gallina text describing the loop nest of a swap-counting sort: pass count, positions visited by a pass
    (functions of the length, over nat), comparison relation and key, whether a pass without exchange ends the sort."""
    tree = ast.parse(src)
    fdefs = {n.name: n for n in tree.body if isinstance(n, ast.FunctionDef)}
    if fname not in fdefs:
        raise Unsupported('function not found')
    fdef = fdefs[fname]
    if len(fdef.args.args) != 1:
        raise Unsupported('signature')
    arr = fdef.args.args[0].arg
    body = list(fdef.body)
    if body and isinstance(body[0], ast.Expr) and isinstance(body[0].value, ast.Constant):
        body = body[1:]
    work, key0, lenv, cnt = arr, None, None, None
    k = 0
    # prologue: larr = len(arr) ; [parr = [[i[0] % 2, i] for i in arr]] ; swap_count = 0
    while k < len(body) and isinstance(body[k], ast.Assign) and len(body[k].targets) == 1 \
            and isinstance(body[k].targets[0], ast.Name):
        tg, v = body[k].targets[0].id, body[k].value
        if isinstance(v, ast.Call) and _is_name(v.func, 'len') and len(v.args) == 1 and _is_name(v.args[0], arr):
            lenv = tg
        elif isinstance(v, ast.Constant) and v.value == 0:
            cnt = tg
        elif isinstance(v, ast.ListComp) and len(v.generators) == 1 and _is_name(v.generators[0].iter, arr) \
                and isinstance(v.elt, ast.List) and len(v.elt.elts) == 2 \
                and ast.unparse(v.elt.elts[0]) == '%s[0] %% 2' % v.generators[0].target.id \
                and _is_name(v.elt.elts[1], v.generators[0].target.id):
            work, key0 = tg, 'KParityOfFirst'        # decorated copy [[x[0] % 2, x] for x in arr]
        else:
            raise Unsupported('prologue ' + ast.unparse(body[k])[:60])
        k += 1
    if lenv is None or cnt is None or k >= len(body) or not isinstance(body[k], ast.For):
        raise Unsupported('prologue shape')
    outer = body[k]
    tail = body[k + 1:]
    if not (isinstance(outer.target, ast.Name) and isinstance(outer.iter, ast.Call) and _is_name(outer.iter.func, 'range')
            and len(outer.iter.args) == 1 and _is_name(outer.iter.args[0], lenv) and not outer.orelse):
        raise Unsupported('outer loop')
    iv = outer.target.id
    ob = list(outer.body)
    # swapped = False ; for j ... ; if not swapped: break
    if not (len(ob) == 3 and isinstance(ob[0], ast.Assign) and isinstance(ob[0].value, ast.Constant) and ob[0].value.value is False
            and isinstance(ob[1], ast.For) and isinstance(ob[2], ast.If)):
        raise Unsupported('outer body')
    flag = ob[0].targets[0].id
    brk = ob[2]
    if not (isinstance(brk.test, ast.UnaryOp) and isinstance(brk.test.op, ast.Not) and _is_name(brk.test.operand, flag)
            and len(brk.body) == 1 and isinstance(brk.body[0], ast.Break) and not brk.orelse):
        raise Unsupported('early exit')
    inner = ob[1]
    if not (isinstance(inner.target, ast.Name) and isinstance(inner.iter, ast.Call) and _is_name(inner.iter.func, 'range')
            and len(inner.iter.args) == 2 and not inner.orelse):
        raise Unsupported('inner loop')
    jv = inner.target.id

    def nat_expr(e):
        if isinstance(e, ast.Constant) and isinstance(e.value, int) and e.value >= 0:
            return '%d' % e.value
        if _is_name(e, lenv):
            return 'v_larr'
        if _is_name(e, iv):
            return 'v_i'
        if isinstance(e, ast.BinOp) and isinstance(e.op, (ast.Add, ast.Sub)):
            return '(%s %s %s)' % (nat_expr(e.left), '+' if isinstance(e.op, ast.Add) else '-', nat_expr(e.right))
        raise Unsupported('bound ' + ast.unparse(e))
    # Python's integer bounds may go negative (an empty range); truncated subtraction on nat gives the same range
    # as long as every subtraction only subtracts from a sum that starts with the length: checked by shape
    lo, hi = nat_expr(inner.iter.args[0]), nat_expr(inner.iter.args[1])
    ib = list(inner.body)
    if not (len(ib) == 1 and isinstance(ib[0], ast.If) and not ib[0].orelse and isinstance(ib[0].test, ast.Compare)
            and len(ib[0].test.ops) == 1):
        raise Unsupported('inner body')
    test = ib[0].test
    want_l = {'%s[%s][0]' % (work, jv): 'KFirst', '%s[%s]' % (work, jv): 'KSelf'}
    ltxt, rtxt = ast.unparse(test.left), ast.unparse(test.comparators[0])
    if ltxt not in want_l or rtxt != ltxt.replace('[%s]' % jv, '[%s + 1]' % jv, 1):
        raise Unsupported('comparison ' + ast.unparse(test))
    key = want_l[ltxt]
    if key0:
        if key != 'KFirst':
            raise Unsupported('decorated comparison')
        key = key0
    rel = {ast.Gt: 'RGt', ast.Lt: 'RLt'}.get(type(test.ops[0]))
    if rel is None:
        raise Unsupported('relation')
    acts = [ast.unparse(x) for x in ib[0].body]
    swap = '%s[%s], %s[%s + 1] = (%s[%s + 1], %s[%s])' % ((work, jv) * 4)
    if sorted(acts) != sorted([swap, '%s = True' % flag, '%s += 1' % cnt]):
        raise Unsupported('exchange body ' + '; '.join(acts)[:100])
    # epilogue: [copy the decorated list back] ; return count[, arr]
    if tail and isinstance(tail[0], ast.For):
        if not key0 or ast.unparse(tail[0]).replace('\n', ' ').split() != \
                ('for indx, val in enumerate(%s): %s[indx] = list(val[1])' % (work, arr)).split():
            raise Unsupported('copy back')
        tail = tail[1:]
    if not (len(tail) == 1 and isinstance(tail[0], ast.Return)):
        raise Unsupported('epilogue')
    rv = tail[0].value
    if not (_is_name(rv, cnt) or (isinstance(rv, ast.Tuple) and _is_name(rv.elts[0], cnt))):
        raise Unsupported('return value')
    name = prefix + fname
    out = 'Definition %s_npasses (v_larr : nat) : nat := v_larr.\n' % name
    out += 'Definition %s_pass (v_larr v_i : nat) : list nat := seq %s (%s - %s).\n' % (name, lo, hi, lo)
    out += 'Definition %s_rel : sort_rel := %s.\n' % (name, rel)
    out += 'Definition %s_key : sort_key := %s.\n' % (name, key)
    return out


# ---------------------------------------------------------------------------------------------
# constructors that build a parameter list:  guards ; assignments ; param = [] ; for ...: param.append([a, b, c]) ;
# return Wavefunction(param, broken=[...])
class PTr(GTr):
    def expr(self, e):
        if isinstance(e, ast.Call) and isinstance(e.func, ast.Name) and e.func.id in ('min', 'max') and len(e.args) == 2 \
                and not e.keywords:
            return '(Z.%s %s %s)' % (e.func.id, self.expr(e.args[0]), self.expr(e.args[1]))
        return super().expr(e)


def translate_param_ctor(src, fname, prefix='py_'):
    tree = ast.parse(src)
    fdefs = {n.name: n for n in tree.body if isinstance(n, ast.FunctionDef)}
    if fname not in fdefs:
        raise Unsupported('function not found')
    fdef = fdefs[fname]
    args = [a.arg for a in fdef.args.args]
    if fdef.args.vararg or fdef.args.kwarg or fdef.args.kwonlyargs or fdef.args.defaults:
        raise Unsupported('signature')
    body = list(fdef.body)
    if body and isinstance(body[0], ast.Expr) and isinstance(body[0].value, ast.Constant):
        body = body[1:]
    tr = PTr({})
    bound = set(args)
    late = []            # variables first assigned under an `if` without else: pre-bound to 0 (never read unbound if the
    text = ''            # conditions are exhaustive; the equivalence theorem does not depend on the default)
    plist = None
    k = 0
    while k < len(body):
        st = body[k]
        if isinstance(st, ast.If) and not st.orelse and len(st.body) == 1 and isinstance(st.body[0], ast.Raise):
            text += 'if %s then None else ' % tr.cond(st.test)
        elif isinstance(st, ast.If) and not st.orelse and all(
                isinstance(x, ast.Assign) and len(x.targets) == 1 and isinstance(x.targets[0], ast.Name) for x in st.body):
            c = tr.cond(st.test)
            for x in st.body:
                v = x.targets[0].id
                if v not in bound:
                    late.append(v)
                    bound.add(v)
                text += 'let v_%s := (if %s then %s else v_%s) in ' % (v, c, tr.expr(x.value), v)
        elif isinstance(st, ast.Assign) and len(st.targets) == 1 and isinstance(st.targets[0], ast.Name):
            v = st.targets[0].id
            if isinstance(st.value, ast.List) and not st.value.elts:
                if plist is not None:
                    raise Unsupported('two lists')
                plist = v
            else:
                text += 'let v_%s := %s in ' % (v, tr.expr(st.value))
                bound.add(v)
        elif isinstance(st, ast.For):
            break
        else:
            raise Unsupported('statement ' + ast.unparse(st)[:60])
        k += 1
    if plist is None or k != len(body) - 2 or not isinstance(body[k], ast.For) or not isinstance(body[k + 1], ast.Return):
        raise Unsupported('shape: one list, one loop, return')
    loop, ret = body[k], body[k + 1]
    if not (isinstance(loop.target, ast.Name) and isinstance(loop.iter, ast.Call) and isinstance(loop.iter.func, ast.Name)
            and loop.iter.func.id == 'range' and len(loop.iter.args) == 2 and not loop.orelse):
        raise Unsupported('loop header')
    lo, hi = tr.expr(loop.iter.args[0]), tr.expr(loop.iter.args[1])
    inner = ''
    item = None
    for x in loop.body:
        if isinstance(x, ast.Assign) and len(x.targets) == 1 and isinstance(x.targets[0], ast.Name):
            inner += 'let v_%s := %s in ' % (x.targets[0].id, tr.expr(x.value))
        elif isinstance(x, ast.Expr) and isinstance(x.value, ast.Call) and isinstance(x.value.func, ast.Attribute) \
                and x.value.func.attr == 'append' and isinstance(x.value.func.value, ast.Name) and x.value.func.value.id == plist \
                and len(x.value.args) == 1 and isinstance(x.value.args[0], ast.List) and len(x.value.args[0].elts) == 3 and item is None:
            item = '(%s, %s, %s)' % tuple(tr.expr(e) for e in x.value.args[0].elts)
        else:
            raise Unsupported('loop body ' + ast.unparse(x)[:60])
    if item is None:
        raise Unsupported('no append')
    rv = ret.value
    if not (isinstance(rv, ast.Call) and len(rv.args) == 1 and isinstance(rv.args[0], ast.Name) and rv.args[0].id == plist
            and ast.unparse(rv.func).endswith('Wavefunction') and len(rv.keywords) == 1 and rv.keywords[0].arg == 'broken'
            and isinstance(rv.keywords[0].value, ast.List) and len(rv.keywords[0].value.elts) == 1
            and isinstance(rv.keywords[0].value.elts[0], ast.Constant)):
        raise Unsupported('return')
    broken = rv.keywords[0].value.elts[0].value
    pre = ''.join('let v_%s := 0 in ' % v for v in late)
    sig = ' '.join('(v_%s : Z)' % a for a in args)
    name = prefix + fname
    out = 'Definition %s_params %s : option (list (Z * Z * Z)) :=\n  %s%sSome (flat_map (fun v_%s => %s[%s]) (zrange %s %s)).\n' % (
        name, sig, pre, text, loop.target.id, inner, item, lo, hi)
    out += 'Definition %s_broken_spin : bool := %s.\n' % (name, 'true' if broken == 'spin' else 'false')
    out += 'Definition %s_broken_number : bool := %s.\n' % (name, 'true' if broken == 'number' else 'false')
    return out


# ---------------------------------------------------------------------------------------------
# address of a string:  T = get_table(a, b) ; return sum(T[i, occupation[i]] for i in range(n))
def translate_table_sum(src, cls, fname, getter, prefix='py_'):
    tree = ast.parse(src)
    fdef = None
    for n in tree.body:
        if isinstance(n, ast.ClassDef) and n.name == cls:
            for m in n.body:
                if isinstance(m, ast.FunctionDef) and m.name == fname:
                    fdef = m
    if fdef is None:
        raise Unsupported('method not found')
    args = [a.arg for a in fdef.args.args]
    if args[:1] != ['self'] or len(args) != 4:
        raise Unsupported('signature')
    body = list(fdef.body)
    if body and isinstance(body[0], ast.Expr) and isinstance(body[0].value, ast.Constant):
        body = body[1:]
    if len(body) != 2 or not isinstance(body[0], ast.Assign) or not isinstance(body[1], ast.Return):
        raise Unsupported('body shape')
    tr = GTr({})
    a0 = body[0]
    if not (len(a0.targets) == 1 and isinstance(a0.targets[0], ast.Name) and isinstance(a0.value, ast.Call)
            and isinstance(a0.value.func, ast.Name) and a0.value.func.id == getter and len(a0.value.args) == 2
            and not a0.value.keywords):
        raise Unsupported('table assignment')
    tab = a0.targets[0].id
    targs = [tr.expr(x) for x in a0.value.args]
    rv = body[1].value
    if not (isinstance(rv, ast.Call) and isinstance(rv.func, ast.Name) and rv.func.id == 'sum' and len(rv.args) == 1
            and isinstance(rv.args[0], ast.GeneratorExp) and len(rv.args[0].generators) == 1):
        raise Unsupported('return')
    g = rv.args[0]
    gen = g.generators[0]
    if gen.ifs or not isinstance(gen.target, ast.Name) or not (isinstance(gen.iter, ast.Call) and isinstance(gen.iter.func, ast.Name)
                                                                and gen.iter.func.id == 'range' and len(gen.iter.args) == 1):
        raise Unsupported('generator')
    iv = gen.target.id
    occ = args[3]
    want = '%s[%s, %s[%s]]' % (tab, iv, occ, iv)
    if ast.unparse(g.elt) != want:
        raise Unsupported('summand %s' % ast.unparse(g.elt))
    hi = tr.expr(gen.iter.args[0])
    sig = ' '.join('(v_%s : Z)' % a for a in args[1:3])
    name = prefix + fname.lstrip('_')
    return ('Definition %s (getZ : Z -> Z -> Z -> Z -> Z) %s (v_%s : Z -> Z) : Z :=\n'
            '  let v_%s := getZ %s %s in zsum (fun v_%s => v_%s v_%s (v_%s v_%s)) (0) %s.\n'
            % (name, sig, occ, tab, targs[0], targs[1], iv, tab, iv, occ, iv, hi))


# ---------------------------------------------------------------------------------------------
# the stopping rule of a polynomial propagator:  for order in range(lo, limit): ... accumulate ... test ... break  else: raise
def translate_propagator_loops(src, cls, fname, prefix='py_'):
    """the for/else loops of <cls>.<fname> (one per `algo` branch) -> records of LoopSkel.v:
    first order, break rule (first small term / two consecutive small terms), whether the term is accumulated before
    the test, whether the comparison is strict, whether exhausting the range raises"""
    tree = ast.parse(src)
    fdef = None
    for n in tree.body:
        if isinstance(n, ast.ClassDef) and n.name == cls:
            for m in n.body:
                if isinstance(m, ast.FunctionDef) and m.name == fname:
                    fdef = m
    if fdef is None:
        raise Unsupported('method not found')
    loops = {}
    for node in ast.walk(fdef):
        if isinstance(node, ast.If) and isinstance(node.test, ast.Compare) and isinstance(node.test.left, ast.Name) \
                and node.test.left.id == 'algo' and len(node.test.comparators) == 1 \
                and isinstance(node.test.comparators[0], ast.Constant) and isinstance(node.test.ops[0], ast.Eq):
            algo = node.test.comparators[0].value
            fors = [st for st in node.body if isinstance(st, ast.For)]
            if len(fors) != 1:
                continue
            loop = fors[0]
            pre = node.body[:node.body.index(loop)]
            loops[algo] = (loop, pre)
    out = ''
    status = {}
    for algo in ('taylor', 'chebyshev'):
        if algo not in loops:
            raise Unsupported('no loop for ' + algo)
        loop, pre = loops[algo]
        if not (isinstance(loop.target, ast.Name) and isinstance(loop.iter, ast.Call) and isinstance(loop.iter.func, ast.Name)
                and loop.iter.func.id == 'range' and len(loop.iter.args) == 2 and isinstance(loop.iter.args[0], ast.Constant)
                and isinstance(loop.iter.args[1], ast.Name)):
            raise Unsupported('loop header of ' + algo)
        lo = loop.iter.args[0].value
        limit_name = loop.iter.args[1].id
        if limit_name not in ('max_expansion', 'expansion'):
            raise Unsupported('loop limit ' + limit_name)
        raises = len(loop.orelse) == 1 and isinstance(loop.orelse[0], ast.Raise)
        body = loop.body
        texts = [ast.unparse(st) for st in body]
        # where is the accumulation, where the test
        acc_ix = [k for k, t in enumerate(texts) if t.startswith('time_evol.ax_plus_y(coeff,')]
        if len(acc_ix) != 1:
            raise Unsupported('accumulation in ' + algo)
        acc_arg = texts[acc_ix[0]][len('time_evol.ax_plus_y(coeff,'):].strip(' )')
        test_re = None
        rule = None
        test_ix = None
        for k, st in enumerate(body):
            cmp_ = None
            if isinstance(st, ast.If) and isinstance(st.test, ast.Compare) and len(st.body) == 1 and isinstance(st.body[0], ast.Break) \
                    and not st.orelse:
                cmp_, rule, test_ix = st.test, 'BreakOnSmall', k
            elif isinstance(st, ast.Assign) and isinstance(st.value, ast.Compare) and len(st.targets) == 1 \
                    and isinstance(st.targets[0], ast.Name):
                # small = TEST ; if small and previous_small: break ; previous_small = small   (previous_small = False before)
                v = st.targets[0].id
                if k + 2 < len(body) and ast.unparse(body[k + 1]) == 'if %s and previous_%s:\n    break' % (v, v) \
                        and ast.unparse(body[k + 2]) == 'previous_%s = %s' % (v, v) \
                        and any(ast.unparse(p) == 'previous_%s = False' % v for p in pre) and k + 3 == len(body):
                    cmp_, rule, test_ix = st.value, 'BreakOnTwoConsecutiveSmall', k
            if cmp_ is not None:
                if len(cmp_.ops) != 1 or ast.unparse(cmp_.comparators[0]) != 'accuracy':
                    raise Unsupported('comparison in ' + algo)
                if ast.unparse(cmp_.left) != '%s.norm() * numpy.abs(coeff)' % acc_arg:
                    raise Unsupported('tested quantity in %s: %s' % (algo, ast.unparse(cmp_.left)))
                test_re = {ast.Lt: 'true', ast.LtE: 'false'}.get(type(cmp_.ops[0]))
                if test_re is None:
                    raise Unsupported('relation in ' + algo)
                break
        if rule is None:
            raise Unsupported('no break test in ' + algo)
        if rule == 'BreakOnSmall' and test_ix != len(body) - 1:
            raise Unsupported('statements after the test in ' + algo)
        name = '%s%s_%s_skel' % (prefix, fname, algo)
        out += ('Definition %s : skel := {| sk_lo := %d; sk_rule := %s; sk_add_before_test := %s; sk_strict := %s; '
                'sk_else_raises := %s |}.\n' % (name, lo, rule, 'true' if acc_ix[0] < test_ix else 'false', test_re,
                                                'true' if raises else 'false'))
        status[algo] = 'skel'
    return out, status


# ---------------------------------------------------------------------------------------------
# the phases of TimeReversalOp.contract:  inside `for (nele, nab), sector in out._civec.items():`
#     if nalpha < nbeta:   ... phase = (-1)**(E1); phase2 = (-1)**(E2)
#                          sector.coeff = sector2.coeff.T.conj() * phase2;  sector2.coeff = tmp.T.conj() * phase
#     elif nalpha > nbeta: (closure test only)
#     elif nalpha == nbeta: sector.coeff = sector.coeff.T.conj()
# translated into the two exponents as functions of (nalpha, nbeta); every other statement of the branch is compared with
# the expected text (fail-closed)
def translate_trev_phases(src, cls, fname, prefix='py_'):
    tree = ast.parse(src)
    fdef = None
    for n in tree.body:
        if isinstance(n, ast.ClassDef) and n.name == cls:
            for m in n.body:
                if isinstance(m, ast.FunctionDef) and m.name == fname:
                    fdef = m
    if fdef is None:
        raise Unsupported('method not found')
    loops = [n for n in fdef.body if isinstance(n, ast.For)]
    if len(loops) != 1:
        raise Unsupported('expected one loop')
    loop = loops[0]
    if ast.unparse(loop.target) != '((nele, nab), sector)' or ast.unparse(loop.iter) != 'out._civec.items()':
        raise Unsupported('loop header %s in %s' % (ast.unparse(loop.target), ast.unparse(loop.iter)))
    body = list(loop.body)
    if len(body) != 2 or ast.unparse(body[0]) != 'nalpha, nbeta = alpha_beta_electrons(nele, nab)' or not isinstance(body[1], ast.If):
        raise Unsupported('loop body')
    br = body[1]
    if ast.unparse(br.test) != 'nalpha < nbeta':
        raise Unsupported('first branch %s' % ast.unparse(br.test))
    tr = GTr({})
    exps = {}
    seen = []
    for st in br.body:
        txt = ast.unparse(st)
        if isinstance(st, ast.If) and all(isinstance(x, ast.Raise) for x in st.body) and not st.orelse:
            continue                                            # closure test
        if isinstance(st, ast.Assign) and len(st.targets) == 1 and isinstance(st.targets[0], ast.Name) \
                and st.targets[0].id in ('phase', 'phase2'):
            v = st.value
            if not (isinstance(v, ast.BinOp) and isinstance(v.op, ast.Pow) and ast.unparse(v.left) in ('-1', '(-1)')):
                raise Unsupported('phase form %s' % txt)
            if tr.names(v.right) - {'nalpha', 'nbeta'}:
                raise Unsupported('phase depends on %s' % sorted(tr.names(v.right)))
            exps[st.targets[0].id] = tr.expr(v.right)
            continue
        seen.append(txt)
    want = ['sector2 = out._civec[nele, nbeta - nalpha]', 'tmp = np.copy(sector.coeff)',
            'sector.coeff = sector2.coeff.T.conj() * phase2', 'sector2.coeff = tmp.T.conj() * phase']
    if seen != want or set(exps) != {'phase', 'phase2'}:
        raise Unsupported('swap branch: %s' % seen)
    # the other two branches
    rest = br.orelse
    if len(rest) != 1 or not isinstance(rest[0], ast.If) or ast.unparse(rest[0].test) != 'nalpha > nbeta':
        raise Unsupported('second branch')
    b2 = rest[0]
    for st in b2.body:
        if not (isinstance(st, ast.If) and all(isinstance(x, ast.Raise) for x in st.body) and not st.orelse):
            raise Unsupported('second branch does more than the closure test: %s' % ast.unparse(st)[:60])
    rest = b2.orelse
    if len(rest) != 1 or not isinstance(rest[0], ast.If) or ast.unparse(rest[0].test) != 'nalpha == nbeta' or rest[0].orelse:
        raise Unsupported('third branch')
    b3 = [ast.unparse(st) for st in rest[0].body]
    if b3 != ['sector.coeff = sector.coeff.T.conj()']:
        raise Unsupported('equal branch: %s' % b3)
    return ('(* sector (nalpha < nbeta) receives the data of its partner times (-1)^into_low; the partner (nbeta, nalpha)\n'
            '   receives the data of the sector times (-1)^into_high; equal counts: transposed conjugate, no phase *)\n'
            'Definition %strev_exp_into_high (v_nalpha v_nbeta : Z) : Z := %s.\n'
            'Definition %strev_exp_into_low (v_nalpha v_nbeta : Z) : Z := %s.\n'
            % (prefix, exps['phase'], prefix, exps['phase2']))
