"""gen_all.py — regenerate coq/theories/gen/*.v from /repo's current sources.
Returns {gen_file: {'leaves': {leaf: status}, 'ok': bool}}; a gen file whose
leaves are not all translatable is still written (with the translatable ones) but
flagged not ok, and the equivalence file that depends on it is skipped by the
build (fallback to correspondence), which is not a violation by itself."""
import os
import py2coq
import c2coq

HEADER = ('(* GENERATED from %s by /verif/translate on every run -- do not edit *)\n'
          'From Coq Require Import ZArith List.\nFrom FQE Require Import GenBase.\n'
          'Import ListNotations.\nLocal Open Scope Z_scope.\n\n')


def _write(path, text):
    if os.path.exists(path) and open(path).read() == text:
        return
    with open(path, 'w') as f:
        f.write(text)


def regenerate(repo, outdir):
    os.makedirs(outdir, exist_ok=True)
    res = {}
    # --- fqe/bitstring.py
    src = open(os.path.join(repo, 'src/fqe/bitstring.py')).read()
    wanted = ['get_bit', 'set_bit', 'unset_bit', 'count_bits_above', 'count_bits_below', 'count_bits_between']
    text, status = py2coq.translate_module(src, wanted)
    _write(os.path.join(outdir, 'Gen_bitstring_py.v'), HEADER % 'src/fqe/bitstring.py' + text)
    ok = all(status[w] == ('mask' if w.startswith('count') else 'plain') for w in wanted)
    res['Gen_bitstring_py'] = {'leaves': status, 'ok': ok}
    # --- fqe/lib/bitstring.h
    src = open(os.path.join(repo, 'src/fqe/lib/bitstring.h')).read()
    text, status = c2coq.translate_macros(src, ['CHECK_BIT', 'SET_BIT', 'UNSET_BIT'])
    for fn in ('count_bits_between', 'count_bits_above'):
        try:
            text += c2coq.translate_mask_function(src, fn)
            status[fn] = 'mask'
        except c2coq.Unsupported as e:
            status[fn] = 'unsupported: %s' % e
    _write(os.path.join(outdir, 'Gen_bitstring_h.v'), HEADER % 'src/fqe/lib/bitstring.h' + text)
    res['Gen_bitstring_h'] = {'leaves': status, 'ok': all(not s.startswith('unsupported') for s in status.values())}
    # --- fqe/lib/bitstring.h once more, as syntax trees for the C semantics of CExpr.v
    text, status = '', {}
    for fn in ('count_bits_between', 'count_bits_above'):
        try:
            t, _n = c2coq.translate_ast_function(src, fn)
            text += t
            status[fn] = 'ast'
        except c2coq.Unsupported as e:
            status[fn] = 'unsupported: %s' % e
    _write(os.path.join(outdir, 'Gen_bitstring_h_ast.v'),
           (HEADER % 'src/fqe/lib/bitstring.h').replace('Import GenBase.', 'Import GenBase CExpr.') + text)
    res['Gen_bitstring_h_ast'] = {'leaves': status, 'ok': all(v == 'ast' for v in status.values())}
    # --- fqe/lib/bitstring.c (Gosper step)
    src = open(os.path.join(repo, 'src/fqe/lib/bitstring.c')).read()
    try:
        text = c2coq.translate_gosper(src)
        status = {'lexicographic_bitstring_generator': 'step'}
    except c2coq.Unsupported as e:
        text = ''
        status = {'lexicographic_bitstring_generator': 'unsupported: %s' % e}
    _write(os.path.join(outdir, 'Gen_gosper_c.v'), HEADER % 'src/fqe/lib/bitstring.c' + text)
    res['Gen_gosper_c'] = {'leaves': status, 'ok': not text == ''}
    # --- fqe/lib/binom.h
    src = open(os.path.join(repo, 'src/fqe/lib/binom.h')).read()
    try:
        text = c2coq.translate_binom_table(src)
        status = {'initialize_binom': 'table'}
    except c2coq.Unsupported as e:
        text = ''
        status = {'initialize_binom': 'unsupported: %s' % e}
    _write(os.path.join(outdir, 'Gen_binom_h.v'), HEADER % 'src/fqe/lib/binom.h' + text)
    res['Gen_binom_h'] = {'leaves': status, 'ok': not text == ''}
    # --- fqe/settings.py constants
    src = open(os.path.join(repo, 'src/fqe/settings.py')).read()
    consts = py2coq.module_int_constants(src, ['global_max_norb', 'c_string_max_norb'])
    text = ''.join('Definition py_%s : Z := %d.\n' % (k, v) for k, v in sorted(consts.items()))
    status = {k: ('const' if k in consts else 'unsupported: not an int literal') for k in ['global_max_norb', 'c_string_max_norb']}
    _write(os.path.join(outdir, 'Gen_settings.v'), HEADER % 'src/fqe/settings.py' + text)
    res['Gen_settings'] = {'leaves': status, 'ok': len(consts) == 2}
    # --- fqe/util.py guards
    src = open(os.path.join(repo, 'src/fqe/util.py')).read()
    text, status = py2coq.translate_guarded_module(src, ['alpha_beta_electrons'])
    _write(os.path.join(outdir, 'Gen_util_guards.v'), HEADER % 'src/fqe/util.py' + text)
    res['Gen_util_guards'] = {'leaves': status, 'ok': all(v == 'guarded' for v in status.values())}
    # --- fqe/fci_graph.py: the reference-path loop nest of _get_Z_matrix as a list of table assignments
    src = open(os.path.join(repo, 'src/fqe/fci_graph.py')).read()
    try:
        text = py2coq.translate_table_loops(src, '_get_Z_matrix', 'Z', 'use_accelerated_code')
        status = {'_get_Z_matrix': 'loops'}
    except py2coq.Unsupported as e:
        text = ''
        status = {'_get_Z_matrix': 'unsupported: %s' % e}
    _write(os.path.join(outdir, 'Gen_zmatrix_py.v'),
           (HEADER % 'src/fqe/fci_graph.py').replace('Import GenBase.', 'Import GenBase Addr GenLoops.') + text)
    res['Gen_zmatrix_py'] = {'leaves': status, 'ok': not text == ''}
    # --- fqe/lib/fci_graph.c: the loop nest of calculate_Z_matrix (accelerated path): assignments and table reads
    src = open(os.path.join(repo, 'src/fqe/lib/fci_graph.c')).read()
    try:
        text = c2coq.translate_c_table_loops(src, 'calculate_Z_matrix')
        status = {'calculate_Z_matrix': 'loops'}
    except c2coq.Unsupported as e:
        text = ''
        status = {'calculate_Z_matrix': 'unsupported: %s' % e}
    _write(os.path.join(outdir, 'Gen_zmatrix_c.v'),
           (HEADER % 'src/fqe/lib/fci_graph.c').replace('Import GenBase.', 'Import GenBase Addr GenLoops.') + text)
    res['Gen_zmatrix_c'] = {'leaves': status, 'ok': not text == ''}
    # --- fqe/util.py: the swap-counting exchange sorts as compare-exchange programs
    src = open(os.path.join(repo, 'src/fqe/util.py')).read()
    text, status = '', {}
    for fn in ('paritysort_list', 'reverse_bubble_list', 'bubblesort'):
        try:
            text += py2coq.translate_swap_sort(src, fn)
            status[fn] = 'cxprog'
        except py2coq.Unsupported as e:
            status[fn] = 'unsupported: %s' % e
    hdr = ('(* GENERATED from src/fqe/util.py by /verif/translate on every run -- do not edit *)\n'
           'From Coq Require Import List Arith.\nFrom FQE Require Import CxProg.\nImport ListNotations.\n\n')
    _write(os.path.join(outdir, 'Gen_util_sorts.v'), hdr + text)
    res['Gen_util_sorts'] = {'leaves': status, 'ok': all(v == 'cxprog' for v in status.values())}
    # --- fqe/_fqe_control.py: the multi-sector constructors (guard, loop, appended triples, broken symmetry)
    src = open(os.path.join(repo, 'src/fqe/_fqe_control.py')).read()
    text, status = '', {}
    for fn in ('get_number_conserving_wavefunction', 'get_spin_conserving_wavefunction'):
        try:
            text += py2coq.translate_param_ctor(src, fn)
            status[fn] = 'ctor'
        except py2coq.Unsupported as e:
            status[fn] = 'unsupported: %s' % e
    hdr = ('(* GENERATED from src/fqe/_fqe_control.py by /verif/translate on every run -- do not edit *)\n'
           'From Coq Require Import ZArith List Bool.\nFrom FQE Require Import GenBase GenLoops.\nImport ListNotations.\n'
           'Local Open Scope Z_scope.\n\n')
    _write(os.path.join(outdir, 'Gen_control_ctors.v'), hdr + text)
    res['Gen_control_ctors'] = {'leaves': status, 'ok': all(v == 'ctor' for v in status.values())}
    # --- fqe/fci_graph.py: FciGraph._build_string_address (sum of Z-matrix entries)
    src = open(os.path.join(repo, 'src/fqe/fci_graph.py')).read()
    try:
        text = py2coq.translate_table_sum(src, 'FciGraph', '_build_string_address', '_get_Z_matrix')
        status = {'_build_string_address': 'tablesum'}
    except py2coq.Unsupported as e:
        text = ''
        status = {'_build_string_address': 'unsupported: %s' % e}
    _write(os.path.join(outdir, 'Gen_address_py.v'),
           (HEADER % 'src/fqe/fci_graph.py').replace('Import GenBase.', 'Import GenBase Addr GenLoops.') + text)
    res['Gen_address_py'] = {'leaves': status, 'ok': not text == ''}
    # --- fqe/wavefunction.py: the stopping rules of the polynomial propagators as loop skeletons
    src = open(os.path.join(repo, 'src/fqe/wavefunction.py')).read()
    try:
        text, status = py2coq.translate_propagator_loops(src, 'Wavefunction', 'apply_generated_unitary')
    except py2coq.Unsupported as e:
        text, status = '', {'apply_generated_unitary': 'unsupported: %s' % e}
    hdr = ('(* GENERATED from src/fqe/wavefunction.py by /verif/translate on every run -- do not edit *)\n'
           'From FQE Require Import Poly LoopSkel.\n\n')
    _write(os.path.join(outdir, 'Gen_propagator_loops.v'), hdr + text)
    res['Gen_propagator_loops'] = {'leaves': status, 'ok': not text == ''}
    # --- fqe/fqe_ops/fqe_ops.py: the two sign exponents of TimeReversalOp.contract
    src = open(os.path.join(repo, 'src/fqe/fqe_ops/fqe_ops.py')).read()
    try:
        text = py2coq.translate_trev_phases(src, 'TimeReversalOp', 'contract')
        status = {'TimeReversalOp.contract': 'phases'}
    except py2coq.Unsupported as e:
        text, status = '', {'TimeReversalOp.contract': 'unsupported: %s' % e}
    _write(os.path.join(outdir, 'Gen_trev_phases.v'), (HEADER % 'src/fqe/fqe_ops/fqe_ops.py') + text)
    res['Gen_trev_phases'] = {'leaves': status, 'ok': not text == ''}
    return res


if __name__ == '__main__':
    import json
    import sys
    print(json.dumps(regenerate(sys.argv[1] if len(sys.argv) > 1 else '/repo',
                                os.path.join(os.path.dirname(os.path.dirname(os.path.abspath(__file__))),
                                             'coq/theories/gen')), indent=1))
