"""c2coq.py — fail-closed translator for the expression-level C leaves of
fqe/lib (bitstring.h macros and inline helpers, the Gosper step of bitstring.c,
the binomial table of binom.h) into Gallina over Z with explicit uint64 wrap.

Every uint64 operation that can leave [0, 2^64) is wrapped in `u64`
(x mod 2^64).  Shift counts are passed through unchanged: the theorems about the
generated definitions carry the hypothesis 0 <= count < 64 (a larger count is
undefined behaviour in C and is a C13 obligation, not modelled here)."""
import re


class Unsupported(Exception):
    pass


TOK = re.compile(r'\s*(?:(\d+)(ull|ULL|u|U|ul|UL)?|([A-Za-z_]\w*)|(<<=|>>=|<<|>>|&=|\|=|\^=|[-+*/%&|^~()=,;<>]))')


def tokenize(s):
    s = s.strip()
    pos = 0
    out = []
    while pos < len(s):
        m = TOK.match(s, pos)
        if not m or m.end() == pos:
            raise Unsupported('token at %r' % s[pos:pos + 20])
        pos = m.end()
        if m.group(1) is not None:
            out.append(('num', int(m.group(1))))
        elif m.group(3) is not None:
            out.append(('id', m.group(3)))
        else:
            out.append(('op', m.group(4)))
    return out


PREC = {'|': 1, '^': 2, '&': 3, '<<': 5, '>>': 5, '+': 6, '-': 6, '*': 7, '/': 7, '%': 7}


class Parser:
    """expression -> Coq text; identifiers are emitted as v_<name>"""

    def __init__(self, toks, calls=None):
        self.t = toks
        self.i = 0
        self.calls = calls or {}

    def peek(self):
        return self.t[self.i] if self.i < len(self.t) else ('eof', None)

    def eat(self, kind=None, val=None):
        tk = self.peek()
        if (kind and tk[0] != kind) or (val is not None and tk[1] != val):
            raise Unsupported('expected %s %s got %s' % (kind, val, tk))
        self.i += 1
        return tk

    def expr(self, minp=0):
        lhs = self.unary()
        while True:
            tk = self.peek()
            if tk[0] == 'op' and tk[1] in PREC and PREC[tk[1]] >= minp:
                op = tk[1]
                self.i += 1
                rhs = self.expr(PREC[op] + 1)
                lhs = self.binop(op, lhs, rhs)
            else:
                return lhs

    @staticmethod
    def binop(op, a, b):
        if op == '&':
            return '(Z.land %s %s)' % (a, b)
        if op == '|':
            return '(Z.lor %s %s)' % (a, b)
        if op == '^':
            return '(Z.lxor %s %s)' % (a, b)
        if op == '<<':
            return '(u64 (Z.shiftl %s %s))' % (a, b)
        if op == '>>':
            return '(Z.shiftr %s %s)' % (a, b)
        if op == '+':
            return '(u64 (%s + %s))' % (a, b)
        if op == '-':
            return '(u64 (%s - %s))' % (a, b)
        if op == '*':
            return '(u64 (%s * %s))' % (a, b)
        if op == '/':
            return '(Z.div %s %s)' % (a, b)
        if op == '%':
            return '(Z.modulo %s %s)' % (a, b)
        raise Unsupported(op)

    def unary(self):
        tk = self.peek()
        if tk == ('op', '~'):
            self.i += 1
            return '(u64 (Z.lnot %s))' % self.unary()
        if tk == ('op', '-'):
            self.i += 1
            return '(u64 (Z.opp %s))' % self.unary()
        if tk == ('op', '('):
            self.i += 1
            e = self.expr()
            self.eat('op', ')')
            return e
        if tk[0] == 'num':
            self.i += 1
            return '(%d)' % tk[1]
        if tk[0] == 'id':
            self.i += 1
            if self.peek() == ('op', '('):
                if tk[1] not in self.calls:
                    raise Unsupported('call ' + tk[1])
                self.i += 1
                args = []
                if self.peek() != ('op', ')'):
                    args.append(self.expr())
                    while self.peek() == ('op', ','):
                        self.i += 1
                        args.append(self.expr())
                self.eat('op', ')')
                return '(%s %s)' % (self.calls[tk[1]], ' '.join(args))
            return 'v_' + tk[1]
        raise Unsupported('unexpected %s' % (tk,))


def parse_expr(text, calls=None):
    p = Parser(tokenize(text), calls)
    e = p.expr()
    if p.i != len(p.t):
        raise Unsupported('trailing tokens in %r' % text)
    return e


def translate_macros(src, wanted, prefix='c_'):
    out, status = [], {}
    for name in wanted:
        m = re.search(r'#define\s+%s\(([^)]*)\)\s+(.*)' % re.escape(name), src)
        if not m:
            status[name] = 'unsupported: macro not found'
            continue
        try:
            params = [a.strip() for a in m.group(1).split(',')]
            body = parse_expr(m.group(2).strip())
            out.append('Definition %s%s %s : Z := %s.\n' % (prefix, name, ' '.join('(v_%s : Z)' % a for a in params), body))
            status[name] = 'plain'
        except Unsupported as e:
            status[name] = 'unsupported: %s' % e
    return ''.join(out), status


def _func_body(src, name):
    m = re.search(r'\b%s\s*\(([^)]*)\)\s*\{' % re.escape(name), src)
    if not m:
        return None, None
    i = m.end()
    depth = 1
    j = i
    while j < len(src) and depth:
        if src[j] == '{':
            depth += 1
        elif src[j] == '}':
            depth -= 1
        j += 1
    params = []
    for p in m.group(1).split(','):
        p = p.strip()
        if p:
            params.append(re.sub(r'[\s\*]+', ' ', p).split()[-1])
    return params, src[i:j - 1]


def translate_mask_function(src, name, prefix='c_'):
    """inline int f(uint64_t s, int i[, int j]) { s &= E; ...; return count_bits(s); }"""
    params, body = _func_body(src, name)
    if params is None:
        raise Unsupported('function not found')
    body = re.sub(r'//.*', '', body)
    stmts = [s.strip() for s in body.split(';') if s.strip()]
    s0 = params[0]
    masks = []
    for st in stmts[:-1]:
        m = re.match(r'^%s\s*&=\s*(.*)$' % re.escape(s0), st, re.S)
        if not m:
            raise Unsupported('statement %r' % st[:60])
        if re.search(r'\b%s\b' % re.escape(s0), m.group(1)):
            raise Unsupported('mask depends on the string')
        masks.append(parse_expr(m.group(1)))
    if not re.match(r'^return\s+count_bits\(\s*%s\s*\)$' % re.escape(s0), stmts[-1]):
        raise Unsupported('return %r' % stmts[-1][:60])
    if not masks:
        raise Unsupported('no mask')
    mexpr = masks[0]
    for mk in masks[1:]:
        mexpr = '(Z.land %s %s)' % (mexpr, mk)
    msig = ' '.join('(v_%s : Z)' % a for a in params[1:])
    text = 'Definition %s%s_mask %s : Z := %s.\n' % (prefix, name, msig, mexpr)
    text += 'Definition %s%s %s : Z := zpopcount (Z.land v_%s (%s%s_mask %s)).\n' % (
        prefix, name, ' '.join('(v_%s : Z)' % a for a in params), s0, prefix, name,
        ' '.join('v_' + a for a in params[1:]))
    return text


def translate_gosper(src, prefix='c_'):
    """the loop body of lexicographic_bitstring_generator as a step function, plus
    the initial value and the loop bound"""
    params, body = _func_body(src, 'lexicographic_bitstring_generator')
    if params is None:
        raise Unsupported('function not found')
    body = re.sub(r'//.*', '', body)
    m = re.search(r'uint64_t\s+combo\s*=\s*([^;]*);\s*while\s*\(\s*combo\s*<\s*([^{]*)\)\s*\{(.*)\}', body, re.S)
    if not m:
        raise Unsupported('loop shape')
    init = parse_expr(m.group(1))
    bound = parse_expr(m.group(2).strip())
    stmts = [s.strip() for s in m.group(3).split(';') if s.strip()]
    lets = []
    saw_out = False
    for st in stmts:
        if re.match(r'^\*out\+\+\s*=\s*combo$', st):
            if lets:
                raise Unsupported('store after update')
            saw_out = True
            continue
        mm = re.match(r'^(?:const\s+)?uint64_t\s+(\w+)\s*=\s*(.*)$', st, re.S)
        if mm:
            lets.append((mm.group(1), parse_expr(mm.group(2))))
            continue
        mm = re.match(r'^(\w+)\s*(=|>>=|<<=|\|=|&=|\^=)\s*(.*)$', st, re.S)
        if mm:
            v, op, rhs = mm.group(1), mm.group(2), parse_expr(mm.group(3))
            if op != '=':
                rhs = Parser.binop(op[:-1], 'v_' + v, rhs)
            lets.append((v, rhs))
            continue
        raise Unsupported('statement %r' % st[:60])
    if not saw_out:
        raise Unsupported('no store')
    s = 'v_combo'
    for n, v in reversed(lets):
        s = 'let v_%s := %s in %s' % (n, v, s)
    text = 'Definition %sgosper_init (v_nele : Z) : Z := %s.\n' % (prefix, init)
    text += 'Definition %sgosper_bound (v_norb : Z) : Z := %s.\n' % (prefix, bound)
    text += 'Definition %sgosper_step (v_combo : Z) : Z := %s.\n' % (prefix, s)
    return text


def translate_binom_table(src, prefix='c_'):
    ents = re.findall(r'binom\[\s*(\d+)\s*\*\s*65\s*\+\s*(\d+)\s*\]\s*=\s*(\d+)ull', src)
    if len(ents) < 10:
        raise Unsupported('binom table not recognised')
    # every statement of initialize_binom must be one of these assignments
    params, body = _func_body(src, 'initialize_binom')
    if body is None:
        raise Unsupported('initialize_binom not found')
    rest = re.sub(r'binom\[\s*\d+\s*\*\s*65\s*\+\s*\d+\s*\]\s*=\s*\d+ull\s*;', '', body)
    if rest.strip():
        raise Unsupported('unrecognised statements in initialize_binom: %r' % rest.strip()[:60])
    rows = ';\n  '.join('(%s, %s, %s)' % (n, k, v) for n, k, v in ents)
    return 'Definition %sbinom_table : list (Z * Z * Z) := [\n  %s].\n' % (prefix, rows)
