"""c2coq.py — fail-closed translator for the expression-level C leaves of
fqe/lib (bitstring.h macros and inline helpers, the Gosper step of bitstring.c,
the binomial table of binom.h) into Gallina over Z with explicit uint64 wrap.

Every uint64 operation that can leave [0, 2^64) is wrapped in `u64`
(x mod 2^64).  Shift counts are passed through unchanged: the theorems about the
generated definitions carry the hypothesis 0 <= count < 64 (a larger count is
undefined behaviour in C and is a C13 obligation, not modelled here)."""
import re


class Unsupported(Exception):
    pass


TOK = re.compile(r'\s*(?:(\d+)(ull|ULL|u|U|ul|UL)?|([A-Za-z_]\w*)|(<<=|>>=|<<|>>|&=|\|=|\^=|[-+*/%&|^~()=,;<>]))')


def tokenize(s):
    s = s.strip()
    pos = 0
    out = []
    while pos < len(s):
        m = TOK.match(s, pos)
        if not m or m.end() == pos:
            raise Unsupported('token at %r' % s[pos:pos + 20])
        pos = m.end()
        if m.group(1) is not None:
            out.append(('num', int(m.group(1))))
        elif m.group(3) is not None:
            out.append(('id', m.group(3)))
        else:
            out.append(('op', m.group(4)))
    return out


PREC = {'|': 1, '^': 2, '&': 3, '<<': 5, '>>': 5, '+': 6, '-': 6, '*': 7, '/': 7, '%': 7}


class Parser:
    """expression -> Coq text; identifiers are emitted as v_<name>"""

    def __init__(self, toks, calls=None):
        self.t = toks
        self.i = 0
        self.calls = calls or {}

    def peek(self):
        return self.t[self.i] if self.i < len(self.t) else ('eof', None)

    def eat(self, kind=None, val=None):
        tk = self.peek()
        if (kind and tk[0] != kind) or (val is not None and tk[1] != val):
            raise Unsupported('expected %s %s got %s' % (kind, val, tk))
        self.i += 1
        return tk

    def expr(self, minp=0):
        lhs = self.unary()
        while True:
            tk = self.peek()
            if tk[0] == 'op' and tk[1] in PREC and PREC[tk[1]] >= minp:
                op = tk[1]
                self.i += 1
                rhs = self.expr(PREC[op] + 1)
                lhs = self.binop(op, lhs, rhs)
            else:
                return lhs

    @staticmethod
    def binop(op, a, b):
        if op == '&':
            return '(Z.land %s %s)' % (a, b)
        if op == '|':
            return '(Z.lor %s %s)' % (a, b)
        if op == '^':
            return '(Z.lxor %s %s)' % (a, b)
        if op == '<<':
            return '(u64 (Z.shiftl %s %s))' % (a, b)
        if op == '>>':
            return '(Z.shiftr %s %s)' % (a, b)
        if op == '+':
            return '(u64 (%s + %s))' % (a, b)
        if op == '-':
            return '(u64 (%s - %s))' % (a, b)
        if op == '*':
            return '(u64 (%s * %s))' % (a, b)
        if op == '/':
            return '(Z.div %s %s)' % (a, b)
        if op == '%':
            return '(Z.modulo %s %s)' % (a, b)
        raise Unsupported(op)

    def unary(self):
        tk = self.peek()
        if tk == ('op', '~'):
            self.i += 1
            return '(u64 (Z.lnot %s))' % self.unary()
        if tk == ('op', '-'):
            self.i += 1
            return '(u64 (Z.opp %s))' % self.unary()
        if tk == ('op', '('):
            self.i += 1
            e = self.expr()
            self.eat('op', ')')
            return e
        if tk[0] == 'num':
            self.i += 1
            return '(%d)' % tk[1]
        if tk[0] == 'id':
            self.i += 1
            if self.peek() == ('op', '('):
                if tk[1] not in self.calls:
                    raise Unsupported('call ' + tk[1])
                self.i += 1
                args = []
                if self.peek() != ('op', ')'):
                    args.append(self.expr())
                    while self.peek() == ('op', ','):
                        self.i += 1
                        args.append(self.expr())
                self.eat('op', ')')
                return '(%s %s)' % (self.calls[tk[1]], ' '.join(args))
            return 'v_' + tk[1]
        raise Unsupported('unexpected %s' % (tk,))


def parse_expr(text, calls=None):
    p = Parser(tokenize(text), calls)
    e = p.expr()
    if p.i != len(p.t):
        raise Unsupported('trailing tokens in %r' % text)
    return e


def translate_macros(src, wanted, prefix='c_'):
    out, status = [], {}
    for name in wanted:
        m = re.search(r'#define\s+%s\(([^)]*)\)\s+(.*)' % re.escape(name), src)
        if not m:
            status[name] = 'unsupported: macro not found'
            continue
        try:
            params = [a.strip() for a in m.group(1).split(',')]
            body = parse_expr(m.group(2).strip())
            out.append('Definition %s%s %s : Z := %s.\n' % (prefix, name, ' '.join('(v_%s : Z)' % a for a in params), body))
            status[name] = 'plain'
        except Unsupported as e:
            status[name] = 'unsupported: %s' % e
    return ''.join(out), status


def _func_body(src, name):
    m = re.search(r'\b%s\s*\(([^)]*)\)\s*\{' % re.escape(name), src)
    if not m:
        return None, None
    i = m.end()
    depth = 1
    j = i
    while j < len(src) and depth:
        if src[j] == '{':
            depth += 1
        elif src[j] == '}':
            depth -= 1
        j += 1
    params = []
    for p in m.group(1).split(','):
        p = p.strip()
        if p:
            params.append(re.sub(r'[\s\*]+', ' ', p).split()[-1])
    return params, src[i:j - 1]


def translate_mask_function(src, name, prefix='c_'):
    """inline int f(uint64_t s, int i[, int j]) { s &= E; ...; return count_bits(s); }"""
    params, body = _func_body(src, name)
    if params is None:
        raise Unsupported('function not found')
    body = re.sub(r'//.*', '', body)
    stmts = [s.strip() for s in body.split(';') if s.strip()]
    s0 = params[0]
    masks = []
    for st in stmts[:-1]:
        m = re.match(r'^%s\s*&=\s*(.*)$' % re.escape(s0), st, re.S)
        if not m:
            raise Unsupported('statement %r' % st[:60])
        if re.search(r'\b%s\b' % re.escape(s0), m.group(1)):
            raise Unsupported('mask depends on the string')
        masks.append(parse_expr(m.group(1)))
    if not re.match(r'^return\s+count_bits\(\s*%s\s*\)$' % re.escape(s0), stmts[-1]):
        raise Unsupported('return %r' % stmts[-1][:60])
    if not masks:
        raise Unsupported('no mask')
    mexpr = masks[0]
    for mk in masks[1:]:
        mexpr = '(Z.land %s %s)' % (mexpr, mk)
    msig = ' '.join('(v_%s : Z)' % a for a in params[1:])
    text = 'Definition %s%s_mask %s : Z := %s.\n' % (prefix, name, msig, mexpr)
    text += 'Definition %s%s %s : Z := zpopcount (Z.land v_%s (%s%s_mask %s)).\n' % (
        prefix, name, ' '.join('(v_%s : Z)' % a for a in params), s0, prefix, name,
        ' '.join('v_' + a for a in params[1:]))
    return text


def translate_gosper(src, prefix='c_'):
    """the loop body of lexicographic_bitstring_generator as a step function, plus
    the initial value and the loop bound"""
    params, body = _func_body(src, 'lexicographic_bitstring_generator')
    if params is None:
        raise Unsupported('function not found')
    body = re.sub(r'//.*', '', body)
    m = re.search(r'uint64_t\s+combo\s*=\s*([^;]*);\s*while\s*\(\s*combo\s*<\s*([^{]*)\)\s*\{(.*)\}', body, re.S)
    if not m:
        raise Unsupported('loop shape')
    init = parse_expr(m.group(1))
    bound = parse_expr(m.group(2).strip())
    stmts = [s.strip() for s in m.group(3).split(';') if s.strip()]
    lets = []
    saw_out = False
    for st in stmts:
        if re.match(r'^\*out\+\+\s*=\s*combo$', st):
            if lets:
                raise Unsupported('store after update')
            saw_out = True
            continue
        mm = re.match(r'^(?:const\s+)?uint64_t\s+(\w+)\s*=\s*(.*)$', st, re.S)
        if mm:
            lets.append((mm.group(1), parse_expr(mm.group(2))))
            continue
        mm = re.match(r'^(\w+)\s*(=|>>=|<<=|\|=|&=|\^=)\s*(.*)$', st, re.S)
        if mm:
            v, op, rhs = mm.group(1), mm.group(2), parse_expr(mm.group(3))
            if op != '=':
                rhs = Parser.binop(op[:-1], 'v_' + v, rhs)
            lets.append((v, rhs))
            continue
        raise Unsupported('statement %r' % st[:60])
    if not saw_out:
        raise Unsupported('no store')
    s = 'v_combo'
    for n, v in reversed(lets):
        s = 'let v_%s := %s in %s' % (n, v, s)
    text = 'Definition %sgosper_init (v_nele : Z) : Z := %s.\n' % (prefix, init)
    text += 'Definition %sgosper_bound (v_norb : Z) : Z := %s.\n' % (prefix, bound)
    text += 'Definition %sgosper_step (v_combo : Z) : Z := %s.\n' % (prefix, s)
    return text


def translate_binom_table(src, prefix='c_'):
    ents = re.findall(r'binom\[\s*(\d+)\s*\*\s*65\s*\+\s*(\d+)\s*\]\s*=\s*(\d+)ull', src)
    if len(ents) < 10:
        raise Unsupported('binom table not recognised')
    # every statement of initialize_binom must be one of these assignments
    params, body = _func_body(src, 'initialize_binom')
    if body is None:
        raise Unsupported('initialize_binom not found')
    rest = re.sub(r'binom\[\s*\d+\s*\*\s*65\s*\+\s*\d+\s*\]\s*=\s*\d+ull\s*;', '', body)
    if rest.strip():
        raise Unsupported('unrecognised statements in initialize_binom: %r' % rest.strip()[:60])
    rows = ';\n  '.join('(%s, %s, %s)' % (n, k, v) for n, k, v in ents)
    return 'Definition %sbinom_table : list (Z * Z * Z) := [\n  %s].\n' % (prefix, rows)


# ---------------------------------------------------------------------------------------------------
# straight-line functions -> the deep embedding of coq/theories/CExpr.v (syntax only: typed literals,
# identifiers resolved to parameters / locals; what the code MEANS is decided by CExpr.ceval)
ATOK = re.compile(r'\s*(?:(\d+)(ull|ULL|ul|UL|llu|LLU|u|U|ll|LL|l|L)?|([A-Za-z_]\w*)|(<<=|>>=|<<|>>|&=|\|=|\^=|\+=|-=|==|!=|<=|>=|&&|\|\||[-+*/%&|^~()=,;<>?:]))')
APREC = {'|': 1, '^': 2, '&': 3, '<': 4, '>': 4, '<<': 5, '>>': 5, '+': 6, '-': 6}
AOPS = {'&': 'OAnd', '|': 'OOr', '^': 'OXor', '+': 'OAdd', '-': 'OSub', '<<': 'OShl', '>>': 'OShr'}
CTYPES = {'uint64_t': 'TU64', 'unsigned long': 'TU64', 'unsigned long long': 'TU64', 'size_t': 'TU64',
          'uint32_t': 'TU32', 'unsigned': 'TU32', 'unsigned int': 'TU32', 'int': 'TI32', 'int32_t': 'TI32'}


def _atokenize(s):
    pos, out = 0, []
    s = s.strip()
    while pos < len(s):
        m = ATOK.match(s, pos)
        if not m or m.end() == pos:
            raise Unsupported('token at %r' % s[pos:pos + 20])
        pos = m.end()
        if m.group(1) is not None:
            suf = (m.group(2) or '').lower()
            ty = 'TU64' if suf in ('ull', 'llu', 'ul') else ('TU32' if suf == 'u' else ('TI32' if suf == '' else None))
            if ty is None:
                raise Unsupported('literal suffix %s' % suf)
            out.append(('num', (ty, int(m.group(1)))))
        elif m.group(3) is not None:
            out.append(('id', m.group(3)))
        else:
            out.append(('op', m.group(4)))
    return out


class AstParser:
    """expression -> (Coq text of a cex, depends_on_string).  The string parameter may only flow through
    '&' with string-free operands, '>>' by a string-free count, and into the popcount: everything else is
    outside the fragment the abstract evaluator of CExpr.v is proved for (=> Unsupported => fallback)."""

    def __init__(self, toks, env):
        self.t, self.i, self.env = toks, 0, env

    def peek(self):
        return self.t[self.i] if self.i < len(self.t) else ('eof', None)

    def eat(self, kind, val=None):
        tk = self.peek()
        if tk[0] != kind or (val is not None and tk[1] != val):
            raise Unsupported('expected %s %s got %s' % (kind, val, tk))
        self.i += 1
        return tk

    def ternary(self):
        c, cs = self.binary(0)
        if self.peek() == ('op', '?'):
            self.i += 1
            a, as_ = self.ternary()
            self.eat('op', ':')
            b, bs = self.ternary()
            if cs or as_ or bs:
                raise Unsupported('conditional on the string: outside the abstract fragment')
            return '(XIf %s %s %s)' % (c, a, b), False
        return c, cs

    def binary(self, minp):
        lhs, ls = self.unary()
        while True:
            tk = self.peek()
            if tk[0] == 'op' and tk[1] in APREC and APREC[tk[1]] >= minp:
                op = tk[1]
                self.i += 1
                rhs, rs = self.binary(APREC[op] + 1)
                if op == '<':
                    e = '(XB OLt %s %s)' % (lhs, rhs)
                elif op == '>':
                    e = '(XB OLt %s %s)' % (rhs, lhs)
                else:
                    e = '(XB %s %s %s)' % (AOPS[op], lhs, rhs)
                dep = ls or rs
                if dep:
                    ok = (op == '&' and not (ls and rs)) or (op == '>>' and ls and not rs)
                    if not ok:
                        raise Unsupported("string under '%s': outside the abstract fragment" % op)
                lhs, ls = e, dep
            else:
                return lhs, ls

    def unary(self):
        tk = self.peek()
        if tk == ('op', '~'):
            self.i += 1
            e, d = self.unary()
            if d:
                raise Unsupported("string under '~': outside the abstract fragment")
            return '(XNot %s)' % e, False
        if tk == ('op', '-'):
            self.i += 1
            e, d = self.unary()
            if d:
                raise Unsupported("string under unary '-': outside the abstract fragment")
            return '(XB OSub (XC TI32 0) %s)' % e, False
        if tk == ('op', '('):
            self.i += 1
            e = self.ternary()
            self.eat('op', ')')
            return e
        if tk[0] == 'num':
            self.i += 1
            return '(XC %s %d)' % tk[1], False
        if tk[0] == 'id':
            self.i += 1
            if tk[1] not in self.env:
                raise Unsupported('identifier %s' % tk[1])
            e = self.env[tk[1]]
            return e, e == 'XS'
        raise Unsupported('unexpected %s' % (tk,))


def _ast_expr(text, env):
    p = AstParser(_atokenize(text), env)
    e = p.ternary()
    if p.i != len(p.t):
        raise Unsupported('trailing tokens in %r' % text[:40])
    return e


def _strip_c(body):
    body = re.sub(r'/\*.*?\*/', '', body, flags=re.S)
    body = re.sub(r'//[^\n]*', '', body)
    # gcc is the compiler of this build: take the __GNUC__ branch
    body = re.sub(r'#ifdef\s+__GNUC__\s*\n(.*?)#else.*?#endif', r'\1', body, flags=re.S)
    body = re.sub(r'#ifdef\s+__GNUC__\s*\n(.*?)#endif', r'\1', body, flags=re.S)
    if '#' in body:
        raise Unsupported('preprocessor directive in the body')
    return body


def translate_ast_function(src, name, prefix='c_ast_'):
    """inline int f(uint64_t s, const int i [, const int j]) { straight-line code; return popcount(...); }"""
    m = re.search(r'\b%s\s*\(([^)]*)\)\s*\{' % re.escape(name), src)
    if not m:
        raise Unsupported('function not found')
    plist = [re.sub(r'\s+', ' ', p.strip()) for p in m.group(1).split(',') if p.strip()]
    _, body = _func_body(src, name)
    body = _strip_c(body)
    env = {}
    nint = 0
    for k, p in enumerate(plist):
        words = [w for w in p.replace('*', ' * ').split() if w != 'const']
        pname, pty = words[-1], ' '.join(words[:-1])
        if '*' in words:
            raise Unsupported('pointer parameter')
        if k == 0:
            if CTYPES.get(pty) != 'TU64':
                raise Unsupported('first parameter is not a 64-bit string')
            env[pname] = 'XS'
            sname = pname
        else:
            if CTYPES.get(pty) != 'TI32':
                raise Unsupported('parameter type %s' % pty)
            env[pname] = '(XA %d)' % nint
            nint += 1
    stmts = [s.strip() for s in body.split(';') if s.strip()]
    out, nloc, ret = [], 0, None
    for st in stmts:
        if ret is not None:
            raise Unsupported('statement after return')
        mm = re.match(r'^return\s+(\w+)\s*\((.*)\)$', st, re.S)
        if mm:
            fn = mm.group(1)
            e, _dep = _ast_expr(mm.group(2), env)
            if fn in ('count_bits', '__builtin_popcountll', '__builtin_popcountl'):
                ret = '(RPop64 %s)' % e
            elif fn == '__builtin_popcount':
                ret = '(RPop32 %s)' % e
            else:
                raise Unsupported('return through %s' % fn)
            continue
        mm = re.match(r'^(?:const\s+)?((?:unsigned\s+)?(?:long\s+long|long|int|uint64_t|uint32_t|int32_t|size_t|unsigned))\s+(\w+)\s*=\s*(.*)$', st, re.S)
        if mm:
            ty = CTYPES.get(re.sub(r'\s+', ' ', mm.group(1)))
            if ty is None:
                raise Unsupported('type %s' % mm.group(1))
            e, dep = _ast_expr(mm.group(3), env)
            if dep:
                raise Unsupported('local variable depends on the string: outside the abstract fragment')
            out.append('SLet %s %s' % (ty, e))
            env[mm.group(2)] = '(XL %d)' % nloc
            nloc += 1
            continue
        mm = re.match(r'^(\w+)\s*(=|>>=|&=)\s*(.*)$', st, re.S)
        if mm and mm.group(1) == sname:
            e, dep = _ast_expr(mm.group(3), env)
            op = mm.group(2)
            if op == '=':
                if not dep:
                    raise Unsupported('string overwritten by a constant')
                out.append('SSet %s' % e)
            else:
                if dep:
                    raise Unsupported('string on both sides of %s: outside the abstract fragment' % op)
                out.append('SSet (XB %s XS %s)' % ({'>>=': 'OShr', '&=': 'OAnd'}[op], e))
            continue
        raise Unsupported('statement %r' % st[:60])
    if ret is None:
        raise Unsupported('no return')
    return 'Definition %s%s : cfun := mkcfun [%s] %s.\n' % (prefix, name, '; '.join(out), ret), nint


# ---------------------------------------------------------------------------------------------------
# table-filling loop nests (lib/fci_graph.c calculate_Z_matrix) -> the list of (flat index, value)
# assignments they perform and the list of flat indices of the binomial table they read.
# int arithmetic is modelled as exact integer arithmetic (signed overflow would be undefined behaviour;
# the (int32_t) narrowing of the accumulated value is modelled as the identity: see DESIGN, trusted base).
LTOK = re.compile(r'\s*(?:(\d+)|([A-Za-z_]\w*)|(\+\+|\+=|<=|>=|==|[-+*/%()\[\]{}=,;<>]))')


def _ltokenize(s):
    pos, out = 0, []
    s = s.strip()
    while pos < len(s):
        m = LTOK.match(s, pos)
        if not m or m.end() == pos:
            raise Unsupported('token at %r' % s[pos:pos + 20])
        pos = m.end()
        if m.group(1) is not None:
            out.append(('num', int(m.group(1))))
        elif m.group(2) is not None:
            out.append(('id', m.group(2)))
        else:
            out.append(('op', m.group(3)))
    return out


class LoopParser:
    def __init__(self, toks, table, out, width):
        self.t, self.i = toks, 0
        self.table, self.out, self.width = table, out, width

    def peek(self, k=0):
        return self.t[self.i + k] if self.i + k < len(self.t) else ('eof', None)

    def eat(self, kind, val=None):
        tk = self.peek()
        if tk[0] != kind or (val is not None and tk[1] != val):
            raise Unsupported('expected %s %s, got %s' % (kind, val, tk))
        self.i += 1
        return tk[1]

    # ---- expressions: (coq text, list of table-read index texts)
    def expr(self, minp=0):
        lhs, rd = self.atom()
        prec = {'+': 6, '-': 6, '*': 7}
        while self.peek()[0] == 'op' and self.peek()[1] in prec and prec[self.peek()[1]] >= minp:
            op = self.eat('op')
            rhs, rd2 = self.expr(prec[op] + 1)
            lhs = '(%s %s %s)' % ({'+': 'Z.add', '-': 'Z.sub', '*': 'Z.mul'}[op], lhs, rhs)
            rd = rd + rd2
        return lhs, rd

    def atom(self):
        tk = self.peek()
        if tk == ('op', '('):
            self.eat('op', '(')
            if self.peek() == ('id', 'int32_t') and self.peek(1) == ('op', ')'):   # (int32_t) e
                self.i += 2
                return self.atom()
            e = self.expr()
            self.eat('op', ')')
            return e
        if tk[0] == 'num':
            self.i += 1
            return '(%d)' % tk[1], []
        if tk[0] == 'id':
            self.i += 1
            if self.peek() == ('op', '['):
                if tk[1] != self.table:
                    raise Unsupported('read of array ' + tk[1])
                self.eat('op', '[')
                ix, rd = self.expr()
                self.eat('op', ']')
                return '(binomZ (Z.div %s (%d)) (Z.modulo %s (%d)))' % (ix, self.width, ix, self.width), rd + [ix]
            if self.peek() == ('op', '('):
                raise Unsupported('call ' + tk[1])
            return 'v_' + tk[1], []
        raise Unsupported('unexpected %s' % (tk,))

    # ---- statements -> (assignment-list text, read-list text)
    def for_header(self):
        self.eat('id', 'for')
        self.eat('op', '(')
        self.eat('id', 'int')
        v = self.eat('id')
        self.eat('op', '=')
        lo, rd1 = self.expr()
        self.eat('op', ';')
        if self.eat('id') != v:
            raise Unsupported('loop test')
        self.eat('op', '<')
        hi, rd2 = self.expr()
        self.eat('op', ';')
        self.eat('op', '++')
        if self.eat('id') != v:
            raise Unsupported('loop step')
        self.eat('op', ')')
        if rd1 or rd2:
            raise Unsupported('table read in a loop bound')
        return v, lo, hi

    def stmts(self, closing):
        """statement list up to `closing` ('}' or eof): returns (assign_text, reads_text)"""
        tk = self.peek()
        if (closing == '}' and tk == ('op', '}')) or (closing is None and tk[0] == 'eof'):
            return '[]', '[]'
        if tk == ('op', '{'):
            self.eat('op', '{')
            a, r = self.stmts('}')
            self.eat('op', '}')
            a2, r2 = self.stmts(closing)
            return '(%s ++ %s)' % (a, a2), '(%s ++ %s)' % (r, r2)
        if tk == ('id', 'for'):
            v, lo, hi = self.for_header()
            self.eat('op', '{')
            a, r = self.stmts('}')
            self.eat('op', '}')
            a2, r2 = self.stmts(closing)
            return ('((flat_map (fun v_%s => %s) (zrange %s %s)) ++ %s)' % (v, a, lo, hi, a2),
                    '((flat_map (fun v_%s => %s) (zrange %s %s)) ++ %s)' % (v, r, lo, hi, r2))
        if tk[0] == 'id' and tk[1] in ('const', 'int', 'int64_t'):
            if tk[1] == 'const':
                self.i += 1
            ty = self.eat('id')
            if ty not in ('int', 'int64_t'):
                raise Unsupported('declaration type ' + ty)
            v = self.eat('id')
            self.eat('op', '=')
            e, rd = self.expr()
            self.eat('op', ';')
            # accumulator:  int64_t v = 0;  for (int m = lo; m < hi; ++m) { v += E; }
            if e == '(0)' and self.peek() == ('id', 'for'):
                save = self.i
                m, lo, hi = self.for_header()
                self.eat('op', '{')
                if self.peek() == ('id', v) and self.peek(1) == ('op', '+='):
                    self.i += 2
                    body, brd = self.expr()
                    self.eat('op', ';')
                    self.eat('op', '}')
                    a2, r2 = self.stmts(closing)
                    rtxt = '[' + '; '.join(brd) + ']'
                    return ('(let v_%s := zsum (fun v_%s => %s) %s %s in %s)' % (v, m, body, lo, hi, a2),
                            '((flat_map (fun v_%s => %s) (zrange %s %s)) ++ (let v_%s := zsum (fun v_%s => %s) %s %s in %s))'
                            % (m, rtxt, lo, hi, v, m, body, lo, hi, r2))
                self.i = save
            a2, r2 = self.stmts(closing)
            rtxt = '[' + '; '.join(rd) + ']'
            return '(let v_%s := %s in %s)' % (v, e, a2), '(%s ++ (let v_%s := %s in %s))' % (rtxt, v, e, r2)
        if tk == ('id', self.out):
            self.i += 1
            self.eat('op', '[')
            ix, rd0 = self.expr()
            self.eat('op', ']')
            self.eat('op', '=')
            e, rd = self.expr()
            self.eat('op', ';')
            a2, r2 = self.stmts(closing)
            rtxt = '[' + '; '.join(rd0 + rd) + ']'
            return '([(%s, %s)] ++ %s)' % (ix, e, a2), '(%s ++ %s)' % (rtxt, r2)
        raise Unsupported('statement starting with %s' % (tk,))


def translate_c_table_loops(src, name, table='binom', out='out', prefix='c_'):
    params, body = _func_body(src, name)
    if params is None:
        raise Unsupported('function not found')
    body = re.sub(r'//.*', '', body)
    body = re.sub(r'/\*.*?\*/', '', body, flags=re.S)
    m = re.search(r'#define\s+(\w+)\s+(\d+)\s*\n', body)
    if not m:
        raise Unsupported('table width macro')
    macro, width = m.group(1), int(m.group(2))
    body = re.sub(r'#\s*(define|undef|pragma)[^\n]*\n', '\n', body)
    body = re.sub(r'\b%s\b' % macro, str(width), body)
    # the allocation, initialisation and release of the binomial table (its content: Equiv_binom.v)
    for pat in (r'uint64_t\s*\*\s*%s\s*=\s*safe_malloc\(\s*%s\s*,\s*%d\s*\*\s*%d\s*\)\s*;' % (table, table, width, width),
                r'initialize_binom\(\s*%s\s*\)\s*;' % table, r'free\(\s*%s\s*\)\s*;' % table):
        body, n = re.subn(pat, '', body)
        if n != 1:
            raise Unsupported('table set-up %r' % pat[:30])
    p = LoopParser(_ltokenize(body), table, out, width)
    a, r = p.stmts(None)
    ps = [q for q in params if q != out]
    sig = ' '.join('(v_%s : Z)' % q for q in ps)
    text = 'Definition %s%s_width : Z := %d.\n' % (prefix, name, width)
    text += 'Definition %s%s_assigns %s : list (Z * Z) :=\n  %s.\n' % (prefix, name, sig, a)
    text += 'Definition %s%s_reads %s : list Z :=\n  %s.\n' % (prefix, name, sig, r)
    return text
