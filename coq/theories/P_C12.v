(* P_C12.v — C12 (first stage): the exterior-power oracle is built from determinants
   (Laplace expansion over the Gaussian integers); multiplicativity, identity and
   row-swap sign for the symbolic 2x2 case, identity for 3x3. *)
From Coq Require Import NArith ZArith List Bool Arith Lia.
From FQE Require Import GaussZ Ext.
Import ListNotations.

Theorem C12_det2_mul_partial : forall a b c d e f g h,
  det 2 (mmul2 [[a; b]; [c; d]] [[e; f]; [g; h]]) = gzmul (det 2 [[a; b]; [c; d]]) (det 2 [[e; f]; [g; h]]).
Proof. exact det2_mul. Qed.
Print Assumptions C12_det2_mul_partial.

Theorem C12_det2_swap_rows : forall a b c d, det 2 [[c; d]; [a; b]] = gzopp (det 2 [[a; b]; [c; d]]).
Proof. exact det2_swap_rows. Qed.
Print Assumptions C12_det2_swap_rows.

Theorem C12_det_identity_3 : det 3 [[gz1; gz0; gz0]; [gz0; gz1; gz0]; [gz0; gz0; gz1]] = gz1.
Proof. exact det_identity_3. Qed.
Print Assumptions C12_det_identity_3.
