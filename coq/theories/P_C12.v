(* P_C12.v — C12 (first stage): the exterior-power oracle is built from determinants
   (Laplace expansion over the Gaussian integers); multiplicativity, identity and
   row-swap sign for the symbolic 2x2 case, identity for 3x3. *)
From Coq Require Import NArith ZArith List Bool Arith Lia.
From FQE Require Import GaussZ Ext ExtThm.
Import ListNotations.

Theorem C12_det2_mul_partial : forall a b c d e f g h,
  det 2 (mmul2 [[a; b]; [c; d]] [[e; f]; [g; h]]) = gzmul (det 2 [[a; b]; [c; d]]) (det 2 [[e; f]; [g; h]]).
Proof. exact det2_mul. Qed.
Print Assumptions C12_det2_mul_partial.

Theorem C12_det2_swap_rows : forall a b c d, det 2 [[c; d]; [a; b]] = gzopp (det 2 [[a; b]; [c; d]]).
Proof. exact det2_swap_rows. Qed.
Print Assumptions C12_det2_swap_rows.

Theorem C12_det_identity_3 : det 3 [[gz1; gz0; gz0]; [gz0; gz1; gz0]; [gz0; gz0; gz1]] = gz1.
Proof. exact det_identity_3. Qed.
Print Assumptions C12_det_identity_3.

(* ---- general size (ExtThm.v): a zero row kills the determinant; for a DIAGONAL orbital matrix
   (what the evolution routes use after rotating to the eigenbasis) the exterior power is diagonal:
   the minor on equal index lists is the product of the diagonal entries, every other minor vanishes;
   for the identity matrix the many-body action is the identity. Every size, every index list. *)
Theorem C12_det_zero_row : forall f (M : mat) i, length M = f -> i < f -> zero_row (nth i M []) -> det f M = gz0.
Proof. exact det_zero_row. Qed.
Print Assumptions C12_det_zero_row.

Theorem C12_minor_diag_same : forall (M : mat), (forall i j, i <> j -> mget M i j = gz0) ->
  forall I, NoDup I -> minor M I I = gzprod (map (fun i => mget M i i) I).
Proof. exact minor_diag_same. Qed.
Print Assumptions C12_minor_diag_same.

Theorem C12_minor_diag_diff : forall (M : mat), (forall i j, i <> j -> mget M i j = gz0) ->
  forall I J a, length I = length J -> In a I -> ~ In a J -> minor M I J = gz0.
Proof. exact minor_diag_diff. Qed.
Print Assumptions C12_minor_diag_diff.

Theorem C12_identity_acts_as_identity : forall M I, (forall i j, i <> j -> mget M i j = gz0) ->
  (forall i, In i I -> mget M i i = gz1) -> NoDup I -> minor M I I = gz1.
Proof. exact minor_identity_same. Qed.
Print Assumptions C12_identity_acts_as_identity.
