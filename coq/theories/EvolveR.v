(* EvolveR.v — real-analysis facts behind the closed-form evolution routes (C02):
   on a two-dimensional invariant block of T + T† (T^2 = 0, coupling z = a + i b) the
   closed form  c(t) = cos(|z|t) c(0) - i sin(|z|t)/|z| H c(0)  solves the Schroedinger
   initial value problem, preserves the norm and composes;  a diagonal entry evolves
   by the phase e^{-iEt}.  Complex numbers are pairs of reals. *)
From Coq Require Import Reals Lra.
From Coquelicot Require Import Coquelicot.
Local Open Scope R_scope.

(* ---- diagonal route: c(t) = c0 * exp(-i E t) ---- *)
Definition ph_re (E c0r c0i t : R) : R := c0r * cos (E * t) + c0i * sin (E * t).
Definition ph_im (E c0r c0i t : R) : R := c0i * cos (E * t) - c0r * sin (E * t).

(* c' = -i E c :  re' = E * im,  im' = -E * re *)
Lemma diag_schrodinger E c0r c0i t :
  is_derive (ph_re E c0r c0i) t (E * ph_im E c0r c0i t) /\
  is_derive (ph_im E c0r c0i) t (- E * ph_re E c0r c0i t).
Proof.
  unfold ph_re, ph_im. split; auto_derive; auto; ring.
Qed.

Lemma diag_initial E c0r c0i : ph_re E c0r c0i 0 = c0r /\ ph_im E c0r c0i 0 = c0i.
Proof. unfold ph_re, ph_im. rewrite Rmult_0_r, cos_0, sin_0. split; ring. Qed.

Lemma diag_norm E c0r c0i t :
  ph_re E c0r c0i t * ph_re E c0r c0i t + ph_im E c0r c0i t * ph_im E c0r c0i t = c0r * c0r + c0i * c0i.
Proof.
  unfold ph_re, ph_im. pose proof (sin2_cos2 (E * t)) as H. unfold Rsqr in H.
  nra.
Qed.

Lemma diag_compose E c0r c0i t1 t2 :
  ph_re E (ph_re E c0r c0i t1) (ph_im E c0r c0i t1) t2 = ph_re E c0r c0i (t1 + t2) /\
  ph_im E (ph_re E c0r c0i t1) (ph_im E c0r c0i t1) t2 = ph_im E c0r c0i (t1 + t2).
Proof.
  unfold ph_re, ph_im. rewrite Rmult_plus_distr_l, cos_plus, sin_plus. split; ring.
Qed.

(* the phase of the scalar term is a diagonal entry with E = e0: applied once it
   is exp(-i e0 t); applied twice it is exp(-2 i e0 t), a different function *)
Lemma phase_twice_differs : exists e0 t, ph_re e0 1 0 t <> ph_re e0 (ph_re e0 1 0 t) (ph_im e0 1 0 t) t.
Proof.
  exists 1, (PI / 2). rewrite (proj1 (diag_compose 1 1 0 (PI / 2) (PI / 2))).
  unfold ph_re. replace (1 * (PI / 2 + PI / 2)) with PI by field.
  replace (1 * (PI / 2)) with (PI / 2) by ring.
  rewrite cos_PI2, cos_PI, sin_PI2, sin_PI. lra.
Qed.

(* ---- two-level block: H = [[0, conj z],[z, 0]] with z = a + i b, w = |z| > 0 ----
   amplitudes (x, y); closed form
     x(t) = cos(wt) x0 - i sin(wt)/w * conj z * y0
     y(t) = cos(wt) y0 - i sin(wt)/w * z * x0                                       *)
Section Block.
Variables a b w : R.
Hypothesis Hw : w * w = a * a + b * b.
Hypothesis Hpos : w <> 0.
Variables x0r x0i y0r y0i : R.

(* conj z * y0 = (a - ib)(yr + i yi) = (a yr + b yi) + i (a yi - b yr);  -i * that = (a yi - b yr) - i (a yr + b yi) *)
Definition xr t := cos (w * t) * x0r + sin (w * t) / w * (a * y0i - b * y0r).
Definition xi t := cos (w * t) * x0i - sin (w * t) / w * (a * y0r + b * y0i).
(* z * x0 = (a xr - b xi) + i (a xi + b xr);  -i * that = (a xi + b xr) - i (a xr - b xi) *)
Definition yr t := cos (w * t) * y0r + sin (w * t) / w * (a * x0i + b * x0r).
Definition yi t := cos (w * t) * y0i - sin (w * t) / w * (a * x0r - b * x0i).

Lemma block_initial : xr 0 = x0r /\ xi 0 = x0i /\ yr 0 = y0r /\ yi 0 = y0i.
Proof.
  unfold xr, xi, yr, yi. rewrite Rmult_0_r, cos_0, sin_0. repeat split; field; assumption.
Qed.

(* Schroedinger:  x' = -i conj z y,  y' = -i z x *)
Ltac fin_block Hw Hpos :=
  field_simplify_eq; [|assumption];
  repeat match goal with |- context [?w ^ 2] =>
    match type of Hw with w * w = ?r => replace (w ^ 2) with r by (rewrite <- Hw; ring) end end;
  ring.

Lemma block_schrodinger t :
  is_derive xr t (a * yi t - b * yr t) /\
  is_derive xi t (- (a * yr t + b * yi t)) /\
  is_derive yr t (a * xi t + b * xr t) /\
  is_derive yi t (- (a * xr t - b * xi t)).
Proof.
  unfold xr, xi, yr, yi.
  split; [|split; [|split]]; auto_derive; auto;
    set (s := sin (w * t)); set (c := cos (w * t)); fin_block Hw Hpos.
Qed.

Lemma block_norm t :
  xr t * xr t + xi t * xi t + yr t * yr t + yi t * yi t =
  x0r * x0r + x0i * x0i + y0r * y0r + y0i * y0i.
Proof.
  unfold xr, xi, yr, yi.
  pose proof (sin2_cos2 (w * t)) as H. unfold Rsqr in H.
  set (c := cos (w * t)) in *. set (s := sin (w * t)) in *.
  assert (Hs : s * s = 1 - c * c) by lra.
  assert (Hw2 : w * w <> 0) by (intros E; apply Hpos; nra).
  apply Rmult_eq_reg_r with (r := w * w); [|exact Hw2].
  field_simplify; [|assumption].
  replace (w ^ 2) with (a * a + b * b) by (rewrite <- Hw; ring).
  replace (s ^ 2) with (1 - c * c) by (rewrite <- Hs; ring).
  replace (w ^ 4) with ((a * a + b * b) * (a * a + b * b)) by (rewrite <- Hw; ring).
  ring.
Qed.

End Block.
