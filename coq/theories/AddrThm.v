(* AddrThm.v — C05, hand-written model: the string table enumerates every occupation
   pattern exactly once; address and string lookup are mutually inverse; table length is
   the binomial coefficient. *)
From Coq Require Import NArith ZArith List Bool Arith Lia.
From FQE Require Import Bits Addr.
Import ListNotations.

(* ---------------------------------------------------------------- binomials (Pascal rows) *)
Lemma pascal_next_spec row : forall prev k,
  nth k (pascal_next prev row) 0%N =
  (match k with O => prev | S j => nth j row 0%N end + nth k row 0%N)%N.
Proof.
  induction row as [|x r IH]; intros prev k; simpl.
  - destruct k as [|[|k]]; simpl; lia.
  - destruct k as [|k]; simpl; [lia|]. rewrite IH. destruct k; reflexivity.
Qed.

Lemma binom_0_r n : binom n 0 = 1%N.
Proof.
  unfold binom. induction n as [|n IH]; simpl; [reflexivity|].
  rewrite pascal_next_spec. rewrite IH. reflexivity.
Qed.

Lemma binom_pascal n k : binom (S n) (S k) = (binom n k + binom n (S k))%N.
Proof. unfold binom. simpl. rewrite pascal_next_spec. reflexivity. Qed.

Lemma pascal_length n : length (pascal n) = S n.
Proof.
  induction n as [|n IH]; simpl; [reflexivity|].
  assert (G : forall row prev, length (pascal_next prev row) = S (length row)).
  { induction row as [|x r IHr]; intros prev; simpl; [reflexivity|rewrite IHr; reflexivity]. }
  rewrite G, IH. reflexivity.
Qed.

Lemma binom_gt n k : n < k -> binom n k = 0%N.
Proof. intros H. unfold binom. apply nth_overflow. rewrite pascal_length. lia. Qed.

(* ---------------------------------------------------------------- the string table *)
Lemma strings_length n : forall k, N.of_nat (length (strings n k)) = binom n k.
Proof.
  induction n as [|n IH]; intros [|k]; simpl.
  - reflexivity.
  - symmetry. apply binom_gt. lia.
  - rewrite binom_0_r. reflexivity.
  - rewrite app_length, !map_length, Nat2N.inj_add, !IH, binom_pascal. reflexivity.
Qed.

Lemma popcount_double' s : popcount (2 * s) = popcount s.
Proof. apply popcount_double. Qed.

Lemma pos_popcount_pos p : 1 <= pos_popcount p.
Proof. induction p; simpl; lia. Qed.

Lemma strings_spec n : forall k s, In s (strings n k) <-> (s < 2 ^ N.of_nat n)%N /\ popcount s = k.
Proof.
  induction n as [|n IH]; intros k s.
  - simpl. destruct k; simpl.
    + split; [intros [<-|[]]; split; [lia|reflexivity]|]. intros [H1 H2]. left. lia.
    + split; [intros []|]. intros [H1 H2]. assert (s = 0%N) by lia. subst. discriminate.
  - rewrite Nat2N.inj_succ, N.pow_succ_r'. destruct k as [|k]; cbn [strings].
    + split.
      * intros [<-|[]]. split; [|reflexivity]. apply N.mul_pos_pos; [lia|]. apply N.neq_0_lt_0. apply N.pow_nonzero. lia.
      * intros [H1 H2]. left. destruct s as [|p]; [reflexivity|]. simpl in H2. pose proof (pos_popcount_pos p). lia.
    + rewrite in_app_iff, !in_map_iff. split.
      * intros [[h [Hs Hh]]|[h [Hs Hh]]]; subst s.
        -- apply IH in Hh. destruct Hh as [H1 H2]. split; [lia|]. rewrite popcount_succ_double. lia.
        -- apply IH in Hh. destruct Hh as [H1 H2]. split; [lia|]. rewrite popcount_double. exact H2.
      * intros [H1 H2]. destruct (N_binary_cases s) as [h [Hh|Hh]]; subst s.
        -- right. exists h. split; [reflexivity|]. apply IH. rewrite popcount_double in H2. split; [lia|exact H2].
        -- left. exists h. split; [reflexivity|]. apply IH. rewrite popcount_succ_double in H2. split; [lia|lia].
Qed.

Lemma NoDup_map_inj {A B} (f : A -> B) l : (forall x y, f x = f y -> x = y) -> NoDup l -> NoDup (map f l).
Proof.
  intros Hinj H. induction H as [|x l Hx Hl IH]; simpl; constructor; [|exact IH].
  intros Hin. apply in_map_iff in Hin. destruct Hin as [y [Hy Hyl]]. apply Hinj in Hy. subst. contradiction.
Qed.

Lemma NoDup_app_disjoint {A} (l1 l2 : list A) : NoDup l1 -> NoDup l2 ->
  (forall x, In x l1 -> In x l2 -> False) -> NoDup (l1 ++ l2).
Proof.
  intros H1 H2 Hd. induction H1 as [|x l Hx Hl IH]; simpl; [exact H2|].
  constructor.
  - intros Hin. apply in_app_iff in Hin. destruct Hin as [Hin|Hin]; [contradiction|].
    apply (Hd x); [left; reflexivity|exact Hin].
  - apply IH. intros y Hy1 Hy2. apply (Hd y); [right; exact Hy1|exact Hy2].
Qed.

Theorem strings_nodup n : forall k, NoDup (strings n k).
Proof.
  induction n as [|n IH]; intros [|k]; cbn [strings].
  - repeat constructor. intros [].
  - constructor.
  - repeat constructor. intros [].
  - apply NoDup_app_disjoint.
    + apply NoDup_map_inj; [intros x y H; lia|apply IH].
    + apply NoDup_map_inj; [intros x y H; lia|apply IH].
    + intros x H1 H2. apply in_map_iff in H1. apply in_map_iff in H2.
      destruct H1 as [a [Ha _]]. destruct H2 as [b [Hb _]]. lia.
Qed.

(* ---------------------------------------------------------------- recursive address *)
(* position of a string in the table, following the recursion of `strings` *)
Fixpoint raddr (n k : nat) (s : N) : nat :=
  match n with
  | O => 0
  | S m =>
    match k with
    | O => 0
    | S j => if N.odd s then raddr m j (N.div2 s)
             else length (strings m j) + raddr m k (N.div2 s)
    end
  end.

Lemma div2_double h : N.div2 (2 * h) = h.
Proof. destruct h; reflexivity. Qed.
Lemma div2_sdouble h : N.div2 (2 * h + 1) = h.
Proof. destruct h; reflexivity. Qed.
Lemma odd_double h : N.odd (2 * h) = false.
Proof. destruct h; reflexivity. Qed.
Lemma odd_sdouble h : N.odd (2 * h + 1) = true.
Proof. destruct h; reflexivity. Qed.

Lemma raddr_lt n : forall k s, In s (strings n k) -> raddr n k s < length (strings n k).
Proof.
  induction n as [|n IH]; intros k s H.
  - destruct k; simpl in *; [lia|contradiction].
  - destruct k as [|k]; cbn [strings raddr] in *.
    + simpl. lia.
    + rewrite app_length, !map_length.
      apply in_app_iff in H. destruct H as [H|H]; apply in_map_iff in H; destruct H as [h [<- Hh]].
      * rewrite odd_sdouble, div2_sdouble. specialize (IH k h Hh). lia.
      * rewrite odd_double, div2_double. specialize (IH (S k) h Hh). lia.
Qed.

Lemma nth_map_lt {A B} (f : A -> B) l : forall i d d', i < length l -> nth i (map f l) d = f (nth i l d').
Proof. induction l as [|x l IH]; intros [|i] d d' H; simpl in *; try lia; [reflexivity|apply IH; lia]. Qed.

(* string lookup after address lookup *)
Theorem nth_raddr n : forall k s, In s (strings n k) -> nth (raddr n k s) (strings n k) 0%N = s.
Proof.
  induction n as [|n IH]; intros k s H.
  - destruct k; simpl in *; [destruct H as [<-|[]]; reflexivity|contradiction].
  - destruct k as [|k]; cbn [strings raddr] in *.
    + destruct H as [<-|[]]. reflexivity.
    + apply in_app_iff in H. destruct H as [H|H]; apply in_map_iff in H; destruct H as [h [<- Hh]].
      * rewrite odd_sdouble, div2_sdouble. pose proof (raddr_lt n k h Hh) as Hlt.
        rewrite app_nth1 by (rewrite map_length; exact Hlt).
        rewrite (nth_map_lt _ _ _ _ 0%N Hlt). rewrite IH by exact Hh. reflexivity.
      * rewrite odd_double, div2_double. pose proof (raddr_lt n (S k) h Hh) as Hlt.
        rewrite app_nth2 by (rewrite map_length; lia).
        rewrite map_length. replace (length (strings n k) + raddr n (S k) h - length (strings n k)) with (raddr n (S k) h) by lia.
        rewrite (nth_map_lt _ _ _ _ 0%N Hlt). rewrite IH by exact Hh. reflexivity.
Qed.

(* address lookup after string lookup: the table position of the a-th string is a *)
Theorem raddr_nth n k a : a < length (strings n k) -> raddr n k (nth a (strings n k) 0%N) = a.
Proof.
  intros Ha.
  pose proof (strings_nodup n k) as Hnd.
  assert (Hin : In (nth a (strings n k) 0%N) (strings n k)) by (apply nth_In; exact Ha).
  pose proof (nth_raddr n k _ Hin) as E. pose proof (raddr_lt n k _ Hin) as Hlt.
  apply (proj1 (NoDup_nth (strings n k) 0%N) Hnd); assumption.
Qed.

(* consequently addresses are injective on the table *)
Theorem raddr_injective n k s t : In s (strings n k) -> In t (strings n k) -> raddr n k s = raddr n k t -> s = t.
Proof.
  intros Hs Ht E. rewrite <- (nth_raddr n k s Hs), <- (nth_raddr n k t Ht), E. reflexivity.
Qed.

(* the executable lookup used by the model (index_of) is the recursive address *)
Lemma index_of_nth l : forall a, NoDup l -> a < length l -> index_of (nth a l 0%N) l = Some a.
Proof.
  induction l as [|x l IH]; intros a Hnd Ha; simpl in *; [lia|].
  inversion Hnd; subst. destruct a as [|a].
  - rewrite N.eqb_refl. reflexivity.
  - destruct (N.eqb_spec x (nth a l 0%N)) as [E|E].
    + exfalso. apply H1. rewrite E. apply nth_In. lia.
    + rewrite IH by (assumption || lia). reflexivity.
Qed.

Theorem index_of_raddr n k s : In s (strings n k) -> index_of s (strings n k) = Some (raddr n k s).
Proof.
  intros H. rewrite <- (nth_raddr n k s H) at 1.
  apply index_of_nth; [apply strings_nodup|apply raddr_lt; exact H].
Qed.
