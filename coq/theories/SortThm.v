(* SortThm.v — C06: the regenerated swap-counting sorts DO sort.

   For a compare-exchange relation that is the negation of a total, transitive order `le`
   (here: comparisons of a key of the mode index, ascending or descending), the program
       passes i = 0 .. n-1,  pass i = compare-exchange at positions 0, 1, ..., n-i-2,
       stop after the first pass that exchanges nothing
   — exactly the shape the translator extracts from paritysort_list / reverse_bubble_list /
   bubblesort — returns a list that is sorted with respect to `le` (and, by CxProg, a permutation
   of its input whose sign-corrected action equals the original string's). *)
From Coq Require Import List Bool Arith Lia Sorted.
From FQE Require Import Car Fock Sort CxProg.
Import ListNotations.

Section SortCorrect.
Variable gt : lop -> lop -> bool.
Definition le (x y : lop) : Prop := gt x y = false.
Hypothesis le_total : forall x y, le x y \/ le y x.
Hypothesis le_trans : forall x y z, le x y -> le y z -> le x z.

(* ---- positions shifted by one act on the tail *)
Lemma cx_S j x r : cx gt (S j) (x :: r) = (fst (cx gt j r), x :: snd (cx gt j r)).
Proof. cbn [cx]. destruct (cx gt j r) as [b r']. reflexivity. Qed.

Lemma cx_run_map_S p : forall x r,
  cx_run gt (map S p) (x :: r) = (fst (cx_run gt p r), x :: snd (cx_run gt p r)).
Proof.
  induction p as [|j p IH]; intros x r; [reflexivity|].
  cbn [map cx_run]. rewrite cx_S. destruct (cx gt j r) as [b r1]. cbn [fst snd].
  rewrite IH. destruct (cx_run gt p r1) as [c r2]. reflexivity.
Qed.

Lemma seq_S_map m : seq 0 (S m) = 0 :: map S (seq 0 m).
Proof. cbn [seq]. f_equal. rewrite <- seq_shift. reflexivity. Qed.

(* ---- one pass over the first m+1 elements, structurally *)
Fixpoint bubm (m : nat) (l : list lop) : nat * list lop :=
  match m, l with
  | S m', x :: y :: r =>
      if gt x y then let (c, t) := bubm m' (x :: r) in (S c, y :: t)
      else let (c, t) := bubm m' (y :: r) in (c, x :: t)
  | _, _ => (0, l)
  end.

Lemma cx_run_seq_bubm m : forall l, cx_run gt (seq 0 m) l = bubm m l.
Proof.
  induction m as [|m IH]; intros l; [reflexivity|].
  rewrite seq_S_map. cbn [cx_run].
  destruct l as [|x [|y r]].
  - cbn [cx]. rewrite <- (map_id (map S (seq 0 m))).
    assert (E : forall p, cx_run gt p [] = (0, [])).
    { induction p as [|j p IHp]; [reflexivity|]. cbn [cx_run]. destruct j; cbn [cx]; rewrite IHp; reflexivity. }
    rewrite E. reflexivity.
  - cbn [cx]. rewrite cx_run_map_S.
    assert (E : forall p, cx_run gt p [] = (0, [])).
    { induction p as [|j p IHp]; [reflexivity|]. cbn [cx_run]. destruct j; cbn [cx]; rewrite IHp; reflexivity. }
    rewrite E. reflexivity.
  - cbn [cx bubm]. destruct (gt x y).
    + rewrite cx_run_map_S, IH. destruct (bubm m (x :: r)) as [c t]. reflexivity.
    + rewrite cx_run_map_S, IH. destruct (bubm m (y :: r)) as [c t]. reflexivity.
Qed.

(* ---- what a pass does: the element that ends at position m dominates the first m+1 elements *)
Definition dominated (p : list lop) (mx : lop) : Prop := forall u, In u p -> le u mx.

Lemma le_refl x : le x x.
Proof. destruct (le_total x x); assumption. Qed.

(* pass over a list of exactly m+1 elements: result = front ++ [mx], front dominated by mx *)
Lemma bubm_full m : forall l, length l = S m ->
  exists front mx, snd (bubm m l) = front ++ [mx] /\ dominated front mx /\ length front = m
                   /\ (forall u, In u (front ++ [mx]) <-> In u l).
Proof.
  induction m as [|m IH]; intros l Hl.
  - destruct l as [|x [|y r]]; cbn [length] in Hl; try (exfalso; lia). exists [], x. cbn [bubm snd app].
    repeat split; try tauto. intros u [].
  - destruct l as [|x [|y r]]; cbn [length] in Hl; try (exfalso; lia). cbn [bubm].
    destruct (gt x y) eqn:G.
    + destruct (IH (x :: r) ltac:(cbn [length]; lia)) as [front [mx [E [D [L P]]]]].
      destruct (bubm m (x :: r)) as [c t]. cbn [snd] in *. subst t.
      exists (y :: front), mx. cbn [app length]. repeat split; try lia.
      * intros u [<-|Hu]; [|apply D; exact Hu].
        (* y <= x <= mx *)
        assert (Hxy : le y x). { destruct (le_total x y) as [H|H]; [unfold le in H; congruence|exact H]. }
        assert (Hx : In x (front ++ [mx])) by (apply P; left; reflexivity).
        apply in_app_or in Hx. destruct Hx as [Hx|[<-|[]]]; [eapply le_trans; [exact Hxy|apply D; exact Hx]|exact Hxy].
      * intros [<-|Hu]; [right; left; reflexivity|]. apply P in Hu. destruct Hu as [<-|Hu]; [left; reflexivity|right; right; exact Hu].
      * intros [<-|[<-|Hu]]; [right; apply P; left; reflexivity|left; reflexivity|right; apply P; right; exact Hu].
    + destruct (IH (y :: r) ltac:(cbn [length]; lia)) as [front [mx [E [D [L P]]]]].
      destruct (bubm m (y :: r)) as [c t]. cbn [snd] in *. subst t.
      exists (x :: front), mx. cbn [app length]. repeat split; try lia.
      * intros u [<-|Hu]; [|apply D; exact Hu].
        assert (Hy : In y (front ++ [mx])) by (apply P; left; reflexivity).
        apply in_app_or in Hy. destruct Hy as [Hy|[<-|[]]]; [eapply le_trans; [exact G|apply D; exact Hy]|exact G].
      * intros [<-|Hu]; [left; reflexivity|]. apply P in Hu. destruct Hu as [<-|Hu]; [right; left; reflexivity|right; right; exact Hu].
      * intros [<-|[<-|Hu]]; [left; reflexivity|right; apply P; left; reflexivity|right; apply P; right; exact Hu].
Qed.

(* a pass touches only the first m+1 elements *)
Lemma bubm_app m : forall p s, length p = S m -> bubm m (p ++ s) = (fst (bubm m p), snd (bubm m p) ++ s).
Proof.
  induction m as [|m IH]; intros p s Hp.
  - destruct p as [|x [|y r]]; cbn [length] in Hp; try (exfalso; lia). reflexivity.
  - destruct p as [|x [|y r]]; cbn [length] in Hp; try (exfalso; lia). cbn [app bubm].
    destruct (gt x y).
    + change (x :: r ++ s) with ((x :: r) ++ s). rewrite IH by (cbn [length]; lia).
      destruct (bubm m (x :: r)) as [c t]. reflexivity.
    + change (y :: r ++ s) with ((y :: r) ++ s). rewrite IH by (cbn [length]; lia).
      destruct (bubm m (y :: r)) as [c t]. reflexivity.
Qed.

(* a pass without exchange over a list of m+1 elements: the list was already sorted *)
Lemma bubm_idle_sorted m : forall l, length l = S m -> fst (bubm m l) = 0 -> StronglySorted le l.
Proof.
  induction m as [|m IH]; intros l Hl H0.
  - destruct l as [|x [|y r]]; cbn [length] in Hl; try (exfalso; lia). constructor; constructor.
  - destruct l as [|x [|y r]]; cbn [length] in Hl; try (exfalso; lia). cbn [bubm] in H0.
    destruct (gt x y) eqn:G.
    + destruct (bubm m (x :: r)) as [c t]. discriminate.
    + destruct (bubm m (y :: r)) as [c t] eqn:E. cbn [fst] in H0. subst c.
      assert (S1 : StronglySorted le (y :: r)) by (apply IH; [cbn [length]; lia|rewrite E; reflexivity]).
      constructor; [exact S1|].
      apply StronglySorted_inv in S1. destruct S1 as [_ Hy].
      constructor; [exact G|]. rewrite Forall_forall in *. intros u Hu. eapply le_trans; [exact G|apply Hy; exact Hu].
Qed.

(* ---- the invariant of the outer loop: the last i elements are sorted and dominate the rest *)
Definition inv (i : nat) (l : list lop) : Prop :=
  exists p s, l = p ++ s /\ length s = i /\ StronglySorted le s /\ (forall u v, In u p -> In v s -> le u v).

Lemma sorted_app p s : StronglySorted le p -> StronglySorted le s -> (forall u v, In u p -> In v s -> le u v) ->
  StronglySorted le (p ++ s).
Proof.
  intros Sp Ss H. induction p as [|x p IH]; [exact Ss|]. cbn [app].
  apply StronglySorted_inv in Sp. destruct Sp as [Sp Hx].
  constructor.
  - apply IH; [exact Sp|]. intros u v Hu Hv. apply H; [right; exact Hu|exact Hv].
  - rewrite Forall_forall in *. intros u Hu. apply in_app_or in Hu. destruct Hu as [Hu|Hu]; [apply Hx; exact Hu|apply H; [left; reflexivity|exact Hu]].
Qed.

(* the passes as the translator describes them *)
Definition pass_of (n i : nat) : list nat := seq 0 (n - i - 1).

Lemma pass_step n i l : length l = n -> i < n -> inv i l ->
  let r := cx_run gt (pass_of n i) l in
  inv (S i) (snd r) /\ length (snd r) = n /\ (fst r = 0 -> StronglySorted le (snd r)).
Proof.
  intros Hl Hi [p [s [E [Ls [Ss D]]]]]. cbv zeta. unfold pass_of. rewrite cx_run_seq_bubm.
  assert (Lp : length p = S (n - i - 1)) by (subst l; rewrite app_length in Hl; lia).
  subst l. rewrite (bubm_app (n - i - 1) p s Lp). cbn [fst snd].
  destruct (bubm_full (n - i - 1) p Lp) as [front [mx [Ef [Df [Lf Pf]]]]].
  split; [|split].
  - exists front, (mx :: s). rewrite Ef, <- app_assoc. cbn [app]. repeat split.
    + cbn [length]. lia.
    + constructor; [exact Ss|]. rewrite Forall_forall. intros v Hv. apply D; [|exact Hv]. apply Pf. apply in_or_app. right. left. reflexivity.
    + intros u v Hu [<-|Hv]; [apply Df; exact Hu|]. apply D; [|exact Hv]. apply Pf. apply in_or_app. left. exact Hu.
  - rewrite app_length, Ef, app_length. cbn [length]. lia.
  - intros H0. apply sorted_app; [|exact Ss|].
    + assert (Sp : StronglySorted le p) by (apply (bubm_idle_sorted (n - i - 1)); assumption).
      (* an idle pass returns its input *)
      assert (Ep : snd (bubm (n - i - 1) p) = p).
      { rewrite <- cx_run_seq_bubm. apply cx_pass_fixpoint. rewrite cx_run_seq_bubm. exact H0. }
      rewrite Ep. exact Sp.
    + intros u v Hu Hv. apply D; [|exact Hv].
      assert (Ep : snd (bubm (n - i - 1) p) = p).
      { rewrite <- cx_run_seq_bubm. apply cx_pass_fixpoint. rewrite cx_run_seq_bubm. exact H0. }
      rewrite Ep in Hu. exact Hu.
Qed.

Lemma inv_full_sorted l : inv (length l) l -> StronglySorted le l.
Proof.
  intros [p [s [E [Ls [Ss _]]]]]. subst l. rewrite app_length in Ls.
  assert (length p = 0) by lia. destruct p; [exact Ss|discriminate].
Qed.

(* passes i, i+1, ..., n-1 with the early exit *)
Lemma run_passes_sorted n : forall k i l, i + k = n -> length l = n -> inv i l ->
  StronglySorted le (snd (run_passes gt (map (pass_of n) (seq i k)) l)).
Proof.
  induction k as [|k IH]; intros i l Hik Hl Hinv.
  - cbn [seq map run_passes snd]. apply inv_full_sorted. replace (length l) with i by lia. exact Hinv.
  - cbn [seq map run_passes].
    destruct (pass_step n i l Hl ltac:(lia) Hinv) as [I1 [L1 Z1]].
    destruct (cx_run gt (pass_of n i) l) as [c l1]. cbn [fst snd] in *.
    destruct (Nat.eqb_spec c 0) as [->|Hc]; [cbn [snd]; apply Z1; reflexivity|].
    specialize (IH (S i) l1 ltac:(lia) L1 I1).
    destruct (run_passes gt (map (pass_of n) (seq (S i) k)) l1) as [c' l2]. exact IH.
Qed.

Theorem bubble_program_sorts l :
  StronglySorted le (snd (run_passes gt (map (pass_of (length l)) (seq 0 (length l))) l)).
Proof.
  apply (run_passes_sorted (length l) (length l) 0 l); [reflexivity|reflexivity|].
  exists l, []. rewrite app_nil_r. repeat split; [constructor|]. intros u v _ [].
Qed.
End SortCorrect.
