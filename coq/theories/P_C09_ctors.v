(* P_C09_ctors.v — C09: the multi-sector constructors REGENERATED from the current fqe/_fqe_control.py
   (gen/Gen_control_ctors.v) create exactly the sector sets the property promises and refuse exactly the
   impossible requests.  Statements closed by `exact`, each followed by Print Assumptions. *)
From Coq Require Import ZArith List Bool Lia.
From FQE Require Import GenBase Addr GenLoops Ctor Equiv_ctors.
From FQE.gen Require Import Gen_control_ctors.
Import ListNotations.
Local Open Scope Z_scope.

Theorem C09_source_number_conserving_is_model : forall nele norb, 0 <= norb ->
  run_ctor (py_get_number_conserving_wavefunction_params nele norb) = ctor_nc nele norb.
Proof. exact py_number_conserving_is_ctor. Qed.
Print Assumptions C09_source_number_conserving_is_model.

Theorem C09_source_spin_conserving_is_model : forall sz norb, 0 <= norb ->
  run_ctor (py_get_spin_conserving_wavefunction_params sz norb) = ctor_sc sz norb.
Proof. exact py_spin_conserving_is_ctor. Qed.
Print Assumptions C09_source_spin_conserving_is_model.

(* composed with the characterisation of Ctor.v: the source creates exactly all (n_alpha, n_beta) with n_alpha + n_beta = nele *)
Theorem C09_source_number_conserving_sectors : forall nele norb, 0 <= norb -> 0 <= nele <= 2 * norb ->
  exists l, run_ctor (py_get_number_conserving_wavefunction_params nele norb) = Some l /\
  forall s, In s l <-> exists na nb, 0 <= na <= norb /\ 0 <= nb <= norb /\ na + nb = nele /\
                         s = (nele, na - nb, binomZ norb na, binomZ norb nb).
Proof. intros nele norb Hn Hr. rewrite py_number_conserving_is_ctor by exact Hn. exact (ctor_nc_spec nele norb Hn Hr). Qed.
Print Assumptions C09_source_number_conserving_sectors.

Theorem C09_source_spin_conserving_sectors : forall sz norb, 0 <= norb -> Z.abs sz <= norb ->
  exists l, run_ctor (py_get_spin_conserving_wavefunction_params sz norb) = Some l /\
  forall s, In s l <-> exists na nb, 0 <= na <= norb /\ 0 <= nb <= norb /\ na - nb = sz /\
                         s = (na + nb, sz, binomZ norb na, binomZ norb nb).
Proof. intros sz norb Hn Hr. rewrite py_spin_conserving_is_ctor by exact Hn. exact (ctor_sc_spec sz norb Hn Hr). Qed.
Print Assumptions C09_source_spin_conserving_sectors.

Theorem C09_source_impossible_rejected : forall nele norb, 0 <= norb -> nele < 0 \/ 2 * norb < nele ->
  run_ctor (py_get_number_conserving_wavefunction_params nele norb) = None.
Proof. intros nele norb Hn Hr. rewrite py_number_conserving_is_ctor by exact Hn. exact (ctor_nc_rejects nele norb Hr). Qed.
Print Assumptions C09_source_impossible_rejected.

Theorem C09_source_ctor_flags :
  py_get_number_conserving_wavefunction_broken_spin = true /\ py_get_number_conserving_wavefunction_broken_number = false /\
  py_get_spin_conserving_wavefunction_broken_spin = false /\ py_get_spin_conserving_wavefunction_broken_number = true.
Proof. exact py_ctor_flags. Qed.
Print Assumptions C09_source_ctor_flags.

(* non-vacuity: 3 electrons in 2 orbitals: sectors s_z = +1 and -1 *)
Example C09_source_example :
  run_ctor (py_get_number_conserving_wavefunction_params 3 2) = Some [(3, 1, 1, 2); (3, -1, 2, 1)].
Proof. vm_compute. reflexivity. Qed.
