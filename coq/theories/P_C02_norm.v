(* P_C02_norm.v — C02 / C16: the operator-norm step of the exact Taylor oracle (NormThm.v), l1 form.
   For every Hamiltonian polynomial H (list of coefficient * operator string), every power k, every sparse vector psi
   and every determinant d:   |coeff (H^k psi) d|  <=  L1(H)^k * mass psi,
   L1(H) = sum of |c_t| over the strings, mass psi = sum of |c| over the entries, |.| any sub-additive, sub-multiplicative
   size function with |-a| = |a|, |0| = 0.  So the k-th term of the Taylor series of exp(-iHt) psi is at most
   (|t| L1)^k / k! * mass psi in every coefficient, and P_C16.C16_taylor_tail_bound bounds the remainder after K terms:
   the truncation order the oracle of the correspondence check chooses is sufficient. *)
From Coq Require Import ZArith List.
From FQE Require Import Car Fock Conserve GaussZ NormThm.
Open Scope Z_scope.

Theorem C02_power_coefficient_bound :
  forall (R : Type) (rO : R) (radd rmul : R -> R -> R) (ropp : R -> R) (sz : R -> Z),
  (forall a, 0 <= sz a) -> sz rO = 0 -> (forall a b, sz (radd a b) <= sz a + sz b) ->
  (forall a b, sz (rmul a b) <= sz a * sz b) -> (forall a, sz (ropp a) = sz a) ->
  forall (p : poly R) (k : nat) (v : vec R) (d : det),
  sz (coeff R rO radd (pow_act R rmul ropp p k v) d) <= pl1 R sz p ^ Z.of_nat k * mass R sz v.
Proof. exact power_coefficient_bound. Qed.
Print Assumptions C02_power_coefficient_bound.

(* the arithmetic of the exact oracle: Gaussian integers, |a + ib| = |a| + |b| *)
Theorem C02_power_coefficient_bound_gauss : forall (p : poly gz) (k : nat) (v : vec gz) (d : det),
  gsz (coeff gz gz0 gzadd (pow_act gz gzmul gzopp p k v) d) <= pl1 gz gsz p ^ Z.of_nat k * mass gz gsz v.
Proof. exact gz_power_coefficient_bound. Qed.
Print Assumptions C02_power_coefficient_bound_gauss.

(* ... in the terms of the extracted model: the k-th iterate of the oracle's loop (H = denotation of the Hamiltonian
   data, psi = the case's vector) is bounded in every coefficient by m_l1^k * m_mass, the two integers the oracle
   obtains from the extracted model (driver commands L1H / MASS) to choose its truncation order *)
From FQE Require Import Bits Denote Model.
Theorem C02_oracle_power_bound : forall norb (es : list hentry) (v : list (N * N * gz)) (k : nat) (d : det),
  gsz (coeff gz gz0 gzadd (pow_act gz gzmul gzopp (poly_of norb (denote_all norb es)) k (vec_of norb v)) d)
  <= m_l1 norb es ^ Z.of_nat k * m_mass norb v.
Proof. exact oracle_power_bound. Qed.
Print Assumptions C02_oracle_power_bound.
