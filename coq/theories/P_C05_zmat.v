(* P_C05_zmat.v — C05: the Z matrix.  The loop nest of fci_graph._get_Z_matrix (reference path) is REGENERATED
   from the current source on every run (gen/Gen_zmatrix_py.v: the list of table assignments it performs, in
   program order, on a zero table); here: that list fills the table with the model's Z matrix (for which
   P_C05.C05_zmatrix_address_is_table_index proves that sum_k Z[k][occ_k] is the string's position), for every
   orbital and electron count; no write falls outside the table; no cell is written twice. *)
From Coq Require Import ZArith List.
From FQE Require Import GenBase Addr GenLoops Equiv_zmat.
From FQE.gen Require Import Gen_zmatrix_py.
Local Open Scope Z_scope.

Theorem C05_zmatrix_source_cell : forall norb nele r c, 0 <= r -> 0 <= c ->
  final_cell (py_get_Z_matrix_assigns norb nele) r c = zmat_entry norb nele (r + 1) (c + 1).
Proof. exact py_zmat_cell. Qed.
Print Assumptions C05_zmatrix_source_cell.

Theorem C05_zmatrix_source_is_model : forall (norb nele k l : nat), (k < nele)%nat -> (l < norb)%nat ->
  final_cell (py_get_Z_matrix_assigns (Z.of_nat norb) (Z.of_nat nele)) (Z.of_nat k) (Z.of_nat l)
  = nth l (nth k (zmat norb nele) nil) 0.
Proof. exact py_zmat_is_model. Qed.
Print Assumptions C05_zmatrix_source_is_model.

Theorem C05_zmatrix_writes_in_bounds : forall norb nele x, 1 <= nele -> In x (py_get_Z_matrix_assigns norb nele) ->
  0 <= fst (fst x) < py_get_Z_matrix_rows norb nele /\ 0 <= snd (fst x) < py_get_Z_matrix_cols norb nele.
Proof. exact py_zmat_writes_in_bounds. Qed.
Print Assumptions C05_zmatrix_writes_in_bounds.

Theorem C05_zmatrix_single_writer : forall norb nele x y,
  In x (py_get_Z_matrix_assigns norb nele) -> In y (py_get_Z_matrix_assigns norb nele) -> fst x = fst y -> x = y.
Proof. exact py_zmat_single_writer. Qed.
Print Assumptions C05_zmatrix_single_writer.

(* non-vacuity: 4 orbitals, 2 electrons: the generated loops give Z = [[0,2,3,0],[0,0,1,2]] *)
Example C05_zmatrix_example :
  map (fun r => map (fun c => final_cell (py_get_Z_matrix_assigns 4 2) r c) (0 :: 1 :: 2 :: 3 :: nil)) (0 :: 1 :: nil)
  = (0 :: 2 :: 3 :: 0 :: nil) :: (0 :: 0 :: 1 :: 2 :: nil) :: nil.
Proof. vm_compute. reflexivity. Qed.
