(* P_C18.v — C18: soundness of the exact eigenvalue certificate checker. *)
From Coq Require Import ZArith List Bool Arith Lia.
From FQE Require Import Cert.
Import ListNotations.
Local Open Scope Z_scope.

Theorem C18_dd_psd : forall n R x, dd n R -> 0 <= quad n R x.
Proof. exact dd_psd. Qed.
Print Assumptions C18_dd_psd.

Theorem C18_check_cert_sound : forall n r K c N R W, check_cert n r K c N R W = true ->
  forall x, 0 <= quad n (lget N) x.
Proof. exact check_cert_sound. Qed.
Print Assumptions C18_check_cert_sound.

Theorem C18_lower_bound_sound : forall n r K c S2 H sigma m mu v R W Nl,
  0 < S2 ->
  (forall i j, (i < n)%nat -> (j < n)%nat -> lget Nl i j = deflate S2 H sigma m mu v i j) ->
  check_cert n r K c Nl R W = true ->
  forall x, (forall k, (k < m)%nat -> zsum n (fun i => v k i * x i) = 0) ->
  sigma * zsum n (fun i => x i * x i) <= quad n H x.
Proof. exact lower_bound_sound. Qed.
Print Assumptions C18_lower_bound_sound.

(* non-vacuity: a 2x2 certificate that checks *)
Example C18_cert_example : check_cert 2 1 1 1 [[2; 1]; [1; 2]] [[1; 0]; [0; 1]] [[1; 1]] = true.
Proof. vm_compute. reflexivity. Qed.
