(* P_C08.v — C08: every arithmetic operation of the pool machine acts on the
   coefficient function as the corresponding vector operation, depends only on the
   coefficient functions (for whole histories), and touches only its target. *)
From Coq Require Import NArith ZArith List Bool Arith Lia.
From FQE Require Import Car Fock GaussZ Arith.
Import ListNotations.

Theorem C08_add : forall x y d, gco (v_add x y) d = gzadd (gco x d) (gco y d).
Proof. exact co_add. Qed.
Print Assumptions C08_add.
Theorem C08_sub : forall x y d, gco (v_sub x y) d = gzsub (gco x d) (gco y d).
Proof. exact co_sub. Qed.
Print Assumptions C08_sub.
Theorem C08_axpy : forall a x y d, gco (v_axpy a x y) d = gzadd (gco y d) (gzmul a (gco x d)).
Proof. exact co_axpy. Qed.
Print Assumptions C08_axpy.
Theorem C08_scale : forall a x d, gco (v_scale a x) d = gzmul a (gco x d).
Proof. exact co_scale. Qed.
Print Assumptions C08_scale.
Theorem C08_set_same : forall d c x, gco (v_set d c x) d = c.
Proof. exact co_set_same. Qed.
Print Assumptions C08_set_same.
Theorem C08_set_other : forall d c x e, d <> e -> gco (v_set d c x) e = gco x e.
Proof. exact co_set_other. Qed.
Print Assumptions C08_set_other.
Theorem C08_vdot_conj_sym : forall x y, v_vdot x y = gzconj (v_vdot y x).
Proof. exact vdot_conj_sym. Qed.
Print Assumptions C08_vdot_conj_sym.
Theorem C08_vdot_linear : forall a x y z, v_vdot x (v_axpy a y z) = gzadd (v_vdot x z) (gzmul a (v_vdot x y)).
Proof. exact vdot_linear_r. Qed.
Print Assumptions C08_vdot_linear.
Theorem C08_vdot_basis : forall d e, v_vdot [(d, gz1)] [(e, gz1)] = if det_eqb d e then gz1 else gz0.
Proof. exact vdot_basis. Qed.
Print Assumptions C08_vdot_basis.
Theorem C08_norm2_single : forall d c, v_norm2 [(d, c)] = gz_of_Z (gznorm2 c).
Proof. exact norm2_single. Qed.
Print Assumptions C08_norm2_single.
Theorem C08_max_upper : forall basis x d, In d basis -> (gznorm2 (gco x d) <= v_max2 basis x)%Z.
Proof. exact max2_upper. Qed.
Print Assumptions C08_max_upper.
Theorem C08_max_attained : forall basis x, basis <> [] ->
  exists d, In d basis /\ v_max2 basis x = Z.max 0 (gznorm2 (gco x d)).
Proof. exact max2_attained. Qed.
Print Assumptions C08_max_attained.
Theorem C08_history_congruence : forall ops p q, peq p q ->
  peq (fst (run p ops)) (fst (run q ops)) /\ snd (run p ops) = snd (run q ops).
Proof. exact history_congruence. Qed.
Print Assumptions C08_history_congruence.
Theorem C08_frame : forall p o j, target o <> Some j -> pget (fst (step p o)) j = pget p j.
Proof. exact step_frame. Qed.
Print Assumptions C08_frame.
