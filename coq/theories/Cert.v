(* Cert.v — C18: an exact (integer) certificate checker for "sigma is a lower bound of
   the quadratic form of H on the orthogonal complement of v_1..v_m" and its soundness.
   All data are integers at a common scale (floats are dyadic rationals).
   Certificate: integer vectors w_1..w_r and an integer matrix R with, entrywise,
       K * N = c * sum_k w_k w_k^T + R,      K > 0, c >= 0,
   R symmetric, diagonally dominant with non-negative diagonal.  Then x^T N x >= 0. *)
From Coq Require Import ZArith List Bool Arith Lia.
Import ListNotations.
Local Open Scope Z_scope.

(* finite sums over 0..n-1 *)
Fixpoint zsum (n : nat) (f : nat -> Z) : Z :=
  match n with O => 0 | S m => zsum m f + f m end.

Lemma zsum_ext n f g : (forall i, (i < n)%nat -> f i = g i) -> zsum n f = zsum n g.
Proof. induction n as [|n IH]; intros H; simpl; [reflexivity|]. rewrite IH, H by (intros; try apply H; lia). reflexivity. Qed.
Lemma zsum_add n f g : zsum n (fun i => f i + g i) = zsum n f + zsum n g.
Proof. induction n as [|n IH]; simpl; [reflexivity|rewrite IH; ring]. Qed.
Lemma zsum_scal n c f : zsum n (fun i => c * f i) = c * zsum n f.
Proof. induction n as [|n IH]; simpl; [ring|rewrite IH; ring]. Qed.
Lemma zsum_nonneg n f : (forall i, (i < n)%nat -> 0 <= f i) -> 0 <= zsum n f.
Proof. induction n as [|n IH]; intros H; simpl; [lia|]. assert (0 <= zsum n f) by (apply IH; intros; apply H; lia). specialize (H n ltac:(lia)). lia. Qed.
Lemma zsum_le n f g : (forall i, (i < n)%nat -> f i <= g i) -> zsum n f <= zsum n g.
Proof. induction n as [|n IH]; intros H; simpl; [lia|]. assert (zsum n f <= zsum n g) by (apply IH; intros; apply H; lia). specialize (H n ltac:(lia)). lia. Qed.
Lemma zsum_swap n m (f : nat -> nat -> Z) :
  zsum n (fun i => zsum m (fun j => f i j)) = zsum m (fun j => zsum n (fun i => f i j)).
Proof.
  induction n as [|n IH]; simpl.
  - induction m as [|m IHm]; simpl; [reflexivity|rewrite <- IHm; reflexivity].
  - rewrite IH, <- zsum_add. reflexivity.
Qed.
Lemma zsum_mul n m f g : zsum n f * zsum m g = zsum n (fun i => zsum m (fun j => f i * g j)).
Proof.
  induction n as [|n IH]; simpl; [ring|]. rewrite <- IH, zsum_scal. ring.
Qed.

Definition quad (n : nat) (M : nat -> nat -> Z) (x : nat -> Z) : Z :=
  zsum n (fun i => zsum n (fun j => M i j * x i * x j)).

(* outer products are squares *)
Lemma quad_outer n (w x : nat -> Z) :
  quad n (fun i j => w i * w j) x = (zsum n (fun i => w i * x i)) * (zsum n (fun i => w i * x i)).
Proof.
  unfold quad. rewrite zsum_mul. apply zsum_ext. intros i _. apply zsum_ext. intros j _. ring.
Qed.

Definition dd (n : nat) (R : nat -> nat -> Z) : Prop :=
  (forall i j, (i < n)%nat -> (j < n)%nat -> R i j = R j i) /\
  (forall i, (i < n)%nat -> zsum n (fun j => if Nat.eqb i j then 0 else Z.abs (R i j)) <= R i i).

(* 2 a b c >= -|a| (b^2 + c^2) *)
Lemma cross_bound a b c : - Z.abs a * (b * b + c * c) <= 2 * (a * b * c).
Proof.
  pose proof (Z.square_nonneg (b + c)) as H1. pose proof (Z.square_nonneg (b - c)) as H2.
  destruct (Z.abs_spec a) as [[Ha E]|[Ha E]]; rewrite E; nia.
Qed.

Lemma zsum_sub n f g : zsum n (fun i => f i - g i) = zsum n f - zsum n g.
Proof. induction n as [|n IH]; simpl; [reflexivity|rewrite IH; ring]. Qed.

Lemma zsum_zero n : zsum n (fun _ => 0) = 0.
Proof. induction n as [|n IH]; simpl; lia. Qed.

Lemma zsum_delta n i c : (i < n)%nat -> zsum n (fun j => if Nat.eqb i j then c else 0) = c.
Proof.
  induction n as [|n IH]; intros Hi; [lia|]. simpl. destruct (Nat.eqb_spec i n) as [->|Hne].
  - rewrite (zsum_ext n _ (fun _ => 0)); [rewrite zsum_zero; lia|].
    intros j Hj. destruct (Nat.eqb_spec n j); [lia|reflexivity].
  - rewrite IH by lia. lia.
Qed.

Theorem dd_psd n R x : dd n R -> 0 <= quad n R x.
Proof.
  intros [Hsym Hdom].
  set (off := fun i j => if Nat.eqb i j then 0 else Z.abs (R i j)).
  set (A := fun i => zsum n (off i)).
  set (g := fun i j => (if Nat.eqb i j then 2 * (R i i * (x i * x i)) else 0) - off i j * (x i * x i) - off i j * (x j * x j)).
  (* pointwise lower bound *)
  assert (Hpt : forall i j, g i j <= 2 * (R i j * x i * x j)).
  { intros i j. unfold g, off. destruct (Nat.eqb_spec i j) as [->|Hne]; [lia|].
    pose proof (cross_bound (R i j) (x i) (x j)). lia. }
  assert (Hlow : zsum n (fun i => zsum n (g i)) <= 2 * quad n R x).
  { unfold quad. rewrite <- zsum_scal. apply zsum_le. intros i Hi. rewrite <- zsum_scal.
    apply zsum_le. intros j Hj. apply Hpt. }
  (* evaluate the lower bound *)
  assert (Hfold : zsum n (fun i => zsum n (fun j => off i j * (x j * x j))) =
                  zsum n (fun i => zsum n (fun j => off i j * (x i * x i)))).
  { rewrite zsum_swap. apply zsum_ext. intros i Hi. apply zsum_ext. intros j Hj.
    unfold off. rewrite (Nat.eqb_sym j i). destruct (Nat.eqb i j); [reflexivity|]. rewrite (Hsym j i Hj Hi). reflexivity. }
  assert (Hval : zsum n (fun i => zsum n (g i)) = zsum n (fun i => 2 * (x i * x i) * (R i i - A i))).
  { transitivity (zsum n (fun i => 2 * (R i i * (x i * x i)) - (x i * x i) * A i) - zsum n (fun i => zsum n (fun j => off i j * (x j * x j)))).
    - rewrite <- zsum_sub. apply zsum_ext. intros i Hi. unfold g.
      rewrite !zsum_sub. rewrite (zsum_delta n i _ Hi).
      rewrite (zsum_ext n (fun j => off i j * (x i * x i)) (fun j => (x i * x i) * off i j)) by (intros; ring).
      rewrite zsum_scal. reflexivity.
    - rewrite Hfold. rewrite <- zsum_sub. apply zsum_ext. intros i Hi.
      rewrite (zsum_ext n (fun j => off i j * (x i * x i)) (fun j => (x i * x i) * off i j)) by (intros; ring).
      rewrite zsum_scal. unfold A. ring. }
  assert (H3 : 0 <= zsum n (fun i => 2 * (x i * x i) * (R i i - A i))).
  { apply zsum_nonneg. intros i Hi. specialize (Hdom i Hi). fold (off i) in Hdom. fold (A i) in Hdom.
    pose proof (Z.square_nonneg (x i)). nia. }
  lia.
Qed.

(* ------------------------------------------------------------------ the certificate *)
(* K * N = c * sum_{k<r} w_k w_k^T + R  entrywise, K > 0, c >= 0, R diagonally dominant *)
Definition cert_eq (n r : nat) (K c : Z) (N R : nat -> nat -> Z) (w : nat -> nat -> Z) : Prop :=
  forall i j, (i < n)%nat -> (j < n)%nat -> K * N i j = c * zsum r (fun k => w k i * w k j) + R i j.

Theorem cert_sound n r K c N R w x : 0 < K -> 0 <= c -> cert_eq n r K c N R w -> dd n R ->
  0 <= quad n N x.
Proof.
  intros HK Hc Heq Hdd.
  assert (E : K * quad n N x = c * zsum r (fun k => (zsum n (fun i => w k i * x i)) * (zsum n (fun i => w k i * x i))) + quad n R x).
  { unfold quad. rewrite <- zsum_scal.
    transitivity (zsum n (fun i => zsum n (fun j => (c * zsum r (fun k => w k i * w k j) + R i j) * x i * x j))).
    - apply zsum_ext. intros i Hi. rewrite <- zsum_scal. apply zsum_ext. intros j Hj. rewrite <- (Heq i j Hi Hj). ring.
    - (* split and exchange sums *)
      rewrite (zsum_ext n _ (fun i => zsum n (fun j => c * (zsum r (fun k => w k i * w k j) * x i * x j)) + zsum n (fun j => R i j * x i * x j))).
      2:{ intros i Hi. rewrite <- zsum_add. apply zsum_ext. intros j Hj. ring. }
      rewrite zsum_add. f_equal.
      rewrite (zsum_ext n _ (fun i => c * zsum n (fun j => zsum r (fun k => w k i * w k j) * x i * x j))) by (intros; apply zsum_scal).
      rewrite zsum_scal. f_equal.
      (* sum_i sum_j sum_k = sum_k (sum_i w_ki x_i)^2 *)
      rewrite (zsum_ext r _ (fun k => quad n (fun i j => w k i * w k j) x)) by (intros; symmetry; apply quad_outer).
      unfold quad.
      rewrite (zsum_ext n _ (fun i => zsum r (fun k => zsum n (fun j => w k i * w k j * x i * x j)))).
      2:{ intros i Hi. rewrite zsum_swap. apply zsum_ext. intros j Hj.
          rewrite (zsum_ext r (fun k => w k i * w k j * x i * x j) (fun k => (x i * x j) * (w k i * w k j))) by (intros; ring).
          rewrite zsum_scal. ring. }
      rewrite zsum_swap. reflexivity. }
  assert (Hsq : 0 <= zsum r (fun k => (zsum n (fun i => w k i * x i)) * (zsum n (fun i => w k i * x i)))).
  { apply zsum_nonneg. intros k _. apply Z.square_nonneg. }
  pose proof (dd_psd n R x Hdd) as HR.
  assert (0 <= K * quad n N x) by (rewrite E; nia).
  nia.
Qed.

(* ------------------------------------------------------------------ executable checker *)
Definition lget (M : list (list Z)) (i j : nat) : Z := nth j (nth i M []) 0.

Definition check_eq (n r : nat) (K c : Z) (N R W : list (list Z)) : bool :=
  forallb (fun i => forallb (fun j =>
     Z.eqb (K * lget N i j) (c * zsum r (fun k => lget W k i * lget W k j) + lget R i j)) (seq 0 n)) (seq 0 n).
Definition check_dd (n : nat) (R : list (list Z)) : bool :=
  forallb (fun i => forallb (fun j => Z.eqb (lget R i j) (lget R j i)) (seq 0 n)) (seq 0 n) &&
  forallb (fun i => Z.leb (zsum n (fun j => if Nat.eqb i j then 0 else Z.abs (lget R i j))) (lget R i i)) (seq 0 n).
Definition check_cert (n r : nat) (K c : Z) (N R W : list (list Z)) : bool :=
  Z.ltb 0 K && Z.leb 0 c && check_eq n r K c N R W && check_dd n R.

Lemma forallb_seq n f : forallb f (seq 0 n) = true <-> forall i, (i < n)%nat -> f i = true.
Proof.
  rewrite forallb_forall. split.
  - intros H i Hi. apply H. apply in_seq. lia.
  - intros H i Hi. apply in_seq in Hi. apply H. lia.
Qed.

Theorem check_cert_sound n r K c N R W : check_cert n r K c N R W = true ->
  forall x, 0 <= quad n (lget N) x.
Proof.
  unfold check_cert, check_eq, check_dd. rewrite !andb_true_iff.
  intros [[[HK Hc] Heq] [Hs Hd]] x.
  apply Z.ltb_lt in HK. apply Z.leb_le in Hc.
  apply (cert_sound n r K c (lget N) (lget R) (fun k i => lget W k i) x HK Hc).
  - intros i j Hi Hj. rewrite forallb_seq in Heq. specialize (Heq i Hi). rewrite forallb_seq in Heq.
    apply Z.eqb_eq. apply Heq. exact Hj.
  - split.
    + intros i j Hi Hj. rewrite forallb_seq in Hs. specialize (Hs i Hi). rewrite forallb_seq in Hs.
      apply Z.eqb_eq. apply Hs. exact Hj.
    + intros i Hi. rewrite forallb_seq in Hd. apply Z.leb_le. apply Hd. exact Hi.
Qed.

(* ------------------------------------------------------------------ what the certificate means for H *)
(* deflated, shifted matrix at integer scale: N = S2 * (H - sigma I) + sum_m mu_m v_m v_m^T *)
Definition deflate (S2 : Z) (H : nat -> nat -> Z) (sigma : Z) (m : nat) (mu : nat -> Z) (v : nat -> nat -> Z) : nat -> nat -> Z :=
  fun i j => S2 * (H i j - (if Nat.eqb i j then sigma else 0)) + zsum m (fun k => mu k * (v k i * v k j)).

Lemma quad_add n A B x : quad n (fun i j => A i j + B i j) x = quad n A x + quad n B x.
Proof.
  unfold quad. rewrite <- zsum_add. apply zsum_ext. intros i _. rewrite <- zsum_add. apply zsum_ext. intros j _. ring.
Qed.
Lemma quad_scal n c A x : quad n (fun i j => c * A i j) x = c * quad n A x.
Proof.
  unfold quad. rewrite <- zsum_scal. apply zsum_ext. intros i _. rewrite <- zsum_scal. apply zsum_ext. intros j _. ring.
Qed.
Lemma quad_diag n s x : quad n (fun i j => if Nat.eqb i j then s else 0) x = s * zsum n (fun i => x i * x i).
Proof.
  unfold quad. rewrite <- zsum_scal. apply zsum_ext. intros i Hi.
  rewrite (zsum_ext n _ (fun j => if Nat.eqb i j then s * (x i * x i) else 0)).
  - apply zsum_delta. exact Hi.
  - intros j Hj. destruct (Nat.eqb_spec i j) as [->|]; ring.
Qed.
Lemma quad_sum_outer n m mu v x :
  quad n (fun i j => zsum m (fun k => mu k * (v k i * v k j))) x =
  zsum m (fun k => mu k * ((zsum n (fun i => v k i * x i)) * (zsum n (fun i => v k i * x i)))).
Proof.
  induction m as [|m IH].
  - simpl. unfold quad. rewrite (zsum_ext n _ (fun _ => 0)); [apply zsum_zero|].
    intros i _. rewrite (zsum_ext n _ (fun _ => 0)); [apply zsum_zero|]. intros; ring.
  - simpl. rewrite quad_add, IH, quad_scal, quad_outer. reflexivity.
Qed.

(* THE LOWER-BOUND STATEMENT: if the certificate for the deflated matrix checks, then every
   integer vector orthogonal to v_1..v_m has Rayleigh quotient >= sigma (at the integer scale) *)
Theorem lower_bound_sound n r K c S2 H sigma m mu v R W Nl :
  0 < S2 ->
  (forall i j, (i < n)%nat -> (j < n)%nat -> lget Nl i j = deflate S2 H sigma m mu v i j) ->
  check_cert n r K c Nl R W = true ->
  forall x, (forall k, (k < m)%nat -> zsum n (fun i => v k i * x i) = 0) ->
  sigma * zsum n (fun i => x i * x i) <= quad n H x.
Proof.
  intros HS HN Hchk x Hort.
  pose proof (check_cert_sound n r K c Nl R W Hchk x) as Hpos.
  assert (E : quad n (lget Nl) x = S2 * (quad n H x - sigma * zsum n (fun i => x i * x i))).
  { transitivity (quad n (deflate S2 H sigma m mu v) x).
    - unfold quad. apply zsum_ext. intros i Hi. apply zsum_ext. intros j Hj. rewrite HN by assumption. reflexivity.
    - unfold deflate. rewrite quad_add, quad_sum_outer.
      rewrite (zsum_ext m _ (fun _ => 0)) by (intros k Hk; rewrite (Hort k Hk); ring). rewrite zsum_zero.
      rewrite quad_scal.
      assert (E2 : quad n (fun i j => H i j - (if Nat.eqb i j then sigma else 0)) x =
                   quad n H x + quad n (fun i j => (-1) * (if Nat.eqb i j then sigma else 0)) x).
      { rewrite <- quad_add. unfold quad. apply zsum_ext. intros i _. apply zsum_ext. intros j _. ring. }
      rewrite E2, quad_scal, quad_diag. ring. }
  rewrite E in Hpos. nia.
Qed.
