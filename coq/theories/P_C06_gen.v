(* P_C06_gen.v — C06: theorems about the sorts REGENERATED from the current fqe/util.py (Gen_util_sorts.v).
   Only statements closed by `exact`, each followed by Print Assumptions. *)
From Coq Require Import List Bool Arith.
From FQE Require Import Car Fock Sort CxProg Equiv_sorts.
From FQE.gen Require Import Gen_util_sorts.

Theorem C06_source_paritysort_list_sound : forall mode l, modes_distinguish mode l ->
  forall d, string_fn (snd (py_paritysort_list mode l)) d
          = sflip (Nat.odd (fst (py_paritysort_list mode l))) (string_fn l d).
Proof. exact py_paritysort_list_sound. Qed.
Print Assumptions C06_source_paritysort_list_sound.

Theorem C06_source_reverse_bubble_list_sound : forall mode l, modes_distinguish mode l ->
  forall d, string_fn (snd (py_reverse_bubble_list mode l)) d
          = sflip (Nat.odd (fst (py_reverse_bubble_list mode l))) (string_fn l d).
Proof. exact py_reverse_bubble_list_sound. Qed.
Print Assumptions C06_source_reverse_bubble_list_sound.

Theorem C06_source_bubblesort_sound : forall mode l, modes_distinguish mode l ->
  forall d, string_fn (snd (py_bubblesort mode l)) d
          = sflip (Nat.odd (fst (py_bubblesort mode l))) (string_fn l d).
Proof. exact py_bubblesort_sound. Qed.
Print Assumptions C06_source_bubblesort_sound.

Theorem C06_source_sorts_permute : forall mode l u,
  (In u (snd (py_paritysort_list mode l)) <-> In u l) /\
  (In u (snd (py_reverse_bubble_list mode l)) <-> In u l) /\
  (In u (snd (py_bubblesort mode l)) <-> In u l).
Proof. exact py_sorts_permute. Qed.
Print Assumptions C06_source_sorts_permute.

(* any compare-exchange sequence whatsoever is sound: the statement above does not hinge on the loop bounds *)
Theorem C06_any_exchange_sequence_sound : forall gt prog l, cx_ok gt l ->
  forall d, string_fn (snd (cx_run gt prog l)) d = sflip (Nat.odd (fst (cx_run gt prog l))) (string_fn l d).
Proof. exact cx_run_sound. Qed.
Print Assumptions C06_any_exchange_sequence_sound.

Theorem C06_idle_pass_is_fixpoint : forall gt prog l, fst (cx_run gt prog l) = 0 -> snd (cx_run gt prog l) = l.
Proof. exact cx_pass_fixpoint. Qed.
Print Assumptions C06_idle_pass_is_fixpoint.

(* ... and the regenerated programs sort (SortThm.v): alpha (even index) before beta (odd index); descending index;
   ascending index *)
From Coq Require Import Sorted.
Theorem C06_source_paritysort_list_sorts : forall mode l,
  StronglySorted (fun x y => Nat.modulo (mode x) 2 <= Nat.modulo (mode y) 2) (snd (py_paritysort_list mode l)).
Proof. exact py_paritysort_list_sorts_key. Qed.
Print Assumptions C06_source_paritysort_list_sorts.

Theorem C06_source_reverse_bubble_list_sorts : forall mode l,
  StronglySorted (fun x y => mode y <= mode x) (snd (py_reverse_bubble_list mode l)).
Proof. exact py_reverse_bubble_list_sorts_key. Qed.
Print Assumptions C06_source_reverse_bubble_list_sorts.

Theorem C06_source_bubblesort_sorts : forall mode l,
  StronglySorted (fun x y => mode x <= mode y) (snd (py_bubblesort mode l)).
Proof. exact py_bubblesort_sorts_key. Qed.
Print Assumptions C06_source_bubblesort_sorts.
