(* CirqThm.v — C07: applying a fermionic ladder operator before the export equals
   applying its qubit (mode-ordered) image after it. *)
From Coq Require Import NArith List Bool Arith Lia.
From FQE Require Import Car Fock GaussZ Bits Reorder Cirq Model.
Import ListNotations.

Lemma pi_conv_lt norb p : p < 2 * norb -> pi_conv norb p < 2 * norb.
Proof. unfold pi_conv. intros H. destruct (Nat.ltb_spec p norb); lia. Qed.

Lemma pi_conv_inj norb p q : p < 2 * norb -> q < 2 * norb -> pi_conv norb p = pi_conv norb q -> p = q.
Proof.
  unfold pi_conv. intros Hp Hq. destruct (Nat.ltb_spec p norb); destruct (Nat.ltb_spec q norb); lia.
Qed.

(* the position of a spin orbital in FQE's convention is sent to its OpenFermion mode *)
Lemma pi_conv_pos_of norb beta i : i < norb -> pi_conv norb (pos_of norb beta i) = mode_of beta i.
Proof.
  intros Hi. unfold pi_conv, pos_of, mode_of. destruct beta.
  - destruct (Nat.ltb_spec (norb + (norb - 1 - i)) norb); lia.
  - destruct (Nat.ltb_spec (0 + (norb - 1 - i)) norb); lia.
Qed.

Lemma det_conv_length norb a b : length (det_conv norb a b) = 2 * norb.
Proof. unfold det_conv, bits. rewrite app_length, !rev_length, !map_length, !seq_length. lia. Qed.

(* EXPORT INTERTWINES every ladder operator, on every determinant of every sector *)
Theorem export_intertwines_cre norb beta i (d : det) : i < norb -> length d = 2 * norb ->
  slift (2 * norb) (pi_conv norb) (cre (pos_of norb beta i) d) 0 =
  sbind (cre (mode_of beta i)) (build (2 * norb) (pi_conv norb) 0 d).
Proof.
  intros Hi Hl.
  rewrite (build_cre (2 * norb) (pi_conv norb) (2 * norb) (pi_conv_inj norb) (pos_of norb beta i) d 0).
  - simpl. rewrite pi_conv_pos_of by exact Hi. reflexivity.
  - rewrite Hl. unfold pos_of. destruct beta; lia.
  - rewrite Hl. lia.
Qed.

Theorem export_intertwines_ann norb beta i (d : det) : i < norb -> length d = 2 * norb ->
  slift (2 * norb) (pi_conv norb) (ann (pos_of norb beta i) d) 0 =
  sbind (ann (mode_of beta i)) (build (2 * norb) (pi_conv norb) 0 d).
Proof.
  intros Hi Hl.
  rewrite (build_ann (2 * norb) (pi_conv norb) (2 * norb) (pi_conv_lt norb) (pi_conv_inj norb) (pos_of norb beta i) d 0).
  - simpl. rewrite pi_conv_pos_of by exact Hi. reflexivity.
  - rewrite Hl. unfold pos_of. destruct beta; lia.
  - rewrite Hl. lia.
Qed.

(* ---------- totality, unit sign, injectivity of the determinant-level export ---------- *)
Theorem build_conv_total norb (d : det) : length d = 2 * norb ->
  exists s e, build (2 * norb) (pi_conv norb) 0 d = Some (s, e) /\ length e = 2 * norb.
Proof.
  intros L.
  destruct (build_some (2 * norb) (pi_conv norb) (2 * norb) (pi_conv_lt norb) (pi_conv_inj norb) d 0 ltac:(lia)) as [s [e E]].
  exists s, e. split; [exact E|].
  apply (build_occ (2 * norb) (pi_conv norb) (2 * norb) d 0 s e ltac:(lia) E).
Qed.

Theorem build_conv_injective norb d1 d2 s1 s2 e : length d1 = 2 * norb -> length d2 = 2 * norb ->
  build (2 * norb) (pi_conv norb) 0 d1 = Some (s1, e) ->
  build (2 * norb) (pi_conv norb) 0 d2 = Some (s2, e) -> d1 = d2.
Proof. apply (build_injective (2 * norb) (pi_conv norb) (2 * norb) (pi_conv_inj norb)). Qed.

(* mode q of the exported determinant is occupied iff the spin orbital it stands for is *)
Theorem build_conv_occupation norb d s e beta i : length d = 2 * norb -> i < norb ->
  build (2 * norb) (pi_conv norb) 0 d = Some (s, e) ->
  nth (mode_of beta i) e false = nth (pos_of norb beta i) d false.
Proof.
  intros L Hi H. rewrite <- (pi_conv_pos_of norb beta i Hi).
  apply (build_occ_at (2 * norb) (pi_conv norb) (2 * norb) (pi_conv_inj norb) d s e); try assumption.
  unfold pos_of. destruct beta; lia.
Qed.

(* the sign is a unit: exporting then undoing the sign is the identity on amplitudes *)
Lemma gsg_involutive s z : gsg s (gsg s z) = z.
Proof. destruct s; simpl; [|reflexivity]. unfold gzopp. destruct z as [x y]. simpl. f_equal; lia. Qed.

Lemma gsg_norm s z : gznorm2 (gsg s z) = gznorm2 z.
Proof. destruct s; simpl; [|reflexivity]. unfold gznorm2, gzopp. destruct z as [x y]. simpl. lia. Qed.

(* big-endian index is injective on bit lists of equal length *)
Lemma of_bits_inj : forall l1 l2, length l1 = length l2 -> of_bits l1 = of_bits l2 -> l1 = l2.
Proof.
  induction l1 as [|b r IH]; intros [|b' r'] L H; cbn [of_bits length] in *; try discriminate; [reflexivity|].
  assert (b = b' /\ of_bits r = of_bits r') as [-> E] by (destruct b, b'; split; try reflexivity; lia).
  f_equal. apply IH; [lia|exact E].
Qed.

Lemma be_index_inj q1 q2 : length q1 = length q2 -> be_index q1 = be_index q2 -> q1 = q2.
Proof.
  unfold be_index. intros L H. apply of_bits_inj in H; [|rewrite !rev_length; exact L].
  rewrite <- (rev_involutive q1), <- (rev_involutive q2). f_equal. exact H.
Qed.

Lemma parity_in_single d k : parity_in d [k] = nth k d false.
Proof. unfold parity_in. simpl. destruct (nth k d false); reflexivity. Qed.

Theorem jw_code_identity : forall d, encode (jw_code (length d)) d = d.
Proof.
  intros d. unfold encode, jw_code. rewrite map_map.
  apply nth_ext with (d := false) (d' := false); [rewrite map_length, seq_length; reflexivity|].
  intros n Hn. rewrite map_length, seq_length in Hn.
  rewrite (nth_indep _ false (parity_in d [0])) by (rewrite map_length, seq_length; exact Hn).
  rewrite (map_nth (fun k => parity_in d [k]) (seq 0 (length d)) 0 n).
  rewrite seq_nth by exact Hn. simpl. apply parity_in_single.
Qed.

(* Jordan-Wigner export: two determinants never share an index *)
Theorem export_det_jw_injective norb a b a' b' s s' ix :
  export_det norb (jw_code (2 * norb)) a b = Some (s, ix) ->
  export_det norb (jw_code (2 * norb)) a' b' = Some (s', ix) ->
  det_conv norb a b = det_conv norb a' b'.
Proof.
  unfold export_det. intros H1 H2.
  destruct (build_conv_total norb (det_conv norb a b) (det_conv_length norb a b)) as [s1 [e1 [E1 L1]]].
  destruct (build_conv_total norb (det_conv norb a' b') (det_conv_length norb a' b')) as [s2 [e2 [E2 L2]]].
  rewrite E1 in H1. rewrite E2 in H2. inversion H1; subst. inversion H2 as [[Hs Hix]].
  assert (J1 := jw_code_identity e1). rewrite L1 in J1. assert (J2 := jw_code_identity e2). rewrite L2 in J2.
  change (norb + (norb + 0)) with (2 * norb) in Hix. rewrite J1, J2 in Hix.
  apply be_index_inj in Hix; [|lia]. subst e2.
  eapply build_conv_injective; [apply det_conv_length|apply det_conv_length|exact E1|exact E2].
Qed.

(* ... and export is total on determinants *)
Theorem export_det_total norb c a b : exists s ix, export_det norb c a b = Some (s, ix).
Proof.
  unfold export_det.
  destruct (build_conv_total norb (det_conv norb a b) (det_conv_length norb a b)) as [s [e [E _]]].
  rewrite E. eauto.
Qed.

(* strings below 2^norb are determined by their occupation lists *)
Lemma bits_inj norb a a' : (a < 2 ^ N.of_nat norb)%N -> (a' < 2 ^ N.of_nat norb)%N -> bits norb a = bits norb a' -> a = a'.
Proof.
  intros Ha Ha' H. apply N.bits_inj. intros k.
  destruct (N.lt_ge_cases k (N.of_nat norb)) as [Hk|Hk].
  - assert (nth (N.to_nat k) (bits norb a) false = nth (N.to_nat k) (bits norb a') false) as E by (rewrite H; reflexivity).
    unfold bits in E.
    rewrite !(nth_indep _ false (tb a 0)), (nth_indep (map (tb a') _) _ (tb a' 0)) in E
      by (rewrite map_length, seq_length; lia).
    rewrite (map_nth (tb a)), (map_nth (tb a')) in E. rewrite seq_nth in E by lia. simpl in E.
    unfold tb in E. rewrite N2Nat.id in E. exact E.
  - assert (forall x, (x < 2 ^ N.of_nat norb)%N -> N.testbit x k = false) as Z.
    { intros x Hx. destruct (N.eq_dec x 0) as [->|Hx0]; [apply N.bits_0|].
      apply N.bits_above_log2. apply N.log2_lt_pow2 in Hx; lia. }
    rewrite (Z a Ha), (Z a' Ha'). reflexivity.
Qed.

Lemma app_inv_length {A} : forall (l1 l2 r1 r2 : list A), length l1 = length l2 -> l1 ++ r1 = l2 ++ r2 -> l1 = l2 /\ r1 = r2.
Proof.
  induction l1 as [|x l1 IH]; intros [|y l2] r1 r2 L H; simpl in *; try discriminate; [auto|].
  inversion H; subst. destruct (IH l2 r1 r2 ltac:(lia) ltac:(assumption)) as [-> ->]. auto.
Qed.

Theorem det_conv_inj norb a b a' b' :
  (a < 2 ^ N.of_nat norb)%N -> (a' < 2 ^ N.of_nat norb)%N -> (b < 2 ^ N.of_nat norb)%N -> (b' < 2 ^ N.of_nat norb)%N ->
  det_conv norb a b = det_conv norb a' b' -> a = a' /\ b = b'.
Proof.
  intros Ha Ha' Hb Hb' H. unfold det_conv in H.
  assert (L : length (rev (bits norb a)) = length (rev (bits norb a'))) by (unfold bits; rewrite !rev_length, !map_length; reflexivity).
  destruct (app_inv_length _ _ _ _ L H) as [E1 E2].
  split; apply (bits_inj norb); try assumption.
  - rewrite <- (rev_involutive (bits norb a)), E1. apply rev_involutive.
  - rewrite <- (rev_involutive (bits norb b)), E2. apply rev_involutive.
Qed.

(* ---------- round trip: the amplitude import reads back at the exported index ---------- *)
Fixpoint lookupAB (a b : N) (v : list (N * N * gz)) : gz :=
  match v with
  | [] => gz0
  | (a0, b0, z) :: r => if andb (N.eqb a0 a) (N.eqb b0 b) then z else lookupAB a b r
  end.

Theorem import_export_amplitude norb a b s ix : forall v,
  (forall a0 b0 z, In (a0, b0, z) v -> (a0 < 2 ^ N.of_nat norb)%N /\ (b0 < 2 ^ N.of_nat norb)%N) ->
  (a < 2 ^ N.of_nat norb)%N -> (b < 2 ^ N.of_nat norb)%N ->
  export_det norb (jw_code (2 * norb)) a b = Some (s, ix) ->
  gsg s (lookupN ix (export norb (jw_code (2 * norb)) v)) = lookupAB a b v.
Proof.
  intros v Hv Ha Hb He. induction v as [|[[a0 b0] z0] r IH].
  - simpl. destruct s; reflexivity.
  - cbn [export flat_map lookupAB].
    destruct (export_det_total norb (jw_code (2 * norb)) a0 b0) as [s0 [ix0 E0]]. rewrite E0.
    cbn [app lookupN].
    destruct (Hv a0 b0 z0 (or_introl eq_refl)) as [Ha0 Hb0].
    assert (IH' := IH (fun a1 b1 z1 H => Hv a1 b1 z1 (or_intror H))).
    destruct (N.eqb_spec ix0 ix) as [->|Hne].
    + destruct (det_conv_inj norb a0 b0 a b Ha0 Ha Hb0 Hb
                  (export_det_jw_injective norb a0 b0 a b s0 s ix E0 He)) as [-> ->].
      rewrite !N.eqb_refl. simpl. rewrite E0 in He. inversion He; subst. apply gsg_involutive.
    + destruct (andb (N.eqb a0 a) (N.eqb b0 b)) eqn:K.
      * apply andb_true_iff in K. destruct K as [K1 K2]. apply N.eqb_eq in K1, K2. subst.
        rewrite E0 in He. inversion He; subst. contradiction.
      * exact IH'.
Qed.
