(* P_C10_zmat.v — C10, on the loop nest REGENERATED from the current lib/fci_graph.c: the iterations of the
   `#pragma omp parallel for collapse(2)` nest of calculate_Z_matrix (and the serial last-row loop) write pairwise
   different cells of the output table, so by C10_interleaving_irrelevant their order and interleaving cannot matter. *)
From Coq Require Import ZArith List.
From FQE Require Import GenBase Addr GenLoops Equiv_zmat_c.
From FQE.gen Require Import Gen_zmatrix_c.
Local Open Scope Z_scope.

Theorem C10_zmatrix_single_writer : forall norb nele x y, 1 <= nele <= norb ->
  In x (c_calculate_Z_matrix_assigns norb nele) -> In y (c_calculate_Z_matrix_assigns norb nele) ->
  fst x = fst y -> x = y.
Proof. exact c_zmat_single_writer. Qed.
Print Assumptions C10_zmatrix_single_writer.
