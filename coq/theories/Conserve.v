(* Conserve.v — C09: conservation laws at the level of vectors, for every polynomial
   propagator.

   1. Sector closure.  If every string of a polynomial H has zero shift on a block of positions
      (sel = the alpha block, the beta block, all positions: it conserves n_alpha, n_beta, N),
      then H maps vectors supported on block occupation k to vectors supported on occupation k;
      so does every power H^m and every finite linear combination  sum_m c_m H^m psi  - which is
      what the Taylor and Chebyshev propagators return.  Coefficients outside the sector are
      exactly zero.
   2. Commuting observables.  If Q commutes with H (as actions on all vectors) and psi is an
      eigenvector of Q, then H^m psi and every linear combination of such vectors is an
      eigenvector of Q with the same eigenvalue (S^2 under a spin-symmetric Hamiltonian).
   Over any commutative ring. *)
From Coq Require Import ZArith List Bool Arith Lia Ring.
From FQE Require Import Car Fock ApplyThm.
Import ListNotations.

Section Conserve.
Variable R : Type.
Variables (rO rI : R) (radd rmul rsub : R -> R -> R) (ropp : R -> R).
Hypothesis Rth : ring_theory rO rI radd rmul rsub ropp (@eq R).
Add Ring Rr_cons : Rth.

Notation coeff := (coeff R rO radd).
Notation act_string := (act_string R ropp).
Notation act_poly := (act_poly R rmul ropp).
Notation vscale := (vscale R rmul).
Notation vec := (vec R).
Notation poly := (poly R).

Definition supported (P : det -> Prop) (v : vec) : Prop := forall e c, In (e, c) v -> P e.

Lemma supported_app P u v : supported P u -> supported P v -> supported P (u ++ v).
Proof. intros Hu Hv e c Hin. apply in_app_or in Hin. destruct Hin; [eapply Hu|eapply Hv]; eauto. Qed.

Lemma supported_vscale P a v : supported P v -> supported P (vscale a v).
Proof.
  intros Hv e c Hin. unfold Fock.vscale in Hin. apply in_map_iff in Hin.
  destruct Hin as [[e0 c0] [Heq Hin]]. inversion Heq; subst. eapply Hv; eauto.
Qed.

Lemma supported_nil P : supported P [].
Proof. intros e c []. Qed.

(* a coefficient outside the support is exactly zero *)
Lemma coeff_outside P v d : supported P v -> ~ P d -> coeff v d = rO.
Proof.
  intros Hs Hd. induction v as [|[e c] v IH]; [reflexivity|]. cbn [Fock.coeff].
  rewrite IH by (intros e' c' Hin; apply (Hs e' c'); right; exact Hin).
  destruct (det_eqb e d) eqn:E.
  - apply det_eqb_spec in E. subst e. exfalso. apply Hd. apply (Hs d c). left. reflexivity.
  - ring.
Qed.

Definition in_sector (sel : nat -> bool) (k : nat) (e : det) : Prop := nocc_in sel 0 e = k.
Definition conserves (sel : nat -> bool) (p : poly) : Prop :=
  forall t, In t p -> string_shift sel (snd t) = 0%Z.

Lemma sector_closed_string sel k ops v :
  string_shift sel ops = 0%Z -> supported (in_sector sel k) v -> supported (in_sector sel k) (act_string ops v).
Proof.
  intros H0 Hv e c Hin. unfold Fock.act_string, Fock.lift in Hin. apply in_flat_map in Hin.
  destruct Hin as [[e0 c0] [Hin0 Hin1]]. unfold Fock.lift1 in Hin1. cbn [fst snd] in Hin1.
  destruct (string_fn ops e0) as [[s e1]|] eqn:E; [|contradiction].
  destruct Hin1 as [Heq|[]]. inversion Heq; subst.
  unfold in_sector. rewrite (string_preserves_sector sel ops e0 s e H0 E). apply (Hv e0 c0 Hin0).
Qed.

Theorem sector_closed_poly sel k p v :
  conserves sel p -> supported (in_sector sel k) v -> supported (in_sector sel k) (act_poly p v).
Proof.
  intros Hp Hv. unfold Fock.act_poly. induction p as [|[c ops] p IH]; [apply supported_nil|].
  cbn [flat_map]. apply supported_app.
  - apply supported_vscale. apply sector_closed_string; [|exact Hv].
    apply (Hp (c, ops)). left. reflexivity.
  - apply IH. intros t Ht. apply Hp. right. exact Ht.
Qed.

(* H^m psi *)
Fixpoint pow_act (p : poly) (m : nat) (v : vec) : vec :=
  match m with O => v | S m' => act_poly p (pow_act p m' v) end.

Theorem sector_closed_pow sel k p m v :
  conserves sel p -> supported (in_sector sel k) v -> supported (in_sector sel k) (pow_act p m v).
Proof.
  intros Hp Hv. induction m as [|m IH]; [exact Hv|]. cbn [pow_act]. apply sector_closed_poly; assumption.
Qed.

(* sum_m c_m H^m psi: every truncated Taylor series, every Chebyshev expansion, every Krylov vector *)
Definition lincomb (p : poly) (cs : list (R * nat)) (v : vec) : vec :=
  flat_map (fun cm => vscale (fst cm) (pow_act p (snd cm) v)) cs.

Theorem sector_closed_lincomb sel k p cs v :
  conserves sel p -> supported (in_sector sel k) v -> supported (in_sector sel k) (lincomb p cs v).
Proof.
  intros Hp Hv. unfold lincomb. induction cs as [|[c m] cs IH]; [apply supported_nil|].
  cbn [flat_map]. apply supported_app; [|exact IH].
  apply supported_vscale. apply sector_closed_pow; assumption.
Qed.

Corollary propagated_amplitude_outside_sector_is_zero sel k p cs v d :
  conserves sel p -> supported (in_sector sel k) v -> nocc_in sel 0 d <> k ->
  coeff (lincomb p cs v) d = rO.
Proof.
  intros Hp Hv Hd. apply (coeff_outside (in_sector sel k)); [|exact Hd].
  apply sector_closed_lincomb; assumption.
Qed.

(* ---- commuting observables *)
Definition coeq (u v : vec) : Prop := forall d, coeff u d = coeff v d.
Definition commute (p q : poly) : Prop := forall v, coeq (act_poly q (act_poly p v)) (act_poly p (act_poly q v)).
Definition eigen (q : poly) (lam : R) (v : vec) : Prop := coeq (act_poly q v) (vscale lam v).

Lemma coeq_trans u v w : coeq u v -> coeq v w -> coeq u w.
Proof. intros A B d. rewrite A. apply B. Qed.

Lemma act_poly_nil p : act_poly p [] = [].
Proof. unfold Fock.act_poly. induction p as [|[c ops] p IH]; [reflexivity|]. cbn [flat_map]. rewrite IH. reflexivity. Qed.

Lemma act_poly_vscale p a v : coeq (act_poly p (vscale a v)) (vscale a (act_poly p v)).
Proof.
  intros d. rewrite (coeff_vscale R rO rI radd rmul rsub ropp Rth).
  pose proof (act_poly_linear R rO rI radd rmul rsub ropp Rth p a v [] d) as L.
  unfold vadd in L. rewrite app_nil_r in L. rewrite L.
  assert (Z : coeff (act_poly p []) d = rO) by (rewrite act_poly_nil; reflexivity).
  rewrite Z. ring.
Qed.

Theorem commuting_preserves_eigen p q lam v :
  commute p q -> eigen q lam v -> eigen q lam (act_poly p v).
Proof.
  intros C E. unfold eigen in *.
  eapply coeq_trans; [apply C|].
  eapply coeq_trans; [|apply act_poly_vscale].
  intros d. apply (act_poly_proper R rO rI radd rmul rsub ropp Rth). exact E.
Qed.

Theorem commuting_preserves_eigen_pow p q lam m v :
  commute p q -> eigen q lam v -> eigen q lam (pow_act p m v).
Proof.
  intros C E. induction m as [|m IH]; [exact E|]. cbn [pow_act]. apply commuting_preserves_eigen; assumption.
Qed.

Lemma act_poly_app_vec q u v : coeq (act_poly q (u ++ v)) (act_poly q u ++ act_poly q v).
Proof.
  intros d. rewrite (coeff_app R rO rI radd rmul rsub ropp Rth).
  rewrite !(coeff_act_poly R rO rI radd rmul rsub ropp Rth).
  induction q as [|[c ops] q IH]; cbn [fold_right fst snd]; [ring|].
  rewrite IH. unfold Fock.act_string. rewrite (lift_app R ropp).
  rewrite (coeff_app R rO rI radd rmul rsub ropp Rth). ring.
Qed.

Theorem commuting_preserves_eigen_lincomb p q lam cs v :
  commute p q -> eigen q lam v -> eigen q lam (lincomb p cs v).
Proof.
  intros C E. unfold lincomb. induction cs as [|[c m] cs IH].
  - cbn [flat_map]. intros d. rewrite act_poly_nil. rewrite (coeff_vscale R rO rI radd rmul rsub ropp Rth). cbn [Fock.coeff]. ring.
  - cbn [flat_map fst snd]. unfold eigen in *. intros d.
    rewrite (act_poly_app_vec q _ _ d).
    rewrite (coeff_app R rO rI radd rmul rsub ropp Rth).
    rewrite (IH d).
    rewrite (act_poly_vscale q c (pow_act p m v) d).
    rewrite !(coeff_vscale R rO rI radd rmul rsub ropp Rth).
    rewrite (commuting_preserves_eigen_pow p q lam m v C E d).
    rewrite (coeff_app R rO rI radd rmul rsub ropp Rth).
    rewrite !(coeff_vscale R rO rI radd rmul rsub ropp Rth). ring.
Qed.
End Conserve.
