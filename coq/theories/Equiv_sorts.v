(* Equiv_sorts.v — the swap-counting sorts of fqe/util.py, REGENERATED from the current source as
   compare-exchange programs (gen/Gen_util_sorts.v: number of passes, positions visited by pass i,
   comparison relation and key; a pass without exchange ends the sort), reorder an operator string
   so that  (-1)^(returned count) * reordered string  acts exactly like the original string, and
   return a permutation of their input — every string in which operators of different mode index
   sit on different positions, every determinant.  (CxProg.v proves this for EVERY sequence of
   compare-exchange positions, so the statement does not depend on the loop bounds being the ones
   of a bubble sort; that the loops do sort is established by the correspondence of C06.) *)
From Coq Require Import List Bool Arith.
From FQE Require Import Car Fock Sort CxProg.
From FQE.gen Require Import Gen_util_sorts.
Import ListNotations.

Definition py_paritysort_list (mode : lop -> nat) :=
  sort_run py_paritysort_list_npasses py_paritysort_list_pass py_paritysort_list_rel py_paritysort_list_key mode.
Definition py_reverse_bubble_list (mode : lop -> nat) :=
  sort_run py_reverse_bubble_list_npasses py_reverse_bubble_list_pass py_reverse_bubble_list_rel py_reverse_bubble_list_key mode.
Definition py_bubblesort (mode : lop -> nat) :=
  sort_run py_bubblesort_npasses py_bubblesort_pass py_bubblesort_rel py_bubblesort_key mode.

Definition modes_distinguish (mode : lop -> nat) (l : list lop) : Prop :=
  forall u v, In u l -> In v l -> mode u <> mode v -> opos u <> opos v.

Theorem py_paritysort_list_sound mode l : modes_distinguish mode l ->
  forall d, string_fn (snd (py_paritysort_list mode l)) d
          = sflip (Nat.odd (fst (py_paritysort_list mode l))) (string_fn l d).
Proof. apply sort_run_sound. Qed.

Theorem py_reverse_bubble_list_sound mode l : modes_distinguish mode l ->
  forall d, string_fn (snd (py_reverse_bubble_list mode l)) d
          = sflip (Nat.odd (fst (py_reverse_bubble_list mode l))) (string_fn l d).
Proof. apply sort_run_sound. Qed.

Theorem py_bubblesort_sound mode l : modes_distinguish mode l ->
  forall d, string_fn (snd (py_bubblesort mode l)) d
          = sflip (Nat.odd (fst (py_bubblesort mode l))) (string_fn l d).
Proof. apply sort_run_sound. Qed.

Theorem py_sorts_permute mode l u :
  (In u (snd (py_paritysort_list mode l)) <-> In u l) /\
  (In u (snd (py_reverse_bubble_list mode l)) <-> In u l) /\
  (In u (snd (py_bubblesort mode l)) <-> In u l).
Proof. repeat split; apply sort_run_perm. Qed.

(* the regenerated programs and the hand-written mirror of Sort.v (the one the extracted model runs) agree on a sample
   that exercises every pass, the early exit and both relations: a smoke test, not the tie (the tie is the theorem
   above for the regenerated program and the C06 correspondence for the mirror) *)
Definition sample : list lop :=
  [mkop 5 true; mkop 2 true; mkop 7 false; mkop 0 true; mkop 3 false; mkop 4 true; mkop 1 false].
Example py_paritysort_matches_mirror :
  py_paritysort_list opos sample = bubble (mode_parity_gt opos) sample.
Proof. vm_compute. reflexivity. Qed.
Example py_reverse_bubble_matches_mirror :
  py_reverse_bubble_list opos sample = bubble (mode_lt opos) sample.
Proof. vm_compute. reflexivity. Qed.
