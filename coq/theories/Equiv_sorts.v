(* Equiv_sorts.v — the swap-counting sorts of fqe/util.py, REGENERATED from the current source as
   compare-exchange programs (gen/Gen_util_sorts.v: number of passes, positions visited by pass i,
   comparison relation and key; a pass without exchange ends the sort), reorder an operator string
   so that  (-1)^(returned count) * reordered string  acts exactly like the original string, and
   return a permutation of their input — every string in which operators of different mode index
   sit on different positions, every determinant.  (CxProg.v proves this for EVERY sequence of
   compare-exchange positions, so the statement does not depend on the loop bounds being the ones
   of a bubble sort; that the loops do sort is established by the correspondence of C06.) *)
From Coq Require Import List Bool Arith.
From FQE Require Import Car Fock Sort CxProg.
From FQE.gen Require Import Gen_util_sorts.
Import ListNotations.

Definition py_paritysort_list (mode : lop -> nat) :=
  sort_run py_paritysort_list_npasses py_paritysort_list_pass py_paritysort_list_rel py_paritysort_list_key mode.
Definition py_reverse_bubble_list (mode : lop -> nat) :=
  sort_run py_reverse_bubble_list_npasses py_reverse_bubble_list_pass py_reverse_bubble_list_rel py_reverse_bubble_list_key mode.
Definition py_bubblesort (mode : lop -> nat) :=
  sort_run py_bubblesort_npasses py_bubblesort_pass py_bubblesort_rel py_bubblesort_key mode.

Definition modes_distinguish (mode : lop -> nat) (l : list lop) : Prop :=
  forall u v, In u l -> In v l -> mode u <> mode v -> opos u <> opos v.

Theorem py_paritysort_list_sound mode l : modes_distinguish mode l ->
  forall d, string_fn (snd (py_paritysort_list mode l)) d
          = sflip (Nat.odd (fst (py_paritysort_list mode l))) (string_fn l d).
Proof. apply sort_run_sound. Qed.

Theorem py_reverse_bubble_list_sound mode l : modes_distinguish mode l ->
  forall d, string_fn (snd (py_reverse_bubble_list mode l)) d
          = sflip (Nat.odd (fst (py_reverse_bubble_list mode l))) (string_fn l d).
Proof. apply sort_run_sound. Qed.

Theorem py_bubblesort_sound mode l : modes_distinguish mode l ->
  forall d, string_fn (snd (py_bubblesort mode l)) d
          = sflip (Nat.odd (fst (py_bubblesort mode l))) (string_fn l d).
Proof. apply sort_run_sound. Qed.

Theorem py_sorts_permute mode l u :
  (In u (snd (py_paritysort_list mode l)) <-> In u l) /\
  (In u (snd (py_reverse_bubble_list mode l)) <-> In u l) /\
  (In u (snd (py_bubblesort mode l)) <-> In u l).
Proof. repeat split; apply sort_run_perm. Qed.

(* the regenerated programs and the hand-written mirror of Sort.v (the one the extracted model runs) agree on a sample
   that exercises every pass, the early exit and both relations: a smoke test, not the tie (the tie is the theorem
   above for the regenerated program and the C06 correspondence for the mirror) *)
Definition sample : list lop :=
  [mkop 5 true; mkop 2 true; mkop 7 false; mkop 0 true; mkop 3 false; mkop 4 true; mkop 1 false].
Example py_paritysort_matches_mirror :
  py_paritysort_list opos sample = bubble (mode_parity_gt opos) sample.
Proof. vm_compute. reflexivity. Qed.
Example py_reverse_bubble_matches_mirror :
  py_reverse_bubble_list opos sample = bubble (mode_lt opos) sample.
Proof. vm_compute. reflexivity. Qed.

(* ---- and they sort (SortThm.v): the regenerated pass structure is the one of a bubble sort *)
From Coq Require Import Sorted Lia.
From FQE Require Import SortThm.

Lemma exchange_total r k mode x y :
  exchange_when r k mode x y = false \/ exchange_when r k mode y x = false.
Proof.
  unfold exchange_when, rel_of. destruct r.
  - destruct (Nat.ltb_spec (key_of k mode y) (key_of k mode x)); [right|left; reflexivity].
    apply Nat.ltb_ge. lia.
  - destruct (Nat.ltb_spec (key_of k mode x) (key_of k mode y)); [right|left; reflexivity].
    apply Nat.ltb_ge. lia.
Qed.

Lemma exchange_trans r k mode x y z :
  exchange_when r k mode x y = false -> exchange_when r k mode y z = false -> exchange_when r k mode x z = false.
Proof.
  unfold exchange_when, rel_of. destruct r; rewrite !Nat.ltb_ge; lia.
Qed.

Lemma sort_run_is_bubble npasses pass r k mode l :
  (forall n, npasses n = n) -> (forall n i, pass n i = pass_of n i) ->
  sort_run npasses pass r k mode l
  = run_passes (exchange_when r k mode) (map (pass_of (length l)) (seq 0 (length l))) l.
Proof.
  intros Hn Hp. unfold sort_run. rewrite Hn. f_equal. apply map_ext. intros i. apply Hp.
Qed.

Lemma py_pass_is_bubble_pass n i : seq 0 (n - i - 1 - 0) = pass_of n i.
Proof. unfold pass_of. rewrite Nat.sub_0_r. reflexivity. Qed.

Definition ordered (r : sort_rel) (k : sort_key) (mode : lop -> nat) (x y : lop) : Prop :=
  exchange_when r k mode x y = false.

Theorem py_paritysort_list_sorts mode l :
  StronglySorted (ordered py_paritysort_list_rel py_paritysort_list_key mode) (snd (py_paritysort_list mode l)).
Proof.
  unfold py_paritysort_list.
  rewrite (sort_run_is_bubble _ _ _ _ mode l (fun n => eq_refl) py_pass_is_bubble_pass).
  apply (bubble_program_sorts (exchange_when py_paritysort_list_rel py_paritysort_list_key mode)).
  - intros x y. apply exchange_total.
  - intros x y z. apply exchange_trans.
Qed.

Theorem py_reverse_bubble_list_sorts mode l :
  StronglySorted (ordered py_reverse_bubble_list_rel py_reverse_bubble_list_key mode) (snd (py_reverse_bubble_list mode l)).
Proof.
  unfold py_reverse_bubble_list.
  rewrite (sort_run_is_bubble _ _ _ _ mode l (fun n => eq_refl) py_pass_is_bubble_pass).
  apply (bubble_program_sorts (exchange_when py_reverse_bubble_list_rel py_reverse_bubble_list_key mode)).
  - intros x y. apply exchange_total.
  - intros x y z. apply exchange_trans.
Qed.

Theorem py_bubblesort_sorts mode l :
  StronglySorted (ordered py_bubblesort_rel py_bubblesort_key mode) (snd (py_bubblesort mode l)).
Proof.
  unfold py_bubblesort.
  rewrite (sort_run_is_bubble _ _ _ _ mode l (fun n => eq_refl) py_pass_is_bubble_pass).
  apply (bubble_program_sorts (exchange_when py_bubblesort_rel py_bubblesort_key mode)).
  - intros x y. apply exchange_total.
  - intros x y z. apply exchange_trans.
Qed.

(* what "ordered" means for the three sorts: alpha (even) before beta (odd); descending index; ascending index *)
Lemma ordered_paritysort mode x y :
  ordered py_paritysort_list_rel py_paritysort_list_key mode x y <-> Nat.modulo (mode x) 2 <= Nat.modulo (mode y) 2.
Proof. unfold ordered, exchange_when, py_paritysort_list_rel, py_paritysort_list_key, rel_of, key_of. rewrite Nat.ltb_ge. reflexivity. Qed.
Lemma ordered_reverse_bubble mode x y :
  ordered py_reverse_bubble_list_rel py_reverse_bubble_list_key mode x y <-> mode y <= mode x.
Proof. unfold ordered, exchange_when, py_reverse_bubble_list_rel, py_reverse_bubble_list_key, rel_of, key_of. rewrite Nat.ltb_ge. reflexivity. Qed.
Lemma ordered_bubblesort mode x y :
  ordered py_bubblesort_rel py_bubblesort_key mode x y <-> mode x <= mode y.
Proof. unfold ordered, exchange_when, py_bubblesort_rel, py_bubblesort_key, rel_of, key_of. rewrite Nat.ltb_ge. reflexivity. Qed.

Lemma StronglySorted_impl {A} (P Q : A -> A -> Prop) l : (forall x y, P x y -> Q x y) -> StronglySorted P l -> StronglySorted Q l.
Proof.
  intros H S. induction S as [|a l S IH F]; constructor; [exact IH|].
  rewrite Forall_forall in *. intros y Hy. apply H. apply F. exact Hy.
Qed.

Theorem py_paritysort_list_sorts_key mode l :
  StronglySorted (fun x y => Nat.modulo (mode x) 2 <= Nat.modulo (mode y) 2) (snd (py_paritysort_list mode l)).
Proof. eapply StronglySorted_impl; [|apply py_paritysort_list_sorts]. intros x y. apply ordered_paritysort. Qed.
Theorem py_reverse_bubble_list_sorts_key mode l :
  StronglySorted (fun x y => mode y <= mode x) (snd (py_reverse_bubble_list mode l)).
Proof. eapply StronglySorted_impl; [|apply py_reverse_bubble_list_sorts]. intros x y. apply ordered_reverse_bubble. Qed.
Theorem py_bubblesort_sorts_key mode l :
  StronglySorted (fun x y => mode x <= mode y) (snd (py_bubblesort mode l)).
Proof. eapply StronglySorted_impl; [|apply py_bubblesort_sorts]. intros x y. apply ordered_bubblesort. Qed.
