(* Persist.v — save/read of wavefunctions as a state machine over an abstract file
   system (C15).  pickle/unpickle are SECTION VARIABLES with two assumed laws
   (recorded in the trusted base): decoding the full encoding returns the object;
   decoding a proper prefix fails.  Everything else is proved: read-after-save over
   arbitrary intervening histories, atomicity of a failed read, and where the
   default directory points (call-time cwd vs import-time cwd). *)
From Coq Require Import List Bool Arith Lia.
Import ListNotations.

Section Persist.
Variable obj : Type.
Variable bytes : Type.
Variable pickle : obj -> bytes.
Variable unpickle : bytes -> option obj.
Variable blen : bytes -> nat.
Variable truncate : nat -> bytes -> bytes.
Hypothesis unpickle_pickle : forall x, unpickle (pickle x) = Some x.
Hypothesis unpickle_trunc : forall x k, k < blen (pickle x) -> unpickle (truncate k (pickle x)) = None.

Definition dir := nat.
Definition fname := nat.

Record st := mkst {
  fs : dir -> fname -> option bytes;
  cwd : dir;
  imp_cwd : dir;               (* working directory when the library was imported *)
  recv : nat -> obj            (* pool of wavefunction objects *)
}.

Inductive op :=
| Chdir (d : dir)
| Save (i : nat) (f : fname) (p : option dir)
| Read (i : nat) (f : fname) (p : option dir)
| Trunc (d : dir) (f : fname) (k : nat)
| Mutate (i : nat) (o : obj).     (* any in-place change of a wavefunction *)

(* frozen = true models `path=os.getcwd()` evaluated once at import *)
Definition eff (frozen : bool) (s : st) (p : option dir) : dir :=
  match p with Some d => d | None => if frozen then imp_cwd s else cwd s end.

Definition upd2 {A} (g : dir -> fname -> A) (d : dir) (f : fname) (v : A) : dir -> fname -> A :=
  fun d' f' => if andb (Nat.eqb d d') (Nat.eqb f f') then v else g d' f'.
Definition upd1 {A} (g : nat -> A) (i : nat) (v : A) : nat -> A :=
  fun j => if Nat.eqb i j then v else g j.

(* result: true = ok, false = raised *)
Definition step (frozen : bool) (s : st) (o : op) : st * bool :=
  match o with
  | Chdir d => (mkst (fs s) d (imp_cwd s) (recv s), true)
  | Save i f p => (mkst (upd2 (fs s) (eff frozen s p) f (Some (pickle (recv s i)))) (cwd s) (imp_cwd s) (recv s), true)
  | Read i f p =>
    match fs s (eff frozen s p) f with
    | Some b => match unpickle b with
                | Some x => (mkst (fs s) (cwd s) (imp_cwd s) (upd1 (recv s) i x), true)
                | None => (s, false)
                end
    | None => (s, false)
    end
  | Trunc d f k =>
    match fs s d f with
    | Some b => (mkst (upd2 (fs s) d f (Some (truncate k b))) (cwd s) (imp_cwd s) (recv s), true)
    | None => (s, false)
    end
  | Mutate i x => (mkst (fs s) (cwd s) (imp_cwd s) (upd1 (recv s) i x), true)
  end.

Fixpoint run (frozen : bool) (s : st) (ops : list op) : st :=
  match ops with
  | [] => s
  | o :: r => run frozen (fst (step frozen s o)) r
  end.

(* does an operation (in state s) write the file (d, f)? *)
Definition writes (frozen : bool) (s : st) (o : op) (d : dir) (f : fname) : bool :=
  match o with
  | Save _ f' p => andb (Nat.eqb (eff frozen s p) d) (Nat.eqb f' f)
  | Trunc d' f' _ => andb (Nat.eqb d' d) (Nat.eqb f' f)
  | _ => false
  end.

Fixpoint no_write (frozen : bool) (s : st) (ops : list op) (d : dir) (f : fname) : Prop :=
  match ops with
  | [] => True
  | o :: r => writes frozen s o d f = false /\ no_write frozen (fst (step frozen s o)) r d f
  end.

Lemma upd2_same {A} (g : dir -> fname -> A) d f v : upd2 g d f v d f = v.
Proof. unfold upd2. rewrite !Nat.eqb_refl. reflexivity. Qed.

Lemma upd2_other {A} (g : dir -> fname -> A) d f v d' f' :
  andb (Nat.eqb d d') (Nat.eqb f f') = false -> upd2 g d f v d' f' = g d' f'.
Proof. unfold upd2. intros H. rewrite H. reflexivity. Qed.

Lemma step_fs_frame frozen s o d f : writes frozen s o d f = false ->
  fs (fst (step frozen s o)) d f = fs s d f.
Proof.
  destruct o; simpl; intros H; try reflexivity.
  - apply upd2_other. exact H.
  - destruct (fs s (eff frozen s p) f0) as [b|]; [|reflexivity]. destruct (unpickle b); reflexivity.
  - destruct (fs s d0 f0) as [b|]; [|reflexivity]. simpl. apply upd2_other. exact H.
Qed.

Lemma run_fs_frame frozen ops : forall s d f, no_write frozen s ops d f ->
  fs (run frozen s ops) d f = fs s d f.
Proof.
  induction ops as [|o r IH]; intros s d f H; simpl; [reflexivity|].
  destruct H as [H1 H2]. rewrite IH by exact H2. apply step_fs_frame. exact H1.
Qed.

(* READ AFTER SAVE, over any intervening history that does not write that file:
   reading it back (from the directory it went to) yields the saved object *)
Theorem read_after_save frozen s i f p ops j q :
  let s1 := fst (step frozen s (Save i f p)) in
  let s2 := run frozen s1 ops in
  no_write frozen s1 ops (eff frozen s p) f ->
  eff frozen s2 q = eff frozen s p ->
  snd (step frozen s2 (Read j f q)) = true /\
  recv (fst (step frozen s2 (Read j f q))) j = recv s i.
Proof.
  intros s1 s2 Hnw Heff.
  assert (Hfs : fs s2 (eff frozen s p) f = Some (pickle (recv s i))).
  { unfold s2. rewrite run_fs_frame by exact Hnw. unfold s1. simpl. apply upd2_same. }
  simpl. rewrite Heff, Hfs, unpickle_pickle. simpl. split; [reflexivity|].
  unfold upd1. rewrite Nat.eqb_refl. reflexivity.
Qed.

(* A FAILED READ IS ATOMIC: nothing changes *)
Theorem read_atomic frozen s i f p :
  snd (step frozen s (Read i f p)) = false -> fst (step frozen s (Read i f p)) = s.
Proof.
  simpl. destruct (fs s (eff frozen s p) f) as [b|]; [|reflexivity].
  destruct (unpickle b); [discriminate|reflexivity].
Qed.

(* a successful read changes only the receiver it names *)
Theorem read_frame frozen s i f p j : i <> j ->
  recv (fst (step frozen s (Read i f p))) j = recv s j.
Proof.
  intros H. simpl. destruct (fs s (eff frozen s p) f) as [b|]; [|reflexivity].
  destruct (unpickle b); [|reflexivity]. simpl. unfold upd1.
  destruct (Nat.eqb_spec i j); [contradiction|reflexivity].
Qed.

(* A FILE CUT SHORT AT ANY BYTE FAILS TO LOAD and leaves the receiver as it was *)
Theorem read_truncated_fails frozen s i f p k j q :
  let s1 := fst (step frozen s (Save i f p)) in
  let s2 := fst (step frozen s1 (Trunc (eff frozen s p) f k)) in
  k < blen (pickle (recv s i)) ->
  eff frozen s2 q = eff frozen s p ->
  snd (step frozen s2 (Read j f q)) = false /\ fst (step frozen s2 (Read j f q)) = s2.
Proof.
  intros s1 s2 Hk Heff.
  assert (Hfs : fs s2 (eff frozen s p) f = Some (truncate k (pickle (recv s i)))).
  { unfold s2, s1. simpl. rewrite upd2_same. simpl. apply upd2_same. }
  simpl. rewrite Heff, Hfs, unpickle_trunc by exact Hk. split; reflexivity.
Qed.

(* the default directory of the SPEC (frozen = false) is the cwd at the time of the call *)
Theorem default_dir_is_call_cwd s i f d :
  let s1 := fst (step false s (Chdir d)) in
  fs (fst (step false s1 (Save i f None))) d f = Some (pickle (recv s i)).
Proof. simpl. apply upd2_same. Qed.

(* with the default frozen at import the file lands in the import-time directory
   even after a chdir: saving then reading "here" misses it *)
Theorem default_dir_frozen_refuted s i f d : d <> imp_cwd s -> fs s d f = None ->
  let s1 := fst (step true s (Chdir d)) in
  fs (fst (step true s1 (Save i f None))) d f = None.
Proof.
  intros Hd Hf. simpl. rewrite upd2_other; [exact Hf|].
  destruct (Nat.eqb_spec (imp_cwd s) d); [congruence|reflexivity].
Qed.

End Persist.
