(* Equiv_zmat.v — the loop nest of fci_graph._get_Z_matrix (reference path), REGENERATED from the
   source on every run as the list of table assignments it performs (gen/Gen_zmatrix_py.v), fills
   the table with exactly Addr.zmat_entry — the Z matrix of the model, for which ZThm.v proves
   the closed form and that  sum_k Z[k][occ_k]  is the position of a string in the string table.
   Every orbital and electron count; the loops never write outside the allocated table. *)
From Coq Require Import ZArith List Bool Lia.
From FQE Require Import GenBase Addr GenLoops.
From FQE.gen Require Import Gen_zmatrix_py.
Import ListNotations.
Local Open Scope Z_scope.

Definition v1 (norb nele k ll : Z) : Z :=
  zsum (fun m => binomZ m (nele - k) - binomZ (m - 1) (nele - k - 1)) (norb - ll + 1) (norb - k + 1).

Lemma in_assigns norb nele x : In x (py_get_Z_matrix_assigns norb nele) <->
  (exists k ll, 1 <= k < nele /\ k <= ll < norb - nele + k + 1 /\ x = (k - 1, ll - 1, v1 norb nele k ll))
  \/ (exists ll, nele <= ll < norb + 1 /\ x = (nele - 1, ll - 1, ll - nele)).
Proof.
  unfold py_get_Z_matrix_assigns. cbv zeta. rewrite in_app_iff, !app_nil_r. rewrite !in_flat_map. split.
  - intros [[k [Hk H]]|[ll [Hl H]]].
    + apply in_zrange in Hk. rewrite app_nil_r in H. apply in_flat_map in H. destruct H as [ll [Hl H]].
      apply in_zrange in Hl. destruct H as [H|[]]. left. exists k, ll. repeat split; try lia. symmetry. exact H.
    + apply in_zrange in Hl. destruct H as [H|[]]. right. exists ll. split; [lia|]. symmetry. exact H.
  - intros [[k [ll [Hk [Hl E]]]]|[ll [Hl E]]].
    + left. exists k. split; [apply in_zrange; lia|]. rewrite app_nil_r. apply in_flat_map. exists ll.
      split; [apply in_zrange; lia|]. left. symmetry. exact E.
    + right. exists ll. split; [apply in_zrange; lia|]. left. symmetry. exact E.
Qed.

Theorem py_zmat_cell norb nele r c : 0 <= r -> 0 <= c ->
  final_cell (py_get_Z_matrix_assigns norb nele) r c = zmat_entry norb nele (r + 1) (c + 1).
Proof.
  intros Hr Hc. unfold zmat_entry.
  destruct (r + 1 <? nele) eqn:E1.
  - apply Z.ltb_lt in E1.
    destruct ((r + 1 <=? c + 1) && (c + 1 <? norb - nele + (r + 1) + 1)) eqn:E2.
    + apply andb_true_iff in E2. destruct E2 as [A B]. apply Z.leb_le in A. apply Z.ltb_lt in B.
      apply final_cell_some.
      * intros x Hx Fr Fc. apply in_assigns in Hx. destruct Hx as [[k [ll [Hk [Hl E]]]]|[ll [Hl E]]]; subst x; cbn [fst snd] in *.
        -- replace k with (r + 1) by lia. replace ll with (c + 1) by lia. reflexivity.
        -- lia.
      * exists (r + 1 - 1, c + 1 - 1, v1 norb nele (r + 1) (c + 1)). cbn [fst snd]. split; [|split; lia].
        apply in_assigns. left. exists (r + 1), (c + 1). repeat split; lia.
    + apply final_cell_none. intros x Hx [Fr Fc]. apply in_assigns in Hx.
      destruct Hx as [[k [ll [Hk [Hl E]]]]|[ll [Hl E]]]; subst x; cbn [fst snd] in *; [|lia].
      apply andb_false_iff in E2. destruct E2 as [E2|E2]; [apply Z.leb_gt in E2|apply Z.ltb_ge in E2]; lia.
  - apply Z.ltb_ge in E1. destruct (r + 1 =? nele) eqn:E3.
    + apply Z.eqb_eq in E3.
      destruct ((nele <=? c + 1) && (c + 1 <? norb + 1)) eqn:E2.
      * apply andb_true_iff in E2. destruct E2 as [A B]. apply Z.leb_le in A. apply Z.ltb_lt in B.
        apply final_cell_some.
        -- intros x Hx Fr Fc. apply in_assigns in Hx. destruct Hx as [[k [ll [Hk [Hl E]]]]|[ll [Hl E]]]; subst x; cbn [fst snd] in *; lia.
        -- exists (nele - 1, c + 1 - 1, c + 1 - nele). cbn [fst snd]. split; [|split; lia].
           apply in_assigns. right. exists (c + 1). split; [lia|reflexivity].
      * apply final_cell_none. intros x Hx [Fr Fc]. apply in_assigns in Hx.
        destruct Hx as [[k [ll [Hk [Hl E]]]]|[ll [Hl E]]]; subst x; cbn [fst snd] in *; [lia|].
        apply andb_false_iff in E2. destruct E2 as [E2|E2]; [apply Z.leb_gt in E2|apply Z.ltb_ge in E2]; lia.
    + apply Z.eqb_neq in E3. apply final_cell_none. intros x Hx [Fr Fc]. apply in_assigns in Hx.
      destruct Hx as [[k [ll [Hk [Hl E]]]]|[ll [Hl E]]]; subst x; cbn [fst snd] in *; lia.
Qed.

(* the table the reference path returns IS the model's Z matrix *)
Theorem py_zmat_is_model norb nele k l : (k < nele)%nat -> (l < norb)%nat ->
  final_cell (py_get_Z_matrix_assigns (Z.of_nat norb) (Z.of_nat nele)) (Z.of_nat k) (Z.of_nat l)
  = nth l (nth k (zmat norb nele) []) 0.
Proof.
  intros Hk Hl. rewrite py_zmat_cell by lia. unfold zmat.
  rewrite (nth_indep _ [] (map (fun l0 => zmat_entry (Z.of_nat norb) (Z.of_nat nele) (Z.of_nat (S 0)) (Z.of_nat (S l0))) (seq 0 norb)))
    by (rewrite map_length, seq_length; exact Hk).
  rewrite (map_nth (fun k0 => map (fun l0 => zmat_entry (Z.of_nat norb) (Z.of_nat nele) (Z.of_nat (S k0)) (Z.of_nat (S l0))) (seq 0 norb)) (seq 0 nele) 0%nat k).
  rewrite seq_nth by exact Hk.
  rewrite (nth_indep _ 0 (zmat_entry (Z.of_nat norb) (Z.of_nat nele) (Z.of_nat (S (0 + k))) (Z.of_nat (S 0))))
    by (rewrite map_length, seq_length; exact Hl).
  rewrite (map_nth (fun l0 => zmat_entry (Z.of_nat norb) (Z.of_nat nele) (Z.of_nat (S (0 + k))) (Z.of_nat (S l0))) (seq 0 norb) 0%nat l).
  rewrite seq_nth by exact Hl. cbn [Nat.add]. f_equal; lia.
Qed.

(* no assignment falls outside the allocated (nele x norb) table - no negative index wraps around *)
Theorem py_zmat_writes_in_bounds norb nele x : 1 <= nele -> In x (py_get_Z_matrix_assigns norb nele) ->
  0 <= fst (fst x) < py_get_Z_matrix_rows norb nele /\ 0 <= snd (fst x) < py_get_Z_matrix_cols norb nele.
Proof.
  intros Hn Hx. unfold py_get_Z_matrix_rows, py_get_Z_matrix_cols. apply in_assigns in Hx.
  destruct Hx as [[k [ll [Hk [Hl E]]]]|[ll [Hl E]]]; subst x; cbn [fst snd]; lia.
Qed.

(* each cell is written at most once: the order of the loops (and of their iterations) is immaterial *)
Theorem py_zmat_single_writer norb nele x y : In x (py_get_Z_matrix_assigns norb nele) -> In y (py_get_Z_matrix_assigns norb nele) ->
  fst x = fst y -> x = y.
Proof.
  intros Hx Hy E. apply in_assigns in Hx. apply in_assigns in Hy.
  destruct Hx as [[k [ll [Hk [Hl Ex]]]]|[ll [Hl Ex]]]; destruct Hy as [[k' [ll' [Hk' [Hl' Ey]]]]|[ll' [Hl' Ey]]];
    subst x y; cbn [fst snd] in E; inversion E.
  - replace k' with k by lia. replace ll' with ll by lia. reflexivity.
  - lia.
  - lia.
  - replace ll' with ll by lia. reflexivity.
Qed.
