(* MapsThm.v — C05: the sign stored in every single-excitation table entry is the sign
   of a†_i a_j under the CAR of Car.v ("occupied orbitals strictly between i and j"), and the
   target string is the source with j cleared and i set.  Stated on occupation lists
   (position = orbital index; the count between two positions does not depend on the
   direction of the ordering, so it covers both determinant conventions) and linked to the
   binary-string formula of Maps.exc_entry. *)
From Coq Require Import NArith ZArith List Bool Arith Lia.
From FQE Require Import Car Bits Addr Maps.
Import ListNotations.

Lemma nth_set_nth_other p v : forall d q, p <> q -> nth q (set_nth p v d) false = nth q d false.
Proof.
  induction p as [|p IH]; intros [|b r] [|q] H; simpl; try reflexivity; try congruence.
  apply IH. congruence.
Qed.

Lemma set_nth_length p v : forall d, length (set_nth p v d) = length d.
Proof. induction p as [|p IH]; intros [|b r]; simpl; auto. Qed.

(* clearing an occupied position q changes the parity before p exactly when q < p *)
Lemma parity_before_clear p : forall q d, nth q d false = true ->
  parity_before p (set_nth q false d) = xorb (parity_before p d) (q <? p).
Proof.
  induction p as [|p IH]; intros q d Hq.
  - simpl. destruct d, q; reflexivity.
  - destruct d as [|b r]; [destruct q; discriminate|]. destruct q as [|q]; simpl in *.
    + subst b. simpl. destruct (parity_before p r); reflexivity.
    + rewrite (IH q r Hq). replace (S q <? S p) with (q <? p) by reflexivity.
      destruct b, (parity_before p r), (q <? p); reflexivity.
Qed.

(* THE SIGN OF A SINGLE EXCITATION *)
Theorem excitation_sign i j d : i <> j -> i < length d ->
  nth j d false = true -> nth i d false = false ->
  scomp (cre i) (ann j) d =
  Some (xorb (xorb (parity_before i d) (parity_before j d)) (j <? i),
        set_nth i true (set_nth j false d)).
Proof.
  intros Hij Hi Hj Hi0. unfold scomp.
  rewrite (ann_spec j d Hj).
  rewrite (cre_spec i (set_nth j false d)).
  - f_equal. f_equal. rewrite (parity_before_clear i j d Hj).
    destruct (parity_before i d), (parity_before j d), (j <? i); reflexivity.
  - rewrite set_nth_length. exact Hi.
  - rewrite nth_set_nth_other by congruence. exact Hi0.
Qed.

(* the diagonal entry: a†_i a_i on an occupied orbital is +1 *)
Theorem number_entry i d : nth i d false = true ->
  scomp (cre i) (ann i) d = Some (false, d).
Proof.
  intros Hi. assert (Hl : i < length d).
  { destruct (le_lt_dec (length d) i) as [H|H]; [rewrite nth_overflow in Hi by exact H; discriminate|exact H]. }
  destruct (ann_cre_same i d Hl) as [[H1 H2]|[H1 H2]]; [|exact H2].
  exfalso. unfold scomp in H1. destruct (cre i d) as [[s e]|] eqn:E; [|discriminate].
  assert (exists x, cre i d = Some x) by eauto. apply cre_some_iff in H. destruct H as [_ H]. congruence.
Qed.

(* ---- link to the binary-string formula: parity_before on bits = parity of the count below *)
Lemma parity_before_bits n s : forall p, p <= n ->
  parity_before p (bits n s) = Nat.odd (cnt_range s 0 p).
Proof.
  unfold bits, cnt_range.
  assert (G : forall p off len, p <= len ->
            parity_before p (map (tb s) (seq off len)) = Nat.odd (length (filter (tb s) (seq off p)))).
  { induction p as [|p IH]; intros off len Hp; [destruct len; reflexivity|].
    destruct len as [|len]; [lia|]. cbn [seq map parity_before filter].
    rewrite (IH (S off) len) by lia.
    destruct (tb s off); cbn [length]; [rewrite Nat.odd_succ, <- Nat.negb_odd; destruct (Nat.odd _); reflexivity|destruct (Nat.odd _); reflexivity]. }
  intros p Hp. rewrite (G p 0 n Hp). rewrite Nat.sub_0_r. reflexivity.
Qed.

Lemma cnt_range_split s lo mid hi : lo <= mid -> mid <= hi ->
  cnt_range s lo hi = cnt_range s lo mid + cnt_range s mid hi.
Proof.
  intros H1 H2. unfold cnt_range. replace (hi - lo) with ((mid - lo) + (hi - mid)) by lia.
  rewrite seq_app, filter_app, app_length. replace (lo + (mid - lo)) with mid by lia. reflexivity.
Qed.

Lemma cnt_range_single s p : cnt_range s p (S p) = if tb s p then 1 else 0.
Proof. unfold cnt_range. replace (S p - p) with 1 by lia. simpl. destruct (tb s p); reflexivity. Qed.

Lemma odd_add a b : Nat.odd (a + b) = xorb (Nat.odd a) (Nat.odd b).
Proof. apply Nat.odd_add. Qed.

(* the table's sign bit Nat.odd (cnt_between s i j) IS the CAR sign *)
Theorem exc_entry_sign_is_car n s i j : i <> j -> i < n -> j < n -> tb s j = true -> tb s i = false ->
  xorb (xorb (parity_before i (bits n s)) (parity_before j (bits n s))) (j <? i) = Nat.odd (cnt_between s i j).
Proof.
  intros Hij Hi Hj Tj Ti. rewrite !parity_before_bits by lia. unfold cnt_between.
  destruct (Nat.lt_trichotomy i j) as [H|[H|H]]; [|contradiction|].
  - replace (j <? i) with false by (symmetry; apply Nat.ltb_ge; lia).
    rewrite Nat.min_l, Nat.max_r by lia.
    rewrite (cnt_range_split s 0 i j) by lia. rewrite (cnt_range_split s i (S i) j) by lia.
    rewrite cnt_range_single, Ti. rewrite !odd_add. simpl.
    destruct (Nat.odd (cnt_range s 0 i)), (Nat.odd (cnt_range s (S i) j)); reflexivity.
  - replace (j <? i) with true by (symmetry; apply Nat.ltb_lt; lia).
    rewrite Nat.min_r, Nat.max_l by lia.
    rewrite (cnt_range_split s 0 j i) by lia. rewrite (cnt_range_split s j (S j) i) by lia.
    rewrite cnt_range_single, Tj. rewrite !odd_add. simpl.
    destruct (Nat.odd (cnt_range s 0 j)), (Nat.odd (cnt_range s (S j) i)); reflexivity.
Qed.

(* bits of the target string: j cleared, i set *)
Lemma tb_setbit s i p : tb (setbit s i) p = orb (Nat.eqb i p) (tb s p).
Proof.
  unfold tb, setbit. rewrite N.setbit_eqb. destruct (Nat.eqb_spec i p) as [->|H].
  - rewrite N.eqb_refl. reflexivity.
  - destruct (N.eqb_spec (N.of_nat i) (N.of_nat p)); [lia|reflexivity].
Qed.
Lemma tb_clrbit s j p : tb (clrbit s j) p = andb (negb (Nat.eqb j p)) (tb s p).
Proof.
  unfold tb, clrbit. rewrite N.clearbit_eqb. destruct (Nat.eqb_spec j p) as [->|H].
  - rewrite N.eqb_refl. destruct (N.testbit s (N.of_nat p)); reflexivity.
  - destruct (N.eqb_spec (N.of_nat j) (N.of_nat p)); [lia|]. simpl. rewrite andb_true_r. reflexivity.
Qed.

Lemma nth_bits n s p : p < n -> nth p (bits n s) false = tb s p.
Proof.
  intros H. unfold bits. rewrite (nth_indep _ false (tb s 0)) by (rewrite map_length, seq_length; exact H).
  rewrite map_nth, seq_nth by exact H. reflexivity.
Qed.

Lemma nth_set_nth_same p v : forall d, p < length d -> nth p (set_nth p v d) false = v.
Proof. induction p as [|p IH]; intros [|b r] H; simpl in *; try lia; [reflexivity|apply IH; lia]. Qed.

Theorem exc_entry_target_bits n s i j : i <> j -> i < n -> j < n ->
  bits n (clrbit (setbit s i) j) = set_nth i true (set_nth j false (bits n s)).
Proof.
  intros Hij Hi Hj. apply nth_ext with (d := false) (d' := false).
  - rewrite !set_nth_length. unfold bits. rewrite !map_length. reflexivity.
  - intros p Hp. unfold bits in Hp. rewrite map_length, seq_length in Hp.
    rewrite nth_bits by exact Hp. rewrite tb_clrbit, tb_setbit.
    destruct (Nat.eq_dec i p) as [->|Hip].
    + rewrite nth_set_nth_same by (rewrite set_nth_length; unfold bits; rewrite map_length, seq_length; exact Hp).
      rewrite Nat.eqb_refl. destruct (Nat.eqb_spec j p); [congruence|reflexivity].
    + rewrite nth_set_nth_other by exact Hip.
      destruct (Nat.eq_dec j p) as [->|Hjp].
      * rewrite nth_set_nth_same by (unfold bits; rewrite map_length, seq_length; exact Hp).
        rewrite Nat.eqb_refl. reflexivity.
      * rewrite nth_set_nth_other by exact Hjp. rewrite nth_bits by exact Hp.
        destruct (Nat.eqb_spec j p); [congruence|]. destruct (Nat.eqb_spec i p); [congruence|]. reflexivity.
Qed.

(* PUTTING IT TOGETHER: an off-diagonal table entry of Maps.exc_entry is the CAR action *)
Theorem exc_entry_is_car n s i j : i <> j -> i < n -> j < n -> tb s j = true -> tb s i = false ->
  scomp (cre i) (ann j) (bits n s) =
  Some (Nat.odd (cnt_between s i j), bits n (clrbit (setbit s i) j)).
Proof.
  intros Hij Hi Hj Tj Ti.
  rewrite (excitation_sign i j (bits n s) Hij).
  - rewrite (exc_entry_sign_is_car n s i j Hij Hi Hj Tj Ti).
    rewrite (exc_entry_target_bits n s i j Hij Hi Hj). reflexivity.
  - unfold bits. rewrite map_length, seq_length. exact Hi.
  - rewrite nth_bits by exact Hj. exact Tj.
  - rewrite nth_bits by exact Hi. exact Ti.
Qed.
