(* CxProg.v — C06: compare-exchange programs on operator strings.

   The swap-counting sorts of fqe/util.py (paritysort_list, reverse_bubble_list, bubblesort) are
   loop nests whose only effect on the list is  "if key(a[j]) REL key(a[j+1]): exchange a[j],
   a[j+1]; count += 1".  The translator regenerates, from the current source, the sequence of
   positions j such a loop nest visits (as a function of the length) together with the relation
   REL; this file gives the meaning of such a program and proves, for EVERY sequence of positions
   (so for every loop bound, pass count and early exit the code may use):

     cx_run_sound     if every exchange the relation permits is between anticommuting ladder
                      operators, the reordered string times (-1)^count acts exactly like the
                      original string;
     cx_run_perm      the result is a permutation of the input (same multiset of operators);
     cx_pass_fixpoint a full pass that exchanges nothing leaves the list unchanged, so stopping
                      at the first such pass (the `if not swapped: break`) is the same as running
                      all passes. *)
From Coq Require Import List Bool Arith Lia.
From FQE Require Import Car Fock Sort.
Import ListNotations.

Section Cx.
Variable gt : lop -> lop -> bool.     (* exchange a[j], a[j+1] when gt a[j] a[j+1] *)

(* compare-exchange at position j *)
Fixpoint cx (j : nat) (l : list lop) : bool * list lop :=
  match j, l with
  | O, x :: y :: r => if gt x y then (true, y :: x :: r) else (false, l)
  | S j', x :: r => let (b, r') := cx j' r in (b, x :: r')
  | _, _ => (false, l)
  end.

Fixpoint cx_run (prog : list nat) (l : list lop) : nat * list lop :=
  match prog with
  | [] => (0, l)
  | j :: p => let (b, l1) := cx j l in
              let (c, l2) := cx_run p l1 in ((if b then S c else c), l2)
  end.

Lemma cx_in j : forall l u, In u (snd (cx j l)) <-> In u l.
Proof.
  induction j as [|j IH]; intros l u.
  - destruct l as [|x [|y r]]; cbn [cx snd]; try tauto.
    destruct (gt x y); cbn [snd]; simpl; tauto.
  - destruct l as [|x r]; cbn [cx snd]; [tauto|].
    specialize (IH r u). destruct (cx j r) as [b r']. cbn [snd] in *. simpl. tauto.
Qed.

Lemma cx_length j : forall l, length (snd (cx j l)) = length l.
Proof.
  induction j as [|j IH]; intros l.
  - destruct l as [|x [|y r]]; cbn [cx snd]; try reflexivity. destruct (gt x y); reflexivity.
  - destruct l as [|x r]; cbn [cx snd]; [reflexivity|].
    specialize (IH r). destruct (cx j r) as [b r']. cbn [snd] in *. simpl. lia.
Qed.

Definition cx_ok (l : list lop) : Prop := forall u v, In u l -> In v l -> gt u v = true -> anticomm u v.

Lemma cx_sound j : forall l, cx_ok l ->
  forall d, string_fn (snd (cx j l)) d = sflip (fst (cx j l)) (string_fn l d).
Proof.
  induction j as [|j IH]; intros l H d.
  - destruct l as [|x [|y r]]; cbn [cx fst snd]; try reflexivity.
    destruct (gt x y) eqn:G; cbn [fst snd sflip]; [|reflexivity].
    assert (A := H x y ltac:(simpl; tauto) ltac:(simpl; tauto) G).
    cbn [string_fn]. rewrite !scomp_assoc.
    unfold scomp at 1 3. destruct (string_fn r d) as [[s e]|]; [|reflexivity].
    specialize (A e). destruct (scomp (op_fn x) (op_fn y) e) as [[s1 e1]|]; destruct (scomp (op_fn y) (op_fn x) e) as [[s2 e2]|];
      simpl in A; try discriminate; [|reflexivity].
    inversion A; subst. simpl. destruct s, s2; reflexivity.
  - destruct l as [|x r]; cbn [cx fst snd]; [reflexivity|].
    assert (H' : cx_ok r) by (intros u v Hu Hv; apply H; simpl; tauto).
    specialize (IH r H'). destruct (cx j r) as [b r']. cbn [fst snd] in *.
    cbn [string_fn]. rewrite (scomp_ext _ _ _ _ (fun e => eq_refl) IH).
    apply scomp_sflip_r.
Qed.

Lemma sflip_xorb a b x : sflip a (sflip b x) = sflip (xorb a b) x.
Proof. destruct a, b; simpl; rewrite ?sneg_sneg; reflexivity. Qed.

Theorem cx_run_sound prog : forall l, cx_ok l ->
  forall d, string_fn (snd (cx_run prog l)) d = sflip (Nat.odd (fst (cx_run prog l))) (string_fn l d).
Proof.
  induction prog as [|j p IH]; intros l H d; [reflexivity|].
  cbn [cx_run]. assert (S1 := cx_sound j l H d). assert (P := cx_in j l).
  destruct (cx j l) as [b l1]. cbn [fst snd] in *.
  assert (H1 : cx_ok l1) by (intros u v Hu Hv; apply H; apply P; assumption).
  specialize (IH l1 H1 d). destruct (cx_run p l1) as [c l2]. cbn [fst snd] in *.
  rewrite IH, S1, sflip_xorb. f_equal.
  destruct b; [rewrite Nat.odd_succ, <- Nat.negb_odd; destruct (Nat.odd c); reflexivity|destruct (Nat.odd c); reflexivity].
Qed.

Theorem cx_run_perm prog : forall l u, In u (snd (cx_run prog l)) <-> In u l.
Proof.
  induction prog as [|j p IH]; intros l u; [tauto|].
  cbn [cx_run]. assert (P := cx_in j l u). destruct (cx j l) as [b l1]. cbn [snd] in *.
  specialize (IH l1 u). destruct (cx_run p l1) as [c l2]. cbn [snd] in *. tauto.
Qed.

Theorem cx_run_length prog : forall l, length (snd (cx_run prog l)) = length l.
Proof.
  induction prog as [|j p IH]; intros l; [reflexivity|].
  cbn [cx_run]. assert (P := cx_length j l). destruct (cx j l) as [b l1]. cbn [snd] in *.
  specialize (IH l1). destruct (cx_run p l1) as [c l2]. cbn [snd] in *. lia.
Qed.

(* a program that exchanges nothing changes nothing: the early exit of the sorts is harmless *)
Lemma cx_false j : forall l, fst (cx j l) = false -> snd (cx j l) = l.
Proof.
  induction j as [|j IH]; intros l H.
  - destruct l as [|x [|y r]]; cbn [cx fst snd] in *; try reflexivity. destruct (gt x y); [discriminate|reflexivity].
  - destruct l as [|x r]; cbn [cx fst snd] in *; [reflexivity|].
    specialize (IH r). destruct (cx j r) as [b r']. cbn [fst snd] in *. rewrite IH by exact H. reflexivity.
Qed.

Theorem cx_pass_fixpoint prog : forall l, fst (cx_run prog l) = 0 -> snd (cx_run prog l) = l.
Proof.
  induction prog as [|j p IH]; intros l H; [reflexivity|].
  cbn [cx_run] in *. assert (F := cx_false j l). destruct (cx j l) as [b l1]. cbn [fst snd] in *.
  specialize (IH l1). destruct (cx_run p l1) as [c l2]. cbn [fst snd] in *.
  destruct b; [discriminate|]. rewrite IH by exact H. apply F. reflexivity.
Qed.

(* running the same pass again after a pass without exchange exchanges nothing again *)
Corollary cx_pass_idle prog l : fst (cx_run prog l) = 0 -> cx_run prog (snd (cx_run prog l)) = (0, l).
Proof.
  intros H. rewrite (cx_pass_fixpoint prog l H).
  destruct (cx_run prog l) as [c l2] eqn:E. cbn [fst] in H. subst c.
  f_equal. change l2 with (snd (0, l2)). rewrite <- E. apply cx_pass_fixpoint. rewrite E. reflexivity.
Qed.
End Cx.

(* the passes of a bubble sort over a list of length n, as the loops
       for i in range(n): for j in range(0, n - i - 1): compare-exchange(j)
   enumerate them *)
Definition bubble_pass (n i : nat) : list nat := seq 0 (n - i - 1).
Definition bubble_prog (n : nat) : list nat := flat_map (bubble_pass n) (seq 0 n).

(* ---- the vocabulary of the regenerated descriptions (gen/Gen_util_sorts.v) and their meaning *)
Inductive sort_rel := RGt | RLt.
Inductive sort_key := KFirst | KSelf | KParityOfFirst.

(* the list elements of the compiler are [mode index, dagger flag] pairs: x[0] is the mode index *)
Definition key_of (k : sort_key) (mode : lop -> nat) (x : lop) : nat :=
  match k with KFirst | KSelf => mode x | KParityOfFirst => Nat.modulo (mode x) 2 end.
Definition rel_of (r : sort_rel) (a b : nat) : bool :=
  match r with RGt => Nat.ltb b a | RLt => Nat.ltb a b end.
Definition exchange_when (r : sort_rel) (k : sort_key) (mode : lop -> nat) (x y : lop) : bool :=
  rel_of r (key_of k mode x) (key_of k mode y).

(* passes in order; a pass that exchanges nothing ends the sort (`if not swapped: break`) *)
Fixpoint run_passes (gt : lop -> lop -> bool) (passes : list (list nat)) (l : list lop) : nat * list lop :=
  match passes with
  | [] => (0, l)
  | p :: ps => let (c, l1) := cx_run gt p l in
               if Nat.eqb c 0 then (0, l1)
               else let (c', l2) := run_passes gt ps l1 in (c + c', l2)
  end.

Definition sort_run (npasses : nat -> nat) (pass : nat -> nat -> list nat) (r : sort_rel) (k : sort_key)
           (mode : lop -> nat) (l : list lop) : nat * list lop :=
  run_passes (exchange_when r k mode) (map (pass (length l)) (seq 0 (npasses (length l)))) l.

Theorem run_passes_sound gt passes : forall l, cx_ok gt l ->
  forall d, string_fn (snd (run_passes gt passes l)) d = sflip (Nat.odd (fst (run_passes gt passes l))) (string_fn l d).
Proof.
  induction passes as [|p ps IH]; intros l H d; [reflexivity|].
  cbn [run_passes]. assert (S1 := cx_run_sound gt p l H d). assert (P := cx_run_perm gt p l).
  destruct (cx_run gt p l) as [c l1]. cbn [fst snd] in *.
  destruct (Nat.eqb_spec c 0) as [->|Hc]; [exact S1|].
  assert (H1 : cx_ok gt l1) by (intros u v Hu Hv; apply H; apply P; assumption).
  specialize (IH l1 H1 d). destruct (run_passes gt ps l1) as [c' l2]. cbn [fst snd] in *.
  rewrite IH, S1, sflip_xorb. f_equal. rewrite Nat.odd_add. apply xorb_comm.
Qed.

Theorem run_passes_perm gt passes : forall l u, In u (snd (run_passes gt passes l)) <-> In u l.
Proof.
  induction passes as [|p ps IH]; intros l u; [tauto|].
  cbn [run_passes]. assert (P := cx_run_perm gt p l u). destruct (cx_run gt p l) as [c l1]. cbn [snd] in *.
  destruct (Nat.eqb c 0); [exact P|].
  specialize (IH l1 u). destruct (run_passes gt ps l1) as [c' l2]. cbn [snd] in *. tauto.
Qed.

(* an exchange decided by comparing (a function of) the mode index is always between different modes *)
Lemma exchange_when_diff r k mode x y : exchange_when r k mode x y = true -> mode x <> mode y.
Proof.
  unfold exchange_when, rel_of. intros H E.
  assert (K : key_of k mode x = key_of k mode y) by (unfold key_of; rewrite E; reflexivity).
  rewrite K in H. destruct r; rewrite Nat.ltb_irrefl in H; discriminate.
Qed.

Theorem sort_run_sound npasses pass r k mode l :
  (forall u v, In u l -> In v l -> mode u <> mode v -> opos u <> opos v) ->
  forall d, string_fn (snd (sort_run npasses pass r k mode l)) d
          = sflip (Nat.odd (fst (sort_run npasses pass r k mode l))) (string_fn l d).
Proof.
  intros H. apply run_passes_sound. intros u v Hu Hv G. apply anticomm_diff_pos.
  apply H; try assumption. eapply exchange_when_diff; eauto.
Qed.

Theorem sort_run_perm npasses pass r k mode l u :
  In u (snd (sort_run npasses pass r k mode l)) <-> In u l.
Proof. apply run_passes_perm. Qed.
