(* Guards.v — C14: decision functions for the documented incompatibilities, written
   from the guards in the code (raise AND assert), and the validity predicates they
   must coincide with.  verdict = true means "accepted", false means "raises". *)
From Coq Require Import ZArith List Bool Arith Lia.
Import ListNotations.

(* ------------------------------------------------------------ apply / time_evolve compatibility *)
Inductive hkind := KRestricted | KSpinOrb | KDiag | KDC | KSparse.

Record appreq := mkreq {
  w_cn : bool;      (* wavefunction conserves number *)
  w_cs : bool;      (* wavefunction conserves spin *)
  w_norb : Z;
  h_cn : bool;      (* Hamiltonian conserves number *)
  h_kind : hkind;
  h_dim : Z
}.

(* as coded in Wavefunction.apply / _apply_array / apply_diagonal_inplace *)
Definition apply_verdict (r : appreq) : bool :=
  if negb (w_cn r) || negb (h_cn r) then
    if w_cn r then false
    else if h_cn r then false
    else match h_kind r with
         | KSparse => true
         | KDiag => Z.eqb (h_dim r) (w_norb r) || Z.eqb (h_dim r) (2 * w_norb r)
         | KDC => Z.eqb (h_dim r) (w_norb r)
         | KRestricted => Z.eqb (h_dim r) (w_norb r) && w_cs r
         | KSpinOrb => Z.eqb (h_dim r) (2 * w_norb r)
         end
  else match h_kind r with
       | KSparse => true
       | KDiag => Z.eqb (h_dim r) (w_norb r) || Z.eqb (h_dim r) (2 * w_norb r)
       | KDC => Z.eqb (h_dim r) (w_norb r)
       | KRestricted => Z.eqb (h_dim r) (w_norb r) && w_cs r
       | KSpinOrb => Z.eqb (h_dim r) (2 * w_norb r)
       end.

Definition dims_ok (r : appreq) : Prop :=
  match h_kind r with
  | KSparse => True
  | KDiag => h_dim r = w_norb r \/ h_dim r = (2 * w_norb r)%Z
  | KDC => h_dim r = w_norb r
  | KRestricted => h_dim r = w_norb r /\ w_cs r = true
  | KSpinOrb => h_dim r = (2 * w_norb r)%Z
  end.

Definition apply_valid (r : appreq) : Prop := w_cn r = h_cn r /\ dims_ok r.

Lemma dims_ok_dec (r : appreq) :
  (match h_kind r with
   | KSparse => true
   | KDiag => Z.eqb (h_dim r) (w_norb r) || Z.eqb (h_dim r) (2 * w_norb r)
   | KDC => Z.eqb (h_dim r) (w_norb r)
   | KRestricted => Z.eqb (h_dim r) (w_norb r) && w_cs r
   | KSpinOrb => Z.eqb (h_dim r) (2 * w_norb r)
   end) = true <-> dims_ok r.
Proof.
  unfold dims_ok. destruct (h_kind r).
  - rewrite andb_true_iff, Z.eqb_eq. tauto.
  - apply Z.eqb_eq.
  - rewrite orb_true_iff, !Z.eqb_eq. tauto.
  - apply Z.eqb_eq.
  - tauto.
Qed.

Theorem apply_verdict_iff (r : appreq) : apply_verdict r = true <-> apply_valid r.
Proof.
  unfold apply_verdict, apply_valid.
  destruct (w_cn r) eqn:E1; destruct (h_cn r) eqn:E2; simpl;
    rewrite ?dims_ok_dec; split; intros H; try tauto; try discriminate;
    try (destruct H as [H _]; discriminate).
Qed.

(* ------------------------------------------------------------ in-place evolution *)
Record evreq := mkev { e_inplace : bool; e_individual : bool; e_quadratic : bool; e_diag : bool; e_dc : bool }.
Definition evolve_inplace_verdict (r : evreq) : bool :=
  if e_individual r then true
  else let is_diag := (e_quadratic r && e_diag r) || e_dc r in
       negb (e_inplace r && (negb is_diag && negb (e_quadratic r))).
Definition evolve_inplace_valid (r : evreq) : Prop :=
  e_inplace r = true -> e_individual r = true \/ e_quadratic r = true \/ e_dc r = true.
Theorem evolve_inplace_iff r : evolve_inplace_verdict r = true <-> evolve_inplace_valid r.
Proof.
  unfold evolve_inplace_verdict, evolve_inplace_valid.
  destruct (e_inplace r), (e_individual r), (e_quadratic r), (e_diag r), (e_dc r); simpl;
    split; intros H; try reflexivity; try discriminate; try tauto;
    try (destruct (H eq_refl) as [H1|[H1|H1]]; discriminate).
Qed.

(* ------------------------------------------------------------ polynomial propagators *)
Inductive algo := ATaylor | AChebyshev | AOther.
Record gureq := mkgu { g_algo : algo; g_speclim : bool; g_expansion_is_int : bool }.
Definition genu_verdict (r : gureq) : bool :=
  g_expansion_is_int r &&
  match g_algo r with ATaylor => true | AChebyshev => g_speclim r | AOther => false end.
Definition genu_valid (r : gureq) : Prop :=
  g_expansion_is_int r = true /\
  (g_algo r = ATaylor \/ (g_algo r = AChebyshev /\ g_speclim r = true)).
Theorem genu_iff r : genu_verdict r = true <-> genu_valid r.
Proof.
  unfold genu_verdict, genu_valid. destruct (g_expansion_is_int r), (g_algo r), (g_speclim r); simpl;
    split; intros H; try reflexivity; try discriminate; try tauto;
    try (destruct H as [H1 [H2|[H2 H3]]]; discriminate).
Qed.

(* ------------------------------------------------------------ RDM pattern grammar *)
Inductive tok := TLetter (c : nat) (dag : bool) | TDigit (n : nat) (dag : bool) | TBad.

Definition is_letter (t : tok) : bool := match t with TLetter _ _ => true | _ => false end.
Definition is_digit (t : tok) : bool := match t with TDigit _ _ => true | _ => false end.
Definition tdag (t : tok) : bool := match t with TLetter _ d => d | TDigit _ d => d | TBad => false end.
Definition tname (t : tok) : nat := match t with TLetter c _ => c | TDigit n _ => n | TBad => 0 end.

Fixpoint nodupb (l : list nat) : bool :=
  match l with
  | [] => true
  | x :: r => negb (existsb (Nat.eqb x) r) && nodupb r
  end.

Lemma nodupb_spec l : nodupb l = true <-> NoDup l.
Proof.
  induction l as [|x r IH]; simpl.
  - split; [constructor|reflexivity].
  - rewrite andb_true_iff, negb_true_iff, IH. split.
    + intros [H1 H2]. constructor; [|assumption]. intros Hin.
      assert (existsb (Nat.eqb x) r = true) by (apply existsb_exists; exists x; split; [assumption|apply Nat.eqb_refl]).
      congruence.
    + intros H. inversion H; subst. split; [|assumption].
      destruct (existsb (Nat.eqb x) r) eqn:E; [|reflexivity].
      apply existsb_exists in E. destruct E as [y [Hy Hxy]]. apply Nat.eqb_eq in Hxy. subst. contradiction.
Qed.

Definition count_dag (l : list tok) : nat := length (filter tdag l).

(* tensor request (letters) *)
Definition rdm_tensor_verdict (spinfree : bool) (l : list tok) : bool :=
  let n := length l in
  let r := Nat.div2 n in
  Nat.even n && forallb is_letter l && Nat.eqb (count_dag l) r && Nat.leb 1 r && Nat.leb r 4 &&
  nodupb (map tname l) &&
  (negb spinfree ||
   forallb (fun p => negb (Bool.eqb (tdag (nth p l TBad)) (tdag (nth (p + r) l TBad)))) (seq 0 r)).

Definition rdm_tensor_valid (spinfree : bool) (l : list tok) : Prop :=
  let n := length l in
  let r := Nat.div2 n in
  Nat.even n = true /\ (forall t, In t l -> is_letter t = true) /\ count_dag l = r /\ 1 <= r <= 4 /\
  NoDup (map tname l) /\
  (spinfree = true -> forall p, p < r -> tdag (nth p l TBad) <> tdag (nth (p + r) l TBad)).

Theorem rdm_tensor_iff spinfree l : rdm_tensor_verdict spinfree l = true <-> rdm_tensor_valid spinfree l.
Proof.
  unfold rdm_tensor_verdict, rdm_tensor_valid. cbv zeta.
  rewrite !andb_true_iff, forallb_forall, Nat.eqb_eq, !Nat.leb_le, nodupb_spec, orb_true_iff, negb_true_iff, forallb_forall.
  split.
  - intros [[[[[[H1 H2] H3] H4] H5] H6] H7]. repeat split; try assumption.
    intros Hs p Hp. destruct H7 as [H7|H7]; [congruence|].
    specialize (H7 p). rewrite in_seq in H7. specialize (H7 (conj (Nat.le_0_l p) Hp)).
    apply negb_true_iff in H7. intros E. rewrite E in H7. rewrite eqb_reflx in H7. discriminate.
  - intros [H1 [H2 [H3 [[H4 H5] [H6 H7]]]]]. repeat split; try assumption.
    destruct spinfree; [right|left; reflexivity].
    intros p Hp. apply in_seq in Hp. apply negb_true_iff.
    destruct (Bool.eqb (tdag (nth p l TBad)) (tdag (nth (p + Nat.div2 (length l)) l TBad))) eqn:E; [|reflexivity].
    apply eqb_prop in E. exfalso. apply (H7 eq_refl p); [lia|exact E].
Qed.

(* ------------------------------------------------------------ set_wfn(from_data): all-or-nothing *)
(* sectors as (key, expected shape); data as (key, shape) *)
Definition shape := (nat * nat)%type.
Definition shape_eqb (a b : shape) : bool := Nat.eqb (fst a) (fst b) && Nat.eqb (snd a) (snd b).
Fixpoint lookup_shape (k : nat) (secs : list (nat * shape)) : option shape :=
  match secs with
  | [] => None
  | (k', s) :: r => if Nat.eqb k k' then Some s else lookup_shape k r
  end.
Definition item_ok (secs : list (nat * shape)) (d : nat * shape) : bool :=
  match lookup_shape (fst d) secs with Some s => shape_eqb s (snd d) | None => false end.

(* as coded before the fix: assign sector by sector, stop at the first bad one:
   returns (accepted?, keys that were overwritten) *)
Fixpoint setdata_coded (secs : list (nat * shape)) (data : list (nat * shape)) : bool * list nat :=
  match data with
  | [] => (true, [])
  | d :: r => if item_ok secs d
              then let '(ok, ks) := setdata_coded secs r in (ok, fst d :: ks)
              else (false, [])
  end.
(* specification: validate everything first *)
Definition setdata_spec (secs : list (nat * shape)) (data : list (nat * shape)) : bool * list nat :=
  if forallb (item_ok secs) data then (true, map fst data) else (false, []).

Theorem setdata_reject_is_pure secs data : fst (setdata_spec secs data) = false -> snd (setdata_spec secs data) = [].
Proof. unfold setdata_spec. destruct (forallb (item_ok secs) data); [discriminate|reflexivity]. Qed.

Theorem setdata_accept_agree secs data :
  fst (setdata_spec secs data) = true -> setdata_coded secs data = setdata_spec secs data.
Proof.
  unfold setdata_spec. induction data as [|d r IH]; simpl; [reflexivity|].
  destruct (item_ok secs d); simpl; [|discriminate].
  destruct (forallb (item_ok secs) r); simpl in *; [|discriminate].
  intros _. rewrite IH by reflexivity. reflexivity.
Qed.

Theorem setdata_coded_partial_update_refuted :
  exists secs data, fst (setdata_coded secs data) = false /\ snd (setdata_coded secs data) <> [].
Proof.
  exists [(0, (1, 1)); (1, (2, 2))], [(0, (1, 1)); (1, (3, 3))]. vm_compute. split; [reflexivity|discriminate].
Qed.
