(* Car.v — fermionic ladder operators on occupation lists and the canonical
   anticommutation relations, proved for every length.

   A determinant is the list of occupations in OPERATOR POSITION ORDER: the
   determinant [b0; b1; ...] is  (c†_0)^b0 (c†_1)^b1 ... |0>.  Annihilating
   position p costs the sign (-1)^(number of occupied positions before p).
   The sign is a bool: true = -1. *)
From Coq Require Import List Bool Arith Lia.
Import ListNotations.

Definition det := list bool.
Definition sdet := option (bool * det).       (* None = the zero vector *)

Fixpoint ann (p : nat) (d : det) : sdet :=
  match d with
  | [] => None
  | b :: r =>
    match p with
    | O => if b then Some (false, false :: r) else None
    | S p' => match ann p' r with
              | Some (sg, r') => Some (xorb sg b, b :: r')
              | None => None
              end
    end
  end.

Fixpoint cre (p : nat) (d : det) : sdet :=
  match d with
  | [] => None
  | b :: r =>
    match p with
    | O => if b then None else Some (false, true :: r)
    | S p' => match cre p' r with
              | Some (sg, r') => Some (xorb sg b, b :: r')
              | None => None
              end
    end
  end.

(* composition of partial signed maps: (f after g) *)
Definition scomp (f g : det -> sdet) (d : det) : sdet :=
  match g d with
  | Some (s, d') => match f d' with
                    | Some (s', d'') => Some (xorb s s', d'')
                    | None => None
                    end
  | None => None
  end.

Definition sneg (x : sdet) : sdet :=
  match x with Some (s, d) => Some (negb s, d) | None => None end.

Lemma sneg_invol x : sneg (sneg x) = x.
Proof. destruct x as [[s d]|]; simpl; [rewrite negb_involutive|]; reflexivity. Qed.

(* ------------------------------------------------------------------ *)
(* length preservation *)
Lemma ann_length p : forall d s d', ann p d = Some (s, d') -> length d' = length d.
Proof.
  induction p as [|p IH]; intros [|b r] s d' H; simpl in H; try discriminate.
  - destruct b; inversion H; reflexivity.
  - destruct (ann p r) as [[sg r']|] eqn:E; inversion H; subst; simpl.
    f_equal; eapply IH; eauto.
Qed.

Lemma cre_length p : forall d s d', cre p d = Some (s, d') -> length d' = length d.
Proof.
  induction p as [|p IH]; intros [|b r] s d' H; simpl in H; try discriminate.
  - destruct b; inversion H; reflexivity.
  - destruct (cre p r) as [[sg r']|] eqn:E; inversion H; subst; simpl.
    f_equal; eapply IH; eauto.
Qed.

(* ann/cre are defined exactly on occupied / empty positions *)
Lemma ann_some_iff p : forall d, (exists x, ann p d = Some x) <-> nth p d false = true.
Proof.
  induction p as [|p IH]; intros [|b r]; simpl.
  - split; [intros [x H]; discriminate | discriminate].
  - destruct b; split; intros H; try discriminate; eauto. destruct H as [x H]; discriminate.
  - split; [intros [x H]; discriminate | discriminate].
  - rewrite <- IH. destruct (ann p r) as [[sg r']|]; split; intros H; eauto;
      destruct H as [x H]; discriminate.
Qed.

Lemma cre_some_iff p : forall d, (exists x, cre p d = Some x) <-> (p < length d /\ nth p d false = false).
Proof.
  induction p as [|p IH]; intros [|b r]; simpl.
  - split; [intros [x H]; discriminate | intros [H _]; lia].
  - destruct b; split; intros H.
    + destruct H as [x H]; discriminate.
    + destruct H as [_ H]; discriminate.
    + split; [lia|reflexivity].
    + eauto.
  - split; [intros [x H]; discriminate | intros [H _]; lia].
  - specialize (IH r). destruct (cre p r) as [[sg r']|].
    + split; intros H; eauto. destruct IH as [IH _]. destruct IH as [H1 H2]; eauto. split; [lia|assumption].
    + split; [intros [x H]; discriminate|]. intros [H1 H2].
      destruct IH as [_ IH]. destruct IH as [x Hx]; [split; [lia|assumption]|discriminate].
Qed.

(* ------------------------------------------------------------------ *)
(* CAR 1:  a_p a_q = - a_q a_p   (p <> q),  a_p a_p = 0 *)
Lemma ann_ann_same p : forall d, scomp (ann p) (ann p) d = None.
Proof.
  unfold scomp. induction p as [|p IH]; intros [|b r]; simpl; try reflexivity.
  - destruct b; reflexivity.
  - specialize (IH r). destruct (ann p r) as [[sg r']|] eqn:E; [|reflexivity].
    simpl. destruct (ann p r') as [[sg' r'']|]; [discriminate|reflexivity].
Qed.

Lemma ann_ann p : forall q d, p <> q -> scomp (ann p) (ann q) d = sneg (scomp (ann q) (ann p) d).
Proof.
  unfold scomp. induction p as [|p IH]; intros [|q] [|b r] Hpq; simpl; try reflexivity; try congruence.
  - destruct b; simpl; destruct (ann q r) as [[sg r']|]; simpl; try reflexivity; destruct sg; reflexivity.
  - destruct b; simpl; destruct (ann p r) as [[sg r']|]; simpl; try reflexivity; destruct sg; reflexivity.
  - assert (Hpq' : p <> q) by congruence. specialize (IH q r Hpq').
    destruct (ann q r) as [[s1 r1]|]; destruct (ann p r) as [[s2 r2]|]; simpl in *;
      try reflexivity.
    + destruct (ann p r1) as [[s3 r3]|]; destruct (ann q r2) as [[s4 r4]|]; simpl in *; try discriminate; try reflexivity.
      inversion IH; subst. f_equal. f_equal.
      destruct s1, s2, s4, b; simpl in *; try reflexivity; try discriminate; destruct s3; simpl in *; congruence.
    + destruct (ann p r1) as [[s3 r3]|]; simpl in *; [discriminate|reflexivity].
    + destruct (ann q r2) as [[s3 r3]|]; simpl in *; [discriminate|reflexivity].
Qed.

(* CAR 2: same for creators *)
Lemma cre_cre_same p : forall d, scomp (cre p) (cre p) d = None.
Proof.
  unfold scomp. induction p as [|p IH]; intros [|b r]; simpl; try reflexivity.
  - destruct b; reflexivity.
  - specialize (IH r). destruct (cre p r) as [[sg r']|] eqn:E; [|reflexivity].
    simpl. destruct (cre p r') as [[sg' r'']|]; [discriminate|reflexivity].
Qed.

Lemma cre_cre p : forall q d, p <> q -> scomp (cre p) (cre q) d = sneg (scomp (cre q) (cre p) d).
Proof.
  unfold scomp. induction p as [|p IH]; intros [|q] [|b r] Hpq; simpl; try reflexivity; try congruence.
  - destruct b; simpl; destruct (cre q r) as [[sg r']|]; simpl; try reflexivity; destruct sg; reflexivity.
  - destruct b; simpl; destruct (cre p r) as [[sg r']|]; simpl; try reflexivity; destruct sg; reflexivity.
  - assert (Hpq' : p <> q) by congruence. specialize (IH q r Hpq').
    destruct (cre q r) as [[s1 r1]|]; destruct (cre p r) as [[s2 r2]|]; simpl in *;
      try reflexivity.
    + destruct (cre p r1) as [[s3 r3]|]; destruct (cre q r2) as [[s4 r4]|]; simpl in *; try discriminate; try reflexivity.
      inversion IH; subst. f_equal. f_equal.
      destruct s1, s2, s4, b; simpl in *; try reflexivity; try discriminate; destruct s3; simpl in *; congruence.
    + destruct (cre p r1) as [[s3 r3]|]; simpl in *; [discriminate|reflexivity].
    + destruct (cre q r2) as [[s3 r3]|]; simpl in *; [discriminate|reflexivity].
Qed.

(* CAR 3: a_p a†_q = - a†_q a_p  for p <> q *)
Lemma ann_cre p : forall q d, p <> q -> scomp (ann p) (cre q) d = sneg (scomp (cre q) (ann p) d).
Proof.
  unfold scomp. induction p as [|p IH]; intros [|q] [|b r] Hpq; simpl; try reflexivity; try congruence.
  - destruct b; simpl; destruct (cre q r) as [[sg r']|]; simpl; try reflexivity; destruct sg; reflexivity.
  - destruct b; simpl; destruct (ann p r) as [[sg r']|]; simpl; try reflexivity; destruct sg; reflexivity.
  - assert (Hpq' : p <> q) by congruence. specialize (IH q r Hpq').
    destruct (cre q r) as [[s1 r1]|]; destruct (ann p r) as [[s2 r2]|]; simpl in *;
      try reflexivity.
    + destruct (ann p r1) as [[s3 r3]|]; destruct (cre q r2) as [[s4 r4]|]; simpl in *; try discriminate; try reflexivity.
      inversion IH; subst. f_equal. f_equal.
      destruct s1, s2, s4, b; simpl in *; try reflexivity; try discriminate; destruct s3; simpl in *; congruence.
    + destruct (ann p r1) as [[s3 r3]|]; simpl in *; [discriminate|reflexivity].
    + destruct (cre q r2) as [[s3 r3]|]; simpl in *; [discriminate|reflexivity].
Qed.

(* CAR 4: a_p a†_p + a†_p a_p = 1 on determinants that contain position p:
   exactly one of the two products is defined and it is +d. *)
Lemma ann_cre_same p : forall d, p < length d ->
  (scomp (ann p) (cre p) d = Some (false, d) /\ scomp (cre p) (ann p) d = None) \/
  (scomp (ann p) (cre p) d = None /\ scomp (cre p) (ann p) d = Some (false, d)).
Proof.
  unfold scomp. induction p as [|p IH]; intros [|b r] Hl; simpl in *; try lia.
  - destruct b; simpl; [right|left]; split; reflexivity.
  - assert (Hl' : p < length r) by lia. specialize (IH r Hl').
    destruct IH as [[H1 H2]|[H1 H2]]; [left|right].
    + destruct (cre p r) as [[s1 r1]|]; [|discriminate]. simpl.
      destruct (ann p r1) as [[s2 r2]|]; [|discriminate]. inversion H1; subst.
      split.
      * f_equal. f_equal. destruct s1, s2, b; simpl in *; congruence.
      * destruct (ann p r) as [[s3 r3]|]; [|reflexivity]. simpl.
        destruct (cre p r3) as [[s4 r4]|]; [discriminate|reflexivity].
    + destruct (ann p r) as [[s1 r1]|]; [|discriminate]. simpl.
      destruct (cre p r1) as [[s2 r2]|]; [|discriminate]. inversion H2; subst.
      split.
      * destruct (cre p r) as [[s3 r3]|]; [|reflexivity]. simpl.
        destruct (ann p r3) as [[s4 r4]|]; [discriminate|reflexivity].
      * f_equal. f_equal. destruct s1, s2, b; simpl in *; congruence.
Qed.

(* ann and cre are mutually inverse partial maps with the same sign
   (what makes a† the adjoint of a). *)
Lemma ann_cre_inv p : forall d s d', ann p d = Some (s, d') <-> cre p d' = Some (s, d).
Proof.
  induction p as [|p IH]; intros [|b r] s d'; simpl.
  - split; [discriminate|]. destruct d' as [|b' r']; simpl; [discriminate|].
    destruct b'; intros H; inversion H.
  - destruct b; split; intros H.
    + inversion H; subst. reflexivity.
    + destruct d' as [|b' r']; simpl in H; [discriminate|]. destruct b'; inversion H; subst; reflexivity.
    + discriminate.
    + destruct d' as [|b' r']; simpl in H; [discriminate|]. destruct b'; inversion H.
  - split; [discriminate|]. destruct d' as [|b' r']; simpl; [discriminate|].
    destruct (cre p r') as [[sg r'']|]; intros H; inversion H.
  - split; intros H.
    + destruct (ann p r) as [[sg r']|] eqn:E; inversion H; subst. simpl.
      apply IH in E. rewrite E. reflexivity.
    + destruct d' as [|b' r']; simpl in H; [discriminate|].
      destruct (cre p r') as [[sg r'']|] eqn:E; inversion H; subst.
      apply IH in E. rewrite E. reflexivity.
Qed.

(* The sign of ann is the parity of occupied positions before p *)
Fixpoint parity_before (p : nat) (d : det) : bool :=
  match p, d with
  | S p', b :: r => xorb b (parity_before p' r)
  | _, _ => false
  end.

Fixpoint set_nth (p : nat) (v : bool) (d : det) : det :=
  match d with
  | [] => []
  | b :: r => match p with O => v :: r | S p' => b :: set_nth p' v r end
  end.

Lemma ann_spec p : forall d, nth p d false = true ->
  ann p d = Some (parity_before p d, set_nth p false d).
Proof.
  induction p as [|p IH]; intros [|b r] H; simpl in *; try discriminate.
  - subst; reflexivity.
  - rewrite (IH r H). rewrite xorb_comm. reflexivity.
Qed.

Lemma cre_spec p : forall d, p < length d -> nth p d false = false ->
  cre p d = Some (parity_before p d, set_nth p true d).
Proof.
  induction p as [|p IH]; intros [|b r] Hl H; simpl in *; try lia.
  - subst; reflexivity.
  - rewrite (IH r); [|lia|assumption]. rewrite xorb_comm. reflexivity.
Qed.
