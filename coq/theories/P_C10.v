(* P_C10.v — C10: schedule independence of parallel loops, as theorems about every
   interleaving, and the footprint patterns of the accelerated kernels. *)
From Coq Require Import ZArith List Bool Arith Lia.
From FQE Require Import Par.
Import ListNotations.

Theorem C10_interleaving_irrelevant : forall ts s, merge ts s -> all_wf ts -> pairwise_indep ts ->
  forall m, meq (run s m) (run (concat ts) m).
Proof. exact interleaving_irrelevant. Qed.
Print Assumptions C10_interleaving_irrelevant.

Theorem C10_row_parallel_disjoint : forall w i j a b, i <> j -> in_row w i a -> in_row w j b -> indep a b.
Proof. exact row_parallel_disjoint. Qed.
Print Assumptions C10_row_parallel_disjoint.

Theorem C10_scratch_disjoint : forall nsig t1 t2 i1 i2, t1 <> t2 -> i1 < nsig -> i2 < nsig ->
  t1 * nsig + i1 <> t2 * nsig + i2.
Proof. exact scratch_disjoint. Qed.
Print Assumptions C10_scratch_disjoint.

Theorem C10_collapse2_injective : forall lenb i1 j1 i2 j2, j1 < lenb -> j2 < lenb ->
  j1 + lenb * i1 = j2 + lenb * i2 -> i1 = i2 /\ j1 = j2.
Proof. exact collapse2_injective. Qed.
Print Assumptions C10_collapse2_injective.

Theorem C10_same_value_stores_indep : forall x c rs1 rs2,
  indep (mkact x rs1 (fun _ => c)) (mkact x rs2 (fun _ => c)).
Proof. exact same_value_stores_indep. Qed.
Print Assumptions C10_same_value_stores_indep.

Theorem C10_different_value_race_refuted : exists a b m,
  waddr a = waddr b /\ run [a; b] m (waddr a) <> run [b; a] m (waddr a).
Proof. exact different_value_race_refuted. Qed.
Print Assumptions C10_different_value_race_refuted.

(* non-vacuity: two row iterations of width 2, interleaved, equal the sequential result *)
Example C10_example :
  let a0 := mkact 0 [10] (fun m => m 10) in let a1 := mkact 1 [10] (fun m => Z.add (m 10) 1%Z) in
  let b0 := mkact 2 [11] (fun m => m 11) in let b1 := mkact 3 [11] (fun m => Z.mul (m 11) 2%Z) in
  merge [[a0; a1]; [b0; b1]] [b0; a0; b1; a1].
Proof.
  cbv zeta. eapply (merge_step _ 1); [reflexivity|]. eapply (merge_step _ 0); [reflexivity|].
  eapply (merge_step _ 1); [reflexivity|]. eapply (merge_step _ 0); [reflexivity|].
  apply merge_nil. repeat constructor.
Qed.
