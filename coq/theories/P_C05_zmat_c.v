(* P_C05_zmat_c.v — C05: the accelerated builder of the Z matrix.  The loop nest of lib/fci_graph.c
   calculate_Z_matrix is REGENERATED from the current source on every run (gen/Gen_zmatrix_c.v: the (flat index,
   value) assignments it performs); for 1 <= nele <= norb <= 64 the table it leaves is the model's Z matrix in
   row-major order, hence the same table as the reference path's (both code paths agree, every size). *)
From Coq Require Import ZArith List.
From FQE Require Import GenBase Addr GenLoops Equiv_zmat Equiv_zmat_c.
From FQE.gen Require Import Gen_zmatrix_py Gen_zmatrix_c.
Local Open Scope Z_scope.

Theorem C05_zmatrix_c_source_cell : forall norb nele r c,
  1 <= nele <= norb -> norb <= 64 -> 0 <= r < nele -> 0 <= c < norb ->
  final_flat (c_calculate_Z_matrix_assigns norb nele) (c + norb * r) = zmat_entry norb nele (r + 1) (c + 1).
Proof. exact c_zmat_cell. Qed.
Print Assumptions C05_zmatrix_c_source_cell.

Theorem C05_zmatrix_paths_agree : forall norb nele r c,
  1 <= nele <= norb -> norb <= 64 -> 0 <= r < nele -> 0 <= c < norb ->
  final_flat (c_calculate_Z_matrix_assigns norb nele) (c + norb * r)
  = final_cell (py_get_Z_matrix_assigns norb nele) r c.
Proof. exact c_zmat_is_py_zmat. Qed.
Print Assumptions C05_zmatrix_paths_agree.

(* non-vacuity: 4 orbitals, 2 electrons, row-major [0,2,3,0, 0,0,1,2] *)
Example C05_zmatrix_c_example :
  map (final_flat (c_calculate_Z_matrix_assigns 4 2)) (0 :: 1 :: 2 :: 3 :: 4 :: 5 :: 6 :: 7 :: nil)
  = 0 :: 2 :: 3 :: 0 :: 0 :: 0 :: 1 :: 2 :: nil.
Proof. vm_compute. reflexivity. Qed.
