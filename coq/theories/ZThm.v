(* ZThm.v — C05: the Knowles–Handy Z matrix AS THE LOOPS OF _get_Z_matrix COMPUTE IT
   (Addr.zmat_entry / zmat / addr) addresses every string at its position in the string
   table, for every orbital count and electron count. *)
From Coq Require Import NArith ZArith List Bool Arith Lia.
From FQE Require Import Bits Addr AddrThm.
Import ListNotations.
Local Open Scope Z_scope.

Definition B (n k : nat) : Z := Z.of_N (binom n k).

Lemma B_pascal n k : B (S n) (S k) = B n k + B n (S k).
Proof. unfold B. rewrite binom_pascal. lia. Qed.
Lemma B_0 n : B n 0 = 1.
Proof. unfold B. rewrite binom_0_r. reflexivity. Qed.
Lemma B_gt n k : (n < k)%nat -> B n k = 0.
Proof. intros H. unfold B. rewrite binom_gt by exact H. reflexivity. Qed.
Lemma B_1 n : B n 1 = Z.of_nat n.
Proof.
  induction n as [|n IH]; [reflexivity|]. rewrite B_pascal, B_0, IH. lia.
Qed.

Lemma binomZ_nat n k : binomZ (Z.of_nat n) (Z.of_nat k) = B n k.
Proof.
  unfold binomZ, B. destruct (Z.ltb_spec (Z.of_nat n) 0); [lia|]. destruct (Z.ltb_spec (Z.of_nat k) 0); [lia|].
  simpl. rewrite !Nat2Z.id. reflexivity.
Qed.

(* Pascal's rule for the integer-argument binomial of the loops *)
Lemma binomZ_pascal m r : 1 <= m -> 1 <= r -> binomZ m r = binomZ (m - 1) r + binomZ (m - 1) (r - 1).
Proof.
  intros Hm Hr.
  assert (Em : m = Z.of_nat (S (Z.to_nat (m - 1)))) by lia.
  assert (Er : r = Z.of_nat (S (Z.to_nat (r - 1)))) by lia.
  set (a := Z.to_nat (m - 1)) in *. set (b := Z.to_nat (r - 1)) in *.
  rewrite Em, Er.
  replace (Z.of_nat (S a) - 1) with (Z.of_nat a) by lia.
  replace (Z.of_nat (S b) - 1) with (Z.of_nat b) by lia.
  rewrite !binomZ_nat, B_pascal. lia.
Qed.

(* telescoping sums *)
Lemma zsum_S f lo n : zsum f lo (lo + Z.of_nat (S n)) = zsum f lo (lo + Z.of_nat n) + f (lo + Z.of_nat n).
Proof.
  unfold zsum. rewrite !Z.add_simpl_l, !Nat2Z.id.
  rewrite seq_S, fold_left_app. reflexivity.
Qed.

Lemma zsum_telescope (F f : Z -> Z) lo n :
  (forall i, lo <= i < lo + Z.of_nat n -> f i = F (i + 1) - F i) ->
  zsum f lo (lo + Z.of_nat n) = F (lo + Z.of_nat n) - F lo.
Proof.
  induction n as [|n IH]; intros H.
  - unfold zsum. rewrite Z.add_simpl_l. simpl. rewrite Z.add_0_r. lia.
  - rewrite zsum_S, IH by (intros i Hi; apply H; lia).
    rewrite (H (lo + Z.of_nat n)) by lia.
    replace (lo + Z.of_nat (S n)) with (lo + Z.of_nat n + 1) by lia. lia.
Qed.

(* closed form of every entry the address computation reads *)
Theorem zmat_entry_closed norb nele k l :
  1 <= k <= nele -> k <= l <= norb - nele + k ->
  zmat_entry norb nele k l = binomZ (norb - k) (nele - k + 1) - binomZ (norb - l) (nele - k + 1).
Proof.
  intros Hk Hl. unfold zmat_entry.
  destruct (Z.ltb_spec k nele) as [Hlt|Hge].
  - destruct (Z.leb_spec k l); [|lia]. destruct (Z.ltb_spec l (norb - nele + k + 1)); [|lia]. cbn [andb].
    replace (norb - k + 1) with ((norb - l + 1) + Z.of_nat (Z.to_nat (l - k))) by lia.
    rewrite (zsum_telescope (fun m => binomZ (m - 1) (nele - k + 1))).
    + f_equal; f_equal; lia.
    + intros i Hi. cbv beta.
      rewrite (binomZ_pascal i (nele - k)) by lia.
      replace (i + 1 - 1) with i by lia.
      rewrite (binomZ_pascal i (nele - k + 1)) by lia.
      replace (nele - k + 1 - 1) with (nele - k) by lia. lia.
  - assert (k = nele) by lia. subst k. rewrite Z.eqb_refl.
    destruct (Z.leb_spec nele l); [|lia]. destruct (Z.ltb_spec l (norb + 1)); [|lia]. cbn [andb].
    replace (nele - nele + 1) with 1 by lia.
    replace (norb - nele) with (Z.of_nat (Z.to_nat (norb - nele))) by lia.
    replace (norb - l) with (Z.of_nat (Z.to_nat (norb - l))) by lia.
    change 1 with (Z.of_nat 1). rewrite !binomZ_nat, !B_1. lia.
Qed.

(* every table lookup, in or out of range, is zmat_entry *)
Lemma zmat_lookup norb nele k l :
  nth l (nth k (zmat norb nele) []) 0 =
  zmat_entry (Z.of_nat norb) (Z.of_nat nele) (Z.of_nat (S k)) (Z.of_nat (S l)).
Proof.
  unfold zmat.
  destruct (Nat.lt_ge_cases k nele) as [Hk|Hk].
  - rewrite (nth_map_lt _ _ k [] 0%nat) by (rewrite seq_length; exact Hk). rewrite seq_nth by exact Hk. simpl (0 + k)%nat.
    destruct (Nat.lt_ge_cases l norb) as [Hl|Hl].
    + rewrite (nth_map_lt _ _ l 0 0%nat) by (rewrite seq_length; exact Hl). rewrite seq_nth by exact Hl. reflexivity.
    + rewrite nth_overflow by (rewrite map_length, seq_length; exact Hl).
      unfold zmat_entry.
      destruct (Z.ltb_spec (Z.of_nat (S k)) (Z.of_nat nele)).
      * destruct (Z.leb_spec (Z.of_nat (S k)) (Z.of_nat (S l))); destruct (Z.ltb_spec (Z.of_nat (S l)) (Z.of_nat norb - Z.of_nat nele + Z.of_nat (S k) + 1));
          cbn [andb]; try reflexivity; lia.
      * destruct (Z.eqb_spec (Z.of_nat (S k)) (Z.of_nat nele)); [|reflexivity].
        destruct (Z.leb_spec (Z.of_nat nele) (Z.of_nat (S l))); destruct (Z.ltb_spec (Z.of_nat (S l)) (Z.of_nat norb + 1));
          cbn [andb]; try reflexivity; lia.
  - rewrite (nth_overflow _ []) by (rewrite map_length, seq_length; exact Hk).
    unfold zmat_entry.
    destruct (Z.ltb_spec (Z.of_nat (S k)) (Z.of_nat nele)); [lia|].
    destruct (Z.eqb_spec (Z.of_nat (S k)) (Z.of_nat nele)); [lia|]. destruct l; reflexivity.
Qed.

(* the address as a recursion over the bits of the string *)
Fixpoint arec (norb nele : nat) (o k0 : nat) (s : N) (m : nat) : Z :=
  match m with
  | O => 0
  | S m' => if N.odd s
            then zmat_entry (Z.of_nat norb) (Z.of_nat nele) (Z.of_nat (S k0)) (Z.of_nat (S o))
                 + arec norb nele (S o) (S k0) (N.div2 s) m'
            else arec norb nele (S o) k0 (N.div2 s) m'
  end.

(* sum_t z[k0+t][oc_t] *)
Fixpoint zlook (z : list (list Z)) (k0 : nat) (oc : list nat) : Z :=
  match oc with
  | [] => 0
  | p :: r => nth p (nth k0 z []) 0 + zlook z (S k0) r
  end.

Lemma fold_left_Zadd_acc l : forall a, fold_left Z.add l a = a + fold_left Z.add l 0.
Proof. induction l as [|x l IH]; intros a; simpl; [lia|]. rewrite IH, (IH x). lia. Qed.

Lemma addr_z_zlook z oc : forall k0,
  fold_left Z.add (map (fun p => nth (snd p) (nth (fst p) z []) 0) (combine (seq k0 (length oc)) oc)) 0 = zlook z k0 oc.
Proof.
  induction oc as [|p r IH]; intros k0; simpl; [reflexivity|].
  rewrite fold_left_Zadd_acc, IH. lia.
Qed.

(* occupied orbitals of s at offset o, through the bits of s *)
Lemma occ_from_step s o m :
  filter (tb s) (seq o (S m)) = (if tb s o then [o] else []) ++ filter (tb s) (seq (S o) m).
Proof. simpl. destruct (tb s o); reflexivity. Qed.

Lemma tb_div2 s i : tb (N.div2 s) i = tb s (S i).
Proof. unfold tb. rewrite N.div2_spec, N.shiftr_spec by lia. f_equal. lia. Qed.

Lemma tb_0_odd s : tb s 0 = N.odd s.
Proof. unfold tb. simpl. apply N.bit0_odd. Qed.


Lemma zlook_arec norb nele s : forall m o k0 t,
  (forall i, tb t i = tb s (o + i)%nat) ->
  zlook (zmat norb nele) k0 (filter (tb s) (seq o m)) = arec norb nele o k0 t m.
Proof.
  induction m as [|m IH]; intros o k0 t Ht; [reflexivity|].
  rewrite occ_from_step. cbn [arec].
  assert (E0 : tb s o = N.odd t) by (rewrite <- tb_0_odd, Ht; f_equal; lia).
  assert (Ht' : forall i, tb (N.div2 t) i = tb s (S o + i)%nat).
  { intros i. rewrite tb_div2, Ht. f_equal. lia. }
  rewrite E0. destruct (N.odd t); cbn [app zlook].
  - rewrite zmat_lookup. f_equal. apply IH. exact Ht'.
  - apply IH. exact Ht'.
Qed.

Theorem addr_is_arec norb nele s : addr norb nele s = arec norb nele 0 0 s norb.
Proof.
  unfold addr, addr_z, occ. rewrite addr_z_zlook. apply zlook_arec. intros i. reflexivity.
Qed.

(* ---------------------------------------------------------------- binomial bookkeeping *)
Fixpoint Ed (a j : nat) : Z :=
  match j with
  | O => 0
  | S j' => B (a + j') (S j') + Ed a j'
  end.

Lemma Ed_step a : forall j, (1 <= j)%nat -> Ed (S a) j - Ed a j = B (a + j) (j - 1).
Proof.
  induction j as [|j IH]; intros H; [lia|].
  destruct j as [|j].
  - cbn [Ed]. rewrite !Nat.add_0_r, !B_1. replace (a + 1)%nat with (S a) by lia. simpl (1 - 1)%nat. rewrite B_0. lia.
  - cbn [Ed] in *. specialize (IH ltac:(lia)). cbn [Ed] in IH.
    replace (S a + S j)%nat with (S (a + S j)) by lia. rewrite (B_pascal (a + S j) (S j)).
    replace (S (S j) - 1)%nat with (S j) by lia.
    replace (a + S (S j))%nat with (S (a + S j)) by lia. rewrite (B_pascal (a + S j) j).
    replace (S j - 1)%nat with j in IH by lia.
    replace (S a + j)%nat with (S (a + j)) in IH by lia.
    replace (a + S j)%nat with (S (a + j)) in * by lia. change (S a + j)%nat with (S (a + j)). lia.
Qed.

(* ---------------------------------------------------------------- the string table, one orbital at a time *)
Lemma strings_le m : forall j h, In h (strings m j) -> (j <= m)%nat.
Proof.
  intros j h H. destruct (Nat.le_gt_cases j m) as [L|G]; [exact L|].
  pose proof (strings_length m j) as E. rewrite (binom_gt m j G) in E.
  destruct (strings m j); [contradiction|]. simpl in E. lia.
Qed.

Lemma strings_zero m : In 0%N (strings m 0).
Proof. destruct m; simpl; left; reflexivity. Qed.

Lemma strings_S_0 m s : In s (strings (S m) 0) -> s = 0%N.
Proof. simpl. intros [H|[]]. symmetry. exact H. Qed.

Lemma strings_S_S m j s : In s (strings (S m) (S j)) ->
  (N.odd s = true /\ In (N.div2 s) (strings m j)) \/ (N.odd s = false /\ In (N.div2 s) (strings m (S j))).
Proof.
  cbn [strings]. intros H. apply in_app_or in H. destruct H as [H|H]; apply in_map_iff in H; destruct H as [h [E Hh]]; subst s.
  - left. rewrite odd_sdouble, div2_sdouble. auto.
  - right. rewrite odd_double, div2_double. auto.
Qed.

(* ---------------------------------------------------------------- the invariant *)
Lemma arec_raddr n K : (K <= n)%nat -> forall m j s, In s (strings m j) ->
  (j <= K)%nat -> (m <= n)%nat -> (m - j <= n - K)%nat ->
  arec n K (n - m) (K - j) s m = Z.of_nat (raddr m j s) + Ed (n - K) j - Ed (m - j) j.
Proof.
  intros HK. induction m as [|m IH]; intros j s Hs Hj Hm He.
  - destruct j; [|destruct Hs]. reflexivity.
  - destruct j as [|j].
    + apply strings_S_0 in Hs. subst s. cbn [arec raddr Ed]. change (N.odd 0) with false. change (N.div2 0) with 0%N. cbv iota.
      replace (S (n - S m)) with (n - m)%nat by lia.
      rewrite (IH 0%nat 0%N (strings_zero m)) by lia. destruct m; reflexivity.
    + pose proof (strings_le _ _ _ Hs) as Hjm.
      destruct (strings_S_S m j s Hs) as [[Ho Hin]|[Ho Hin]]; cbn [arec raddr]; rewrite Ho.
      * replace (S (n - S m)) with (n - m)%nat by lia. replace (S (K - S j)) with (K - j)%nat by lia.
        rewrite (IH j (N.div2 s) Hin) by lia.
        rewrite zmat_entry_closed by lia.
        replace (Z.of_nat n - Z.of_nat (K - j)) with (Z.of_nat ((n - K) + j)) by lia.
        replace (Z.of_nat K - Z.of_nat (K - j) + 1) with (Z.of_nat (S j)) by lia.
        replace (Z.of_nat n - Z.of_nat (n - m)) with (Z.of_nat m) by lia.
        rewrite !binomZ_nat. cbn [Ed].
        replace (S m - S j)%nat with (m - j)%nat by lia.
        replace (m - j + j)%nat with m by lia. lia.
      * pose proof (strings_le _ _ _ Hin) as Hjm'.
        replace (S (n - S m)) with (n - m)%nat by lia.
        rewrite (IH (S j) (N.div2 s) Hin) by lia.
        rewrite Nat2Z.inj_add.
        assert (EL : Z.of_nat (length (strings m j)) = B m j).
        { unfold B. rewrite <- strings_length. lia. }
        rewrite EL.
        replace (S m - S j)%nat with (S (m - S j)) by lia.
        pose proof (Ed_step (m - S j) (S j) ltac:(lia)) as St.
        replace (m - S j + S j)%nat with m in St by lia. replace (S j - 1)%nat with j in St by lia. lia.
Qed.

(* THE ADDRESS COMPUTED FROM THE Z MATRIX IS THE POSITION IN THE STRING TABLE *)
Theorem addr_is_table_index n K s : In s (strings n K) -> addr n K s = Z.of_nat (raddr n K s).
Proof.
  intros Hs. pose proof (strings_le _ _ _ Hs) as HK.
  rewrite addr_is_arec.
  pose proof (arec_raddr n K HK n K s Hs ltac:(lia) ltac:(lia) ltac:(lia)) as E.
  replace (n - n)%nat with 0%nat in E by lia. replace (K - K)%nat with 0%nat in E by lia. lia.
Qed.

Corollary addr_index_of n K s : In s (strings n K) ->
  index_of s (strings n K) = Some (Z.to_nat (addr n K s)).
Proof. intros Hs. rewrite (addr_is_table_index n K s Hs), Nat2Z.id. apply index_of_raddr. exact Hs. Qed.
