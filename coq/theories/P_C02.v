(* P_C02.v — C02: the closed forms used by the exact evolution routes solve the
   Schroedinger initial value problem, preserve the norm and compose; the scalar
   phase applied twice is a different function (why "once" matters). Real analysis
   through Coquelicot: Print Assumptions lists the standard real-number axioms. *)
From Coq Require Import Reals Lra.
From Coquelicot Require Import Coquelicot.
From FQE Require Import EvolveR.
Local Open Scope R_scope.

Theorem C02_diag_schrodinger : forall E c0r c0i t,
  is_derive (ph_re E c0r c0i) t (E * ph_im E c0r c0i t) /\
  is_derive (ph_im E c0r c0i) t (- E * ph_re E c0r c0i t).
Proof. exact diag_schrodinger. Qed.
Print Assumptions C02_diag_schrodinger.

Theorem C02_diag_initial : forall E c0r c0i, ph_re E c0r c0i 0 = c0r /\ ph_im E c0r c0i 0 = c0i.
Proof. exact diag_initial. Qed.
Print Assumptions C02_diag_initial.

Theorem C02_diag_norm : forall E c0r c0i t,
  ph_re E c0r c0i t * ph_re E c0r c0i t + ph_im E c0r c0i t * ph_im E c0r c0i t = c0r * c0r + c0i * c0i.
Proof. exact diag_norm. Qed.
Print Assumptions C02_diag_norm.

Theorem C02_diag_compose : forall E c0r c0i t1 t2,
  ph_re E (ph_re E c0r c0i t1) (ph_im E c0r c0i t1) t2 = ph_re E c0r c0i (t1 + t2) /\
  ph_im E (ph_re E c0r c0i t1) (ph_im E c0r c0i t1) t2 = ph_im E c0r c0i (t1 + t2).
Proof. exact diag_compose. Qed.
Print Assumptions C02_diag_compose.

Theorem C02_phase_twice_refuted :
  exists e0 t, ph_re e0 1 0 t <> ph_re e0 (ph_re e0 1 0 t) (ph_im e0 1 0 t) t.
Proof. exact phase_twice_differs. Qed.
Print Assumptions C02_phase_twice_refuted.

Theorem C02_block_schrodinger : forall a b w, w * w = a * a + b * b -> w <> 0 ->
  forall x0r x0i y0r y0i t,
  is_derive (xr a b w x0r y0r y0i) t (a * yi a b w x0r x0i y0i t - b * yr a b w x0r x0i y0r t) /\
  is_derive (xi a b w x0i y0r y0i) t (- (a * yr a b w x0r x0i y0r t + b * yi a b w x0r x0i y0i t)) /\
  is_derive (yr a b w x0r x0i y0r) t (a * xi a b w x0i y0r y0i t + b * xr a b w x0r y0r y0i t) /\
  is_derive (yi a b w x0r x0i y0i) t (- (a * xr a b w x0r y0r y0i t - b * xi a b w x0i y0r y0i t)).
Proof. exact block_schrodinger. Qed.
Print Assumptions C02_block_schrodinger.

Theorem C02_block_initial : forall a b w, w <> 0 -> forall x0r x0i y0r y0i,
  xr a b w x0r y0r y0i 0 = x0r /\ xi a b w x0i y0r y0i 0 = x0i /\
  yr a b w x0r x0i y0r 0 = y0r /\ yi a b w x0r x0i y0i 0 = y0i.
Proof. exact block_initial. Qed.
Print Assumptions C02_block_initial.

Theorem C02_block_norm : forall a b w, w * w = a * a + b * b -> w <> 0 ->
  forall x0r x0i y0r y0i t,
  xr a b w x0r y0r y0i t * xr a b w x0r y0r y0i t + xi a b w x0i y0r y0i t * xi a b w x0i y0r y0i t +
  yr a b w x0r x0i y0r t * yr a b w x0r x0i y0r t + yi a b w x0r x0i y0i t * yi a b w x0r x0i y0i t =
  x0r * x0r + x0i * x0i + y0r * y0r + y0i * y0i.
Proof. exact block_norm. Qed.
Print Assumptions C02_block_norm.
