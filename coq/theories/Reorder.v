(* Reorder.v — C07: the export map is an intertwiner.
   A determinant d in one position ordering (FQE's convention) is rebuilt in another
   ordering of the same spin orbitals (the qubit/mode ordering) by applying its creators,
   in d's own order, to the vacuum of the target space:  B(d) = prod_{q in d} C†_{pi q} |0>.
   Theorem: B (c†_p d) = C†_{pi p} (B d)  and  B (c_p d) = C_{pi p} (B d)  as signed partial maps,
   for every injective relabelling pi — applying a fermionic operator before the export
   equals applying its image after it. *)
From Coq Require Import List Bool Arith Lia.
From FQE Require Import Car.
Import ListNotations.

Definition sbind (f : det -> sdet) (x : sdet) : sdet :=
  match x with
  | Some (s, d) => match f d with Some (s', d') => Some (xorb s s', d') | None => None end
  | None => None
  end.

Lemma sbind_sneg f x : sbind f (sneg x) = sneg (sbind f x).
Proof. destruct x as [[s d]|]; simpl; [|reflexivity]. destruct (f d) as [[s' d']|]; simpl; [|reflexivity]. destruct s, s'; reflexivity. Qed.

(* anticommutation lifted to sbind *)
Lemma sbind_anticomm (f g : det -> sdet) :
  (forall d, scomp f g d = sneg (scomp g f d)) ->
  forall x, sbind f (sbind g x) = sneg (sbind g (sbind f x)).
Proof.
  intros H [[s d]|]; simpl; [|reflexivity].
  specialize (H d). unfold scomp in H.
  destruct (g d) as [[s1 d1]|] eqn:G; destruct (f d) as [[s2 d2]|] eqn:F; simpl in *.
  - destruct (f d1) as [[s3 d3]|]; destruct (g d2) as [[s4 d4]|]; simpl in *; try discriminate; try reflexivity.
    inversion H; subst. f_equal. f_equal. destruct s, s1, s2, s4; simpl in *; try reflexivity; destruct s3; simpl in *; congruence.
  - destruct (f d1) as [[s3 d3]|]; simpl in *; [discriminate|reflexivity].
  - destruct (g d2) as [[s4 d4]|]; simpl in *; [discriminate|reflexivity].
  - reflexivity.
Qed.

Section Build.
Variable nq : nat.                    (* size of the target space *)
Variable pi : nat -> nat.             (* source position -> target position *)
Variable npos : nat.                  (* number of source positions *)
Hypothesis pi_lt : forall p, p < npos -> pi p < nq.
Hypothesis pi_inj : forall p q, p < npos -> q < npos -> pi p = pi q -> p = q.

(* rebuild the tail d (whose head sits at source position k) *)
Fixpoint build (k : nat) (d : det) : sdet :=
  match d with
  | [] => Some (false, repeat false nq)
  | b :: r => if b then sbind (cre (pi k)) (build (S k) r) else build (S k) r
  end.

Definition slift (x : sdet) (k : nat) : sdet :=     (* B applied inside a signed determinant *)
  match x with
  | Some (s, d) => match build k d with Some (s', e) => Some (xorb s s', e) | None => None end
  | None => None
  end.

(* which target positions B(d) occupies *)
Lemma cre_nth p : forall d s e q, cre p d = Some (s, e) -> nth q e false = if Nat.eqb p q then true else nth q d false.
Proof.
  induction p as [|p IH]; intros [|b r] s e q H; simpl in H; try discriminate.
  - destruct b; [discriminate|]. inversion H; subst. destruct q; reflexivity.
  - destruct (cre p r) as [[sg r']|] eqn:E; [|discriminate]. inversion H; subst.
    destruct q as [|q]; simpl; [reflexivity|]. apply (IH r sg r' q E).
Qed.

Lemma ann_nth p : forall d s e q, ann p d = Some (s, e) -> nth q e false = if Nat.eqb p q then false else nth q d false.
Proof.
  induction p as [|p IH]; intros [|b r] s e q H; simpl in H; try discriminate.
  - destruct b; [|discriminate]. inversion H; subst. destruct q; reflexivity.
  - destruct (ann p r) as [[sg r']|] eqn:E; [|discriminate]. inversion H; subst.
    destruct q as [|q]; simpl; [reflexivity|]. apply (IH r sg r' q E).
Qed.

Lemma nth_repeat_false n q : nth q (repeat false n) false = false.
Proof. revert q. induction n as [|n IH]; intros [|q]; simpl; auto. Qed.

Lemma build_occ d : forall k s e, k + length d <= npos -> build k d = Some (s, e) ->
  length e = nq /\ forall m, nth m e false = true <-> exists q, q < length d /\ nth q d false = true /\ m = pi (k + q).
Proof.
  induction d as [|b r IH]; intros k s e Hk H; simpl in *.
  - inversion H; subst. split; [apply repeat_length|]. intros m. rewrite nth_repeat_false. split; [discriminate|intros [q [Hq _]]; lia].
  - destruct b.
    + unfold sbind in H. destruct (build (S k) r) as [[s1 e1]|] eqn:B; [|discriminate].
      destruct (cre (pi k) e1) as [[s2 e2]|] eqn:C; [|discriminate]. inversion H; subst.
      destruct (IH (S k) s1 e1 ltac:(lia) B) as [L O]. split; [rewrite (cre_length _ _ _ _ C); exact L|].
      intros m. rewrite (cre_nth _ _ _ _ m C). destruct (Nat.eqb_spec (pi k) m) as [<-|Hne].
      * split; [|reflexivity]. intros _. exists 0. split; [lia|]. split; [reflexivity|]. f_equal. lia.
      * rewrite O. split.
        -- intros [q [Hq [Hb Hm]]]. exists (S q). split; [lia|]. split; [exact Hb|]. rewrite Hm. f_equal. lia.
        -- intros [[|q] [Hq [Hb Hm]]]; [exfalso; apply Hne; rewrite Hm; f_equal; lia|].
           exists q. split; [lia|]. split; [exact Hb|]. rewrite Hm. f_equal. lia.
    + destruct (IH (S k) s e ltac:(lia) H) as [L O]. split; [exact L|]. intros m. rewrite O. split.
      * intros [q [Hq [Hb Hm]]]. exists (S q). split; [lia|]. split; [exact Hb|]. rewrite Hm. f_equal. lia.
      * intros [[|q] [Hq [Hb Hm]]]; [discriminate|]. exists q. split; [lia|]. split; [exact Hb|]. rewrite Hm. f_equal. lia.
Qed.

(* B(d) is always defined *)
Lemma build_some d : forall k, k + length d <= npos -> exists s e, build k d = Some (s, e).
Proof.
  induction d as [|b r IH]; intros k Hk; simpl in *; [eauto|].
  destruct (IH (S k) ltac:(lia)) as [s [e E]]. destruct b; [|eauto].
  rewrite E. simpl. destruct (build_occ r (S k) s e ltac:(lia) E) as [L O].
  assert (Hc : exists x, cre (pi k) e = Some x).
  { apply cre_some_iff. split; [rewrite L; apply pi_lt; lia|].
    destruct (nth (pi k) e false) eqn:N; [|reflexivity].
    apply O in N. destruct N as [q [Hq [_ Hm]]]. apply pi_inj in Hm; lia. }
  destruct Hc as [[s2 e2] Hc]. rewrite Hc. eauto.
Qed.

Lemma slift_sign s d k : slift (Some (s, d)) k = if s then sneg (build k d) else build k d.
Proof. unfold slift. destruct (build k d) as [[s' e]|]; destruct s; simpl; try reflexivity; destruct s'; reflexivity. Qed.

Lemma sneg_if (b : bool) x : (if b then sneg x else x) = (if b then sneg x else x).
Proof. reflexivity. Qed.

Lemma sbind_if_sneg f (b : bool) x : sbind f (if b then sneg x else x) = if b then sneg (sbind f x) else sbind f x.
Proof. destruct b; [apply sbind_sneg|reflexivity]. Qed.

Lemma slift_cons_false x k : slift (match x with Some (sg, r') => Some (xorb sg false, false :: r') | None => None end) k
  = slift x (S k).
Proof. destruct x as [[sg r']|]; [|reflexivity]. rewrite xorb_false_r. reflexivity. Qed.

Lemma slift_cons_true x k : slift (match x with Some (sg, r') => Some (xorb sg true, true :: r') | None => None end) k
  = sneg (sbind (cre (pi k)) (slift x (S k))).
Proof.
  destruct x as [[sg r']|]; [|reflexivity]. rewrite !slift_sign. simpl build.
  rewrite sbind_if_sneg. destruct sg; simpl; rewrite ?sneg_invol; reflexivity.
Qed.

(* INTERTWINING, creation: B (c†_p d) = C†_{pi(k+p)} (B d) *)
Theorem build_cre p : forall d k, p < length d -> k + length d <= npos ->
  slift (cre p d) k = sbind (cre (pi (k + p))) (build k d).
Proof.
  induction p as [|p IH]; intros [|b r] k Hp Hk; simpl in Hp, Hk; try lia.
  - rewrite Nat.add_0_r. destruct b; simpl cre.
    + (* occupied: c† c† = 0 on the target side *)
      simpl build. destruct (build (S k) r) as [[s e]|]; simpl; [|reflexivity].
      pose proof (cre_cre_same (pi k) e) as H. unfold scomp in H.
      destruct (cre (pi k) e) as [[s1 e1]|]; simpl; [|reflexivity].
      destruct (cre (pi k) e1) as [[s2 e2]|]; [discriminate|reflexivity].
    + rewrite slift_sign. reflexivity.
  - replace (k + S p) with (S k + p) by lia.
    specialize (IH r (S k) ltac:(lia) ltac:(lia)).
    destruct b; cbn [cre build].
    + rewrite slift_cons_true, IH.
      rewrite (sbind_anticomm (cre (pi k)) (cre (pi (S k + p)))), sneg_invol; [reflexivity|].
      intros e. apply cre_cre. intros E. apply pi_inj in E; lia.
    + rewrite slift_cons_false, IH. reflexivity.
Qed.

(* INTERTWINING, annihilation: B (c_p d) = C_{pi(k+p)} (B d) *)
Theorem build_ann p : forall d k, p < length d -> k + length d <= npos ->
  slift (ann p d) k = sbind (ann (pi (k + p))) (build k d).
Proof.
  induction p as [|p IH]; intros [|b r] k Hp Hk; simpl in Hp, Hk; try lia.
  - rewrite Nat.add_0_r.
    destruct (build_some r (S k) ltac:(lia)) as [s [e E]].
    destruct (build_occ r (S k) s e ltac:(lia) E) as [L O].
    assert (Hfree : nth (pi k) e false = false).
    { destruct (nth (pi k) e false) eqn:N; [|reflexivity].
      apply O in N. destruct N as [q [Hq [_ Hm]]]. apply pi_inj in Hm; lia. }
    assert (Hlt : pi k < length e) by (rewrite L; apply pi_lt; lia).
    destruct b; simpl ann; simpl build; rewrite E.
    + (* a a† x = x when the mode is free in x *)
      rewrite slift_sign. simpl. rewrite E.
      destruct (ann_cre_same (pi k) e Hlt) as [[H1 H2]|[H1 H2]].
      * unfold scomp in H1. destruct (cre (pi k) e) as [[s1 e1]|]; [|discriminate]. simpl.
        destruct (ann (pi k) e1) as [[s2 e2]|]; [|discriminate]. inversion H1; subst.
        f_equal. f_equal. destruct s, s1, s2; simpl in *; congruence.
      * exfalso. unfold scomp in H2. destruct (ann (pi k) e) as [[s1 e1]|] eqn:A; [|discriminate].
        assert (exists x, ann (pi k) e = Some x) by eauto. apply ann_some_iff in H. congruence.
    + simpl. destruct (ann (pi k) e) as [[s1 e1]|] eqn:A; [|reflexivity].
      assert (exists x, ann (pi k) e = Some x) by eauto. apply ann_some_iff in H. congruence.
  - replace (k + S p) with (S k + p) by lia.
    specialize (IH r (S k) ltac:(lia) ltac:(lia)).
    destruct b; cbn [ann build].
    + rewrite slift_cons_true, IH.
      rewrite (sbind_anticomm (cre (pi k)) (ann (pi (S k + p)))), sneg_invol; [reflexivity|].
      intros e. rewrite (ann_cre (pi (S k + p)) (pi k) e), sneg_invol; [reflexivity|].
      intros E. apply pi_inj in E; lia.
    + rewrite slift_cons_false, IH. reflexivity.
Qed.

(* the occupation of B(d) determines d: B is injective on determinants *)
Lemma build_occ_at d s e q : length d = npos -> build 0 d = Some (s, e) -> q < npos ->
  nth (pi q) e false = nth q d false.
Proof.
  intros L H Hq. destruct (build_occ d 0 s e ltac:(lia) H) as [_ O].
  destruct (nth q d false) eqn:N.
  - apply O. exists q. split; [lia|]. split; [exact N|reflexivity].
  - destruct (nth (pi q) e false) eqn:M; [|reflexivity].
    apply O in M. destruct M as [q' [Hq' [Hb Hm]]]. simpl in Hm. apply pi_inj in Hm; try lia. subst q'. congruence.
Qed.

Theorem build_injective d1 d2 s1 s2 e : length d1 = npos -> length d2 = npos ->
  build 0 d1 = Some (s1, e) -> build 0 d2 = Some (s2, e) -> d1 = d2.
Proof.
  intros L1 L2 H1 H2. apply nth_ext with (d := false) (d' := false); [lia|].
  intros q Hq. rewrite <- (build_occ_at d1 s1 e q L1 H1) by lia. apply (build_occ_at d2 s2 e q L2 H2). lia.
Qed.

End Build.
