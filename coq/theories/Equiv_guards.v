(* Equiv_guards.v — the guard function GENERATED from fqe/util.py accepts exactly
   the physically possible (nele, m_s) and returns the right (n_alpha, n_beta). *)
From Coq Require Import ZArith List Bool Lia.
From FQE Require Import GenBase Ctor.
From FQE.gen Require Import Gen_util_guards.
Local Open Scope Z_scope.

Ltac Zify.zify_post_hook ::= Z.to_euclidean_division_equations.

Ltac split_ifs :=
  repeat match goal with
         | |- context [if ?c then _ else _] => let E := fresh "E" in destruct c eqn:E
         end.
Ltac bools_to_props :=
  repeat match goal with
         | H : (_ <? _) = true |- _ => apply Z.ltb_lt in H
         | H : (_ <? _) = false |- _ => apply Z.ltb_ge in H
         | H : (_ <=? _) = true |- _ => apply Z.leb_le in H
         | H : (_ <=? _) = false |- _ => apply Z.leb_gt in H
         | H : (_ >? _) = true |- _ => rewrite Z.gtb_ltb in H
         | H : (_ >? _) = false |- _ => rewrite Z.gtb_ltb in H
         | H : (_ >=? _) = true |- _ => rewrite Z.geb_leb in H
         | H : (_ >=? _) = false |- _ => rewrite Z.geb_leb in H
         | H : (_ =? _) = true |- _ => apply Z.eqb_eq in H
         | H : (_ =? _) = false |- _ => apply Z.eqb_neq in H
         | H : negb _ = true |- _ => apply negb_true_iff in H
         | H : negb _ = false |- _ => apply negb_false_iff in H
         | H : orb _ _ = true |- _ => apply orb_true_iff in H; destruct H as [H|H]
         | H : orb _ _ = false |- _ => apply orb_false_iff in H; destruct H as [? ?]
         | H : andb _ _ = true |- _ => apply andb_true_iff in H; destruct H as [? ?]
         | H : andb _ _ = false |- _ => apply andb_false_iff in H; destruct H as [H|H]
         end.

Theorem py_alpha_beta_some nele ms a b : py_alpha_beta_electrons nele ms = Some (a, b) <->
  (0 <= a /\ 0 <= b /\ a + b = nele /\ a - b = ms).
Proof.
  unfold py_alpha_beta_electrons. cbv zeta. split_ifs; bools_to_props;
    (split; [intros H; try discriminate; try (inversion H; subst; lia)
            |intros H; try (f_equal; f_equal; lia); try (exfalso; lia)]).
Qed.

Theorem py_alpha_beta_eq nele ms : py_alpha_beta_electrons nele ms = alpha_beta nele ms.
Proof.
  destruct (py_alpha_beta_electrons nele ms) as [[a b]|] eqn:E.
  - symmetry. apply alpha_beta_some. apply py_alpha_beta_some. exact E.
  - symmetry. apply alpha_beta_none. intros [a [b H]]. apply py_alpha_beta_some in H. congruence.
Qed.
