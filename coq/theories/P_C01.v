(* P_C01.v — C01: the oracle the implementation is compared with IS the exact
   second-quantised action under one fixed determinant convention.
   Statements only, each closed by `exact`, Print Assumptions beneath. *)
From Coq Require Import NArith ZArith List Bool Arith Lia Ring.
From FQE Require Import Car Fock GaussZ Bits Denote Model ApplyThm.
Import ListNotations.

(* --- the ladder operators of the model satisfy the CAR, for every determinant length *)
Theorem C01_car_ann_ann : forall p q d, p <> q ->
  scomp (ann p) (ann q) d = sneg (scomp (ann q) (ann p) d).
Proof. exact ann_ann. Qed.
Print Assumptions C01_car_ann_ann.

Theorem C01_car_ann_ann_same : forall p d, scomp (ann p) (ann p) d = None.
Proof. exact ann_ann_same. Qed.
Print Assumptions C01_car_ann_ann_same.

Theorem C01_car_cre_cre : forall p q d, p <> q ->
  scomp (cre p) (cre q) d = sneg (scomp (cre q) (cre p) d).
Proof. exact cre_cre. Qed.
Print Assumptions C01_car_cre_cre.

Theorem C01_car_cre_cre_same : forall p d, scomp (cre p) (cre p) d = None.
Proof. exact cre_cre_same. Qed.
Print Assumptions C01_car_cre_cre_same.

Theorem C01_car_ann_cre : forall p q d, p <> q ->
  scomp (ann p) (cre q) d = sneg (scomp (cre q) (ann p) d).
Proof. exact ann_cre. Qed.
Print Assumptions C01_car_ann_cre.

Theorem C01_car_ann_cre_same : forall p d, p < length d ->
  (scomp (ann p) (cre p) d = Some (false, d) /\ scomp (cre p) (ann p) d = None) \/
  (scomp (ann p) (cre p) d = None /\ scomp (cre p) (ann p) d = Some (false, d)).
Proof. exact ann_cre_same. Qed.
Print Assumptions C01_car_ann_cre_same.

(* the sign convention: annihilating position p costs the parity of the occupied
   positions before p (= count_bits_above for alpha, n_alpha + count above for beta) *)
Theorem C01_sign_convention : forall p d, nth p d false = true ->
  ann p d = Some (parity_before p d, set_nth p false d).
Proof. exact ann_spec. Qed.
Print Assumptions C01_sign_convention.

(* --- CAR lifted to vectors over any commutative ring *)
Theorem C01_car_vectors :
  forall (R : Type) (rO rI : R) (radd rmul rsub : R -> R -> R) (ropp : R -> R),
  ring_theory rO rI radd rmul rsub ropp eq ->
  forall p n (v : vec R) d, p < n -> wide R n v ->
  radd (coeff R rO radd (act_string R ropp [mkop p false; mkop p true] v) d)
       (coeff R rO radd (act_string R ropp [mkop p true; mkop p false] v) d) = coeff R rO radd v d.
Proof. exact car_ann_cre_same. Qed.
Print Assumptions C01_car_vectors.

(* --- what the extracted oracle computes *)
Theorem C01_oracle_is_action : forall (p : poly gz) (v : gvec) (d : det),
  coeff_pull p v d = gcoeff (gact_poly p v) d.
Proof. exact coeff_pull_spec. Qed.
Print Assumptions C01_oracle_is_action.

Theorem C01_scalar_once : forall (e0 : gz) (p : poly gz) (v : gvec) (d : det),
  gcoeff (gact_poly ((e0, []) :: p) v) d = gzadd (gzmul e0 (gcoeff v d)) (gcoeff (gact_poly p v) d).
Proof. exact scalar_once. Qed.
Print Assumptions C01_scalar_once.

(* --- linearity, composition, adjointness of the action (any ring) *)
Theorem C01_linear :
  forall (R : Type) (rO rI : R) (radd rmul rsub : R -> R -> R) (ropp : R -> R),
  ring_theory rO rI radd rmul rsub ropp eq ->
  forall (p : poly R) a (u v : vec R) d,
  coeff R rO radd (act_poly R rmul ropp p (vadd R (vscale R rmul a u) v)) d =
  radd (rmul a (coeff R rO radd (act_poly R rmul ropp p u) d)) (coeff R rO radd (act_poly R rmul ropp p v) d).
Proof. exact act_poly_linear. Qed.
Print Assumptions C01_linear.

Theorem C01_string_composition :
  forall (R : Type) (rO rI : R) (radd rmul rsub : R -> R -> R) (ropp : R -> R),
  ring_theory rO rI radd rmul rsub ropp eq ->
  forall a b (v : vec R) d,
  coeff R rO radd (act_string R ropp (a ++ b) v) d =
  coeff R rO radd (act_string R ropp a (act_string R ropp b v)) d.
Proof. exact act_string_app. Qed.
Print Assumptions C01_string_composition.

Theorem C01_adjoint :
  forall (R : Type) (rO rI : R) (radd rmul rsub : R -> R -> R) (ropp : R -> R),
  ring_theory rO rI radd rmul rsub ropp eq ->
  forall (rconj : R -> R),
  (forall a b, rconj (rmul a b) = rmul (rconj a) (rconj b)) ->
  (forall a, rconj (ropp a) = ropp (rconj a)) ->
  forall (p : poly R) (x y : vec R),
  inner R rO radd rmul rconj (act_poly R rmul ropp p x) y =
  inner R rO radd rmul rconj x (act_poly R rmul ropp (poly_adj R rconj p) y).
Proof. exact inner_act_poly_adj. Qed.
Print Assumptions C01_adjoint.

(* --- sector grading: a string shifts the occupation of any set of positions by
   (#creators - #annihilators) inside the set; zero shift = sector preserved,
   non-zero shift = the image lies outside the sector (its projection vanishes) *)
Theorem C01_grading : forall sel ops d s d', string_fn ops d = Some (s, d') ->
  Z.of_nat (nocc_in sel 0 d') = (Z.of_nat (nocc_in sel 0 d) + string_shift sel ops)%Z.
Proof. exact string_grading. Qed.
Print Assumptions C01_grading.

(* --- the Knowles–Handy folding the dense kernels rely on (h1 -= h2[:,k,k,:], h2 -> -h2 with
   the middle axes exchanged):  i† j† k l  =  delta_jk i† l  -  (i† k)(j† l)  as operators, for
   every spin structure, every ring, every vector, every determinant length *)
Theorem C01_kh_folding :
  forall (R : Type) (rO rI : R) (radd rmul rsub : R -> R -> R) (ropp : R -> R),
  ring_theory rO rI radd rmul rsub ropp eq ->
  forall (i j k l n : nat) (v : vec R) (d : det), k < n -> wide R n v ->
  coeff R rO radd (act_string R ropp [mkop i true; mkop j true; mkop k false; mkop l false] v) d =
  radd (if Nat.eqb k j then coeff R rO radd (act_string R ropp [mkop i true; mkop l false] v) d else rO)
       (ropp (coeff R rO radd (act_string R ropp [mkop i true; mkop k false; mkop j true; mkop l false] v) d)).
Proof. exact kh_folding. Qed.
Print Assumptions C01_kh_folding.

Theorem C01_kh_folded_hamiltonian :
  forall (R : Type) (rO rI : R) (radd rmul rsub : R -> R -> R) (ropp : R -> R),
  ring_theory rO rI radd rmul rsub ropp eq ->
  forall (ts : list (R * (nat * nat * nat * nat))) (n : nat) (v : vec R) (d : det),
  (forall c i j k l, In (c, (i, j, k, l)) ts -> k < n) -> wide R n v ->
  coeff R rO radd (act_poly R rmul ropp (two_body_poly R ts) v) d =
  coeff R rO radd (act_poly R rmul ropp (kh_folded_poly R rO ropp ts) v) d.
Proof. exact kh_folded_poly_sound. Qed.
Print Assumptions C01_kh_folded_hamiltonian.

(* --- the table-driven one-body kernel (TableThm.v): on |a, b> = rev (bits a) ++ rev (bits b) an excitation of either
   spin acts as that spin's table entry says (target string s - j + i, sign odd (count_bits_between s i j)), the other
   spin's electrons are not seen; single annihilations cost count_bits_above (alpha) and n_alpha + count_bits_above
   (beta); and the push-forward built from the table entries has the coefficients of sum_ij h_ij (a†_ia a_ja + a†_ib a_jb)
   acting on the vector - every orbital count, every matrix over any commutative ring, every sparse vector *)
From FQE Require Import Maps TableThm.
Theorem C01_alpha_excitation_is_table_entry : forall norb a b i j, i < norb -> j < norb ->
  scomp (cre (pos2 norb false i)) (ann (pos2 norb false j)) (det2 norb a b)
  = match tab_entry a i j with Some (a', sg) => Some (sg, det2 norb a' b) | None => None end.
Proof. exact tab_alpha. Qed.
Print Assumptions C01_alpha_excitation_is_table_entry.

Theorem C01_beta_excitation_is_table_entry : forall norb a b i j, i < norb -> j < norb ->
  scomp (cre (pos2 norb true i)) (ann (pos2 norb true j)) (det2 norb a b)
  = match tab_entry b i j with Some (b', sg) => Some (sg, det2 norb a b') | None => None end.
Proof. exact tab_beta. Qed.
Print Assumptions C01_beta_excitation_is_table_entry.

Theorem C01_table_entry_is_fci_graph_entry : forall strs i j s,
  exc_entry strs i j s
  = match tab_entry s i j with Some (t, sg) => Some (idx strs s, idx strs t, sg) | None => None end.
Proof. exact exc_entry_tab. Qed.
Print Assumptions C01_table_entry_is_fci_graph_entry.

Theorem C01_alpha_annihilation_sign : forall norb a b j, j < norb -> tb a j = true ->
  ann (pos2 norb false j) (det2 norb a b)
  = Some (Nat.odd (cnt_range a (S j) norb), det2 norb (clrbit a j) b).
Proof. exact alpha_annihilation. Qed.
Print Assumptions C01_alpha_annihilation_sign.

Theorem C01_beta_annihilation_sign : forall norb a b j, j < norb -> tb b j = true ->
  ann (pos2 norb true j) (det2 norb a b)
  = Some (xorb (Nat.odd (cnt_range a 0 norb)) (Nat.odd (cnt_range b (S j) norb)), det2 norb a (clrbit b j)).
Proof. exact beta_annihilation. Qed.
Print Assumptions C01_beta_annihilation_sign.

Theorem C01_one_body_tables_sound :
  forall (R : Type) (rO rI : R) (radd rmul rsub : R -> R -> R) (ropp : R -> R),
  ring_theory rO rI radd rmul rsub ropp eq ->
  forall (norb : nat) (h : nat -> nat -> R) (v : svec R) (d : det),
  coeff R rO radd (vecof R norb (apply1 R rmul ropp norb h v)) d
  = coeff R rO radd (act_poly R rmul ropp (one_body_poly R norb h) (vecof R norb v)) d.
Proof. exact apply1_tables_sound. Qed.
Print Assumptions C01_one_body_tables_sound.

(* the model's determinant layout is the one of TableThm *)
Theorem C01_det_layout : forall norb a b beta i,
  det_of norb a b = det2 norb a b /\ pos_of norb beta i = pos2 norb beta i.
Proof. intros. split; reflexivity. Qed.
Print Assumptions C01_det_layout.

(* --- the Knowles-Handy D-vector algorithm (DvecThm.v): fold h2 into h1, D_jl = E_jl psi by the excitation tables,
   contract with -h2, second table sweep: the result has the coefficients of
   (sum h1[i,l] E_il + sum h2[i,j,k,l] sum_{rho,eta} a†_{i rho} a†_{j eta} a_{k rho} a_{l eta}) psi -
   every norb, every h1, h2 over any commutative ring, every sparse vector *)
From FQE Require Import DvecThm.
Theorem C01_dvector_algorithm_sound :
  forall (R : Type) (rO rI : R) (radd rmul rsub : R -> R -> R) (ropp : R -> R),
  ring_theory rO rI radd rmul rsub ropp eq ->
  forall (norb : nat) (h1 : nat -> nat -> R) (h2 : nat -> nat -> nat -> nat -> R) (v : svec R) (d : det),
  coeff R rO radd (vecof R norb (dvec_apply R rO rI radd rmul ropp norb h1 h2 v)) d
  = coeff R rO radd (act_poly R rmul ropp (restricted_poly R norb h1 h2) (vecof R norb v)) d.
Proof. exact dvec_apply_sound. Qed.
Print Assumptions C01_dvector_algorithm_sound.

(* non-vacuity over Z: 2 orbitals, |alpha {0}, beta {0}> + 2 |alpha {1}, beta {0}>, a dense h1 and h2; the D-vector
   result and the operator action have the same (non-zero) coefficients on all four determinants of the sector *)
From Coq Require Import ZArith.
Example C01_dvector_example :
  let h1 := fun i l => Z.of_nat (1 + i + 2 * l) in
  let h2 := fun i j k l => Z.of_nat (1 + i + 2 * j + 3 * k + 5 * l) in
  let v := [(1%N, 1%N, 1%Z); (2%N, 1%N, 2%Z)] in
  let ds := [det2 2 1 1; det2 2 2 1; det2 2 1 2; det2 2 2 2] in
  map (coeff Z 0%Z Z.add (vecof Z 2 (dvec_apply Z 0%Z 1%Z Z.add Z.mul Z.opp 2 h1 h2 v))) ds
  = map (coeff Z 0%Z Z.add (act_poly Z Z.mul Z.opp (restricted_poly Z 2 h1 h2) (vecof Z 2 v))) ds
  /\ map (coeff Z 0%Z Z.add (vecof Z 2 (dvec_apply Z 0%Z 1%Z Z.add Z.mul Z.opp 2 h1 h2 v))) ds <> [0; 0; 0; 0]%Z.
Proof. vm_compute. split; [reflexivity|discriminate]. Qed.
