(* CExpr.v — a small deep embedding of the straight-line C that the bit helpers of
   fqe/lib/bitstring.h are written in (typed constants 1, 1u, 1ull; & | ^ + - << >> < ?: ~;
   locals; compound assignment to the uint64_t string; return of a popcount), with
   (1) a CONCRETE semantics following C: usual arithmetic conversions, wrap-around of
       unsigned types, signed overflow and shift counts >= the width of the promoted left
       operand are undefined (evaluation fails), and
   (2) an ABSTRACT evaluator that tracks how the result depends on the string s: either not
       at all, or as  (s >> delta) & m  for a shift delta and a mask m computed from the int
       arguments alone, proved sound for every 64-bit s.
   The translator (translate/c2coq.py) only PARSES the function into this syntax; what the
   function means is decided here. A theorem about a generated function is then a finite
   table over the int arguments (vm_compute) lifted to all strings by [afun_sound]. *)
From Coq Require Import NArith ZArith List Bool Arith Lia.
From FQE Require Import Bits GenBase.
Import ListNotations.
Local Open Scope Z_scope.

Inductive cty := TU64 | TU32 | TI32.
Inductive cop := OAnd | OOr | OXor | OAdd | OSub | OShl | OShr | OLt.
Inductive cex :=
| XS                         (* current value of the uint64_t string parameter *)
| XA (k : nat)               (* k-th int parameter *)
| XL (k : nat)               (* k-th local (const) variable *)
| XC (t : cty) (v : Z)
| XB (o : cop) (a b : cex)
| XNot (a : cex)
| XIf (c a b : cex).
Inductive cstmt := SLet (t : cty) (e : cex) | SSet (e : cex).
Inductive cret := RPop64 (e : cex) | RPop32 (e : cex).
Record cfun := mkcfun { cbody : list cstmt; cret_ : cret }.

Definition val := (cty * Z)%type.
Definition width (t : cty) : Z := match t with TU64 => 64 | _ => 32 end.
Definition is_unsigned (t : cty) : bool := match t with TI32 => false | _ => true end.
Definition cmax (a b : cty) : cty :=
  match a, b with TU64, _ | _, TU64 => TU64 | TU32, _ | _, TU32 => TU32 | _, _ => TI32 end.
Definition in_range (t : cty) (v : Z) : bool :=
  match t with
  | TI32 => (- 2 ^ 31 <=? v) && (v <? 2 ^ 31)
  | _ => (0 <=? v) && (v <? 2 ^ width t)
  end.
(* conversion to a type: unsigned targets wrap; a value that does not fit int is not modelled *)
Definition conv (t : cty) (v : Z) : option Z :=
  match t with
  | TI32 => if in_range TI32 v then Some v else None
  | _ => Some (v mod 2 ^ width t)
  end.

Definition cbin (o : cop) (x y : val) : option val :=
  let (tx, vx) := x in let (ty, vy) := y in
  match o with
  | OShl | OShr =>
    (* the result has the type of the left operand; the count must be below its width *)
    if (0 <=? vy) && (vy <? width tx) then
      match o with
      | OShl => if is_unsigned tx then Some (tx, Z.shiftl vx vy mod 2 ^ width tx)
                else if (0 <=? vx) && in_range TI32 (Z.shiftl vx vy) then Some (tx, Z.shiftl vx vy) else None
      | _ => if 0 <=? vx then Some (tx, Z.shiftr vx vy) else None
      end
    else None
  | _ =>
    let t := cmax tx ty in
    match conv t vx, conv t vy with
    | Some a, Some b =>
      match o with
      | OAnd => if (0 <=? a) && (0 <=? b) then Some (t, Z.land a b) else None
      | OOr => if (0 <=? a) && (0 <=? b) then Some (t, Z.lor a b) else None
      | OXor => if (0 <=? a) && (0 <=? b) then Some (t, Z.lxor a b) else None
      | OAdd => if is_unsigned t then Some (t, (a + b) mod 2 ^ width t)
                else if in_range TI32 (a + b) then Some (t, a + b) else None
      | OSub => if is_unsigned t then Some (t, (a - b) mod 2 ^ width t)
                else if in_range TI32 (a - b) then Some (t, a - b) else None
      | OLt => Some (TI32, if a <? b then 1 else 0)
      | _ => None
      end
    | _, _ => None
    end
  end.

Definition cnot (x : val) : option val :=
  let (t, v) := x in
  if is_unsigned t then Some (t, 2 ^ width t - 1 - v) else Some (t, - v - 1).

Fixpoint ceval (e : cex) (s : Z) (args : list Z) (locs : list val) : option val :=
  match e with
  | XS => Some (TU64, s)
  | XA k => match nth_error args k with Some v => Some (TI32, v) | None => None end
  | XL k => nth_error locs k
  | XC t v => if in_range t v then Some (t, v) else None
  | XB o a b =>
    match ceval a s args locs, ceval b s args locs with
    | Some x, Some y => cbin o x y
    | _, _ => None
    end
  | XNot a => match ceval a s args locs with Some x => cnot x | None => None end
  | XIf c a b =>
    match ceval c s args locs with
    | Some (_, vc) => if Z.eqb vc 0 then ceval b s args locs else ceval a s args locs
    | None => None
    end
  end.

Fixpoint cexec (b : list cstmt) (s : Z) (args : list Z) (locs : list val) : option (Z * list val) :=
  match b with
  | [] => Some (s, locs)
  | SLet t e :: r =>
    match ceval e s args locs with
    | Some (_, v) => match conv t v with Some v' => cexec r s args (locs ++ [(t, v')]) | None => None end
    | None => None
    end
  | SSet e :: r =>
    match ceval e s args locs with
    | Some (_, v) => cexec r (v mod 2 ^ 64) args locs
    | None => None
    end
  end.

Definition cfun_eval (f : cfun) (s : Z) (args : list Z) : option Z :=
  match cexec (cbody f) s args [] with
  | Some (s', locs) =>
    match cret_ f with
    | RPop64 e => match ceval e s' args locs with Some (_, v) => Some (zpopcount (v mod 2 ^ 64)) | None => None end
    | RPop32 e => match ceval e s' args locs with Some (_, v) => Some (zpopcount (v mod 2 ^ 32)) | None => None end
    end
  | None => None
  end.

(* ------------------------------------------------------------------ abstract evaluation *)
Inductive absv := AC (v : val) | AL (delta m : Z).     (* AL: the uint64 value (s >> delta) & m *)

Definition aeval_bin (o : cop) (x y : absv) : option absv :=
  match x, y with
  | AC a, AC b => match cbin o a b with Some v => Some (AC v) | None => None end
  | AL d m, AC (t, k) =>
    match o with
    | OAnd => match conv TU64 k with Some k' => Some (AL d (Z.land m k')) | None => None end
    | OShr => if (0 <=? k) && (k <? 64) then Some (AL (d + k) (Z.shiftr m k)) else None
    | _ => None
    end
  | AC (t, k), AL d m =>
    match o with
    | OAnd => match conv TU64 k with Some k' => Some (AL d (Z.land m k')) | None => None end
    | _ => None
    end
  | _, _ => None
  end.

Fixpoint aeval (e : cex) (cur : absv) (args : list Z) (locs : list absv) : option absv :=
  match e with
  | XS => Some cur
  | XA k => match nth_error args k with Some v => Some (AC (TI32, v)) | None => None end
  | XL k => nth_error locs k
  | XC t v => if in_range t v then Some (AC (t, v)) else None
  | XB o a b =>
    match aeval a cur args locs, aeval b cur args locs with
    | Some x, Some y => aeval_bin o x y
    | _, _ => None
    end
  | XNot a => match aeval a cur args locs with Some (AC x) => option_map AC (cnot x) | _ => None end
  | XIf c a b =>
    match aeval c cur args locs with
    | Some (AC (_, vc)) => if Z.eqb vc 0 then aeval b cur args locs else aeval a cur args locs
    | _ => None
    end
  end.

Fixpoint aexec (b : list cstmt) (cur : absv) (args : list Z) (locs : list absv) : option (absv * list absv) :=
  match b with
  | [] => Some (cur, locs)
  | SLet t e :: r =>
    match aeval e cur args locs with
    | Some (AC (_, v)) => match conv t v with Some v' => aexec r cur args (locs ++ [AC (t, v')]) | None => None end
    | _ => None                      (* locals that depend on the string are outside the fragment *)
    end
  | SSet e :: r =>
    match aeval e cur args locs with
    | Some (AL d m) => aexec r (AL d m) args locs
    | _ => None
    end
  end.

(* result: the function returns popcount ((s >> delta) & m) *)
Definition afun (f : cfun) (args : list Z) : option (Z * Z) :=
  match aexec (cbody f) (AL 0 ones64) args [] with
  | Some (cur, locs) =>
    match cret_ f with
    | RPop64 e => match aeval e cur args locs with Some (AL d m) => Some (d, m) | _ => None end
    | RPop32 e => match aeval e cur args locs with Some (AL d m) => Some (d, Z.land m (Z.ones 32)) | _ => None end
    end
  | None => None
  end.

(* ------------------------------------------------------------------ soundness *)
Definition wf_abs (a : absv) : Prop := match a with AC _ => True | AL d m => 0 <= d /\ 0 <= m < 2 ^ 64 end.
Definition conc (s0 : Z) (a : absv) : val :=
  match a with AC v => v | AL d m => (TU64, Z.land (Z.shiftr s0 d) m) end.

Lemma land_mask_range x m : 0 <= m < 2 ^ 64 -> 0 <= x -> 0 <= Z.land x m < 2 ^ 64.
Proof.
  intros Hm Hx. split; [apply Z.land_nonneg; lia|].
  assert (E : m = Z.land m (Z.ones 64)) by (rewrite Z.land_ones by lia; symmetry; apply Z.mod_small; lia).
  rewrite E, Z.land_assoc, Z.land_ones by lia. apply Z.mod_pos_bound. lia.
Qed.

Lemma lin_range s0 d m : 0 <= s0 -> 0 <= d -> 0 <= m < 2 ^ 64 -> 0 <= Z.land (Z.shiftr s0 d) m < 2 ^ 64.
Proof. intros Hs Hd Hm. apply land_mask_range; [exact Hm|]. apply Z.shiftr_nonneg. exact Hs. Qed.

Lemma conv_u64_nonneg k : exists k', conv TU64 k = Some k' /\ 0 <= k' < 2 ^ 64.
Proof. exists (k mod 2 ^ 64). split; [reflexivity|]. apply Z.mod_pos_bound. lia. Qed.

Lemma aeval_bin_sound s0 o x y r : 0 <= s0 -> wf_abs x -> wf_abs y -> aeval_bin o x y = Some r ->
  wf_abs r /\ cbin o (conc s0 x) (conc s0 y) = Some (conc s0 r).
Proof.
  intros Hs Wx Wy H. destruct x as [[ta ka]|d m], y as [[t k]|d' m']; cbn [aeval_bin] in H; try discriminate.
  - destruct (cbin o (ta, ka) (t, k)) as [v|] eqn:E; [|discriminate]. inversion H; subst. split; [exact I|exact E].
  - rename ta into t, ka into k. destruct Wy as [Hd Hm].
    pose proof (lin_range s0 d' m' Hs Hd Hm) as HX.
    destruct o; try discriminate.
    destruct (conv_u64_nonneg k) as [k' [Ek Hk]]. rewrite Ek in H. inversion H; subst r.
    split; [cbn; split; [lia|apply land_mask_range; [exact Hk|lia]]|].
    cbn [conc cbin cmax]. replace (cmax t TU64) with TU64 by (destruct t; reflexivity).
    cbn [conv width]. rewrite (Z.mod_small _ _ HX). cbn [conv width] in Ek. inversion Ek as [Ek'].
    destruct (Z.leb_spec 0 (k mod 2 ^ 64)); [|lia].
    destruct (Z.leb_spec 0 (Z.land (Z.shiftr s0 d') m')); [|lia]. cbn [andb].
    rewrite (Z.land_comm (k mod 2 ^ 64)), Z.land_assoc. reflexivity.
  - destruct Wx as [Hd Hm].
    pose proof (lin_range s0 d m Hs Hd Hm) as HX.
    destruct o; try discriminate.
    + (* And *)
      destruct (conv_u64_nonneg k) as [k' [Ek Hk]]. rewrite Ek in H. inversion H; subst r.
      split; [cbn; split; [lia|apply land_mask_range; [exact Hk|lia]]; rewrite Z.land_comm; apply land_mask_range; lia|].
      cbn [conc cbin cmax]. replace (cmax TU64 t) with TU64 by (destruct t; reflexivity).
      cbn [conv width]. rewrite (Z.mod_small _ _ HX). cbn [conv] in Ek. cbn [width] in Ek. inversion Ek as [Ek'].
      destruct (Z.leb_spec 0 (Z.land (Z.shiftr s0 d) m)); [|lia].
      destruct (Z.leb_spec 0 (k mod 2 ^ 64)); [|lia]. cbn [andb]. rewrite Z.land_assoc. reflexivity.
    + (* Shr *)
      destruct (Z.leb_spec 0 k); [|discriminate]. destruct (Z.ltb_spec k 64); [|discriminate]. cbn [andb] in H.
      inversion H; subst r. split.
      * cbn. split; [lia|]. split; [apply Z.shiftr_nonneg; lia|].
        rewrite Z.shiftr_div_pow2 by lia. apply Z.le_lt_trans with m; [|lia].
        apply Z.div_le_upper_bound; [lia|]. assert (1 <= 2 ^ k) by (apply Z.pow_le_mono_r with (b := 0) (c := k) in H0 || idtac; lia). nia.
      * cbn [conc cbin width].
        destruct (Z.leb_spec 0 k); [|lia]. destruct (Z.ltb_spec k 64); [|lia]. cbn [andb is_unsigned].
        destruct (Z.leb_spec 0 (Z.land (Z.shiftr s0 d) m)); [|lia].
        rewrite Z.shiftr_land, Z.shiftr_shiftr by lia. reflexivity.
Qed.

Definition env_ok (s0 scur : Z) (cur : absv) (alocs : list absv) (locs : list val) : Prop :=
  wf_abs cur /\ conc s0 cur = (TU64, scur) /\ Forall wf_abs alocs /\ locs = map (conc s0) alocs.

Lemma aeval_sound s0 (Hs : 0 <= s0) scur cur args alocs locs : env_ok s0 scur cur alocs locs ->
  forall e r, aeval e cur args alocs = Some r ->
  wf_abs r /\ ceval e scur args locs = Some (conc s0 r).
Proof.
  intros [Wc [Ec [Wl El]]]. induction e as [| k | k | t v | o a IHa b IHb | a IHa | c IHc a IHa b IHb]; intros r H; cbn [aeval ceval] in *.
  - inversion H; subst. split; [exact Wc|]. rewrite Ec. reflexivity.
  - destruct (nth_error args k); [|discriminate]. inversion H; subst. split; [exact I|reflexivity].
  - subst locs. rewrite nth_error_map, H. split; [|reflexivity].
    rewrite Forall_forall in Wl. apply Wl. eapply nth_error_In; eauto.
  - destruct (in_range t v); [|discriminate]. inversion H; subst. split; [exact I|reflexivity].
  - destruct (aeval a cur args alocs) as [x|] eqn:Ea; [|discriminate].
    destruct (aeval b cur args alocs) as [y|] eqn:Eb; [|discriminate].
    destruct (IHa x eq_refl) as [Wx Cx]. destruct (IHb y eq_refl) as [Wy Cy].
    rewrite Cx, Cy. apply aeval_bin_sound; assumption.
  - destruct (aeval a cur args alocs) as [[x|]|] eqn:Ea; try discriminate.
    destruct (IHa (AC x) eq_refl) as [_ Cx]. rewrite Cx. cbn [conc].
    destruct (cnot x) as [v|]; [|discriminate]. inversion H; subst. split; [exact I|reflexivity].
  - destruct (aeval c cur args alocs) as [[[tc vc]|]|] eqn:Ecc; try discriminate.
    destruct (IHc (AC (tc, vc)) eq_refl) as [_ Cc]. rewrite Cc. cbn [conc].
    destruct (Z.eqb vc 0); [apply IHb|apply IHa]; exact H.
Qed.

Lemma aexec_sound s0 (Hs : 0 <= s0) args : forall b scur cur alocs locs cur' alocs',
  env_ok s0 scur cur alocs locs -> aexec b cur args alocs = Some (cur', alocs') ->
  exists scur', cexec b scur args locs = Some (scur', map (conc s0) alocs') /\ env_ok s0 scur' cur' alocs' (map (conc s0) alocs').
Proof.
  induction b as [|st r IH]; intros scur cur alocs locs cur' alocs' Henv H; cbn [aexec cexec] in *.
  - inversion H; subst. destruct Henv as [A [B [C D]]]. subst locs. exists scur. split; [reflexivity|]. repeat split; assumption.
  - destruct st as [t e|e].
    + destruct (aeval e cur args alocs) as [[[te v]|]|] eqn:Ea; try discriminate.
      destruct (aeval_sound s0 Hs scur cur args alocs locs Henv e _ Ea) as [_ Ce]. rewrite Ce. cbn [conc].
      destruct (conv t v) as [v'|]; [|discriminate].
      destruct Henv as [A [B [C D]]]. subst locs.
      apply (IH scur cur (alocs ++ [AC (t, v')]) (map (conc s0) alocs ++ [(t, v')])); [|exact H].
      repeat split; try assumption.
      * apply Forall_app. split; [exact C|constructor; [exact I|constructor]].
      * rewrite map_app. reflexivity.
    + destruct (aeval e cur args alocs) as [[|d m]|] eqn:Ea; try discriminate.
      destruct (aeval_sound s0 Hs scur cur args alocs locs Henv e _ Ea) as [[Hd Hm] Ce]. rewrite Ce. cbn [conc].
      pose proof (lin_range s0 d m Hs Hd Hm) as HX. rewrite (Z.mod_small _ _ HX).
      destruct Henv as [A [B [C D]]].
      apply (IH _ (AL d m) alocs locs); [|exact H].
      repeat split; try assumption; lia.
Qed.

Lemma N_shiftl_popcount n : forall d, popcount (N.shiftl n (N.of_nat d)) = popcount n.
Proof.
  induction d as [|d IH]; [rewrite N.shiftl_0_r; reflexivity|].
  rewrite Nat2N.inj_succ, N.shiftl_succ_r, popcount_double. exact IH.
Qed.

Lemma zpop_shift s d m : 0 <= s -> 0 <= d -> 0 <= m ->
  zpopcount (Z.land (Z.shiftr s d) m) = zpopcount (Z.land s (Z.shiftl m d)).
Proof.
  intros Hs Hd Hm.
  assert (E : Z.land s (Z.shiftl m d) = Z.shiftl (Z.land (Z.shiftr s d) m) d).
  { apply Z.bits_inj'. intros n Hn. rewrite Z.land_spec.
    destruct (Z.lt_ge_cases n d) as [L|G].
    - rewrite !Z.shiftl_spec_low by lia. apply andb_false_r.
    - rewrite !Z.shiftl_spec by lia. rewrite Z.land_spec, Z.shiftr_spec by lia. f_equal. f_equal. lia. }
  rewrite E. unfold zpopcount. f_equal.
  set (x := Z.land (Z.shiftr s d) m).
  assert (Hx : 0 <= x) by (apply Z.land_nonneg; left; apply Z.shiftr_nonneg; exact Hs).
  replace (Z.to_N (Z.shiftl x d)) with (N.shiftl (Z.to_N x) (N.of_nat (Z.to_nat d))).
  - symmetry. apply N_shiftl_popcount.
  - apply N2Z.inj. rewrite N.shiftl_mul_pow2, N2Z.inj_mul, N2Z.inj_pow.
    rewrite !Z2N.id; try lia; [|apply Z.shiftl_nonneg; exact Hx].
    rewrite Z.shiftl_mul_pow2 by lia. change (Z.of_N 2) with 2. f_equal. f_equal. lia.
Qed.

(* THE LIFT: whatever the abstract evaluator reports holds for every 64-bit string *)
Theorem afun_sound f args d m : afun f args = Some (d, m) ->
  forall s, 0 <= s < 2 ^ 64 -> cfun_eval f s args = Some (zpopcount (Z.land s (Z.shiftl m d))).
Proof.
  unfold afun, cfun_eval. intros H s Hs.
  destruct (aexec (cbody f) (AL 0 ones64) args []) as [[cur alocs]|] eqn:Ex; [|discriminate].
  assert (Henv0 : env_ok s s (AL 0 ones64) [] []).
  { unfold env_ok. split; [|split; [|split; [constructor|reflexivity]]].
    - cbn [wf_abs]. split; [lia|]. unfold ones64. rewrite Z.ones_equiv. lia.
    - cbn [conc]. rewrite Z.shiftr_0_r, land_ones64 by lia. reflexivity. }
  destruct (aexec_sound s ltac:(lia) args _ _ _ _ _ _ _ Henv0 Ex) as [scur [Ec Henv]].
  cbn [map] in Ec. rewrite Ec.
  destruct (cret_ f) as [e|e].
  - destruct (aeval e cur args alocs) as [[|d' m']|] eqn:Ea; try discriminate. inversion H; subst d' m'.
    destruct (aeval_sound s ltac:(lia) scur cur args alocs _ Henv e _ Ea) as [[Hd Hm] Ce]. rewrite Ce. cbn [conc].
    pose proof (lin_range s d m ltac:(lia) Hd Hm) as HX. rewrite (Z.mod_small _ _ HX).
    f_equal. apply zpop_shift; lia.
  - destruct (aeval e cur args alocs) as [[|d' m']|] eqn:Ea; try discriminate. inversion H; subst d m.
    destruct (aeval_sound s ltac:(lia) scur cur args alocs _ Henv e _ Ea) as [[Hd Hm] Ce]. rewrite Ce. cbn [conc].
    rewrite <- Z.land_ones by lia. rewrite <- Z.land_assoc.
    f_equal. apply zpop_shift; try lia. apply Z.land_nonneg. left. lia.
Qed.

(* corollary used by the generated-code theorems: if the low 64 bits of the shifted mask are a range mask *)
Corollary afun_counts f args d m lo hi : afun f args = Some (d, m) -> (hi <= 64)%nat ->
  Z.land (Z.shiftl m d) ones64 = Z.of_N (range_mask lo hi) ->
  forall s, 0 <= s < 2 ^ 64 -> cfun_eval f s args = Some (Z.of_nat (cnt_range (Z.to_N s) lo hi)).
Proof.
  intros H Hhi Hm s Hs. rewrite (afun_sound f args d m H s Hs). f_equal.
  apply zpop_land_mask; assumption.
Qed.

(* ------------------------------------------------------------------ tables over the int arguments *)
Definition tab2d_afun (f : cfun) (spec : Z -> Z -> Z) : bool :=
  forallb (fun i => forallb (fun j => if Z.eqb i j then true else
    match afun f [i; j] with
    | Some (d, m) => Z.eqb (Z.land (Z.shiftl m d) ones64) (spec i j)
    | None => false
    end) idx64) idx64.
Lemma tab2d_afun_ok f spec : tab2d_afun f spec = true ->
  forall i j, 0 <= i < 64 -> 0 <= j < 64 -> i <> j ->
  exists d m, afun f [i; j] = Some (d, m) /\ Z.land (Z.shiftl m d) ones64 = spec i j.
Proof.
  unfold tab2d_afun. intros T i j Hi Hj Hne. rewrite forallb_forall in T.
  specialize (T i (in_idx64 i Hi)). rewrite forallb_forall in T. specialize (T j (in_idx64 j Hj)).
  destruct (Z.eqb_spec i j); [contradiction|].
  destruct (afun f [i; j]) as [[d m]|]; [|discriminate].
  exists d, m. split; [reflexivity|]. apply Z.eqb_eq. exact T.
Qed.

Definition tab1_afun (f : cfun) (spec : Z -> Z) : bool :=
  forallb (fun i =>
    match afun f [i] with
    | Some (d, m) => Z.eqb (Z.land (Z.shiftl m d) ones64) (spec i)
    | None => false
    end) idx64.
Lemma tab1_afun_ok f spec : tab1_afun f spec = true ->
  forall i, 0 <= i < 64 -> exists d m, afun f [i] = Some (d, m) /\ Z.land (Z.shiftl m d) ones64 = spec i.
Proof.
  unfold tab1_afun. intros T i Hi. rewrite forallb_forall in T. specialize (T i (in_idx64 i Hi)).
  destruct (afun f [i]) as [[d m]|]; [|discriminate].
  exists d, m. split; [reflexivity|]. apply Z.eqb_eq. exact T.
Qed.

(* definedness alone (no undefined shift, no signed overflow, no failed conversion), for every string *)
Definition tabdef2 (f : cfun) : bool :=
  forallb (fun i => forallb (fun j => if Z.eqb i j then true else
    match afun f [i; j] with Some _ => true | None => false end) idx64) idx64.
Lemma tabdef2_ok f : tabdef2 f = true ->
  forall s i j, 0 <= s < 2 ^ 64 -> 0 <= i < 64 -> 0 <= j < 64 -> i <> j -> exists v, cfun_eval f s [i; j] = Some v.
Proof.
  unfold tabdef2. intros T s i j Hs Hi Hj Hne. rewrite forallb_forall in T.
  specialize (T i (in_idx64 i Hi)). rewrite forallb_forall in T. specialize (T j (in_idx64 j Hj)).
  destruct (Z.eqb_spec i j); [contradiction|].
  destruct (afun f [i; j]) as [[d m]|] eqn:E; [|discriminate].
  eexists. apply (afun_sound f [i; j] d m E s Hs).
Qed.
Definition tabdef1 (f : cfun) : bool :=
  forallb (fun i => match afun f [i] with Some _ => true | None => false end) idx64.
Lemma tabdef1_ok f : tabdef1 f = true ->
  forall s i, 0 <= s < 2 ^ 64 -> 0 <= i < 64 -> exists v, cfun_eval f s [i] = Some v.
Proof.
  unfold tabdef1. intros T s i Hs Hi. rewrite forallb_forall in T. specialize (T i (in_idx64 i Hi)).
  destruct (afun f [i]) as [[d m]|] eqn:E; [|discriminate].
  eexists. apply (afun_sound f [i] d m E s Hs).
Qed.
