(* Par.v — C10: a parallel loop as a family of iterations, each a straight-line list of
   memory actions.  If the iterations are pairwise independent (no iteration writes a cell
   another one reads or writes), then EVERY interleaving of their action lists — not just
   every order of whole iterations — leaves the same memory as sequential execution. *)
From Coq Require Import ZArith List Bool Arith Lia.
Import ListNotations.

Definition mem := nat -> Z.
Record action := mkact {
  waddr : nat;                 (* cell written *)
  reads : list nat;            (* cells read *)
  val : mem -> Z               (* value written *)
}.
(* the value depends only on the declared reads *)
Definition wf (a : action) : Prop :=
  forall m1 m2, (forall r, In r (reads a) -> m1 r = m2 r) -> val a m1 = val a m2.

Definition upd (m : mem) (x : nat) (v : Z) : mem := fun y => if Nat.eqb x y then v else m y.
Definition exec (a : action) (m : mem) : mem := upd m (waddr a) (val a m).
Fixpoint run (s : list action) (m : mem) : mem :=
  match s with [] => m | a :: r => run r (exec a m) end.

Definition meq (m1 m2 : mem) : Prop := forall x, m1 x = m2 x.

Definition disjoint (a b : action) : Prop :=
  waddr a <> waddr b /\ ~ In (waddr a) (reads b) /\ ~ In (waddr b) (reads a).
(* two stores of the SAME constant into the same cell (a benign same-value race) *)
Definition same_const (a b : action) : Prop :=
  waddr a = waddr b /\ exists c, (forall m, val a m = c) /\ (forall m, val b m = c).
Definition indep (a b : action) : Prop := disjoint a b \/ same_const a b.

Lemma exec_meq a m1 m2 : wf a -> meq m1 m2 -> meq (exec a m1) (exec a m2).
Proof.
  intros Hw H x. unfold exec, upd. destruct (Nat.eqb (waddr a) x); [|apply H].
  apply Hw. intros r _. apply H.
Qed.

Lemma run_meq s : Forall wf s -> forall m1 m2, meq m1 m2 -> meq (run s m1) (run s m2).
Proof.
  induction s as [|a r IH]; intros Hw m1 m2 H; simpl; [exact H|].
  inversion Hw; subst. apply IH; [assumption|]. apply exec_meq; assumption.
Qed.

Lemma exec_commute a b m : wf a -> wf b -> indep a b -> meq (exec a (exec b m)) (exec b (exec a m)).
Proof.
  intros Ha Hb [[Hne [Hab Hba]]|[Hsame [c [Hca Hcb]]]] x.
  2:{ unfold exec, upd. rewrite !Hca, !Hcb, Hsame. destruct (Nat.eqb (waddr b) x); reflexivity. }
  unfold exec, upd.
  assert (Ea : val a (fun y => if Nat.eqb (waddr b) y then val b m else m y) = val a m).
  { apply Ha. intros r Hr. destruct (Nat.eqb_spec (waddr b) r); [subst; contradiction|reflexivity]. }
  assert (Eb : val b (fun y => if Nat.eqb (waddr a) y then val a m else m y) = val b m).
  { apply Hb. intros r Hr. destruct (Nat.eqb_spec (waddr a) r); [subst; contradiction|reflexivity]. }
  rewrite Ea, Eb.
  destruct (Nat.eqb_spec (waddr a) x); destruct (Nat.eqb_spec (waddr b) x); subst; try reflexivity.
  congruence.
Qed.

(* moving an action past a block of actions it is independent of *)
Lemma run_move a l : wf a -> Forall wf l -> Forall (indep a) l ->
  forall r m, Forall wf r -> meq (run (a :: l ++ r) m) (run (l ++ a :: r) m).
Proof.
  intros Ha. induction l as [|b l IH]; intros Hwl Hind r m Hwr; simpl.
  - intros x; reflexivity.
  - inversion Hwl; subst. inversion Hind; subst.
    (* a; b; l; r  ~  b; a; l; r  ~  b; l; a; r *)
    intros x.
    transitivity (run (l ++ r) (exec a (exec b m)) x).
    + apply run_meq; [apply Forall_app; split; assumption|].
      intros y. symmetry. apply exec_commute; assumption.
    + specialize (IH H2 H4 r (exec b m) Hwr). simpl in IH. apply IH.
Qed.

(* interleavings of a family of threads *)
Fixpoint set_nth {A} (l : list A) (k : nat) (v : A) : list A :=
  match l, k with
  | [], _ => []
  | _ :: r, O => v :: r
  | x :: r, S k' => x :: set_nth r k' v
  end.

Inductive merge : list (list action) -> list action -> Prop :=
| merge_nil : forall ts, Forall (fun t => t = []) ts -> merge ts []
| merge_step : forall ts k a tl s,
    nth_error ts k = Some (a :: tl) -> merge (set_nth ts k tl) s -> merge ts (a :: s).

(* pairwise independence of different threads *)
Definition pairwise_indep (ts : list (list action)) : Prop :=
  forall i j ti tj, i <> j -> nth_error ts i = Some ti -> nth_error ts j = Some tj ->
  forall a b, In a ti -> In b tj -> indep a b.
Definition all_wf (ts : list (list action)) : Prop := Forall (Forall wf) ts.

Lemma concat_all_nil (ts : list (list action)) : Forall (fun t : list action => t = []) ts -> concat ts = [].
Proof. induction 1 as [|t ts Ht _ IH]; simpl; [reflexivity|subst; exact IH]. Qed.

Lemma set_nth_concat (ts : list (list action)) : forall k a tl, nth_error ts k = Some (a :: tl) ->
  concat ts = concat (firstn k ts) ++ a :: tl ++ concat (skipn (S k) ts) /\
  concat (set_nth ts k tl) = concat (firstn k ts) ++ tl ++ concat (skipn (S k) ts).
Proof.
  induction ts as [|t ts IH]; intros [|k] a tl H; simpl in *; try discriminate.
  - inversion H; subst. split; reflexivity.
  - destruct (IH k a tl H) as [E1 E2]. rewrite E1, E2. rewrite <- !app_assoc. split; reflexivity.
Qed.

Lemma nth_error_set_nth_other {A} (l : list A) : forall k j v, j <> k -> nth_error (set_nth l k v) j = nth_error l j.
Proof.
  induction l as [|x l IH]; intros [|k] [|j] v H; simpl; try reflexivity; try congruence.
  apply IH. congruence.
Qed.
Lemma nth_error_set_nth_same {A} (l : list A) : forall k v, k < length l -> nth_error (set_nth l k v) k = Some v.
Proof.
  induction l as [|x l IH]; intros [|k] v H; simpl in *; try lia; [reflexivity|]. apply IH. lia.
Qed.

Lemma firstn_in_nth {A} (l : list A) : forall k x, In x (firstn k l) -> exists i, i < k /\ nth_error l i = Some x.
Proof.
  induction l as [|y l IH]; intros [|k] x H; simpl in *; try contradiction.
  destruct H as [->|H]; [exists 0; split; [lia|reflexivity]|].
  destruct (IH k x H) as [i [Hi E]]. exists (S i). split; [lia|exact E].
Qed.

Lemma in_firstn {A} (l : list A) : forall k x, In x (firstn k l) -> In x l.
Proof. induction l as [|y l IH]; intros [|k] x H; simpl in *; try contradiction. destruct H; [left; assumption|right; eapply IH; eauto]. Qed.
Lemma in_skipn {A} (l : list A) : forall k x, In x (skipn k l) -> In x l.
Proof. induction l as [|y l IH]; intros [|k] x H; simpl in *; try contradiction; try assumption. right. eapply IH; eauto. Qed.

Lemma all_wf_nth ts k t : all_wf ts -> nth_error ts k = Some t -> Forall wf t.
Proof.
  unfold all_wf. intros H E. rewrite Forall_forall in H. apply H. eapply nth_error_In; eauto.
Qed.

Lemma all_wf_set_nth ts : forall k t, all_wf ts -> Forall wf t -> all_wf (set_nth ts k t).
Proof.
  unfold all_wf. induction ts as [|x ts IH]; intros [|k] t H Ht; simpl; try constructor;
    inversion H; subst; try assumption.
  apply IH; assumption.
Qed.

Lemma pairwise_set_nth ts k a tl : k < length ts -> nth_error ts k = Some (a :: tl) ->
  pairwise_indep ts -> pairwise_indep (set_nth ts k tl).
Proof.
  intros Hlen Hk Hind i j ti tj Hij Hi Hj x y Hx Hy.
  assert (Gi : exists ti0, nth_error ts i = Some ti0 /\ (forall z, In z ti -> In z ti0)).
  { destruct (Nat.eq_dec i k) as [->|Hne].
    - rewrite nth_error_set_nth_same in Hi by assumption. inversion Hi; subst. exists (a :: ti). split; [assumption|intros; right; assumption].
    - rewrite nth_error_set_nth_other in Hi by assumption. exists ti. split; [assumption|auto]. }
  assert (Gj : exists tj0, nth_error ts j = Some tj0 /\ (forall z, In z tj -> In z tj0)).
  { destruct (Nat.eq_dec j k) as [->|Hne].
    - rewrite nth_error_set_nth_same in Hj by assumption. inversion Hj; subst. exists (a :: tj). split; [assumption|intros; right; assumption].
    - rewrite nth_error_set_nth_other in Hj by assumption. exists tj. split; [assumption|auto]. }
  destruct Gi as [ti0 [Ei Si]]. destruct Gj as [tj0 [Ej Sj]].
  apply (Hind i j ti0 tj0 Hij Ei Ej); auto.
Qed.

Lemma all_wf_sub ts l : all_wf ts -> (forall t, In t l -> In t ts) -> Forall wf (concat l).
Proof.
  intros H Hs. apply Forall_concat. unfold all_wf in H. rewrite Forall_forall in H. rewrite Forall_forall.
  intros t Ht. apply H. apply Hs. exact Ht.
Qed.

Theorem interleaving_irrelevant ts s : merge ts s -> all_wf ts -> pairwise_indep ts ->
  forall m, meq (run s m) (run (concat ts) m).
Proof.
  induction 1 as [ts Hnil|ts k a tl s Hk Hm IH]; intros Hwf Hind m.
  - rewrite concat_all_nil by assumption. intros x; reflexivity.
  - destruct (set_nth_concat ts k a tl Hk) as [E1 E2].
    assert (Hlen : k < length ts) by (apply nth_error_Some; congruence).
    pose proof (all_wf_nth ts k (a :: tl) Hwf Hk) as Hatl.
    assert (Ha : wf a) by (inversion Hatl; assumption).
    assert (Htl : Forall wf tl) by (inversion Hatl; assumption).
    specialize (IH (all_wf_set_nth ts k tl Hwf Htl) (pairwise_set_nth ts k a tl Hlen Hk Hind)).
    intros x. simpl. rewrite (IH (exec a m) x). rewrite E2, E1.
    assert (Hpre_wf : Forall wf (concat (firstn k ts))).
    { apply (all_wf_sub ts); [assumption|]. intros t Ht. eapply in_firstn. exact Ht. }
    assert (Hpre_ind : Forall (indep a) (concat (firstn k ts))).
    { rewrite Forall_forall. intros b Hb. apply in_concat in Hb. destruct Hb as [t [Ht Hbt]].
      apply firstn_in_nth in Ht. destruct Ht as [i [Hi Ei]].
      apply (Hind k i (a :: tl) t); [lia|assumption|assumption|left; reflexivity|assumption]. }
    assert (Hrest_wf : Forall wf (tl ++ concat (skipn (S k) ts))).
    { apply Forall_app. split; [assumption|].
      apply (all_wf_sub ts); [assumption|]. intros t Ht. eapply in_skipn. exact Ht. }
    pose proof (run_move a (concat (firstn k ts)) Ha Hpre_wf Hpre_ind (tl ++ concat (skipn (S k) ts)) m Hrest_wf x) as HM.
    rewrite <- HM. reflexivity.
Qed.

(* ------------------------------------------------------------------ footprint patterns of the C kernels *)
(* ROW-PARALLEL kernels (lm_apply_array1, lm_apply_array12_same_spin_opt, apply_diagonal_coulomb,
   evolve_diagonal, apply_array1_column ... : `#pragma omp parallel for` over s1, iteration s1
   writes only out[s1*w .. s1*w + w) and reads only cells of read-only inputs placed outside
   the output block [0, n*w)). *)
Definition in_row (w i : nat) (a : action) : Prop :=
  (exists c, c < w /\ waddr a = i * w + c) /\ (forall r, In r (reads a) -> forall j c, c < w -> r <> j * w + c \/ j = i).

Theorem row_parallel_disjoint w i j a b : i <> j -> in_row w i a -> in_row w j b -> indep a b.
Proof.
  intros Hij [[ca [Hca Ea]] Ra] [[cb [Hcb Eb]] Rb]. left. split; [|split].
  - rewrite Ea, Eb. intros E. apply Hij. destruct (Nat.lt_trichotomy i j) as [H|[H|H]]; [exfalso|exact H|exfalso]; nia.
  - intros Hin. destruct (Rb (waddr a) Hin i ca Hca) as [H|H]; [apply H; exact Ea|congruence].
  - intros Hin. destruct (Ra (waddr b) Hin j cb Hcb) as [H|H]; [apply H; exact Eb|congruence].
Qed.

(* PER-THREAD SCRATCH (lm_apply_array12_diff_spin_omp1: vtemp + ithrd*nsig): offsets of
   different threads are disjoint when every index stays below the stride *)
Theorem scratch_disjoint nsig t1 t2 i1 i2 : t1 <> t2 -> i1 < nsig -> i2 < nsig -> t1 * nsig + i1 <> t2 * nsig + i2.
Proof. intros Ht H1 H2 E. apply Ht. destruct (Nat.lt_trichotomy t1 t2) as [H|[H|H]]; [exfalso|exact H|exfalso]; nia. Qed.

(* ELEMENT-PARALLEL with collapse(2) (apply_diagonal_inplace: data[j + lenb*i]) *)
Theorem collapse2_injective lenb i1 j1 i2 j2 : j1 < lenb -> j2 < lenb ->
  j1 + lenb * i1 = j2 + lenb * i2 -> i1 = i2 /\ j1 = j2.
Proof. intros H1 H2 E. destruct (Nat.lt_trichotomy i1 i2) as [H|[H|H]]; [exfalso; nia|subst; split; [reflexivity|nia]|exfalso; nia]. Qed.

(* SAME-VALUE STORES (detect_cirq_sectors: paramarray[...] = 1 from several iterations) *)
Theorem same_value_stores_indep x c rs1 rs2 :
  indep (mkact x rs1 (fun _ => c)) (mkact x rs2 (fun _ => c)).
Proof. right. split; [reflexivity|]. exists c. split; reflexivity. Qed.

(* ... whereas two different values stored to one cell DO depend on the order *)
Theorem different_value_race_refuted : exists a b m,
  waddr a = waddr b /\ run [a; b] m (waddr a) <> run [b; a] m (waddr a).
Proof.
  exists (mkact 0 [] (fun _ => 1%Z)), (mkact 0 [] (fun _ => 2%Z)), (fun _ => 0%Z).
  split; [reflexivity|]. vm_compute. discriminate.
Qed.

(* scatter through an injective target map (map_deexc, make_dvec_part, nbody1_accumulate:
   out[target[i]] for distinct targets) *)
Theorem injective_targets_distinct (tgt : nat -> nat) i j :
  (forall i j, tgt i = tgt j -> i = j) -> i <> j -> tgt i <> tgt j.
Proof. intros H Hij E. apply Hij. apply H. exact E. Qed.
