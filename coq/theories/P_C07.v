(* P_C07.v — C07 (first stage): basic facts of the export map. *)
From Coq Require Import NArith ZArith List Bool Arith Lia.
From FQE Require Import Car Fock GaussZ Bits Addr Cirq.
Import ListNotations.

(* the reordering sign is that of the ladder operators: building a determinant by
   creators never fails on distinct modes below nq, and preserves the length *)
Theorem C07_build_length : forall modes nq s d, jw_build nq modes = Some (s, d) -> length d = nq.
Proof.
  unfold jw_build. induction modes as [|q r IH]; intros nq s d H; simpl in H.
  - unfold sid in H. inversion H; subst. apply repeat_length.
  - unfold scomp in H.
    destruct (string_fn (map (fun q0 => mkop q0 true) r) (repeat false nq)) as [[s1 d1]|] eqn:E; [|discriminate].
    unfold op_fn in H. simpl in H. destruct (cre q d1) as [[s2 d2]|] eqn:E2; [|discriminate].
    inversion H; subst. apply cre_length in E2. rewrite E2. eapply IH; eauto.
Qed.
Print Assumptions C07_build_length.

(* the JW code is the identity encoding *)
Lemma parity_in_single d k : parity_in d [k] = nth k d false.
Proof. unfold parity_in. simpl. destruct (nth k d false); reflexivity. Qed.

Theorem C07_jw_code_identity : forall d, encode (jw_code (length d)) d = d.
Proof.
  intros d. unfold encode, jw_code. rewrite map_map.
  apply nth_ext with (d := false) (d' := false); [rewrite map_length, seq_length; reflexivity|].
  intros n Hn. rewrite map_length, seq_length in Hn.
  rewrite (nth_indep _ false (parity_in d [0])) by (rewrite map_length, seq_length; exact Hn).
  rewrite (map_nth (fun k => parity_in d [k]) (seq 0 (length d)) 0 n).
  rewrite seq_nth by exact Hn. simpl. apply parity_in_single.
Qed.
Print Assumptions C07_jw_code_identity.

(* non-vacuity: |A={0,1},B={0,1}> on 2 orbitals has sign -1 and index 15 *)
Example C07_export_example : export_det 2 (jw_code 4) 3%N 3%N = Some (true, 15%N).
Proof. vm_compute. reflexivity. Qed.
