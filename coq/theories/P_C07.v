(* P_C07.v — C07: property theorems only (proofs in Reorder.v / CirqThm.v). *)
From Coq Require Import NArith ZArith List Bool Arith Lia.
From FQE Require Import Car Fock GaussZ Bits Addr Reorder Cirq Model CirqThm.
Import ListNotations.

(* applying any ladder operator before the export equals applying its qubit image
   (the ladder operator of mode 2i+sigma in mode order) after it — for every orbital
   count, every determinant of every sector (so also across sectors), signs included *)
Theorem C07_export_intertwines_cre : forall norb beta i (d : det), i < norb -> length d = 2 * norb ->
  slift (2 * norb) (pi_conv norb) (cre (pos_of norb beta i) d) 0 =
  sbind (cre (mode_of beta i)) (build (2 * norb) (pi_conv norb) 0 d).
Proof. exact export_intertwines_cre. Qed.
Print Assumptions C07_export_intertwines_cre.

Theorem C07_export_intertwines_ann : forall norb beta i (d : det), i < norb -> length d = 2 * norb ->
  slift (2 * norb) (pi_conv norb) (ann (pos_of norb beta i) d) 0 =
  sbind (ann (mode_of beta i)) (build (2 * norb) (pi_conv norb) 0 d).
Proof. exact export_intertwines_ann. Qed.
Print Assumptions C07_export_intertwines_ann.

(* each determinant goes to exactly one basis state, whose occupied modes are the
   spin orbitals it occupies; the export never fails *)
Theorem C07_export_total : forall norb c a b, exists s ix, export_det norb c a b = Some (s, ix).
Proof. exact export_det_total. Qed.
Print Assumptions C07_export_total.

Theorem C07_export_occupation : forall norb d s e beta i, length d = 2 * norb -> i < norb ->
  build (2 * norb) (pi_conv norb) 0 d = Some (s, e) ->
  nth (mode_of beta i) e false = nth (pos_of norb beta i) d false.
Proof. exact build_conv_occupation. Qed.
Print Assumptions C07_export_occupation.

(* isometry: distinct determinants never share a Jordan-Wigner index, and the sign has modulus one *)
Theorem C07_export_jw_injective : forall norb a b a' b' s s' ix,
  (a < 2 ^ N.of_nat norb)%N -> (a' < 2 ^ N.of_nat norb)%N -> (b < 2 ^ N.of_nat norb)%N -> (b' < 2 ^ N.of_nat norb)%N ->
  export_det norb (jw_code (2 * norb)) a b = Some (s, ix) ->
  export_det norb (jw_code (2 * norb)) a' b' = Some (s', ix) -> a = a' /\ b = b'.
Proof.
  intros norb a b a' b' s s' ix Ha Ha' Hb Hb' H1 H2.
  exact (det_conv_inj norb a b a' b' Ha Ha' Hb Hb' (export_det_jw_injective norb a b a' b' s s' ix H1 H2)).
Qed.
Print Assumptions C07_export_jw_injective.

Theorem C07_sign_is_unit : forall s z, gznorm2 (gsg s z) = gznorm2 z.
Proof. exact gsg_norm. Qed.
Print Assumptions C07_sign_is_unit.

(* importing the exported vector reads back exactly the original amplitude of every determinant *)
Theorem C07_import_export_amplitude : forall norb a b s ix v,
  (forall a0 b0 z, In (a0, b0, z) v -> (a0 < 2 ^ N.of_nat norb)%N /\ (b0 < 2 ^ N.of_nat norb)%N) ->
  (a < 2 ^ N.of_nat norb)%N -> (b < 2 ^ N.of_nat norb)%N ->
  export_det norb (jw_code (2 * norb)) a b = Some (s, ix) ->
  gsg s (lookupN ix (export norb (jw_code (2 * norb)) v)) = lookupAB a b v.
Proof. exact import_export_amplitude. Qed.
Print Assumptions C07_import_export_amplitude.

(* the JW code is the identity encoding *)
Theorem C07_jw_code_identity : forall d, encode (jw_code (length d)) d = d.
Proof. exact jw_code_identity. Qed.
Print Assumptions C07_jw_code_identity.

(* non-vacuity: |A={0,1},B={0,1}> on 2 orbitals has sign -1 and index 15; a state
   where the intertwining has non-trivial signs on both sides *)
Example C07_export_example : export_det 2 (jw_code 4) 3%N 3%N = Some (true, 15%N).
Proof. vm_compute. reflexivity. Qed.
Example C07_intertwine_example :
  slift 4 (pi_conv 2) (cre (pos_of 2 true 1) [true; false; false; true]) 0 = Some (true, [false; true; true; true])
  /\ build 4 (pi_conv 2) 0 [true; false; false; true] = Some (true, [false; true; true; false]).
Proof. vm_compute. split; reflexivity. Qed.

(* other linear binary codes (CodeThm.v): any code with a decoder on 2 norb modes (an invertible GF(2) matrix) exports
   injectively; the parity code (qubit k = parity of modes 0..k) has one for every number of modes *)
From FQE Require Import CodeThm.
Theorem C07_export_injective_for_invertible_codes :
  forall norb (c : code) (dec : det -> det) a b a' b' s s' ix,
  (forall e, length e = 2 * norb -> dec (encode c e) = e) ->
  export_det norb c a b = Some (s, ix) -> export_det norb c a' b' = Some (s', ix) ->
  det_conv norb a b = det_conv norb a' b'.
Proof. exact export_det_injective_of_decoder. Qed.
Print Assumptions C07_export_injective_for_invertible_codes.

Theorem C07_parity_code_invertible : forall d, dpx false (encode (parity_code (length d)) d) = d.
Proof. exact parity_decode_encode. Qed.
Print Assumptions C07_parity_code_invertible.

Theorem C07_export_parity_injective : forall norb a b a' b' s s' ix,
  export_det norb (parity_code (2 * norb)) a b = Some (s, ix) ->
  export_det norb (parity_code (2 * norb)) a' b' = Some (s', ix) ->
  det_conv norb a b = det_conv norb a' b'.
Proof. exact export_det_parity_injective. Qed.
Print Assumptions C07_export_parity_injective.

Example C07_parity_code_example : parity_code 3 = [[0]; [0; 1]; [0; 1; 2]] /\
  encode (parity_code 4) [true; false; true; true] = [true; true; false; true].
Proof. vm_compute. split; reflexivity. Qed.

(* every lower-unitriangular code (row k = modes below k, then k: the Jordan-Wigner, parity and Bravyi-Kitaev encoders) is
   injective; `unitri` is a checkable predicate (extracted; the correspondence evaluates it on every code it exports with) *)
Theorem C07_unitriangular_codes_injective : forall c d d',
  unitri c = true -> length d = length c -> length d' = length c -> encode c d = encode c d' -> d = d'.
Proof. exact encode_unitri_injective. Qed.
Print Assumptions C07_unitriangular_codes_injective.

Theorem C07_export_injective_unitriangular : forall norb (c : code) a b a' b' s s' ix,
  unitri c = true -> length c = 2 * norb ->
  export_det norb c a b = Some (s, ix) -> export_det norb c a' b' = Some (s', ix) ->
  det_conv norb a b = det_conv norb a' b'.
Proof. exact export_det_injective_unitri. Qed.
Print Assumptions C07_export_injective_unitriangular.

(* every linear code with a CERTIFIED left inverse is injective (CodeInv.v): `left_inv dc c n` checks the candidate decoder
   matrix dc on the n unit vectors; by linearity of the encoder that decides it on all 2^n occupation vectors.  The
   correspondence finds dc by GF(2) elimination and has the extracted `left_inv` certify it for every code it exports
   with (library codes, interleaved, permutation and unitriangular families), so the theorem applies to each of them. *)
From FQE Require Import CodeInv.
Theorem C07_certified_left_inverse_is_left_inverse : forall (dc c : code) n, left_inv dc c n = true ->
  forall e, length e = n -> encode dc (encode c e) = e.
Proof. exact left_inv_sound. Qed.
Print Assumptions C07_certified_left_inverse_is_left_inverse.

Theorem C07_export_injective_certified_inverse : forall norb (c dc : code) a b a' b' s s' ix,
  left_inv dc c (2 * norb) = true ->
  export_det norb c a b = Some (s, ix) -> export_det norb c a' b' = Some (s', ix) ->
  det_conv norb a b = det_conv norb a' b'.
Proof. exact export_det_injective_left_inv. Qed.
Print Assumptions C07_export_injective_certified_inverse.
