(* CodeInv.v — C07: every linear binary code with a certified left inverse exports injectively.
   A code is a GF(2) matrix given by rows (row k = the modes whose parity is qubit k; Cirq.encode).  For a candidate
   decoder matrix dc the finite check
       left_inv dc c n  :=  length dc = n  and  encode dc (encode c e_k) = e_k  for the n unit vectors e_k
   decides (by linearity of encode) that  encode dc (encode c e) = e  for ALL 2^n occupation vectors e of length n,
   hence (CodeThm.export_det_injective_of_decoder) two determinants never share a qubit index: for every orbital count
   and every code the harness can certify - Jordan-Wigner, parity, Bravyi-Kitaev, interleaved, permutation codes,
   unitriangular codes, ... .  The decoder is found outside (GF(2) elimination in the harness); only the check is trusted. *)
From Coq Require Import NArith List Bool Arith Lia.
From FQE Require Import Car Fock GaussZ Bits Addr Reorder Cirq CirqThm CodeThm.
Import ListNotations.

Definition vxor (x y : det) : det := map (fun p => xorb (fst p) (snd p)) (combine x y).
Definition unitv (n k : nat) : det := map (fun i => Nat.eqb i k) (seq 0 n).

Lemma vxor_length x y : length x = length y -> length (vxor x y) = length x.
Proof. intros H. unfold vxor. rewrite map_length, combine_length, H. apply Nat.min_id. Qed.

Lemma unitv_length n k : length (unitv n k) = n.
Proof. unfold unitv. rewrite map_length, seq_length. reflexivity. Qed.

Lemma nth_vxor : forall x y q, length x = length y ->
  nth q (vxor x y) false = xorb (nth q x false) (nth q y false).
Proof.
  induction x as [|a x IH]; intros [|b y] q H; cbn [length] in H; try discriminate.
  - destruct q; reflexivity.
  - destruct q as [|q]; [reflexivity|]. cbn [vxor combine map nth fst snd]. apply (IH y q). lia.
Qed.

Lemma nth_unitv n k q : nth q (unitv n k) false = (q <? n) && Nat.eqb q k.
Proof.
  unfold unitv. destruct (Nat.ltb_spec q n) as [L|L].
  - rewrite (nth_indep _ false (Nat.eqb 0 k)) by (rewrite map_length, seq_length; exact L).
    rewrite (map_nth (fun i => Nat.eqb i k) (seq 0 n) 0 q), seq_nth by exact L. reflexivity.
  - rewrite nth_overflow by (rewrite map_length, seq_length; exact L). reflexivity.
Qed.

Lemma fold_xorb_pair (f g : nat -> bool) : forall row a b,
  fold_left xorb (map (fun q => xorb (f q) (g q)) row) (xorb a b)
  = xorb (fold_left xorb (map f row) a) (fold_left xorb (map g row) b).
Proof.
  induction row as [|q row IH]; intros a b; cbn [map fold_left]; [reflexivity|].
  rewrite <- IH. f_equal. destruct a, b, (f q), (g q); reflexivity.
Qed.

Lemma parity_in_vxor x y row : length x = length y ->
  parity_in (vxor x y) row = xorb (parity_in x row) (parity_in y row).
Proof.
  intros H. unfold parity_in.
  rewrite (map_ext (fun q => nth q (vxor x y) false) (fun q => xorb (nth q x false) (nth q y false)))
    by (intros q; apply nth_vxor; exact H).
  exact (fold_xorb_pair (fun q => nth q x false) (fun q => nth q y false) row false false).
Qed.

Lemma vxor_map {A} (f g : A -> bool) (l : list A) :
  vxor (map f l) (map g l) = map (fun a => xorb (f a) (g a)) l.
Proof. unfold vxor. induction l as [|a l IH]; cbn [map combine fst snd]; [reflexivity|]. rewrite IH. reflexivity. Qed.

Lemma encode_vxor c x y : length x = length y -> encode c (vxor x y) = vxor (encode c x) (encode c y).
Proof.
  intros H. unfold encode. rewrite vxor_map. apply map_ext. intros row. apply parity_in_vxor. exact H.
Qed.

Lemma parity_in_zero e row : (forall q, nth q e false = false) -> parity_in e row = false.
Proof.
  intros Z. unfold parity_in. induction row as [|q row IH]; cbn [map fold_left]; [reflexivity|].
  rewrite Z. exact IH.
Qed.

Lemma det_ext (x y : det) : length x = length y -> (forall q, nth q x false = nth q y false) -> x = y.
Proof. intros L H. apply (nth_ext x y false false L). intros q _. apply H. Qed.

Definition left_inv (dc c : code) (n : nat) : bool :=
  Nat.eqb (length dc) n &&
  forallb (fun k => det_eqb (encode dc (encode c (unitv n k))) (unitv n k)) (seq 0 n).

Theorem left_inv_sound dc c n : left_inv dc c n = true ->
  forall e, length e = n -> encode dc (encode c e) = e.
Proof.
  unfold left_inv. intros H. apply andb_true_iff in H. destruct H as [Ld U]. apply Nat.eqb_eq in Ld.
  rewrite forallb_forall in U.
  assert (Uk : forall k, k < n -> encode dc (encode c (unitv n k)) = unitv n k).
  { intros k Hk. apply det_eqb_spec. apply U. apply in_seq. lia. }
  assert (P : forall k e, length e = n -> (forall q, k <= q -> nth q e false = false) -> encode dc (encode c e) = e).
  { induction k as [|k IH]; intros e Le Z.
    - apply det_ext; [rewrite encode_length; lia|]. intros q.
      rewrite (Z q) by lia. unfold encode at 1.
      destruct (Nat.ltb_spec q (length dc)) as [L|L].
      + rewrite (nth_indep _ false (parity_in (encode c e) [])) by (rewrite map_length; exact L).
        rewrite (map_nth (parity_in (encode c e)) dc [] q).
        apply parity_in_zero. intros r. unfold encode.
        destruct (Nat.ltb_spec r (length c)) as [L2|L2].
        * rewrite (nth_indep _ false (parity_in e [])) by (rewrite map_length; exact L2).
          rewrite (map_nth (parity_in e) c [] r). apply parity_in_zero. intros t. apply Z. lia.
        * apply nth_overflow. rewrite map_length. exact L2.
      + apply nth_overflow. rewrite map_length. exact L.
    - destruct (nth k e false) eqn:Nk.
      + assert (Hk : k < n).
        { destruct (Nat.ltb_spec k n) as [L|L]; [exact L|]. rewrite nth_overflow in Nk by lia. discriminate. }
        set (e' := vxor e (unitv n k)).
        assert (Le' : length e' = n) by (unfold e'; rewrite vxor_length; [exact Le|rewrite unitv_length; exact Le]).
        assert (Ee : e = vxor e' (unitv n k)).
        { apply det_ext; [rewrite vxor_length; [lia|rewrite unitv_length; exact Le']|]. intros q.
          rewrite nth_vxor by (rewrite unitv_length; exact Le'). unfold e'.
          rewrite nth_vxor by (rewrite unitv_length; exact Le). destruct (nth q e false), (nth q (unitv n k) false); reflexivity. }
        assert (Z' : forall q, k <= q -> nth q e' false = false).
        { intros q Hq. unfold e'. rewrite nth_vxor by (rewrite unitv_length; exact Le). rewrite nth_unitv.
          destruct (Nat.eqb_spec q k) as [->|Hne].
          - rewrite Nk. destruct (Nat.ltb_spec k n); [reflexivity|lia].
          - rewrite (Z q) by lia. rewrite andb_false_r. reflexivity. }
        rewrite Ee at 1. rewrite encode_vxor by (rewrite unitv_length; exact Le').
        rewrite encode_vxor by (rewrite !encode_length; reflexivity).
        rewrite (IH e' Le' Z'), (Uk k Hk). symmetry. exact Ee.
      + apply IH; [exact Le|]. intros q Hq. destruct (Nat.eqb_spec q k) as [->|Hne]; [exact Nk|apply Z; lia]. }
  intros e Le. apply (P n e Le). intros q Hq. apply nth_overflow. lia.
Qed.

Theorem export_det_injective_left_inv norb (c dc : code) a b a' b' s s' ix :
  left_inv dc c (2 * norb) = true ->
  export_det norb c a b = Some (s, ix) -> export_det norb c a' b' = Some (s', ix) ->
  det_conv norb a b = det_conv norb a' b'.
Proof.
  intros H. apply (export_det_injective_of_decoder norb c (encode dc)).
  intros e Le. apply (left_inv_sound dc c (2 * norb) H e Le).
Qed.

(* non-vacuity: the Bravyi-Kitaev code on 4 modes (rows {0},{0,1},{2},{0,1,2,3}) and its inverse *)
Example bk4_left_inv :
  left_inv [[0]; [0; 1]; [2]; [1; 2; 3]] [[0]; [0; 1]; [2]; [0; 1; 2; 3]] 4 = true.
Proof. vm_compute. reflexivity. Qed.
