(* P_C09_trev.v — C09: the phases TimeReversalOp.contract applies, as written in the current source, are the phases of
   the time-reversal operator (P_C09.C09_time_reversal_phase: T|A,B> = (-1)^(n_beta (n_alpha + 1)) |B,A>): the block
   written into the partner sector comes from (nalpha, nbeta), the block written into the sector comes from its partner
   (nbeta, nalpha), and for equal counts the source applies no sign, which is right because n (n + 1) is even. *)
From Coq Require Import ZArith Arith.
From FQE Require Import Equiv_trev.
From FQE.gen Require Import Gen_trev_phases.

Theorem C09_source_time_reversal_phase_into_partner : forall na nb : nat,
  Z.odd (py_trev_exp_into_high (Z.of_nat na) (Z.of_nat nb)) = Nat.odd (nb * (na + 1)).
Proof. exact py_trev_into_high_parity. Qed.
Print Assumptions C09_source_time_reversal_phase_into_partner.

Theorem C09_source_time_reversal_phase_from_partner : forall na nb : nat,
  Z.odd (py_trev_exp_into_low (Z.of_nat na) (Z.of_nat nb)) = Nat.odd (na * (nb + 1)).
Proof. exact py_trev_into_low_parity. Qed.
Print Assumptions C09_source_time_reversal_phase_from_partner.

Theorem C09_source_time_reversal_equal_counts : forall n : nat, Nat.odd (n * (n + 1)) = false.
Proof. exact trev_equal_counts_no_phase. Qed.
Print Assumptions C09_source_time_reversal_equal_counts.
