(* Resid.v — C19: residual / gradient tensors as expectation values of commutators
   <psi| [g_pqrs, A] |psi>,  g_pqrs = a†_p a†_q a_r a_s  (OpenFermion modes 2i+sigma),
   A any operator polynomial (Spec side, built on the Fock-space action). *)
From Coq Require Import NArith ZArith List Bool Arith Lia.
From FQE Require Import Car Fock GaussZ Bits Denote Model Rdm.
Import ListNotations.

Definition of_mode (q : nat) (dg : bool) : hop := (Nat.odd q, Nat.div2 q, dg).
Definition g4 (p q r s : nat) : list hop := [of_mode p true; of_mode q true; of_mode r false; of_mode s false].

(* <x| (g A - A g) |y> *)
Definition comm_entry (norb : nat) (A : list hterm) (x y : list (N * N * gz)) (g : list hop) : gz :=
  gzsub (m_matel norb (map (fun t => (fst t, g ++ snd t)) A) x y)
        (m_matel norb (map (fun t => (fst t, snd t ++ g)) A) x y).

Definition m_comm4 (norb : nat) (es : list hentry) (x y : list (N * N * gz)) : list gz :=
  let A := denote_all norb es in
  map (fun ix => match ix with
                 | [p; q; r; s] => comm_entry norb A x y (g4 p q r s)
                 | _ => gz0 end) (tuples (2 * norb) 4).
