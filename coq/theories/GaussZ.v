(* GaussZ.v — Gaussian integers Z[i] as pairs, a commutative ring with
   conjugation (Leibniz equality); the carrier of the exact regime. *)
From Coq Require Import ZArith Ring Lia.
Local Open Scope Z_scope.

Definition gz := (Z * Z)%type.
Definition gz0 : gz := (0, 0).
Definition gz1 : gz := (1, 0).
Definition gzi : gz := (0, 1).
Definition gzadd (a b : gz) : gz := (fst a + fst b, snd a + snd b).
Definition gzmul (a b : gz) : gz := (fst a * fst b - snd a * snd b, fst a * snd b + snd a * fst b).
Definition gzopp (a : gz) : gz := (- fst a, - snd a).
Definition gzsub (a b : gz) : gz := (fst a - fst b, snd a - snd b).
Definition gzconj (a : gz) : gz := (fst a, - snd a).
Definition gz_of_Z (z : Z) : gz := (z, 0).
Definition gznorm2 (a : gz) : Z := fst a * fst a + snd a * snd a.
Definition gz_eqb (a b : gz) : bool := andb (Z.eqb (fst a) (fst b)) (Z.eqb (snd a) (snd b)).

Lemma gz_ring : ring_theory gz0 gz1 gzadd gzmul gzsub gzopp (@eq gz).
Proof.
  constructor; intros; try destruct x as [a b]; try destruct y as [c d]; try destruct z as [e f];
    unfold gzadd, gzmul, gzsub, gzopp, gz0, gz1; cbn [fst snd]; f_equal; ring.
Qed.

Lemma gzconj_add a b : gzconj (gzadd a b) = gzadd (gzconj a) (gzconj b).
Proof. destruct a, b; unfold gzconj, gzadd; simpl; f_equal; ring. Qed.
Lemma gzconj_mul a b : gzconj (gzmul a b) = gzmul (gzconj a) (gzconj b).
Proof. destruct a, b; unfold gzconj, gzmul; simpl; f_equal; ring. Qed.
Lemma gzconj_opp a : gzconj (gzopp a) = gzopp (gzconj a).
Proof. destruct a; unfold gzconj, gzopp; simpl; f_equal; ring. Qed.
Lemma gzconj_0 : gzconj gz0 = gz0.
Proof. reflexivity. Qed.
Lemma gzconj_invol a : gzconj (gzconj a) = a.
Proof. destruct a; unfold gzconj; simpl; f_equal; ring. Qed.

Lemma gz_eqb_spec a b : gz_eqb a b = true <-> a = b.
Proof.
  destruct a as [a1 a2], b as [b1 b2]; unfold gz_eqb; simpl.
  rewrite Bool.andb_true_iff, !Z.eqb_eq. split; [intros [H1 H2]; congruence|intros H; inversion H; auto].
Qed.

Lemma gznorm2_nonneg a : 0 <= gznorm2 a.
Proof. unfold gznorm2. nia. Qed.

Lemma gznorm2_conj_mul a : gzmul (gzconj a) a = gz_of_Z (gznorm2 a).
Proof. destruct a; unfold gzmul, gzconj, gz_of_Z, gznorm2; simpl; f_equal; ring. Qed.
