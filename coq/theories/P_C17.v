(* P_C17.v — C17 (first stage): the facts behind the helpers.
   (1) number operators are simultaneously diagonal: n_p n_q as a string acts on every
       determinant as the scalar [p occupied][q occupied], so products of the individual
       charge-charge evolutions are plain phases in any order;
   (2) a Givens step with zero angle is the identity (skipping it changes nothing):
       the 2x2 block closed form at w -> the diagonal phase at E = 0. *)
From Coq Require Import List Bool Arith Lia Reals Lra.
From Coquelicot Require Import Coquelicot.
From FQE Require Import Car Fock EvolveR.
Import ListNotations.
Local Close Scope R_scope.

(* n_p = a†_p a_p as a partial signed map *)
Definition num_fn (p : nat) : det -> sdet := scomp (cre p) (ann p).

Theorem C17_number_operator_diagonal : forall p d, p < length d ->
  num_fn p d = if nth p d false then Some (false, d) else None.
Proof.
  intros p d Hp. unfold num_fn. destruct (ann_cre_same p d Hp) as [[H1 H2]|[H1 H2]]; rewrite H2.
  - (* a a† defined: position empty *)
    destruct (nth p d false) eqn:E; [|reflexivity].
    exfalso. unfold scomp in H1. destruct (cre p d) as [[s e]|] eqn:C; [|discriminate].
    assert (exists x, cre p d = Some x) by eauto. apply cre_some_iff in H. destruct H as [_ H]. congruence.
  - destruct (nth p d false) eqn:E; [reflexivity|].
    exfalso. unfold scomp in H2. destruct (ann p d) as [[s e]|] eqn:A; [|discriminate].
    assert (exists x, ann p d = Some x) by eauto. apply ann_some_iff in H. congruence.
Qed.
Print Assumptions C17_number_operator_diagonal.

Theorem C17_number_operators_commute : forall p q d, p < length d -> q < length d ->
  scomp (num_fn p) (num_fn q) d = scomp (num_fn q) (num_fn p) d.
Proof.
  intros p q d Hp Hq. unfold scomp.
  rewrite (C17_number_operator_diagonal q d Hq), (C17_number_operator_diagonal p d Hp).
  destruct (nth q d false) eqn:Eq; destruct (nth p d false) eqn:Ep;
    rewrite ?(C17_number_operator_diagonal p d Hp), ?(C17_number_operator_diagonal q d Hq), ?Ep, ?Eq; reflexivity.
Qed.
Print Assumptions C17_number_operators_commute.

Local Open Scope R_scope.
Theorem C17_zero_angle_is_identity : forall c0r c0i t, ph_re 0 c0r c0i t = c0r /\ ph_im 0 c0r c0i t = c0i.
Proof.
  intros. unfold ph_re, ph_im. rewrite Rmult_0_l, cos_0, sin_0. split; ring.
Qed.
Print Assumptions C17_zero_angle_is_identity.

(* charge-charge terms: the string n_p n_q acts on every determinant as the scalar
   [p occupied][q occupied]; hence sum_pq v_pq n_p n_q is diagonal with the energy below,
   and exp(-i t sum v n n) is the plain phase exp(-i t E(d)) on each determinant, in any
   order of the factors *)
Local Close Scope R_scope.
Theorem C17_charge_charge_diagonal : forall p q d, p < length d -> q < length d ->
  scomp (num_fn p) (num_fn q) d = if andb (nth p d false) (nth q d false) then Some (false, d) else None.
Proof.
  intros p q d Hp Hq. unfold scomp.
  rewrite (C17_number_operator_diagonal q d Hq).
  destruct (nth q d false) eqn:Eq.
  - rewrite (C17_number_operator_diagonal p d Hp). destruct (nth p d false); reflexivity.
  - rewrite andb_false_r. reflexivity.
Qed.
Print Assumptions C17_charge_charge_diagonal.

Local Open Scope R_scope.
Definition occR (d : det) (p : nat) : R := if nth p d false then 1 else 0.
Definition cc_energy (v : nat -> nat -> R) (n : nat) (d : det) : R :=
  fold_right (fun p acc => fold_right (fun q acc2 => v p q * occR d p * occR d q + acc2) 0 (seq 0 n) + acc) 0 (seq 0 n).

(* the amplitude exp(-i t E_cc(d)) c0 solves  i c' = E_cc(d) c  with c(0) = c0, for every coupling matrix *)
Theorem C17_charge_charge_evolution : forall (v : nat -> nat -> R) n d c0r c0i t,
  is_derive (ph_re (cc_energy v n d) c0r c0i) t (cc_energy v n d * ph_im (cc_energy v n d) c0r c0i t) /\
  is_derive (ph_im (cc_energy v n d) c0r c0i) t (- cc_energy v n d * ph_re (cc_energy v n d) c0r c0i t) /\
  ph_re (cc_energy v n d) c0r c0i 0 = c0r /\ ph_im (cc_energy v n d) c0r c0i 0 = c0i.
Proof.
  intros v n d c0r c0i t.
  destruct (diag_schrodinger (cc_energy v n d) c0r c0i t) as [H1 H2].
  split; [exact H1|]. split; [exact H2|].
  unfold ph_re, ph_im. rewrite Rmult_0_r, cos_0, sin_0. split; ring.
Qed.
Print Assumptions C17_charge_charge_evolution.

(* a hopping generator a†_p a_q - a†_q a_p acts on a determinant pair as a signed swap: if a†_p a_q d = s d' then
   a†_q a_p d' = s d with the SAME sign (sinv of a string and its adjoint), so on span{d, d'} the generator is
   s [[0, -1], [1, 0]] and exp(theta G) is the plane rotation of C02_block_* - the structure every Givens step uses;
   any two positions, any determinant length *)
From FQE Require Import Car Fock.
Theorem C17_hop_is_signed_swap : forall (p q : nat) (d d' : det) (s : bool),
  string_fn [mkop p true; mkop q false] d = Some (s, d') <->
  string_fn [mkop q true; mkop p false] d' = Some (s, d).
Proof. intros p q d d' s. exact (sinv_string [mkop p true; mkop q false] d s d'). Qed.
Print Assumptions C17_hop_is_signed_swap.
