(* Addr.v — string tables, binomials, the Knowles–Handy Z matrix and addresses.
   Definitions only (executable); theorems are in AddrThm.v. *)
From Coq Require Import NArith ZArith List Bool Arith Lia.
From FQE Require Import Bits.
Import ListNotations.

(* Pascal rows: pascal n = [C(n,0); ...; C(n,n)] *)
Fixpoint pascal_next (prev : N) (row : list N) : list N :=
  match row with
  | [] => [prev]
  | x :: r => (prev + x)%N :: pascal_next x r
  end.
Fixpoint pascal (n : nat) : list N :=
  match n with
  | O => [1%N]
  | S m => pascal_next 0%N (pascal m)
  end.
Definition binom (n k : nat) : N := nth k (pascal n) 0%N.
Definition binomZ (n k : Z) : Z :=
  if (n <? 0)%Z || (k <? 0)%Z then 0%Z else Z.of_N (binom (Z.to_nat n) (Z.to_nat k)).

(* all strings with k of n orbitals occupied, in FQE address order:
   lexicographic on the ascending occupation list (orbital 0 most significant) *)
Fixpoint strings (n k : nat) : list N :=
  match n with
  | O => match k with O => [0%N] | S _ => [] end
  | S m =>
    match k with
    | O => [0%N]
    | S j => map (fun s => (2 * s + 1)%N) (strings m j) ++ map (fun s => (2 * s)%N) (strings m k)
    end
  end.

(* position of a string in the table *)
Fixpoint index_of (s : N) (l : list N) : option nat :=
  match l with
  | [] => None
  | x :: r => if N.eqb x s then Some 0 else option_map S (index_of s r)
  end.

(* Z matrix, as the Python loops of _get_Z_matrix compute it (1-based k, l):
   Z[k-1][l-1] = sum_{m=norb-l+1}^{norb-k} (C(m,nele-k) - C(m-1,nele-k-1)) for k<nele,
   Z[nele-1][l-1] = l - nele.  Entries outside the loops stay 0. *)
Definition zsum (f : Z -> Z) (lo hi : Z) : Z :=  (* sum_{m=lo}^{hi-1} f m *)
  fold_left (fun acc i => (acc + f (lo + Z.of_nat i))%Z) (seq 0 (Z.to_nat (hi - lo))) 0%Z.

Definition zmat_entry (norb nele k l : Z) : Z :=
  if (k <? nele)%Z then
    if ((k <=? l) && (l <? norb - nele + k + 1))%Z
    then zsum (fun m => binomZ m (nele - k) - binomZ (m - 1) (nele - k - 1))%Z (norb - l + 1) (norb - k + 1)
    else 0%Z
  else if (k =? nele)%Z then
    if ((nele <=? l) && (l <? norb + 1))%Z then (l - nele)%Z else 0%Z
  else 0%Z.

Definition zmat (norb nele : nat) : list (list Z) :=
  map (fun k => map (fun l => zmat_entry (Z.of_nat norb) (Z.of_nat nele) (Z.of_nat (S k)) (Z.of_nat (S l)))
                    (seq 0 norb)) (seq 0 nele).

(* closed form (reflected combinadic) *)
Definition zmat_closed (norb nele k l : nat) : Z :=   (* 1-based k,l *)
  (Z.of_N (binom (norb - k) (nele - k + 1)) - Z.of_N (binom (norb - l) (nele - k + 1)))%Z.

(* address of a string: sum_i Z[i][occ_i] *)
Definition addr_z (z : list (list Z)) (oc : list nat) : Z :=
  fold_left Z.add (map (fun p => nth (snd p) (nth (fst p) z []) 0%Z) (combine (seq 0 (length oc)) oc)) 0%Z.
Definition addr (norb nele : nat) (s : N) : Z := addr_z (zmat norb nele) (occ norb s).
