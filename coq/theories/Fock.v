(* Fock.v — sparse vectors over a commutative ring with conjugation, the action
   of ladder-operator strings and polynomials on them, and the basic theorems:
   explicit coefficient formula, linearity, composition, CAR at the operator
   level, adjointness  <P x, y> = <x, P† y>. *)
From Coq Require Import List Bool Arith Lia Ring.
From FQE Require Import Car.
Import ListNotations.

Fixpoint det_eqb (a b : det) : bool :=
  match a, b with
  | [], [] => true
  | x :: a', y :: b' => andb (Bool.eqb x y) (det_eqb a' b')
  | _, _ => false
  end.

Lemma det_eqb_spec a : forall b, det_eqb a b = true <-> a = b.
Proof.
  induction a as [|x a IH]; intros [|y b]; simpl; split; intros H; try discriminate; try reflexivity.
  - apply andb_true_iff in H. destruct H as [H1 H2]. apply eqb_prop in H1. apply IH in H2. congruence.
  - inversion H; subst. apply andb_true_iff. split; [apply eqb_reflx|apply IH; reflexivity].
Qed.

Lemma det_eqb_refl a : det_eqb a a = true.
Proof. apply det_eqb_spec; reflexivity. Qed.

Lemma det_eqb_sym a b : det_eqb a b = det_eqb b a.
Proof.
  destruct (det_eqb a b) eqn:E; destruct (det_eqb b a) eqn:F; try reflexivity.
  - apply det_eqb_spec in E. subst. rewrite det_eqb_refl in F. discriminate.
  - apply det_eqb_spec in F. subst. rewrite det_eqb_refl in E. discriminate.
Qed.

(* ladder operators *)
Record lop := mkop { opos : nat; odag : bool }.
Definition op_fn (o : lop) : det -> sdet := if odag o then cre (opos o) else ann (opos o).
Definition op_adj (o : lop) : lop := mkop (opos o) (negb (odag o)).

Definition sid (d : det) : sdet := Some (false, d).

(* a string acts rightmost operator first *)
Fixpoint string_fn (ops : list lop) : det -> sdet :=
  match ops with
  | [] => sid
  | o :: r => scomp (op_fn o) (string_fn r)
  end.

Definition string_adj (ops : list lop) : list lop := rev (map op_adj ops).

(* partial signed maps that are mutually inverse *)
Definition sinv (f g : det -> sdet) : Prop :=
  forall d s d', f d = Some (s, d') <-> g d' = Some (s, d).

Lemma sinv_sym f g : sinv f g -> sinv g f.
Proof. intros H d s d'. symmetry. apply H. Qed.

Lemma sinv_id : sinv sid sid.
Proof. intros d s d'. unfold sid. split; intros H; inversion H; reflexivity. Qed.

Lemma sinv_op o : sinv (op_fn o) (op_fn (op_adj o)).
Proof.
  intros d s d'. unfold op_fn, op_adj. simpl. destruct (odag o); simpl.
  - symmetry. apply ann_cre_inv.
  - apply ann_cre_inv.
Qed.

Lemma sinv_scomp f f' g g' : sinv f f' -> sinv g g' -> sinv (scomp f g) (scomp g' f').
Proof.
  intros Hf Hg d s d'. unfold scomp. split; intros H.
  - destruct (g d) as [[s1 d1]|] eqn:E1; [|discriminate].
    destruct (f d1) as [[s2 d2]|] eqn:E2; [|discriminate].
    inversion H; subst. apply Hf in E2. apply Hg in E1. rewrite E2, E1.
    rewrite xorb_comm. reflexivity.
  - destruct (f' d') as [[s1 d1]|] eqn:E1; [|discriminate].
    destruct (g' d1) as [[s2 d2]|] eqn:E2; [|discriminate].
    inversion H; subst. apply Hf in E1. apply Hg in E2. rewrite E2, E1.
    rewrite xorb_comm. reflexivity.
Qed.

Lemma scomp_assoc f g h d : scomp f (scomp g h) d = scomp (scomp f g) h d.
Proof.
  unfold scomp. destruct (h d) as [[s1 d1]|]; [|reflexivity].
  destruct (g d1) as [[s2 d2]|]; [|reflexivity].
  destruct (f d2) as [[s3 d3]|]; [|reflexivity].
  rewrite xorb_assoc. reflexivity.
Qed.

Lemma scomp_sid_l f d : scomp sid f d = f d.
Proof. unfold scomp, sid. destruct (f d) as [[s e]|]; [rewrite xorb_false_r|]; reflexivity. Qed.

Lemma scomp_sid_r f d : scomp f sid d = f d.
Proof. unfold scomp, sid. destruct (f d) as [[[|] e]|]; simpl; reflexivity. Qed.

Lemma string_fn_app a : forall b d, string_fn (a ++ b) d = scomp (string_fn a) (string_fn b) d.
Proof.
  induction a as [|o a IH]; intros b d; simpl.
  - rewrite scomp_sid_l. reflexivity.
  - rewrite <- scomp_assoc. unfold scomp at 1 3. rewrite IH. reflexivity.
Qed.

Lemma scomp_ext f f' g g' : (forall d, f d = f' d) -> (forall d, g d = g' d) ->
  forall d, scomp f g d = scomp f' g' d.
Proof. intros Hf Hg d. unfold scomp. rewrite Hg. destruct (g' d) as [[s e]|]; [rewrite Hf|]; reflexivity. Qed.

Lemma sinv_ext f f' g : (forall d, f d = f' d) -> sinv f g -> sinv f' g.
Proof. intros He H d s d'. rewrite <- He. apply H. Qed.

Lemma sinv_ext_r f g g' : (forall d, g d = g' d) -> sinv f g -> sinv f g'.
Proof. intros He H d s d'. rewrite <- He. apply H. Qed.

Lemma sinv_string ops : sinv (string_fn ops) (string_fn (string_adj ops)).
Proof.
  induction ops as [|o r IH]; simpl.
  - apply sinv_id.
  - unfold string_adj. simpl. fold (string_adj r).
    eapply sinv_ext_r; [|apply sinv_scomp; [apply sinv_op|apply IH]].
    intros d. rewrite string_fn_app. apply scomp_ext; [reflexivity|].
    intros e. simpl. rewrite scomp_sid_r. reflexivity.
Qed.

Section Vec.
Variable R : Type.
Variables (rO rI : R) (radd rmul rsub : R -> R -> R) (ropp : R -> R).
Hypothesis Rth : ring_theory rO rI radd rmul rsub ropp (@eq R).
Add Ring Rring : Rth.
Variable rconj : R -> R.
Hypothesis conj_add : forall a b, rconj (radd a b) = radd (rconj a) (rconj b).
Hypothesis conj_mul : forall a b, rconj (rmul a b) = rmul (rconj a) (rconj b).
Hypothesis conj_opp : forall a, rconj (ropp a) = ropp (rconj a).
Hypothesis conj_O : rconj rO = rO.
Hypothesis conj_invol : forall a, rconj (rconj a) = a.

Notation "0" := rO. Notation "1" := rI.
Infix "+" := radd. Infix "*" := rmul. Notation "- x" := (ropp x).

Definition vec := list (det * R).

Fixpoint coeff (v : vec) (d : det) : R :=
  match v with
  | [] => 0
  | (e, c) :: r => (if det_eqb e d then c else 0) + coeff r d
  end.

Definition sgn (s : bool) (c : R) : R := if s then - c else c.

Definition lift1 (f : det -> sdet) (x : det * R) : vec :=
  match f (fst x) with
  | Some (s, d') => [(d', sgn s (snd x))]
  | None => []
  end.
Definition lift (f : det -> sdet) (v : vec) : vec := flat_map (lift1 f) v.
Definition vscale (a : R) (v : vec) : vec := map (fun x => (fst x, a * snd x)) v.
Definition vadd (u v : vec) : vec := u ++ v.

Definition act_string (ops : list lop) (v : vec) : vec := lift (string_fn ops) v.
Definition poly := list (R * list lop).
Definition act_poly (p : poly) (v : vec) : vec :=
  flat_map (fun t => vscale (fst t) (act_string (snd t) v)) p.
Definition poly_adj (p : poly) : poly := map (fun t => (rconj (fst t), string_adj (snd t))) p.

(* conjugate-linear in the first slot *)
Fixpoint inner (x y : vec) : R :=
  match x with
  | [] => 0
  | (d, c) :: r => rconj c * coeff y d + inner r y
  end.

Lemma coeff_app u v d : coeff (u ++ v) d = coeff u d + coeff v d.
Proof. induction u as [|[e c] u IH]; simpl; [ring|rewrite IH; ring]. Qed.

Lemma coeff_vadd u v d : coeff (vadd u v) d = coeff u d + coeff v d.
Proof. apply coeff_app. Qed.

Lemma coeff_vscale a v d : coeff (vscale a v) d = a * coeff v d.
Proof. induction v as [|[e c] v IH]; simpl; [ring|rewrite IH; destruct (det_eqb e d); ring]. Qed.

Lemma sgn_add s a b : sgn s (a + b) = sgn s a + sgn s b.
Proof. destruct s; simpl; ring. Qed.
Lemma sgn_O s : sgn s 0 = 0.
Proof. destruct s; simpl; ring. Qed.
Lemma sgn_mul s a b : sgn s (a * b) = a * sgn s b.
Proof. destruct s; simpl; ring. Qed.
Lemma sgn_xorb s t a : sgn (xorb s t) a = sgn s (sgn t a).
Proof. destruct s, t; simpl; ring. Qed.
Lemma sgn_negb s a : sgn (negb s) a = - sgn s a.
Proof. destruct s; simpl; ring. Qed.
Lemma sgn_conj s a : rconj (sgn s a) = sgn s (rconj a).
Proof. destruct s; simpl; [apply conj_opp|reflexivity]. Qed.

(* THE coefficient formula: the coefficient of d' in f(v) is read off through
   the inverse partial map. *)
Lemma coeff_lift f g v d' : sinv f g ->
  coeff (lift f v) d' = match g d' with Some (s, d) => sgn s (coeff v d) | None => 0 end.
Proof.
  intros Hinv. induction v as [|[e c] v IH]; simpl.
  - destruct (g d') as [[s d]|]; [rewrite sgn_O|]; reflexivity.
  - unfold lift in *. rewrite coeff_app, IH. unfold lift1; simpl.
    destruct (f e) as [[s1 e1]|] eqn:E; simpl.
    + destruct (det_eqb e1 d') eqn:Q.
      * apply det_eqb_spec in Q. subst e1. apply Hinv in E. rewrite E.
        rewrite det_eqb_refl. rewrite sgn_add. ring.
      * destruct (g d') as [[s d]|] eqn:G; [|ring].
        destruct (det_eqb e d) eqn:Q2.
        { apply det_eqb_spec in Q2. subst d. apply Hinv in G. rewrite G in E. inversion E; subst.
          rewrite det_eqb_refl in Q. discriminate. }
        rewrite sgn_add, sgn_O. ring.
    + destruct (g d') as [[s d]|] eqn:G; [|ring].
      destruct (det_eqb e d) eqn:Q2.
      { apply det_eqb_spec in Q2. subst d. apply Hinv in G. rewrite G in E. discriminate. }
      rewrite sgn_add, sgn_O. ring.
Qed.

Lemma coeff_act_string ops v d :
  coeff (act_string ops v) d =
  match string_fn (string_adj ops) d with Some (s, e) => sgn s (coeff v e) | None => 0 end.
Proof. apply coeff_lift. apply sinv_string. Qed.

(* linearity of a string / polynomial in the vector *)
Lemma lift_app f u v : lift f (u ++ v) = lift f u ++ lift f v.
Proof. unfold lift. apply flat_map_app. Qed.

Lemma coeff_lift_vscale f a v d : coeff (lift f (vscale a v)) d = a * coeff (lift f v) d.
Proof.
  induction v as [|[e c] v IH]; simpl; [ring|].
  unfold lift in *. rewrite !coeff_app, IH. unfold lift1; simpl.
  destruct (f e) as [[s e1]|]; simpl; [|ring].
  destruct (det_eqb e1 d); [rewrite sgn_mul|]; ring.
Qed.

Lemma coeff_lift_ext f g v d : (forall e, f e = g e) -> coeff (lift f v) d = coeff (lift g v) d.
Proof.
  intros H. induction v as [|[e c] v IH]; simpl; [reflexivity|].
  unfold lift in *. rewrite !coeff_app, IH. unfold lift1; simpl. rewrite H. reflexivity.
Qed.

(* if two vectors have the same coefficients, so do their images *)
Lemma coeff_lift_proper f g u v : sinv f g -> (forall d, coeff u d = coeff v d) ->
  forall d, coeff (lift f u) d = coeff (lift f v) d.
Proof.
  intros Hinv H d. rewrite !(coeff_lift f g) by assumption.
  destruct (g d) as [[s e]|]; [rewrite H|]; reflexivity.
Qed.

Lemma coeff_lift_sneg f g v d : (forall e, f e = sneg (g e)) -> coeff (lift f v) d = - coeff (lift g v) d.
Proof.
  intros H. induction v as [|[e c] v IH]; simpl; [ring|].
  unfold lift in *. rewrite !coeff_app, IH. unfold lift1; simpl. rewrite H.
  destruct (g e) as [[s e1]|]; simpl; [|ring].
  destruct (det_eqb e1 d); [rewrite sgn_negb|]; ring.
Qed.

Lemma coeff_lift_none f v d : (forall e, f e = None) -> coeff (lift f v) d = 0.
Proof.
  intros H. induction v as [|[e c] v IH]; simpl; [reflexivity|].
  unfold lift in *. rewrite coeff_app, IH. unfold lift1; simpl. rewrite H. simpl. ring.
Qed.

(* composition: acting with (f after g) is acting with g then f *)
Lemma lift_scomp f g v : lift (scomp f g) v = lift f (lift g v).
Proof.
  induction v as [|[e c] v IH]; simpl; [reflexivity|].
  unfold lift in *. simpl. rewrite flat_map_app, <- IH. f_equal.
  unfold lift1, scomp; simpl. destruct (g e) as [[s1 e1]|]; simpl; [|reflexivity].
  destruct (f e1) as [[s2 e2]|]; simpl; [|reflexivity].
  rewrite xorb_comm, sgn_xorb. reflexivity.
Qed.

Lemma act_string_app a b v : forall d,
  coeff (act_string (a ++ b) v) d = coeff (act_string a (act_string b v)) d.
Proof.
  intros d. unfold act_string. rewrite <- lift_scomp. apply coeff_lift_ext.
  intros e. apply string_fn_app.
Qed.

(* CAR at the level of vectors, for every vector and every determinant length *)
Theorem car_ann_ann p q v d : p <> q ->
  coeff (act_string [mkop p false; mkop q false] v) d
  = - coeff (act_string [mkop q false; mkop p false] v) d.
Proof.
  intros Hpq. unfold act_string. apply coeff_lift_sneg. intros e. simpl.
  transitivity (scomp (ann p) (ann q) e).
  { apply scomp_ext; [reflexivity|]. intros x. apply scomp_sid_r. }
  rewrite (ann_ann p q e Hpq). f_equal.
  apply scomp_ext; [reflexivity|]. intros x. symmetry. apply scomp_sid_r.
Qed.

Theorem car_ann_ann_same p v d : coeff (act_string [mkop p false; mkop p false] v) d = 0.
Proof.
  unfold act_string. apply coeff_lift_none. intros e. simpl.
  transitivity (scomp (ann p) (ann p) e); [|apply ann_ann_same].
  apply scomp_ext; [reflexivity|]. intros x. apply scomp_sid_r.
Qed.

Theorem car_cre_cre p q v d : p <> q ->
  coeff (act_string [mkop p true; mkop q true] v) d
  = - coeff (act_string [mkop q true; mkop p true] v) d.
Proof.
  intros Hpq. unfold act_string. apply coeff_lift_sneg. intros e. simpl.
  transitivity (scomp (cre p) (cre q) e).
  { apply scomp_ext; [reflexivity|]. intros x. apply scomp_sid_r. }
  rewrite (cre_cre p q e Hpq). f_equal.
  apply scomp_ext; [reflexivity|]. intros x. symmetry. apply scomp_sid_r.
Qed.

Theorem car_cre_cre_same p v d : coeff (act_string [mkop p true; mkop p true] v) d = 0.
Proof.
  unfold act_string. apply coeff_lift_none. intros e. simpl.
  transitivity (scomp (cre p) (cre p) e); [|apply cre_cre_same].
  apply scomp_ext; [reflexivity|]. intros x. apply scomp_sid_r.
Qed.

Theorem car_ann_cre p q v d : p <> q ->
  coeff (act_string [mkop p false; mkop q true] v) d
  = - coeff (act_string [mkop q true; mkop p false] v) d.
Proof.
  intros Hpq. unfold act_string. apply coeff_lift_sneg. intros e. simpl.
  transitivity (scomp (ann p) (cre q) e).
  { apply scomp_ext; [reflexivity|]. intros x. apply scomp_sid_r. }
  rewrite (ann_cre p q e Hpq). f_equal.
  apply scomp_ext; [reflexivity|]. intros x. symmetry. apply scomp_sid_r.
Qed.

(* a_p a†_p + a†_p a_p = 1 on vectors whose determinants all contain position p *)
Definition wide (n : nat) (v : vec) : Prop := forall e c, In (e, c) v -> length e = n.

Theorem car_ann_cre_same p n v d : p < n -> wide n v ->
  coeff (act_string [mkop p false; mkop p true] v) d
  + coeff (act_string [mkop p true; mkop p false] v) d = coeff v d.
Proof.
  intros Hp Hw. unfold act_string. induction v as [|[e c] v IH]; simpl; [ring|].
  assert (Hw' : wide n v) by (intros e' c' Hin; apply (Hw e' c'); right; assumption).
  specialize (IH Hw').
  unfold lift in *. simpl. rewrite !coeff_app.
  assert (He : length e = n) by (apply (Hw e c); left; reflexivity).
  assert (Hpe : p < length e) by lia.
  replace (coeff v d) with
    (coeff (flat_map (lift1 (string_fn [mkop p false; mkop p true])) v) d +
     coeff (flat_map (lift1 (string_fn [mkop p true; mkop p false])) v) d) by exact IH.
  unfold lift1 at 1 3; simpl.
  assert (E1 : scomp (ann p) (scomp (cre p) sid) e = scomp (ann p) (cre p) e).
  { apply scomp_ext; [reflexivity|]. intros x. apply scomp_sid_r. }
  assert (E2 : scomp (cre p) (scomp (ann p) sid) e = scomp (cre p) (ann p) e).
  { apply scomp_ext; [reflexivity|]. intros x. apply scomp_sid_r. }
  unfold op_fn; simpl. rewrite E1, E2.
  destruct (ann_cre_same p e Hpe) as [[H1 H2]|[H1 H2]]; rewrite H1, H2; simpl;
    destruct (det_eqb e d); ring.
Qed.

(* ---- the general anticommutator and the Knowles–Handy folding identity ---- *)
Lemma string_fn_length ops : forall d s e, string_fn ops d = Some (s, e) -> length e = length d.
Proof.
  induction ops as [|o r IH]; intros d s e H; simpl in H.
  - unfold sid in H. inversion H; reflexivity.
  - unfold scomp in H. destruct (string_fn r d) as [[s1 d1]|] eqn:E; [|discriminate].
    destruct (op_fn o d1) as [[s2 d2]|] eqn:E2; [|discriminate]. inversion H; subst.
    rewrite <- (IH d s1 d1 E). unfold op_fn in E2. destruct (odag o).
    + eapply cre_length; eauto.
    + eapply ann_length; eauto.
Qed.

Lemma wide_act_string ops n v : wide n v -> wide n (act_string ops v).
Proof.
  unfold act_string, lift. intros Hw e c Hin. apply in_flat_map in Hin. destruct Hin as [[e0 c0] [Hin0 Hin1]].
  unfold lift1 in Hin1. simpl in Hin1. destruct (string_fn ops e0) as [[s e1]|] eqn:E; simpl in Hin1; [|contradiction].
  destruct Hin1 as [Heq|[]]. inversion Heq; subst. rewrite (string_fn_length ops e0 s e E). apply (Hw e0 c0 Hin0).
Qed.

(* a†_q a_p = delta_pq - a_p a†_q, for all p, q *)
Theorem car_cre_ann_general p q n v d : p < n -> wide n v ->
  coeff (act_string [mkop q true; mkop p false] v) d
  = (if Nat.eqb p q then coeff v d else 0) + - coeff (act_string [mkop p false; mkop q true] v) d.
Proof.
  intros Hp Hw. destruct (Nat.eqb_spec p q) as [<-|Hne].
  - rewrite <- (car_ann_cre_same p n v d Hp Hw). ring.
  - rewrite (car_ann_cre p q v d Hne). ring.
Qed.

(* a string acts on coefficient-wise linear combinations coefficient-wise *)
Lemma act_string_combo a (x : R) u u1 u2 :
  (forall e, coeff u e = x * coeff u1 e + - coeff u2 e) ->
  forall d, coeff (act_string a u) d = x * coeff (act_string a u1) d + - coeff (act_string a u2) d.
Proof.
  intros H d. rewrite !coeff_act_string. destruct (string_fn (string_adj a) d) as [[s e]|]; [|ring].
  rewrite H. destruct s; simpl; ring.
Qed.

(* Knowles–Handy folding:  i† j† k l  =  delta_jk  i† l  -  i† k j† l   (operator positions; any i, l) *)
Theorem kh_folding i j k l n v d : k < n -> wide n v ->
  coeff (act_string [mkop i true; mkop j true; mkop k false; mkop l false] v) d
  = (if Nat.eqb k j then coeff (act_string [mkop i true; mkop l false] v) d else 0)
    + - coeff (act_string [mkop i true; mkop k false; mkop j true; mkop l false] v) d.
Proof.
  intros Hk Hw.
  set (w := act_string [mkop l false] v).
  assert (Ww : wide n w) by (apply wide_act_string; exact Hw).
  change [mkop i true; mkop j true; mkop k false; mkop l false] with ([mkop i true] ++ [mkop j true; mkop k false; mkop l false]).
  change [mkop i true; mkop k false; mkop j true; mkop l false] with ([mkop i true] ++ [mkop k false; mkop j true; mkop l false]).
  change [mkop i true; mkop l false] with ([mkop i true] ++ [mkop l false]).
  rewrite !act_string_app.
  assert (C := act_string_combo [mkop i true] (if Nat.eqb k j then 1 else 0)
                 (act_string [mkop j true; mkop k false; mkop l false] v) w
                 (act_string [mkop k false; mkop j true; mkop l false] v)).
  rewrite C.
  - fold w. destruct (Nat.eqb k j); ring.
  - intros e.
    change [mkop j true; mkop k false; mkop l false] with ([mkop j true; mkop k false] ++ [mkop l false]).
    change [mkop k false; mkop j true; mkop l false] with ([mkop k false; mkop j true] ++ [mkop l false]).
    rewrite !act_string_app. fold w.
    rewrite (car_cre_ann_general k j n w e Hk Ww). destruct (Nat.eqb k j); ring.
Qed.

(* polynomials *)
Lemma coeff_act_poly p v d :
  coeff (act_poly p v) d =
  fold_right (fun t acc => fst t * coeff (act_string (snd t) v) d + acc) 0 p.
Proof.
  induction p as [|[c ops] p IH]; simpl; [reflexivity|].
  unfold act_poly in *. simpl. rewrite coeff_app, coeff_vscale, IH. reflexivity.
Qed.

(* the two-body part of a Hamiltonian, folded the way the Knowles–Handy kernels apply it:
   every term  c i† j† k l  becomes  (c delta_jk) i† l  -  c (i† k)(j† l)  *)
Definition two_body_poly (ts : list (R * (nat * nat * nat * nat))) : poly :=
  map (fun t => match t with (c, (i, j, k, l)) =>
         (c, [mkop i true; mkop j true; mkop k false; mkop l false]) end) ts.
Definition kh_folded_poly (ts : list (R * (nat * nat * nat * nat))) : poly :=
  flat_map (fun t => match t with (c, (i, j, k, l)) =>
         [((if Nat.eqb k j then c else 0), [mkop i true; mkop l false]);
          (- c, [mkop i true; mkop k false; mkop j true; mkop l false])] end) ts.

Theorem kh_folded_poly_sound ts n v d :
  (forall c i j k l, In (c, (i, j, k, l)) ts -> k < n) -> wide n v ->
  coeff (act_poly (two_body_poly ts) v) d = coeff (act_poly (kh_folded_poly ts) v) d.
Proof.
  intros Hk Hw. rewrite !coeff_act_poly.
  induction ts as [|[c [[[i j] k] l]] ts IH]; [reflexivity|].
  cbn [two_body_poly kh_folded_poly map flat_map app fold_right fst snd].
  fold (two_body_poly ts). fold (kh_folded_poly ts).
  rewrite IH by (intros c' i' j' k' l' Hin; apply (Hk c' i' j' k' l'); right; exact Hin).
  rewrite (kh_folding i j k l n v d (Hk c i j k l (or_introl eq_refl)) Hw).
  destruct (Nat.eqb k j); ring.
Qed.

Theorem act_poly_linear p a u v d :
  coeff (act_poly p (vadd (vscale a u) v)) d = a * coeff (act_poly p u) d + coeff (act_poly p v) d.
Proof.
  rewrite !coeff_act_poly. induction p as [|[c ops] p IH]; simpl; [ring|].
  rewrite IH. unfold act_string, vadd. rewrite lift_app, coeff_app, coeff_lift_vscale. ring.
Qed.

Theorem act_poly_proper p u v : (forall d, coeff u d = coeff v d) ->
  forall d, coeff (act_poly p u) d = coeff (act_poly p v) d.
Proof.
  intros H d. rewrite !coeff_act_poly. induction p as [|[c ops] p IH]; simpl; [reflexivity|].
  rewrite IH. f_equal. f_equal. unfold act_string.
  apply (coeff_lift_proper _ _ _ _ (sinv_string ops) H).
Qed.

Theorem act_poly_app p q v d :
  coeff (act_poly (p ++ q) v) d = coeff (act_poly p v) d + coeff (act_poly q v) d.
Proof. unfold act_poly. rewrite flat_map_app, coeff_app. reflexivity. Qed.

(* inner product facts *)
Lemma inner_app x1 x2 y : inner (x1 ++ x2) y = inner x1 y + inner x2 y.
Proof. induction x1 as [|[d c] x1 IH]; simpl; [ring|rewrite IH; ring]. Qed.

Lemma inner_proper_r x y y' : (forall d, coeff y d = coeff y' d) -> inner x y = inner x y'.
Proof. intros H. induction x as [|[d c] x IH]; simpl; [reflexivity|rewrite IH, H; reflexivity]. Qed.

Lemma inner_vscale_l a x y : inner (vscale a x) y = rconj a * inner x y.
Proof. induction x as [|[d c] x IH]; simpl; [ring|rewrite IH, conj_mul; ring]. Qed.

Lemma inner_vscale_r a x y : inner x (vscale a y) = a * inner x y.
Proof. induction x as [|[d c] x IH]; simpl; [ring|rewrite IH, coeff_vscale; ring]. Qed.

Lemma inner_app_r x y1 y2 : inner x (y1 ++ y2) = inner x y1 + inner x y2.
Proof. induction x as [|[d c] x IH]; simpl; [ring|rewrite IH, coeff_app; ring]. Qed.

(* adjointness for one partial signed bijection *)
Lemma inner_lift_adj f g x y : sinv f g -> inner (lift f x) y = inner x (lift g y).
Proof.
  intros Hinv. induction x as [|[e c] x IH]; simpl; [reflexivity|].
  unfold lift in *. simpl. rewrite inner_app, IH. f_equal.
  fold (lift g y). rewrite (coeff_lift g f) by (apply sinv_sym; assumption).
  unfold lift1; simpl. destruct (f e) as [[s e1]|]; simpl; [|ring].
  rewrite sgn_conj. destruct s; simpl; ring.
Qed.

Theorem inner_act_string_adj ops x y :
  inner (act_string ops x) y = inner x (act_string (string_adj ops) y).
Proof. apply inner_lift_adj. apply sinv_string. Qed.

Theorem inner_act_poly_adj p x y :
  inner (act_poly p x) y = inner x (act_poly (poly_adj p) y).
Proof.
  induction p as [|[c ops] p IH]; simpl; [induction x as [|[d a] x IHx]; simpl; [reflexivity|rewrite <- IHx; ring]|].
  unfold act_poly in *. simpl. rewrite inner_app, inner_app_r, IH.
  rewrite inner_vscale_l, inner_vscale_r, inner_act_string_adj. reflexivity.
Qed.

End Vec.
