(* SpinWickExp.v — C03: iterating the spin-summed rewriting step of SpinWick.v: the full expansion that the
   spinfree mode of wick.py performs (swap / contract until no creator stands right of an annihilator) has, term by
   term with its factor (+-1, 2^k) and its remaining label set, the value of the original pattern - for every
   well-formed pattern (every label on at most one creator and at most one annihilator, as wick.py enforces),
   every fuel, orbital count, vector and commutative ring. *)
From Coq Require Import List Bool Arith Lia Ring Permutation.
From FQE Require Import Car Fock TableThm Wick SpinWick.
Import ListNotations.

(* first annihilator directly followed by a creator *)
Fixpoint sfirst_inv (s : list sop) : option (list sop * sop * sop * list sop) :=
  match s with
  | x :: t =>
    match t with
    | y :: r =>
      if andb (negb (sdag x)) (sdag y) then Some ([], x, y, r)
      else match sfirst_inv t with
           | Some (pre, a, b, post) => Some (x :: pre, a, b, post)
           | None => None
           end
    | [] => None
    end
  | [] => None
  end.

Lemma sfirst_inv_cons2 a b r : sfirst_inv (a :: b :: r) =
  if andb (negb (sdag a)) (sdag b) then Some ([], a, b, r)
  else match sfirst_inv (b :: r) with
       | Some (pre, x, y, post) => Some (a :: pre, x, y, post)
       | None => None
       end.
Proof. reflexivity. Qed.

Lemma sfirst_inv_spec s : forall pre x y post, sfirst_inv s = Some (pre, x, y, post) ->
  s = pre ++ [x; y] ++ post /\ sdag x = false /\ sdag y = true.
Proof.
  induction s as [|a t IH]; intros pre x y post H; [discriminate|].
  destruct t as [|b r]; [discriminate|].
  rewrite sfirst_inv_cons2 in H.
  destruct (andb (negb (sdag a)) (sdag b)) eqn:E.
  - inversion H; subst. apply andb_true_iff in E. destruct E as [E1 E2].
    apply negb_true_iff in E1. repeat split; assumption.
  - destruct (sfirst_inv (b :: r)) as [[[[pre' a'] b'] post']|] eqn:F; [|discriminate].
    destruct (IH pre' a' b' post' eq_refl) as [H1 [H2 H3]].
    inversion H; subst pre x y post.
    repeat split; try assumption. simpl. f_equal. exact H1.
Qed.

(* well-formed patterns *)
Definition cnt (dg : bool) (l : nat) (s : list sop) : nat :=
  length (filter (fun o => andb (Bool.eqb (sdag o) dg) (Nat.eqb (slab o) l)) s).
Definition wf (norb : nat) (L : list nat) (s : list sop) : Prop :=
  NoDup L /\ incl (labels s) L /\ (forall o, In o s -> sorb o < norb) /\ (forall dg l, cnt dg l s <= 1).

Lemma cnt_app dg l a b : cnt dg l (a ++ b) = cnt dg l a + cnt dg l b.
Proof. unfold cnt. rewrite filter_app, app_length. reflexivity. Qed.

Lemma cnt_zero_notin l s : (forall dg', cnt dg' l s = 0) -> ~ In l (labels s).
Proof.
  intros H Hin. unfold labels in Hin. apply in_map_iff in Hin. destruct Hin as [o [Ho Hin]].
  specialize (H (sdag o)). unfold cnt in H.
  assert (In o (filter (fun o0 => andb (Bool.eqb (sdag o0) (sdag o)) (Nat.eqb (slab o0) l)) s)).
  { apply filter_In. split; [exact Hin|]. rewrite eqb_reflx, Ho, Nat.eqb_refl. reflexivity. }
  destruct (filter _ s); [contradiction|discriminate].
Qed.

(* ---- well-formedness is preserved *)
Lemma wf_swap norb L pre x y post : wf norb L (pre ++ [x; y] ++ post) -> wf norb L (pre ++ [y; x] ++ post).
Proof.
  intros [ND [Hi [Ho Hc]]]. repeat split; [exact ND| | |].
  - intros l Hl. apply Hi. unfold labels in *. rewrite !map_app in *. cbn [map app] in *.
    apply in_app_or in Hl. apply in_or_app. destruct Hl as [Hl|Hl]; [left; exact Hl|right]. simpl in *. tauto.
  - intros o Hin. apply Ho. apply in_app_or in Hin. apply in_or_app. destruct Hin as [Hin|Hin]; [left; exact Hin|right]. simpl in *. tauto.
  - intros dg l. specialize (Hc dg l). rewrite !cnt_app in *. cbn [app] in *. unfold cnt in *. cbn [filter] in *.
    destruct (andb (Bool.eqb (sdag x) dg) (Nat.eqb (slab x) l)), (andb (Bool.eqb (sdag y) dg) (Nat.eqb (slab y) l)); cbn [length app] in *; lia.
Qed.

Lemma wf_drop_counts norb L pre x y post dg l : wf norb L (pre ++ [x; y] ++ post) ->
  cnt dg l (pre ++ post) + (if andb (Bool.eqb (sdag x) dg) (Nat.eqb (slab x) l) then 1 else 0)
                         + (if andb (Bool.eqb (sdag y) dg) (Nat.eqb (slab y) l) then 1 else 0) <= 1.
Proof.
  intros [_ [_ [_ Hc]]]. specialize (Hc dg l). rewrite !cnt_app in *. cbn [app] in Hc. unfold cnt in *. cbn [filter] in Hc.
  destruct (andb (Bool.eqb (sdag x) dg) (Nat.eqb (slab x) l)), (andb (Bool.eqb (sdag y) dg) (Nat.eqb (slab y) l)); cbn [length] in Hc; lia.
Qed.

Lemma in_remove_iff (L : list nat) x l : In x (remove Nat.eq_dec l L) <-> In x L /\ x <> l.
Proof. split; [apply in_remove|intros [H1 H2]; apply in_in_remove; assumption]. Qed.

Lemma NoDup_remove_nat (L : list nat) l : NoDup L -> NoDup (remove Nat.eq_dec l L).
Proof.
  induction L as [|x L IH]; intros ND; [constructor|]. inversion ND; subst. cbn [remove].
  destruct (Nat.eq_dec l x); [apply IH; assumption|]. constructor; [|apply IH; assumption].
  intros Hin. apply in_remove in Hin. tauto.
Qed.

Lemma wf_same norb L pre x y post : sdag x = false -> sdag y = true -> slab x = slab y ->
  wf norb L (pre ++ [x; y] ++ post) ->
  wf norb (remove Nat.eq_dec (slab x) L) (pre ++ post) /\ ~ In (slab x) (labels (pre ++ post)).
Proof.
  intros Dx Dy E W. assert (W' := W). destruct W as [ND [Hi [Ho Hc]]].
  assert (Z : forall dg, cnt dg (slab x) (pre ++ post) = 0).
  { intros dg. pose proof (wf_drop_counts norb L pre x y post dg (slab x) W') as H.
    rewrite Dx, Dy, <- E, Nat.eqb_refl in H. destruct dg; cbn [Bool.eqb andb] in H; lia. }
  assert (Nin : ~ In (slab x) (labels (pre ++ post))) by (apply cnt_zero_notin; exact Z).
  split; [|exact Nin]. repeat split.
  - apply NoDup_remove_nat. exact ND.
  - intros l Hl. apply in_remove_iff. split.
    + apply Hi. unfold labels in *. rewrite !map_app in *. apply in_app_or in Hl. apply in_or_app.
      destruct Hl as [Hl|Hl]; [left; exact Hl|right; cbn [map app]; right; right; exact Hl].
    + intros ->. contradiction.
  - intros o Hin. apply Ho. apply in_app_or in Hin. apply in_or_app. destruct Hin as [Hin|Hin]; [left; exact Hin|right; simpl; tauto].
  - intros dg l. pose proof (wf_drop_counts norb L pre x y post dg l W'). lia.
Qed.

Lemma cnt_cons dg k o s :
  cnt dg k (o :: s) = (if andb (Bool.eqb (sdag o) dg) (Nat.eqb (slab o) k) then 1 else 0) + cnt dg k s.
Proof. unfold cnt. cbn [filter]. destruct (andb _ _); reflexivity. Qed.

Lemma cnt_relabel dg l m k s : m <> l ->
  cnt dg k (map (relabel m l) s) = if Nat.eqb k m then 0 else if Nat.eqb k l then cnt dg l s + cnt dg m s else cnt dg k s.
Proof.
  intros Hml. induction s as [|o s IH].
  - cbn [map]. unfold cnt. cbn [filter length]. destruct (Nat.eqb k m), (Nat.eqb k l); reflexivity.
  - cbn [map]. rewrite !cnt_cons, IH. unfold relabel. cbn [sdag slab].
    destruct (Bool.eqb (sdag o) dg); cbn [andb];
      destruct (Nat.eqb_spec (slab o) m); destruct (Nat.eqb_spec k m); destruct (Nat.eqb_spec k l);
      destruct (Nat.eqb_spec (slab o) k); destruct (Nat.eqb_spec (slab o) l); destruct (Nat.eqb_spec l k);
      subst; try lia; try congruence.
Qed.

Lemma wf_diff norb L pre x y post : sdag x = false -> sdag y = true -> slab x <> slab y ->
  wf norb L (pre ++ [x; y] ++ post) ->
  wf norb (remove Nat.eq_dec (slab y) L) (map (relabel (slab y) (slab x)) (pre ++ post)).
Proof.
  intros Dx Dy Ne W. assert (W' := W). destruct W as [ND [Hi [Ho Hc]]].
  assert (Lx : In (slab x) L) by (apply Hi; unfold labels; rewrite !map_app; apply in_or_app; right; cbn [map app]; left; reflexivity).
  repeat split.
  - apply NoDup_remove_nat. exact ND.
  - intros l Hl. unfold labels in Hl. rewrite map_map in Hl. apply in_map_iff in Hl. destruct Hl as [o [E Hin]].
    unfold relabel in E. cbn [slab] in E. apply in_remove_iff.
    destruct (Nat.eqb_spec (slab o) (slab y)) as [E2|E2].
    + subst l. split; [exact Lx|exact Ne].
    + subst l. split; [|exact E2]. apply Hi. unfold labels. rewrite !map_app. apply in_app_or in Hin. apply in_or_app.
      destruct Hin as [Hin|Hin]; [left; apply in_map; exact Hin|right; cbn [map app]; right; right; apply in_map; exact Hin].
  - intros o Hin. apply in_map_iff in Hin. destruct Hin as [o' [<- Hin]]. unfold relabel. cbn [sorb]. apply Ho.
    apply in_app_or in Hin. apply in_or_app. destruct Hin as [Hin|Hin]; [left; exact Hin|right; simpl; tauto].
  - intros dg k. rewrite (cnt_relabel dg (slab x) (slab y) k (pre ++ post)) by congruence.
    destruct (Nat.eqb k (slab y)); [lia|]. destruct (Nat.eqb_spec k (slab x)) as [->|Hk].
    + pose proof (wf_drop_counts norb L pre x y post dg (slab x) W') as H1.
      pose proof (wf_drop_counts norb L pre x y post dg (slab y) W') as H2.
      rewrite Dx, Dy, !Nat.eqb_refl in H1, H2.
      replace (Nat.eqb (slab y) (slab x)) with false in H1 by (symmetry; apply Nat.eqb_neq; congruence).
      replace (Nat.eqb (slab x) (slab y)) with false in H2 by (symmetry; apply Nat.eqb_neq; congruence).
      rewrite !andb_false_r in H1, H2. destruct dg; cbn [Bool.eqb andb] in H1, H2; lia.
    + pose proof (wf_drop_counts norb L pre x y post dg k W'). lia.
Qed.


Section Exp.
Variable R : Type.
Variables (rO rI : R) (radd rmul rsub : R -> R -> R) (ropp : R -> R).
Hypothesis Rth : ring_theory rO rI radd rmul rsub ropp (@eq R).
Add Ring Rr_swe : Rth.
Notation sval := (sval R rO radd ropp).
Notation wide := (wide R).
Infix "+" := radd. Infix "*" := rmul. Notation "- x" := (ropp x).

Definition term := (R * list nat * list sop)%type.

Fixpoint sexpand (fuel : nat) (c : R) (L : list nat) (s : list sop) : list term :=
  match fuel with
  | O => [(c, L, s)]
  | S f =>
    match sfirst_inv s with
    | None => [(c, L, s)]
    | Some (pre, x, y, post) =>
      sexpand f (- c) L (pre ++ [y; x] ++ post)
      ++ (if Nat.eqb (sorb x) (sorb y) then
            if Nat.eqb (slab x) (slab y)
            then sexpand f ((rI + rI) * c) (remove Nat.eq_dec (slab x) L) (pre ++ post)
            else sexpand f c (remove Nat.eq_dec (slab y) L) (map (relabel (slab y) (slab x)) (pre ++ post))
          else [])
    end
  end.

Definition tsum (norb : nat) (ts : list term) (V : vec R) (d : det) : R :=
  fold_right (fun t acc => fst (fst t) * sval norb (snd (fst t)) (snd t) V d + acc) rO ts.

Lemma tsum_app norb a b V d : tsum norb (a ++ b) V d = tsum norb a V d + tsum norb b V d.
Proof. unfold tsum. induction a as [|t a IH]; cbn [app fold_right]; [ring|rewrite IH; ring]. Qed.

(* ---- the expansion preserves the value *)
Theorem sexpand_sound norb fuel : forall c L s (V : vec R) d, wf norb L s -> wide (norb + norb) V ->
  tsum norb (sexpand fuel c L s) V d = c * sval norb L s V d.
Proof.
  induction fuel as [|f IH]; intros c L s V d W Hw.
  - cbn [sexpand tsum fold_right fst snd]. ring.
  - cbn [sexpand]. destruct (sfirst_inv s) as [[[[pre x] y] post]|] eqn:F.
    2:{ cbn [tsum fold_right fst snd]. ring. }
    destruct (sfirst_inv_spec s pre x y post F) as [Es [Dx Dy]]. subst s.
    assert (W' := W). destruct W as [ND [Hi [Ho Hc]]].
    assert (Lx : In (slab x) L) by (apply Hi; unfold labels; rewrite !map_app; apply in_or_app; right; cbn [map app]; left; reflexivity).
    assert (Ly : In (slab y) L) by (apply Hi; unfold labels; rewrite !map_app; apply in_or_app; right; cbn [map app]; right; left; reflexivity).
    assert (Px : sorb x < norb) by (apply Ho; apply in_or_app; right; left; reflexivity).
    assert (Py : sorb y < norb) by (apply Ho; apply in_or_app; right; right; left; reflexivity).
    assert (Hinc : incl (labels (pre ++ post)) L).
    { intros l Hl. apply Hi. unfold labels in *. rewrite !map_app in *. apply in_app_or in Hl. apply in_or_app.
      destruct Hl as [Hl|Hl]; [left; exact Hl|right; cbn [map app]; right; right; exact Hl]. }
    assert (Hsame : slab x = slab y -> ~ In (slab x) (labels (pre ++ post))).
    { intros E. exact (proj2 (wf_same norb L pre x y post Dx Dy E W')). }
    pose proof (sstep_sound R rO rI radd rmul rsub ropp Rth norb L pre (sorb x) (slab x) (sorb y) (slab y) post V d
                  Px Py Hw ND Lx Ly Hinc Hsame) as ST.
    assert (Ex : x = mksop (sorb x) false (slab x)) by (destruct x; cbn in *; subst; reflexivity).
    assert (Ey : y = mksop (sorb y) true (slab y)) by (destruct y; cbn in *; subst; reflexivity).
    rewrite <- Ex, <- Ey in ST. rewrite ST. clear ST.
    rewrite tsum_app. rewrite (IH (- c) L _ V d (wf_swap norb L pre x y post W') Hw).
    destruct (Nat.eqb (sorb x) (sorb y)).
    + destruct (Nat.eqb_spec (slab x) (slab y)) as [E|E].
      * rewrite (IH _ _ _ V d (proj1 (wf_same norb L pre x y post Dx Dy E W')) Hw). ring.
      * rewrite (IH _ _ _ V d (wf_diff norb L pre x y post Dx Dy E W') Hw). ring.
    + cbn [tsum fold_right]. ring.
Qed.
End Exp.
