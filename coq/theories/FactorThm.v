(* FactorThm.v — C19: the product of two one-body operators is a one-body operator plus a two-body operator.
   For one-body operators  Y = sum_ps y_ps a†_p a_s,  Z = sum_qr z_qr a†_q a_r  over n spin-orbital positions,
       Y Z  =  sum_pr (y z)_pr a†_p a_r  -  sum_pqsr y_ps z_qr a†_p a†_q a_s a_r
   coefficient-wise on every vector, every n, every pair of matrices over every commutative ring: the identity behind the
   generalised doubles factorisations (a two-body generator written as a sum of squares / products of one-body operators
   plus the reported one-body remainder - the remainder is the matrix product term). *)
From Coq Require Import NArith List Bool Arith Lia Ring.
From FQE Require Import Car Fock Bits Addr Maps MapsThm TableThm DvecThm.
Import ListNotations.

Section Factor.
Variable R : Type.
Variables (rO rI : R) (radd rmul rsub : R -> R -> R) (ropp : R -> R).
Hypothesis Rth : ring_theory rO rI radd rmul rsub ropp (@eq R).
Add Ring Rr_factor : Rth.

Notation coeff := (Fock.coeff R rO radd).
Notation act_string := (Fock.act_string R ropp).
Notation act_poly := (Fock.act_poly R rmul ropp).
Notation wide := (Fock.wide R).
Notation sumf := (DvecThm.sumf R rO radd).
Infix "+" := radd. Infix "*" := rmul. Notation "- x" := (ropp x).
Notation "0" := rO. Notation "1" := rI.

Definition ob (n : nat) (y : nat -> nat -> R) : poly R :=
  flat_map (fun p => flat_map (fun s => [(y p s, [mkop p true; mkop s false])]) (seq 0 n)) (seq 0 n).
Definition tb (n : nat) (g : nat -> nat -> nat -> nat -> R) : poly R :=
  flat_map (fun p => flat_map (fun q => flat_map (fun s => flat_map (fun r =>
    [(g p q s r, [mkop p true; mkop q true; mkop s false; mkop r false])]) (seq 0 n)) (seq 0 n)) (seq 0 n)) (seq 0 n).
Definition matmul (n : nat) (y z : nat -> nat -> R) (p r : nat) : R := sumf (seq 0 n) (fun s => y p s * z s r).

Lemma coeff_single c ops (V : vec R) d : coeff (act_poly [(c, ops)] V) d = c * coeff (act_string ops V) d.
Proof. rewrite (coeff_act_poly R rO rI radd rmul rsub ropp Rth). cbn [fold_right fst snd]. ring. Qed.

Lemma coeff_ob n y (V : vec R) d :
  coeff (act_poly (ob n y) V) d
  = sumf (seq 0 n) (fun p => sumf (seq 0 n) (fun s => y p s * coeff (act_string [mkop p true; mkop s false] V) d)).
Proof.
  unfold ob. rewrite (act_poly_flat_map' R rmul ropp), (coeff_flat_map_sum R rO rI radd rmul rsub ropp Rth).
  apply (sumf_ext R rO radd). intros p _.
  rewrite (act_poly_flat_map' R rmul ropp), (coeff_flat_map_sum R rO rI radd rmul rsub ropp Rth).
  apply (sumf_ext R rO radd). intros s _. apply coeff_single.
Qed.

Lemma coeff_tb n g (V : vec R) d :
  coeff (act_poly (tb n g) V) d
  = sumf (seq 0 n) (fun p => sumf (seq 0 n) (fun q => sumf (seq 0 n) (fun s => sumf (seq 0 n) (fun r =>
      g p q s r * coeff (act_string [mkop p true; mkop q true; mkop s false; mkop r false] V) d)))).
Proof.
  unfold tb. rewrite (act_poly_flat_map' R rmul ropp), (coeff_flat_map_sum R rO rI radd rmul rsub ropp Rth).
  apply (sumf_ext R rO radd). intros p _.
  rewrite (act_poly_flat_map' R rmul ropp), (coeff_flat_map_sum R rO rI radd rmul rsub ropp Rth).
  apply (sumf_ext R rO radd). intros q _.
  rewrite (act_poly_flat_map' R rmul ropp), (coeff_flat_map_sum R rO rI radd rmul rsub ropp Rth).
  apply (sumf_ext R rO radd). intros s _.
  rewrite (act_poly_flat_map' R rmul ropp), (coeff_flat_map_sum R rO rI radd rmul rsub ropp Rth).
  apply (sumf_ext R rO radd). intros r _. apply coeff_single.
Qed.

(* a†_p a_s a†_q a_r = delta_sq a†_p a_r - a†_p a†_q a_s a_r *)
Lemma hop_product p s q r n (V : vec R) d : s < n -> wide n V ->
  coeff (act_string [mkop p true; mkop s false] (act_string [mkop q true; mkop r false] V)) d
  = (if Nat.eqb s q then 1 else 0) * coeff (act_string [mkop p true; mkop r false] V) d
    + - coeff (act_string [mkop p true; mkop q true; mkop s false; mkop r false] V) d.
Proof.
  intros Hs Hw.
  rewrite <- (act_string_app R rO rI radd rmul rsub ropp Rth [mkop p true; mkop s false] [mkop q true; mkop r false] V d).
  cbn [app].
  pose proof (kh_folding R rO rI radd rmul rsub ropp Rth p q s r n V d Hs Hw) as K.
  destruct (Nat.eqb s q); rewrite K; ring.
Qed.

Theorem one_body_product n y z (V : vec R) d : wide n V ->
  coeff (act_poly (ob n y) (act_poly (ob n z) V)) d
  = coeff (act_poly (ob n (matmul n y z)) V) d
    + coeff (act_poly (tb n (fun p q s r => - (y p s * z q r))) V) d.
Proof.
  intros Hw. rewrite (coeff_ob n y), (coeff_ob n (matmul n y z)), coeff_tb.
  rewrite <- (sumf_add R rO rI radd rmul rsub ropp Rth). apply (sumf_ext R rO radd). intros p _.
  (* inner: sum_s y_ps <p† s| W> *)
  transitivity (sumf (seq 0 n) (fun s => sumf (seq 0 n) (fun q => sumf (seq 0 n) (fun r =>
      y p s * (z q r * ((if Nat.eqb s q then 1 else 0) * coeff (act_string [mkop p true; mkop r false] V) d
                        + - coeff (act_string [mkop p true; mkop q true; mkop s false; mkop r false] V) d)))))).
  { apply (sumf_ext R rO radd). intros s Hs. apply in_seq in Hs.
    assert (E : y p s * coeff (act_string [mkop p true; mkop s false] (act_poly (ob n z) V)) d
              = y p s * coeff (act_poly [(1, [mkop p true; mkop s false])] (act_poly (ob n z) V)) d)
      by (rewrite coeff_single; ring).
    rewrite E.
    rewrite (act_poly_combination2 R rO rI radd rmul rsub ropp Rth [(1, [mkop p true; mkop s false])]
               (seq 0 n) (seq 0 n) z (fun q r => act_string [mkop q true; mkop r false] V) (act_poly (ob n z) V)
               (fun e => coeff_ob n z V e) d).
    rewrite <- (sumf_scal R rO rI radd rmul rsub ropp Rth). apply (sumf_ext R rO radd). intros q _.
    rewrite <- (sumf_scal R rO rI radd rmul rsub ropp Rth). apply (sumf_ext R rO radd). intros r _.
    rewrite coeff_single, (hop_product p s q r n V d ltac:(lia) Hw). ring. }
  (* split into the contraction and the two-body part *)
  transitivity (sumf (seq 0 n) (fun s => sumf (seq 0 n) (fun q =>
                   (if Nat.eqb s q then 1 else 0) * sumf (seq 0 n) (fun r => y p s * z q r * coeff (act_string [mkop p true; mkop r false] V) d)))
                + sumf (seq 0 n) (fun s => sumf (seq 0 n) (fun q => sumf (seq 0 n) (fun r =>
                   - (y p s * z q r) * coeff (act_string [mkop p true; mkop q true; mkop s false; mkop r false] V) d)))).
  { rewrite <- (sumf_add R rO rI radd rmul rsub ropp Rth). apply (sumf_ext R rO radd). intros s _.
    rewrite <- (sumf_add R rO rI radd rmul rsub ropp Rth). apply (sumf_ext R rO radd). intros q _.
    rewrite <- (sumf_scal R rO rI radd rmul rsub ropp Rth), <- (sumf_add R rO rI radd rmul rsub ropp Rth).
    apply (sumf_ext R rO radd). intros r _. ring. }
  f_equal.
  - (* sum_s sum_q delta_sq f s q = sum_s f s s, then exchange s and r *)
    transitivity (sumf (seq 0 n) (fun s => sumf (seq 0 n) (fun r => y p s * z s r * coeff (act_string [mkop p true; mkop r false] V) d))).
    { apply (sumf_ext R rO radd). intros s Hs. apply in_seq in Hs.
      apply (sumf_delta R rO rI radd rmul rsub ropp Rth n s
               (fun q => sumf (seq 0 n) (fun r => y p s * z q r * coeff (act_string [mkop p true; mkop r false] V) d))). lia. }
    rewrite (sumf_swap R rO rI radd rmul rsub ropp Rth). apply (sumf_ext R rO radd). intros r _.
    unfold matmul. rewrite (Rmul_comm Rth), <- (sumf_scal R rO rI radd rmul rsub ropp Rth).
    apply (sumf_ext R rO radd). intros s _. ring.
  - rewrite (sumf_swap R rO rI radd rmul rsub ropp Rth). reflexivity.
Qed.
End Factor.

(* non-vacuity over Z: three positions, two determinants; Y Z psi = (one-body part) + (two-body part) with all three non-zero *)
From Coq Require Import ZArith.
Example one_body_product_example :
  let y := fun p s : nat => Z.of_nat (1 + p + 2 * s) in
  let z := fun p s : nat => Z.of_nat (2 + 3 * p + s) in
  let V : vec Z := [([true; false; true], 1%Z); ([false; true; true], 2%Z)] in
  map (fun d => (coeff Z 0%Z Z.add (act_poly Z Z.mul Z.opp (ob Z 3 y) (act_poly Z Z.mul Z.opp (ob Z 3 z) V)) d,
                 coeff Z 0%Z Z.add (act_poly Z Z.mul Z.opp (ob Z 3 (matmul Z 0%Z Z.add Z.mul 3 y z)) V) d,
                 coeff Z 0%Z Z.add (act_poly Z Z.mul Z.opp (tb Z 3 (fun p q s r => Z.opp (Z.mul (y p s) (z q r)))) V) d))
      [[true; false; true]; [true; true; false]]
  = [(250, 306, -56); (-82, -54, -28)]%Z.
Proof. vm_compute. reflexivity. Qed.
