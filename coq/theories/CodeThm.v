(* CodeThm.v — C07: linear binary codes other than Jordan-Wigner.
   * export_det_injective_of_decoder: for ANY code that has a decoder on occupation vectors of
     2 norb modes (an invertible GF(2) code matrix), two determinants never share a qubit index;
   * the parity code (qubit k = parity of modes 0..k) has one: parity_decode_encode, for every
     number of modes - so the parity-code export is injective, every norb. *)
From Coq Require Import NArith List Bool Arith Lia.
From FQE Require Import Car Fock GaussZ Bits Addr Reorder Cirq CirqThm.
Import ListNotations.

Lemma encode_length c d : length (encode c d) = length c.
Proof. unfold encode. apply map_length. Qed.

Theorem export_det_injective_of_decoder norb (c : code) (dec : det -> det) a b a' b' s s' ix :
  (forall e, length e = 2 * norb -> dec (encode c e) = e) ->
  export_det norb c a b = Some (s, ix) -> export_det norb c a' b' = Some (s', ix) ->
  det_conv norb a b = det_conv norb a' b'.
Proof.
  intros Hdec. unfold export_det. intros H1 H2.
  destruct (build_conv_total norb (det_conv norb a b) (det_conv_length norb a b)) as [s1 [e1 [E1 L1]]].
  destruct (build_conv_total norb (det_conv norb a' b') (det_conv_length norb a' b')) as [s2 [e2 [E2 L2]]].
  rewrite E1 in H1. rewrite E2 in H2. inversion H1; subst. inversion H2 as [[Hs Hix]].
  apply be_index_inj in Hix; [|rewrite !encode_length; reflexivity].
  assert (Ee : e2 = e1). { rewrite <- (Hdec e1 L1), <- (Hdec e2 L2), Hix. reflexivity. }
  subst e2.
  eapply build_conv_injective; [apply det_conv_length|apply det_conv_length|exact E1|exact E2].
Qed.

(* ---- the parity code *)
Definition parity_code (nq : nat) : code := map (fun k => seq 0 (S k)) (seq 0 nq).

Fixpoint pxor (acc : bool) (d : det) : det :=
  match d with [] => [] | b :: r => xorb acc b :: pxor (xorb acc b) r end.
Fixpoint dpx (acc : bool) (q : det) : det :=
  match q with [] => [] | a :: r => xorb acc a :: dpx a r end.

Lemma dpx_pxor : forall d acc, dpx acc (pxor acc d) = d.
Proof.
  induction d as [|b r IH]; intros acc; [reflexivity|]. cbn [pxor dpx]. rewrite IH. f_equal.
  destruct acc, b; reflexivity.
Qed.

Lemma pxor_length : forall d acc, length (pxor acc d) = length d.
Proof. induction d as [|b r IH]; intros acc; [reflexivity|]. cbn [pxor length]. rewrite IH. reflexivity. Qed.

Lemma pxor_nth_0 acc b r : nth 0 (pxor acc (b :: r)) false = xorb acc b.
Proof. reflexivity. Qed.

Lemma pxor_nth_S : forall d acc k, S k < length d ->
  nth (S k) (pxor acc d) false = xorb (nth k (pxor acc d) false) (nth (S k) d false).
Proof.
  induction d as [|b r IH]; intros acc k H; [cbn in H; lia|].
  cbn [pxor nth]. destruct k as [|k].
  - destruct r as [|b2 r2]; [cbn in H; lia|]. reflexivity.
  - cbn [length] in H. rewrite (IH (xorb acc b) k) by lia. reflexivity.
Qed.

Lemma fold_xorb_app l1 l2 acc : fold_left xorb (l1 ++ l2) acc = fold_left xorb l2 (fold_left xorb l1 acc).
Proof. apply fold_left_app. Qed.

Lemma parity_prefix d : forall k, k < length d -> parity_in d (seq 0 (S k)) = nth k (pxor false d) false.
Proof.
  induction k as [|k IH]; intros H.
  - destruct d as [|b r]; [cbn in H; lia|]. unfold parity_in. cbn. destruct b; reflexivity.
  - unfold parity_in in *. rewrite seq_S, map_app, fold_xorb_app. cbn [map fold_left Nat.add].
    rewrite (IH ltac:(lia)). rewrite (pxor_nth_S d false k H). reflexivity.
Qed.

Theorem encode_parity d : encode (parity_code (length d)) d = pxor false d.
Proof.
  unfold encode, parity_code. rewrite map_map.
  apply nth_ext with (d := false) (d' := false); [rewrite map_length, seq_length, pxor_length; reflexivity|].
  intros n Hn. rewrite map_length, seq_length in Hn.
  rewrite (nth_indep _ false (parity_in d (seq 0 (S 0)))) by (rewrite map_length, seq_length; exact Hn).
  rewrite (map_nth (fun k => parity_in d (seq 0 (S k))) (seq 0 (length d)) 0 n).
  rewrite seq_nth by exact Hn. cbn [Nat.add]. apply parity_prefix. exact Hn.
Qed.

Theorem parity_decode_encode d : dpx false (encode (parity_code (length d)) d) = d.
Proof. rewrite encode_parity. apply dpx_pxor. Qed.

Corollary export_det_parity_injective norb a b a' b' s s' ix :
  export_det norb (parity_code (2 * norb)) a b = Some (s, ix) ->
  export_det norb (parity_code (2 * norb)) a' b' = Some (s', ix) ->
  det_conv norb a b = det_conv norb a' b'.
Proof.
  apply (export_det_injective_of_decoder norb (parity_code (2 * norb)) (dpx false)).
  intros e He. rewrite <- He. apply parity_decode_encode.
Qed.

(* ---- every lower-unitriangular code (row k = some modes below k, then k itself: Jordan-Wigner, parity,
   Bravyi-Kitaev encoders all have this shape) is injective: the checkable predicate `unitri` and its consequence *)
Definition unitri_row (k : nat) (row : list nat) : bool :=
  match rev row with
  | k' :: lows => Nat.eqb k' k && forallb (fun j => Nat.ltb j k) lows
  | [] => false
  end.
Fixpoint unitri_from (k : nat) (c : code) : bool :=
  match c with [] => true | row :: r => unitri_row k row && unitri_from (S k) r end.
Definition unitri (c : code) : bool := unitri_from 0 c.

Lemma unitri_row_spec k row : unitri_row k row = true ->
  exists lows, row = lows ++ [k] /\ Forall (fun j => j < k) lows.
Proof.
  unfold unitri_row. intros H. destruct (rev row) as [|k' lr] eqn:E; [discriminate|].
  apply andb_true_iff in H. destruct H as [H1 H2]. apply Nat.eqb_eq in H1. subst k'.
  exists (rev lr). split.
  - rewrite <- (rev_involutive row), E. reflexivity.
  - rewrite forallb_forall in H2. apply Forall_forall. intros j Hj. apply in_rev in Hj. apply Nat.ltb_lt. apply H2. exact Hj.
Qed.

Lemma unitri_from_nth c : forall k0 k, unitri_from k0 c = true -> k < length c ->
  unitri_row (k0 + k) (nth k c []) = true.
Proof.
  induction c as [|row r IH]; intros k0 k H Hk; [cbn in Hk; lia|].
  cbn [unitri_from] in H. apply andb_true_iff in H. destruct H as [H1 H2].
  destruct k as [|k]; [rewrite Nat.add_0_r; exact H1|].
  cbn [nth length] in *. replace (k0 + S k) with (S k0 + k) by lia. apply IH; [exact H2|lia].
Qed.

Lemma parity_in_app d l1 l2 : parity_in d (l1 ++ l2) = xorb (parity_in d l1) (parity_in d l2).
Proof.
  unfold parity_in. rewrite map_app, fold_left_app.
  generalize (fold_left xorb (map (fun q => nth q d false) l1) false). intros acc.
  induction (map (fun q => nth q d false) l2) as [|b l IH] in acc |- *; cbn [fold_left].
  - destruct acc; reflexivity.
  - rewrite IH, (IH (xorb false b)). destruct acc, b; cbn; destruct (fold_left xorb l false); reflexivity.
Qed.

Lemma parity_in_agree d d' lows k : Forall (fun j => j < k) lows ->
  (forall j, j < k -> nth j d false = nth j d' false) -> parity_in d lows = parity_in d' lows.
Proof.
  intros F H. unfold parity_in. f_equal. apply map_ext_in. intros j Hj. apply H.
  rewrite Forall_forall in F. apply F. exact Hj.
Qed.

Theorem encode_unitri_injective c d d' : unitri c = true -> length d = length c -> length d' = length c ->
  encode c d = encode c d' -> d = d'.
Proof.
  intros U L L' E.
  assert (A : forall k, k < length c -> forall j, j <= k -> nth j d false = nth j d' false).
  { induction k as [|k IH]; intros Hk j Hj.
    - assert (j = 0) by lia. subst j.
      pose proof (unitri_from_nth c 0 0 U Hk) as R. apply unitri_row_spec in R. destruct R as [lows [Er Fl]].
      cbn [Nat.add] in Er. assert (lows = []). { destruct lows as [|x l]; [reflexivity|]. inversion Fl; lia. } subst lows.
      assert (En : nth 0 (encode c d) false = nth 0 (encode c d') false) by (rewrite E; reflexivity).
      unfold encode in En.
      rewrite (nth_indep _ false (parity_in d [])) in En by (rewrite map_length; exact Hk).
      rewrite (nth_indep (map (parity_in d') c) false (parity_in d' [])) in En by (rewrite map_length; exact Hk).
      rewrite !map_nth, Er in En. cbn [app] in En. rewrite !parity_in_single in En. exact En.
    - destruct (Nat.eq_dec j (S k)) as [->|Hne]; [|apply IH; lia].
      pose proof (unitri_from_nth c 0 (S k) U Hk) as R. apply unitri_row_spec in R. destruct R as [lows [Er Fl]].
      cbn [Nat.add] in Er.
      assert (En : nth (S k) (encode c d) false = nth (S k) (encode c d') false) by (rewrite E; reflexivity).
      unfold encode in En.
      rewrite (nth_indep _ false (parity_in d [])) in En by (rewrite map_length; exact Hk).
      rewrite (nth_indep (map (parity_in d') c) false (parity_in d' [])) in En by (rewrite map_length; exact Hk).
      rewrite !map_nth, Er, !parity_in_app, !parity_in_single in En.
      rewrite (parity_in_agree d d' lows (S k) Fl) in En by (intros j0 Hj0; apply IH; lia).
      destruct (parity_in d' lows), (nth (S k) d false), (nth (S k) d' false); cbn in En; congruence. }
  apply nth_ext with (d := false) (d' := false); [lia|].
  intros n Hn. apply (A n); lia.
Qed.

Theorem export_det_injective_unitri norb (c : code) a b a' b' s s' ix :
  unitri c = true -> length c = 2 * norb ->
  export_det norb c a b = Some (s, ix) -> export_det norb c a' b' = Some (s', ix) ->
  det_conv norb a b = det_conv norb a' b'.
Proof.
  intros U Lc. unfold export_det. intros H1 H2.
  destruct (build_conv_total norb (det_conv norb a b) (det_conv_length norb a b)) as [s1 [e1 [E1 L1]]].
  destruct (build_conv_total norb (det_conv norb a' b') (det_conv_length norb a' b')) as [s2 [e2 [E2 L2]]].
  rewrite E1 in H1. rewrite E2 in H2. inversion H1; subst. inversion H2 as [[Hs Hix]].
  apply be_index_inj in Hix; [|rewrite !encode_length; reflexivity].
  assert (Ee : e2 = e1) by (apply (encode_unitri_injective c); [exact U|lia|lia|exact Hix]).
  subst e2.
  eapply build_conv_injective; [apply det_conv_length|apply det_conv_length|exact E1|exact E2].
Qed.

(* the three codes FQE's export is used with: the shape check succeeds (4-mode Bravyi-Kitaev encoder of OpenFermion) *)
Example unitri_examples : unitri (jw_code 6) = true /\ unitri (parity_code 6) = true /\
  unitri [[0]; [0; 1]; [2]; [0; 1; 2; 3]] = true /\ unitri [[1]; [0; 1]] = false.
Proof. vm_compute. repeat split. Qed.
