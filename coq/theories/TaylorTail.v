(* TaylorTail.v — C02/C16: the remainder bound the exact Taylor oracle stops by.
   For 0 <= x < K+2 every partial sum of the tail  sum_{k > K} x^k / k!  is bounded by
   x^(K+1)/(K+1)! * (K+2)/(K+2-x)  (geometric domination of the terms).  Finite statement:
   no series, no limits; for every truncation point N. *)
From Coq Require Import Reals Lra Lia Arith.
Local Open Scope R_scope.

Definition tterm (x : R) (k : nat) : R := x ^ k / INR (fact k).

Lemma tterm_S x k : tterm x (S k) = tterm x k * (x / INR (S k)).
Proof.
  unfold tterm. rewrite fact_simpl, mult_INR. simpl pow.
  assert (INR (fact k) <> 0) by (apply INR_fact_neq_0).
  assert (INR (S k) <> 0) by (apply not_0_INR; lia).
  field. split; assumption.
Qed.

Lemma tterm_nonneg x k : 0 <= x -> 0 <= tterm x k.
Proof.
  intros Hx. unfold tterm. apply Rmult_le_pos; [apply pow_le; exact Hx|].
  left. apply Rinv_0_lt_compat. apply INR_fact_lt_0.
Qed.

Fixpoint tail_sum (x : R) (k0 n : nat) : R :=
  match n with O => tterm x k0 | S m => tail_sum x k0 m + tterm x (k0 + S m) end.

Fixpoint geo_sum (r : R) (n : nat) : R :=
  match n with O => 1 | S m => geo_sum r m + r ^ (S m) end.

Lemma geo_sum_closed r n : geo_sum r n * (1 - r) = 1 - r ^ (S n).
Proof. induction n as [|n IH]; cbn [geo_sum]; [simpl; ring|]. rewrite Rmult_plus_distr_r, IH. rewrite <- !tech_pow_Rmult. ring. Qed.

Lemma geo_sum_bound r n : 0 <= r < 1 -> geo_sum r n <= / (1 - r).
Proof.
  intros [H0 H1]. assert (P : 0 < 1 - r) by lra.
  apply Rmult_le_reg_r with (1 - r); [exact P|].
  rewrite geo_sum_closed, Rinv_l by lra.
  assert (0 <= r ^ S n) by (apply pow_le; exact H0). lra.
Qed.

Lemma tterm_dominated x K j : 0 <= x ->
  tterm x (S K + j) <= tterm x (S K) * (x / INR (S (S K))) ^ j.
Proof.
  intros Hx. induction j as [|j IH]; [rewrite Nat.add_0_r, pow_O; lra|].
  replace (S K + S j)%nat with (S (S K + j)) by lia. rewrite tterm_S. rewrite <- tech_pow_Rmult.
  assert (Hq : 0 <= x / INR (S (S K))).
  { apply Rmult_le_pos; [exact Hx|]. left. apply Rinv_0_lt_compat. apply lt_0_INR. lia. }
  assert (Hle : x / INR (S (S K + j)) <= x / INR (S (S K))).
  { apply Rmult_le_compat_l; [exact Hx|]. apply Rinv_le_contravar; [apply lt_0_INR; lia|].
    apply le_INR. lia. }
  assert (Hp : 0 <= x / INR (S (S K + j))).
  { apply Rmult_le_pos; [exact Hx|]. left. apply Rinv_0_lt_compat. apply lt_0_INR. lia. }
  assert (Ht : 0 <= tterm x (S K + j)) by (apply tterm_nonneg; exact Hx).
  assert (Hg : 0 <= tterm x (S K) * (x / INR (S (S K))) ^ j).
  { apply Rmult_le_pos; [apply tterm_nonneg; exact Hx|apply pow_le; exact Hq]. }
  apply Rle_trans with (tterm x (S K + j) * (x / INR (S (S K)))).
  - apply Rmult_le_compat_l; assumption.
  - replace (tterm x (S K) * (x / INR (S (S K)) * (x / INR (S (S K))) ^ j))
      with (tterm x (S K) * (x / INR (S (S K))) ^ j * (x / INR (S (S K)))) by ring.
    apply Rmult_le_compat_r; assumption.
Qed.

Lemma tail_sum_geo x K n : 0 <= x ->
  tail_sum x (S K) n <= tterm x (S K) * geo_sum (x / INR (S (S K))) n.
Proof.
  intros Hx. induction n as [|n IH]; cbn [tail_sum geo_sum].
  - lra.
  - rewrite Rmult_plus_distr_l. apply Rplus_le_compat; [exact IH|].
    apply (tterm_dominated x K (S n) Hx).
Qed.

(* THE BOUND the oracle uses: tail <= x^(K+1)/(K+1)! * (K+2)/(K+2-x) *)
Theorem taylor_tail_bound x K n : 0 <= x < INR (S (S K)) ->
  tail_sum x (S K) n <= tterm x (S K) * (INR (S (S K)) / (INR (S (S K)) - x)).
Proof.
  intros [Hx Hlt].
  assert (Hpos : 0 < INR (S (S K))) by (apply lt_0_INR; lia).
  assert (Hr : 0 <= x / INR (S (S K)) < 1).
  { split.
    - apply Rmult_le_pos; [exact Hx|]. left. apply Rinv_0_lt_compat. exact Hpos.
    - apply Rmult_lt_reg_r with (INR (S (S K))); [exact Hpos|]. unfold Rdiv. rewrite Rmult_assoc, Rinv_l by lra. lra. }
  apply Rle_trans with (tterm x (S K) * geo_sum (x / INR (S (S K))) n); [apply tail_sum_geo; exact Hx|].
  apply Rmult_le_compat_l; [apply tterm_nonneg; exact Hx|].
  apply Rle_trans with (/ (1 - x / INR (S (S K)))); [apply geo_sum_bound; exact Hr|].
  right. field. split; lra.
Qed.
