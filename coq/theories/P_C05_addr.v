(* P_C05_addr.v — C05: the address of a string.  FciGraph._build_string_address is REGENERATED from the current
   source (gen/Gen_address_py.v) and evaluated on the table the REGENERATED loops of _get_Z_matrix leave: the result is
   the model's address (sum_k Z[k][occ_k]) and therefore the position of the string in the lexicographic string table -
   every norb, nele and string of the table. *)
From Coq Require Import NArith ZArith List.
From FQE Require Import GenBase Bits Addr AddrThm GenLoops Equiv_zmat Equiv_addr.
From FQE.gen Require Import Gen_zmatrix_py Gen_address_py.
Local Open Scope Z_scope.

Theorem C05_source_address_is_model : forall (norb nele : nat) (oc : list nat),
  length oc = nele -> (forall o, In o oc -> (o < norb)%nat) ->
  py_build_string_address py_Z (Z.of_nat nele) (Z.of_nat norb) (occ_fun oc) = addr_z (zmat norb nele) oc.
Proof. exact py_address_is_model. Qed.
Print Assumptions C05_source_address_is_model.

Theorem C05_source_address_is_table_index : forall (norb nele : nat) (s : N), In s (strings norb nele) ->
  py_build_string_address py_Z (Z.of_nat nele) (Z.of_nat norb) (occ_fun (occ norb s)) = Z.of_nat (raddr norb nele s).
Proof. exact py_address_is_table_index. Qed.
Print Assumptions C05_source_address_is_table_index.

(* non-vacuity: 6 orbitals, 3 electrons, string 0b101001 = {0, 3, 5}: address 8, the position of 41 in the table *)
Example C05_source_address_example :
  py_build_string_address py_Z 3 6 (occ_fun (occ 6 41%N)) = 8 /\ nth 8 (strings 6 3) 0%N = 41%N.
Proof. vm_compute. split; reflexivity. Qed.
