(* P_C09.v — C09: the constructors' sector sets, as exact set characterisations,
   for every (nele, m_s, norb); grading facts used for conservation. *)
From Coq Require Import ZArith List Bool Lia.
From FQE Require Import Car Fock Addr Ctor ApplyThm.
Import ListNotations.
Local Open Scope Z_scope.

Theorem C09_alpha_beta : forall nele ms a b, alpha_beta nele ms = Some (a, b) <->
  (0 <= a /\ 0 <= b /\ a + b = nele /\ a - b = ms).
Proof. exact alpha_beta_some. Qed.
Print Assumptions C09_alpha_beta.

Theorem C09_get_accepts_iff : forall nele ms norb,
  (exists l, ctor_get nele ms norb = Some l) <->
  exists na nb, 0 <= na <= norb /\ 0 <= nb <= norb /\ na + nb = nele /\ na - nb = ms.
Proof. exact ctor_get_accepts_iff. Qed.
Print Assumptions C09_get_accepts_iff.

Theorem C09_number_conserving_sectors : forall nele norb, 0 <= norb -> 0 <= nele <= 2 * norb ->
  exists l, ctor_nc nele norb = Some l /\
  forall s, In s l <-> exists na nb, 0 <= na <= norb /\ 0 <= nb <= norb /\ na + nb = nele /\
                         s = (nele, na - nb, binomZ norb na, binomZ norb nb).
Proof. exact ctor_nc_spec. Qed.
Print Assumptions C09_number_conserving_sectors.

Theorem C09_spin_conserving_sectors : forall sz norb, 0 <= norb -> Z.abs sz <= norb ->
  exists l, ctor_sc sz norb = Some l /\
  forall s, In s l <-> exists na nb, 0 <= na <= norb /\ 0 <= nb <= norb /\ na - nb = sz /\
                         s = (na + nb, sz, binomZ norb na, binomZ norb nb).
Proof. exact ctor_sc_spec. Qed.
Print Assumptions C09_spin_conserving_sectors.

Theorem C09_impossible_rejected : forall nele norb, nele < 0 \/ 2 * norb < nele -> ctor_nc nele norb = None.
Proof. exact ctor_nc_rejects. Qed.
Print Assumptions C09_impossible_rejected.

(* the constructors as originally coded answered impossible requests (refutation witnesses) *)
Theorem C09_nc_coded_accepts_impossible_refuted : exists nele norb,
  2 * norb < nele /\ ctor_nc_coded nele norb = Some [].
Proof. exact ctor_nc_coded_accepts_impossible. Qed.
Print Assumptions C09_nc_coded_accepts_impossible_refuted.

Theorem C09_sc_coded_accepts_impossible_refuted : exists sz norb,
  norb < Z.abs sz /\ ctor_sc_coded sz norb = Some [].
Proof. exact ctor_sc_coded_accepts_impossible. Qed.
Print Assumptions C09_sc_coded_accepts_impossible_refuted.

(* conservation: an operator string with zero alpha shift and zero beta shift maps
   every determinant into its own (n_alpha, n_beta) sector *)
Theorem C09_sector_preserved : forall sel ops d s d',
  string_shift sel ops = 0 -> string_fn ops d = Some (s, d') ->
  nocc_in sel 0 d' = nocc_in sel 0 d.
Proof. exact string_preserves_sector. Qed.
Print Assumptions C09_sector_preserved.

(* conservation under every polynomial propagator (Conserve.v): a Hamiltonian whose strings have zero shift on a block
   of positions (alpha block, beta block, all positions) keeps every power H^m psi and every finite combination
   sum_m c_m H^m psi - every truncated Taylor series and Chebyshev expansion - inside the sector of psi; amplitudes
   outside the sector are exactly zero.  Any commutative ring. *)
From FQE Require Import Conserve.
Close Scope Z_scope.
Theorem C09_propagation_stays_in_sector :
  forall (R : Type) (rmul : R -> R -> R) (ropp : R -> R) (sel : nat -> bool) (k : nat)
         (p : poly R) (cs : list (R * nat)) (v : vec R),
  conserves R sel p -> supported R (in_sector sel k) v ->
  supported R (in_sector sel k) (lincomb R rmul ropp p cs v).
Proof. exact sector_closed_lincomb. Qed.
Print Assumptions C09_propagation_stays_in_sector.

Theorem C09_amplitude_outside_sector_is_zero :
  forall (R : Type) (rO rI : R) (radd rmul rsub : R -> R -> R) (ropp : R -> R),
  ring_theory rO rI radd rmul rsub ropp eq ->
  forall (sel : nat -> bool) (k : nat) (p : poly R) (cs : list (R * nat)) (v : vec R) (d : det),
  conserves R sel p -> supported R (in_sector sel k) v -> nocc_in sel 0 d <> k ->
  coeff R rO radd (lincomb R rmul ropp p cs v) d = rO.
Proof. exact propagated_amplitude_outside_sector_is_zero. Qed.
Print Assumptions C09_amplitude_outside_sector_is_zero.

(* an observable Q commuting with H (S^2 under a spin-symmetric Hamiltonian): eigenvectors of Q stay eigenvectors
   with the same eigenvalue under every polynomial in H *)
Theorem C09_commuting_observable_conserved :
  forall (R : Type) (rO rI : R) (radd rmul rsub : R -> R -> R) (ropp : R -> R),
  ring_theory rO rI radd rmul rsub ropp eq ->
  forall (p q : poly R) (lam : R) (cs : list (R * nat)) (v : vec R),
  commute R rO radd rmul ropp p q -> eigen R rO radd rmul ropp q lam v ->
  eigen R rO radd rmul ropp q lam (lincomb R rmul ropp p cs v).
Proof. exact commuting_preserves_eigen_lincomb. Qed.
Print Assumptions C09_commuting_observable_conserved.

(* the reason spin-free Hamiltonians conserve the total spin (CommThm.v): every spin-free generator
   E_ij = a†_{i alpha} a_{j alpha} + a†_{i beta} a_{j beta} commutes with S+ = sum_k a†_{k alpha} a_{k beta}, for every
   orbital count, i, j and vector; from the CAR identity
   a†_p a_q a†_r a_s - a†_r a_s a†_p a_q = delta_qr a†_p a_s - delta_sp a†_r a_q  (any four positions) *)
From FQE Require Import TableThm DvecThm CommThm.
Theorem C09_commutator_of_hops :
  forall (R : Type) (rO rI : R) (radd rmul rsub : R -> R -> R) (ropp : R -> R),
  ring_theory rO rI radd rmul rsub ropp eq ->
  forall p q r s n (V : vec R) d, q < n -> s < n -> wide R n V ->
  radd (coeff R rO radd (act_string R ropp [mkop p true; mkop q false; mkop r true; mkop s false] V) d)
       (ropp (coeff R rO radd (act_string R ropp [mkop r true; mkop s false; mkop p true; mkop q false] V) d))
  = radd (if Nat.eqb q r then coeff R rO radd (act_string R ropp [mkop p true; mkop s false] V) d else rO)
         (ropp (if Nat.eqb s p then coeff R rO radd (act_string R ropp [mkop r true; mkop q false] V) d else rO)).
Proof. exact comm_basic. Qed.
Print Assumptions C09_commutator_of_hops.

Theorem C09_spinfree_generators_commute_with_spin_ladder :
  forall (R : Type) (rO rI : R) (radd rmul rsub : R -> R -> R) (ropp : R -> R),
  ring_theory rO rI radd rmul rsub ropp eq ->
  forall (a b : bool) norb i j (V : vec R) d, i < norb -> j < norb -> wide R (norb + norb) V ->
  coeff R rO radd (act_poly R rmul ropp (E R rI norb i j) (act_poly R rmul ropp (T R rI a b norb) V)) d
  = coeff R rO radd (act_poly R rmul ropp (T R rI a b norb) (act_poly R rmul ropp (E R rI norb i j) V)) d.
Proof. exact comm_E_T. Qed.
Print Assumptions C09_spinfree_generators_commute_with_spin_ladder.

(* ... hence with the total spin: 4 S^2 = 4 S- S+ + 2 (N_alpha - N_beta) + (N_alpha - N_beta)^2 *)
Theorem C09_spinfree_generators_commute_with_S2 :
  forall (R : Type) (rO rI : R) (radd rmul rsub : R -> R -> R) (ropp : R -> R),
  ring_theory rO rI radd rmul rsub ropp eq ->
  forall norb i j (V : vec R), i < norb -> j < norb -> wide R (norb + norb) V ->
  forall d, coeff R rO radd (act_poly R rmul ropp (E R rI norb i j) (four_S2 R rI radd rmul ropp norb V)) d
          = coeff R rO radd (four_S2 R rI radd rmul ropp norb (act_poly R rmul ropp (E R rI norb i j) V)) d.
Proof. exact E_commutes_with_S2. Qed.
Print Assumptions C09_spinfree_generators_commute_with_S2.

(* ... and so does the whole spin-free Hamiltonian sum_il h1[i,l] E_il + sum_ijkl h2[i,j,k,l] (-a†_i a†_j a_k a_l, spin-summed)
   that fqe builds from restricted one- and two-body tensors (DvecThm.restricted_poly): H (4 S^2) V = (4 S^2) H V
   coefficient-wise, for every orbital count, every tensor pair over every commutative ring and every vector *)
Theorem C09_spinfree_hamiltonian_commutes_with_S2 :
  forall (R : Type) (rO rI : R) (radd rmul rsub : R -> R -> R) (ropp : R -> R),
  ring_theory rO rI radd rmul rsub ropp eq ->
  forall norb (h1 : nat -> nat -> R) (h2 : nat -> nat -> nat -> nat -> R) (V : vec R), wide R (norb + norb) V ->
  forall d, coeff R rO radd (act_poly R rmul ropp (restricted_poly R norb h1 h2) (four_S2 R rI radd rmul ropp norb V)) d
          = coeff R rO radd (four_S2 R rI radd rmul ropp norb (act_poly R rmul ropp (restricted_poly R norb h1 h2) V)) d.
Proof. exact spinfree_hamiltonian_commutes_with_S2. Qed.
Print Assumptions C09_spinfree_hamiltonian_commutes_with_S2.

(* ... hence every polynomial propagator of a spin-free Hamiltonian - every truncated Taylor series, every Chebyshev
   expansion - maps an eigenvector of 4 S^2 to an eigenvector with the same eigenvalue (non-vacuity:
   CommThm.triplet0_is_S2_eigenvector) *)
Theorem C09_spinfree_propagation_conserves_S2 :
  forall (R : Type) (rO rI : R) (radd rmul rsub : R -> R -> R) (ropp : R -> R),
  ring_theory rO rI radd rmul rsub ropp eq ->
  forall norb (h1 : nat -> nat -> R) (h2 : nat -> nat -> nat -> nat -> R) (lam : R) (cs : list (R * nat)) (v : vec R),
  wide R (norb + norb) v ->
  (forall d, coeff R rO radd (four_S2 R rI radd rmul ropp norb v) d = coeff R rO radd (vscale R rmul lam v) d) ->
  forall d, coeff R rO radd (four_S2 R rI radd rmul ropp norb (lincomb R rmul ropp (restricted_poly R norb h1 h2) cs v)) d
          = coeff R rO radd (vscale R rmul lam (lincomb R rmul ropp (restricted_poly R norb h1 h2) cs v)) d.
Proof. exact spinfree_propagation_conserves_S2. Qed.
Print Assumptions C09_spinfree_propagation_conserves_S2.

(* the phase of the time-reversal operator (TrevThm.v).  T is the antilinear map with T a†_{k alpha} T^-1 = a†_{k beta},
   T a†_{k beta} T^-1 = - a†_{k alpha}, T|0> = |0>; on a determinant it is (-1)^{n_beta} times the product of the
   exchanged creators applied to the vacuum (Reorder.build with the block exchange tau).  For every orbital count and
   every pair of strings this is (-1)^{n_beta (n_alpha + 1)} |B, A> - the phase of TimeReversalOp.contract and of the
   model oracle Model.m_trev - and T^2 = (-1)^N. *)
From FQE Require Import Bits Reorder TrevThm.
Theorem C09_time_reversal_phase : forall n (x y : det), length x = n -> length y = n ->
  trev_det n (x ++ y) = Some (Nat.odd (cnt_true y * (cnt_true x + 1)), y ++ x).
Proof. exact trev_det_phase. Qed.
Print Assumptions C09_time_reversal_phase.

Theorem C09_time_reversal_phase_of_model_layout : forall norb (a b : N),
  (a < 2 ^ N.of_nat norb)%N -> (b < 2 ^ N.of_nat norb)%N ->
  trev_det norb (rev (bits norb a) ++ rev (bits norb b))
  = Some (Nat.odd (popcount b * (popcount a + 1)), rev (bits norb b) ++ rev (bits norb a)).
Proof. exact trev_det_of. Qed.
Print Assumptions C09_time_reversal_phase_of_model_layout.

Theorem C09_time_reversal_squares_to_parity : forall n (x y : det), length x = n -> length y = n ->
  sbind (trev_det n) (trev_det n (x ++ y)) = Some (Nat.odd (cnt_true x + cnt_true y), x ++ y).
Proof. exact trev_det_twice. Qed.
Print Assumptions C09_time_reversal_squares_to_parity.
