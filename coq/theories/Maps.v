(* Maps.v — excitation tables, de-excitation tables, k-fold annihilation maps and
   operator-string maps, as FQE builds them (executable definitions). *)
From Coq Require Import NArith ZArith List Bool Arith Lia.
From FQE Require Import Bits Addr.
Import ListNotations.

Definition idx (l : list N) (s : N) : nat := match index_of s l with Some i => i | None => 0 end.

(* a†_i a_j on every string of the table: (source address, target address, sign bit) *)
Definition exc_entry (strs : list N) (i j : nat) (s : N) : option (nat * nat * bool) :=
  if andb (tb s j) (negb (tb s i)) then
    Some (idx strs s, idx strs (clrbit (setbit s i) j), Nat.odd (cnt_between s i j))
  else if andb (Nat.eqb i j) (tb s i) then Some (idx strs s, idx strs s, false)
  else None.

Fixpoint omap {A B} (f : A -> option B) (l : list A) : list B :=
  match l with
  | [] => []
  | x :: r => match f x with Some y => y :: omap f r | None => omap f r end
  end.

Definition exc_map (n k i j : nat) : list (nat * nat * bool) :=
  let strs := strings n k in omap (exc_entry strs i j) strs.

(* de-excitation table: row target lists (source, i*n+j, sign) in the order FQE
   fills them: outer loop over (i,j) in dict order (i major), inner over the map *)
Definition dexc_rows (n k : nat) : list (list (nat * nat * bool)) :=
  let maps := flat_map (fun i => map (fun j => (i * n + j, exc_map n k i j)) (seq 0 n)) (seq 0 n) in
  map (fun tgt =>
    flat_map (fun m => omap (fun e => match e with (src, t, sg) =>
                                if Nat.eqb t tgt then Some (src, fst m, sg) else None end) (snd m)) maps)
    (seq 0 (length (strings n k))).

(* operator-string map of make_mapping_each: for every string (by address) not
   annihilated: (address, target STRING, parity bit) *)
Definition cnt_above (n : nat) (s : N) (i : nat) : nat := cnt_range s (S i) n.

Definition opstring_entry (n : nat) (dag undag : list nat) (s : N) : option (N * bool) :=
  let dag_mask := of_occ (filter (fun i => negb (existsb (Nat.eqb i) undag)) dag) in
  let undag_mask := of_occ undag in
  if andb (N.eqb (N.land s dag_mask) 0) (N.eqb (N.lxor (N.land s undag_mask) undag_mask) 0) then
    let step1 := fold_left (fun (st : N * nat) i => (clrbit (fst st) i, snd st + cnt_above n (fst st) i))
                           (rev undag) (s, 0) in
    let step2 := fold_left (fun (st : N * nat) i => (setbit (fst st) i, snd st + cnt_above n (fst st) i))
                           (rev dag) step1 in
    Some (fst step2, Nat.odd (snd step2))
  else None.

Definition opstring_map (n k : nat) (dag undag : list nat) : list (nat * N * bool) :=
  let strs := strings n k in
  omap (fun p => match opstring_entry n dag undag (snd p) with
                 | Some (t, par) => Some (fst p, t, par) | None => None end)
       (combine (seq 0 (length strs)) strs).

(* k-fold annihilation maps between sector k and sector k-dn (make_mapping_each_set
   + _postprocess): for every mask of dn orbitals (keyed by its ascending
   occupation list) and every source string containing the mask:
   (source address, target address in the (n,k-dn) table, parity bit), with FQE's
   parity formula  dn*above(o_last) + sum_{d} (d+1)*between(o_d,o_{d+1}). *)
Fixpoint between_sum (s : N) (d : nat) (ops : list nat) : nat :=
  match ops with
  | a :: ((b :: _) as r) => (d + 1) * cnt_between s a b + between_sum s (S d) r
  | _ => 0
  end.

Definition annih_parity (n : nat) (s : N) (ops : list nat) : nat :=
  length ops * cnt_above n s (last ops 0) + between_sum s 0 ops.

Definition annih_map (n k dn : nat) : list (list nat * list (nat * nat * bool)) :=
  let src := strings n k in
  let tgt := strings n (k - dn) in
  map (fun mask =>
         let ops := occ n mask in
         (ops, omap (fun s => if N.eqb (N.land s mask) mask
                              then Some (idx src s, idx tgt (N.lxor s mask), Nat.odd (annih_parity n s ops))
                              else None) src))
      (strings n dn).
