(* Equiv_trev.v — the sign exponents of TimeReversalOp.contract, REGENERATED from the current source
   (gen/Gen_trev_phases.v), have the parity that TrevThm.trev_det_phase derives from the definition of time reversal:
   a block that comes from a sector with (na, nb) electrons carries (-1)^(nb (na + 1)).
     * the partner sector (nbeta, nalpha) receives the data of the sector (nalpha, nbeta): exponent of parity nbeta (nalpha + 1);
     * the sector (nalpha, nbeta) receives the data of its partner (nbeta, nalpha):        exponent of parity nalpha (nbeta + 1);
     * equal counts get no phase in the source: n (n + 1) is even. *)
From Coq Require Import ZArith Arith Lia.
From FQE Require Import GenBase.
From FQE.gen Require Import Gen_trev_phases.
Local Open Scope Z_scope.

Lemma Zodd_of_nat n : Z.odd (Z.of_nat n) = Nat.odd n.
Proof.
  induction n as [|n IH]; [reflexivity|].
  rewrite Nat2Z.inj_succ, Z.odd_succ, Nat.odd_succ, <- Z.negb_odd, <- Nat.negb_odd, IH. reflexivity.
Qed.

Theorem py_trev_into_high_parity (na nb : nat) :
  Z.odd (py_trev_exp_into_high (Z.of_nat na) (Z.of_nat nb)) = Nat.odd (nb * (na + 1)).
Proof.
  unfold py_trev_exp_into_high. rewrite <- Zodd_of_nat. f_equal. lia.
Qed.

Theorem py_trev_into_low_parity (na nb : nat) :
  Z.odd (py_trev_exp_into_low (Z.of_nat na) (Z.of_nat nb)) = Nat.odd (na * (nb + 1)).
Proof.
  unfold py_trev_exp_into_low. rewrite <- Zodd_of_nat. f_equal. lia.
Qed.

Theorem trev_equal_counts_no_phase (n : nat) : Nat.odd (n * (n + 1)) = false.
Proof.
  rewrite Nat.odd_mul, Nat.add_1_r, Nat.odd_succ, <- Nat.negb_odd. destruct (Nat.odd n); reflexivity.
Qed.
