(* P_C15.v — C15: statements about the persistence state machine, for every history.
   The two laws of pickle are hypotheses of the section (trusted base), not axioms. *)
From Coq Require Import List Bool Arith Lia.
From FQE Require Import Persist.
Import ListNotations.

Theorem C15_read_after_save :
  forall (obj bytes : Type) (pickle : obj -> bytes) (unpickle : bytes -> option obj)
         (truncate : nat -> bytes -> bytes),
  (forall x, unpickle (pickle x) = Some x) ->
  forall frozen s i f p ops j q,
  let s1 := fst (step obj bytes pickle unpickle truncate frozen s (Save obj i f p)) in
  let s2 := run obj bytes pickle unpickle truncate frozen s1 ops in
  no_write obj bytes pickle unpickle truncate frozen s1 ops (eff obj bytes frozen s p) f ->
  eff obj bytes frozen s2 q = eff obj bytes frozen s p ->
  snd (step obj bytes pickle unpickle truncate frozen s2 (Read obj j f q)) = true /\
  recv obj bytes (fst (step obj bytes pickle unpickle truncate frozen s2 (Read obj j f q))) j = recv obj bytes s i.
Proof. exact read_after_save. Qed.
Print Assumptions C15_read_after_save.

Theorem C15_read_atomic :
  forall (obj bytes : Type) (pickle : obj -> bytes) (unpickle : bytes -> option obj)
         (truncate : nat -> bytes -> bytes) frozen s i f p,
  snd (step obj bytes pickle unpickle truncate frozen s (Read obj i f p)) = false ->
  fst (step obj bytes pickle unpickle truncate frozen s (Read obj i f p)) = s.
Proof. exact read_atomic. Qed.
Print Assumptions C15_read_atomic.

Theorem C15_read_truncated_fails :
  forall (obj bytes : Type) (pickle : obj -> bytes) (unpickle : bytes -> option obj)
         (blen : bytes -> nat) (truncate : nat -> bytes -> bytes),
  (forall x k, k < blen (pickle x) -> unpickle (truncate k (pickle x)) = None) ->
  forall frozen s i f p k j q,
  let s1 := fst (step obj bytes pickle unpickle truncate frozen s (Save obj i f p)) in
  let s2 := fst (step obj bytes pickle unpickle truncate frozen s1 (Trunc obj (eff obj bytes frozen s p) f k)) in
  k < blen (pickle (recv obj bytes s i)) ->
  eff obj bytes frozen s2 q = eff obj bytes frozen s p ->
  snd (step obj bytes pickle unpickle truncate frozen s2 (Read obj j f q)) = false /\
  fst (step obj bytes pickle unpickle truncate frozen s2 (Read obj j f q)) = s2.
Proof. exact read_truncated_fails. Qed.
Print Assumptions C15_read_truncated_fails.

Theorem C15_read_frame :
  forall (obj bytes : Type) (pickle : obj -> bytes) (unpickle : bytes -> option obj)
         (truncate : nat -> bytes -> bytes) frozen s i f p j, i <> j ->
  recv obj bytes (fst (step obj bytes pickle unpickle truncate frozen s (Read obj i f p))) j = recv obj bytes s j.
Proof. exact read_frame. Qed.
Print Assumptions C15_read_frame.

Theorem C15_default_dir_is_call_cwd :
  forall (obj bytes : Type) (pickle : obj -> bytes) (unpickle : bytes -> option obj)
         (truncate : nat -> bytes -> bytes) s i f d,
  let s1 := fst (step obj bytes pickle unpickle truncate false s (Chdir obj d)) in
  fs obj bytes (fst (step obj bytes pickle unpickle truncate false s1 (Save obj i f None))) d f
  = Some (pickle (recv obj bytes s i)).
Proof. exact default_dir_is_call_cwd. Qed.
Print Assumptions C15_default_dir_is_call_cwd.

Theorem C15_default_dir_frozen_refuted :
  forall (obj bytes : Type) (pickle : obj -> bytes) (unpickle : bytes -> option obj)
         (truncate : nat -> bytes -> bytes) s i f d,
  d <> imp_cwd obj bytes s -> fs obj bytes s d f = None ->
  let s1 := fst (step obj bytes pickle unpickle truncate true s (Chdir obj d)) in
  fs obj bytes (fst (step obj bytes pickle unpickle truncate true s1 (Save obj i f None))) d f = None.
Proof. exact default_dir_frozen_refuted. Qed.
Print Assumptions C15_default_dir_frozen_refuted.
