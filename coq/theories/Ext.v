(* Ext.v — C12: the many-body (exterior power) action of an orbital matrix on
   determinants through minors, over the Gaussian integers (a unitary with rational
   entries G/d is handled as the integer matrix G, the harness divides by d^N). *)
From Coq Require Import NArith ZArith List Bool Arith Lia Ring.
From FQE Require Import GaussZ Bits Addr.
Import ListNotations.

Add Ring gzring_ext : gz_ring.

Definition mat := list (list gz).
Definition mget (M : mat) (i j : nat) : gz := nth j (nth i M []) gz0.

Fixpoint drop_nth {A} (n : nat) (l : list A) : list A :=
  match l, n with
  | [], _ => []
  | _ :: r, O => r
  | x :: r, S n' => x :: drop_nth n' r
  end.

(* Laplace expansion along the first row; fuel = size *)
Fixpoint det (fuel : nat) (M : mat) : gz :=
  match fuel with
  | O => gz1
  | S f =>
    match M with
    | [] => gz1
    | row :: rest =>
      fold_left (fun acc j =>
                   let term := gzmul (nth j row gz0) (det f (map (drop_nth j) rest)) in
                   if Nat.even j then gzadd acc term else gzsub acc term)
                (seq 0 (length row)) gz0
    end
  end.

Definition submat (M : mat) (rows cols : list nat) : mat :=
  map (fun i => map (fun j => mget M i j) cols) rows.
Definition minor (M : mat) (rows cols : list nat) : gz := det (length rows) (submat M rows cols).

(* restricted / spin-block-diagonal: Ma acts on alpha strings, Mb on beta strings *)
Definition ext_blocks (norb : nat) (Ma Mb : mat) (v : list (N * N * gz)) (basis : list (N * N)) : list gz :=
  map (fun ab' =>
         fold_left (fun acc x => match x with (a, b, c) =>
            if Nat.eqb (popcount a) (popcount (fst ab')) && Nat.eqb (popcount b) (popcount (snd ab')) then
              gzadd acc (gzmul (gzmul (minor Ma (occ norb (fst ab')) (occ norb a))
                                      (minor Mb (occ norb (snd ab')) (occ norb b))) c)
            else acc end) v gz0) basis.

(* fully spin-mixing: M is 2norb x 2norb (index < norb alpha); determinant index list in
   the convention order: alpha descending, then beta descending *)
Definition conv_idx (norb : nat) (a b : N) : list nat :=
  rev (occ norb a) ++ map (fun j => norb + j) (rev (occ norb b)).
Definition ext_full (norb : nat) (M : mat) (v : list (N * N * gz)) (basis : list (N * N)) : list gz :=
  map (fun ab' =>
         fold_left (fun acc x => match x with (a, b, c) =>
            if Nat.eqb (popcount a + popcount b) (popcount (fst ab') + popcount (snd ab')) then
              gzadd acc (gzmul (minor M (conv_idx norb (fst ab') (snd ab')) (conv_idx norb a b)) c)
            else acc end) v gz0) basis.

(* ---- small-size multiplicativity of the determinant (Cauchy-Binet, sizes 1-2 symbolic) *)
Definition mmul2 (A B : mat) : mat :=
  [[gzadd (gzmul (mget A 0 0) (mget B 0 0)) (gzmul (mget A 0 1) (mget B 1 0));
    gzadd (gzmul (mget A 0 0) (mget B 0 1)) (gzmul (mget A 0 1) (mget B 1 1))];
   [gzadd (gzmul (mget A 1 0) (mget B 0 0)) (gzmul (mget A 1 1) (mget B 1 0));
    gzadd (gzmul (mget A 1 0) (mget B 0 1)) (gzmul (mget A 1 1) (mget B 1 1))]].

Lemma det2_formula a b c d : det 2 [[a; b]; [c; d]] = gzsub (gzmul a d) (gzmul b c).
Proof. cbn [det fold_left seq length map drop_nth nth Nat.even]. ring. Qed.

Theorem det2_mul a b c d e f g h :
  det 2 (mmul2 [[a; b]; [c; d]] [[e; f]; [g; h]]) = gzmul (det 2 [[a; b]; [c; d]]) (det 2 [[e; f]; [g; h]]).
Proof. unfold mmul2, mget. cbn [nth]. rewrite !det2_formula. ring. Qed.

Theorem det_identity_2 : det 2 [[gz1; gz0]; [gz0; gz1]] = gz1.
Proof. reflexivity. Qed.
Theorem det_identity_3 : det 3 [[gz1; gz0; gz0]; [gz0; gz1; gz0]; [gz0; gz0; gz1]] = gz1.
Proof. reflexivity. Qed.

(* swapping two rows flips the sign (2x2, symbolic) *)
Theorem det2_swap_rows a b c d : det 2 [[c; d]; [a; b]] = gzopp (det 2 [[a; b]; [c; d]]).
Proof. rewrite !det2_formula. ring. Qed.
