(* Denote.v — the operator polynomial that each kind of FQE Hamiltonian data
   stands for (the Spec side of C01/C06): one hentry = one tensor entry. *)
From Coq Require Import NArith ZArith List Bool Arith Lia.
From FQE Require Import Car Fock GaussZ Bits.
Import ListNotations.

(* harness-level operator: (beta?, spatial orbital, dagger?) *)
Definition hop := (bool * nat * bool)%type.
Definition hterm := (gz * list hop)%type.

Inductive hentry :=
| ERestricted (idx : list nat) (c : gz)   (* spin-free tensor entry h[i1..ir, j1..jr] *)
| ESpinOrb (idx : list nat) (c : gz)      (* spin-orbital tensor entry, index < norb is alpha *)
| EDiagSpatial (p : nat) (c : gz)         (* Diagonal, array of size norb: c (n_pa + n_pb) *)
| EDiagSpin (p : nat) (c : gz)            (* Diagonal, array of size 2norb: c n_p *)
| EDCdiag (k : nat) (c : gz)              (* DiagonalCoulomb one-body part: c n_k *)
| EDCv (i j : nat) (c : gz)               (* DiagonalCoulomb: c n_i n_j, n = n_a + n_b *)
| EString (ops : list (nat * bool)) (c : gz)  (* OpenFermion string, index 2i+s, (index, dagger) *)
| EScalar (c : gz)
| ENumber (c : gz)                         (* c * N,  N = sum_p n_p *)
| ETwoSz (c : gz)                          (* c * 2 Sz = c * sum_i (n_ia - n_ib) *)
| EFourS2 (c : gz).                        (* c * 4 S^2 = c (4 S_- S_+ + 2 (2Sz) + (2Sz)^2) *)

(* all spin assignments of r labels *)
Fixpoint spin_assignments (r : nat) : list (list bool) :=
  match r with
  | O => [[]]
  | S r' => flat_map (fun l => [false :: l; true :: l]) (spin_assignments r')
  end.

Definition mk_ops (dg : bool) (sp : list bool) (ix : list nat) : list hop :=
  map (fun p => (fst p, snd p, dg)) (combine sp ix).

Definition spinorb_hop (norb : nat) (dg : bool) (p : nat) : hop :=
  (Nat.leb norb p, if Nat.leb norb p then p - norb else p, dg).

Definition num_op (beta : bool) (i : nat) : list hop := [(beta, i, true); (beta, i, false)].

Definition two_sz_terms (norb : nat) (c : gz) : list hterm :=
  flat_map (fun i => [(c, num_op false i); (gzopp c, num_op true i)]) (seq 0 norb).

Definition denote (norb : nat) (e : hentry) : list hterm :=
  match e with
  | ERestricted idx c =>
    let r := Nat.div2 (length idx) in
    map (fun sp => (c, mk_ops true sp (firstn r idx) ++ mk_ops false sp (skipn r idx)))
        (spin_assignments r)
  | ESpinOrb idx c =>
    let r := Nat.div2 (length idx) in
    [(c, map (spinorb_hop norb true) (firstn r idx) ++ map (spinorb_hop norb false) (skipn r idx))]
  | EDiagSpatial p c => [(c, num_op false p); (c, num_op true p)]
  | EDiagSpin p c => [(c, [spinorb_hop norb true p; spinorb_hop norb false p])]
  | EDCdiag k c => [(c, num_op false k); (c, num_op true k)]
  | EDCv i j c =>
    [(c, num_op false i ++ num_op false j); (c, num_op false i ++ num_op true j);
     (c, num_op true i ++ num_op false j); (c, num_op true i ++ num_op true j)]
  | EString ops c => [(c, map (fun o => (Nat.odd (fst o), Nat.div2 (fst o), snd o)) ops)]
  | EScalar c => [(c, [])]
  | ENumber c => flat_map (fun i => [(c, num_op false i); (c, num_op true i)]) (seq 0 norb)
  | ETwoSz c => two_sz_terms norb c
  | EFourS2 c =>
    (* 4 S_- S_+ = 4 sum_ij b†_i a_i a†_j b_j *)
    flat_map (fun i => map (fun j => (gzmul (4, 0)%Z c,
                [(true, i, true); (false, i, false); (false, j, true); (true, j, false)])) (seq 0 norb)) (seq 0 norb)
    ++ two_sz_terms norb (gzmul (2, 0)%Z c)
    ++ flat_map (fun t1 => map (fun t2 => (gzmul c (gzmul (fst t1) (fst t2)), snd t1 ++ snd t2))
                               (two_sz_terms norb gz1)) (two_sz_terms norb gz1)
  end.

Definition denote_all (norb : nat) (es : list hentry) : list hterm := flat_map (denote norb) es.
