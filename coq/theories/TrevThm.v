(* TrevThm.v — C09: the phase of the time-reversal operator.
   Time reversal is the antilinear map with  T a†_{k alpha} T^-1 = a†_{k beta},  T a†_{k beta} T^-1 = - a†_{k alpha}
   and T|0> = |0>.  A determinant is its creators applied to the vacuum in its own position order, so
     T |x, y>  =  (-1)^{|y|}  prod_{q in x ++ y} C†_{tau q} |0>,      tau = exchange of the alpha and the beta block,
   which is (-1)^{|y|} times Reorder.build with pi = tau.  Theorem: for all blocks x, y of one length n
     prod_{q in x ++ y} C†_{tau q} |0>  =  (-1)^{|x| |y|}  |y, x>,
   hence T |x, y> = (-1)^{|y| (|x| + 1)} |y, x> - the phase TimeReversalOp.contract applies (and the phase of
   Model.m_trev, the oracle of the correspondence check), for every orbital count and every pair of strings. *)
From Coq Require Import NArith List Bool Arith Lia.
From FQE Require Import Car Bits Reorder TableThm.
Import ListNotations.

Definition tau (n p : nat) : nat := if p <? n then p + n else p - n.

Lemma pb_repeat_false j l : parity_before j (repeat false j ++ l) = false.
Proof.
  replace j with (length (repeat false j) + 0) at 1 by (rewrite repeat_length; lia).
  rewrite pb_app_r. assert (C : cnt_true (repeat false j) = 0).
  { induction j as [|j IH]; [reflexivity|]. exact IH. }
  rewrite C. destruct l; reflexivity.
Qed.

Lemma repeat_false_snoc j (l : list bool) : repeat false (S j) ++ l = repeat false j ++ false :: l.
Proof. induction j as [|j IH]; [reflexivity|]. cbn [repeat app] in *. rewrite IH. reflexivity. Qed.

Lemma nth_repeat_false_app j l : nth j (repeat false j ++ false :: l) false = false.
Proof. rewrite app_nth2 by (rewrite repeat_length; lia). rewrite repeat_length, Nat.sub_diag. reflexivity. Qed.

Lemma set_repeat_false_app j l : set_nth j true (repeat false j ++ false :: l) = repeat false j ++ true :: l.
Proof.
  replace j with (length (repeat false j) + 0) at 1 by (rewrite repeat_length; lia).
  rewrite set_nth_app_r. reflexivity.
Qed.

(* the beta block (source positions n ..) is rebuilt in the first block of the target, with no sign *)
Lemma build_beta n : forall r j, j + length r = n ->
  build (n + n) (tau n) (n + j) r = Some (false, repeat false j ++ r ++ repeat false n).
Proof.
  induction r as [|b r IH]; intros j Hj; cbn [build length] in *.
  - rewrite Nat.add_0_r in Hj. subst j. cbn [app]. rewrite <- repeat_app. reflexivity.
  - replace (S (n + j)) with (n + S j) by lia. rewrite (IH (S j)) by lia.
    rewrite repeat_false_snoc. destruct b; [|reflexivity].
    assert (T : tau n (n + j) = j) by (unfold tau; destruct (Nat.ltb_spec (n + j) n); lia).
    rewrite T. cbn [sbind]. rewrite cre_spec.
    + rewrite pb_repeat_false, set_repeat_false_app. reflexivity.
    + rewrite app_length, repeat_length. cbn [length]. lia.
    + apply nth_repeat_false_app.
Qed.

(* the alpha block then lands behind it; every alpha creator passes all |y| beta electrons *)
Lemma build_alpha n y : length y = n -> forall r j, j + length r = n ->
  build (n + n) (tau n) j (r ++ y) = Some (Nat.odd (cnt_true r * cnt_true y), y ++ repeat false j ++ r).
Proof.
  intros Hy. induction r as [|b r IH]; intros j Hj; cbn [length app] in *.
  - assert (E : j = n) by lia. rewrite E.
    pose proof (build_beta n y 0 ltac:(lia)) as B. rewrite Nat.add_0_r in B. rewrite B.
    cbn [repeat app]. rewrite app_nil_r. reflexivity.
  - cbn [build]. rewrite (IH (S j)) by lia. rewrite repeat_false_snoc.
    destruct b.
    + assert (T : tau n j = length y + j) by (unfold tau; destruct (Nat.ltb_spec j n); lia).
      rewrite T. cbn [sbind]. rewrite cre_spec.
      * rewrite pb_app_r, pb_repeat_false, (set_nth_app_r true y j), set_repeat_false_app.
        f_equal. f_equal.
        change (cnt_true (true :: r)) with (S (cnt_true r)).
        rewrite xorb_false_r. cbn [Nat.mul]. rewrite Nat.odd_add. apply xorb_comm.
      * rewrite !app_length, repeat_length. cbn [length]. lia.
      * rewrite app_nth2 by lia. replace (length y + j - length y) with j by lia. apply nth_repeat_false_app.
    + change (cnt_true (false :: r)) with (cnt_true r). reflexivity.
Qed.

Theorem build_block_swap n x y : length x = n -> length y = n ->
  build (n + n) (tau n) 0 (x ++ y) = Some (Nat.odd (cnt_true x * cnt_true y), y ++ x).
Proof. intros Hx Hy. rewrite (build_alpha n y Hy x 0) by lia. reflexivity. Qed.

(* T on a determinant of 2 n positions: (-1)^{number of beta electrons} times the rebuilt product *)
Definition trev_det (n : nat) (d : det) : sdet :=
  let s := build (n + n) (tau n) 0 d in
  if Nat.odd (cnt_true (skipn n d)) then sneg s else s.

Theorem trev_det_phase n x y : length x = n -> length y = n ->
  trev_det n (x ++ y) = Some (Nat.odd (cnt_true y * (cnt_true x + 1)), y ++ x).
Proof.
  intros Hx Hy. unfold trev_det. rewrite (build_block_swap n x y Hx Hy).
  rewrite skipn_app, <- Hx, skipn_all, Nat.sub_diag. cbn [skipn app].
  replace (cnt_true y * (cnt_true x + 1)) with (cnt_true x * cnt_true y + cnt_true y) by lia.
  rewrite Nat.odd_add. destruct (Nat.odd (cnt_true y)); cbn [sneg]; [|rewrite xorb_false_r; reflexivity].
  rewrite xorb_true_r. reflexivity.
Qed.

(* ... in the model's determinant layout and with the model's phase formula *)
Theorem trev_det_of norb (a b : N) : (a < 2 ^ N.of_nat norb)%N -> (b < 2 ^ N.of_nat norb)%N ->
  trev_det norb (rev (bits norb a) ++ rev (bits norb b))
  = Some (Nat.odd (popcount b * (popcount a + 1)), rev (bits norb b) ++ rev (bits norb a)).
Proof.
  intros Ha Hb. rewrite (trev_det_phase norb) by (rewrite rev_length; apply bits_length).
  rewrite !cnt_true_rev_bits, <- !popcount_spec by assumption. reflexivity.
Qed.

(* T^2 = (-1)^N on determinants *)
Theorem trev_det_twice n x y : length x = n -> length y = n ->
  sbind (trev_det n) (trev_det n (x ++ y)) = Some (Nat.odd (cnt_true x + cnt_true y), x ++ y).
Proof.
  intros Hx Hy. rewrite (trev_det_phase n x y Hx Hy). cbn [sbind]. rewrite (trev_det_phase n y x Hy Hx).
  f_equal. f_equal. rewrite <- !Nat.negb_even, !Nat.even_mul, !Nat.even_add, !Nat.even_1 by idtac.
  destruct (Nat.even (cnt_true x)), (Nat.even (cnt_true y)); reflexivity.
Qed.
