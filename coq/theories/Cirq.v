(* Cirq.v — qubit export/import of wavefunctions (C07): Jordan-Wigner (or linear
   binary code) index of a determinant and the fermionic reordering sign between
   FQE's determinant convention and the qubit (ascending mode) convention, derived
   from the ladder operators of Car.v. *)
From Coq Require Import NArith ZArith List Bool Arith Lia.
From FQE Require Import Car Fock GaussZ Bits Addr Reorder.
Import ListNotations.

(* OpenFermion mode of a spin orbital: 2 i + sigma *)
Definition mode_of (beta : bool) (i : nat) : nat := 2 * i + (if beta then 1 else 0).

(* creation order of |A,B> in the fixed convention, as modes: alpha descending, then beta descending *)
Definition conv_modes (norb : nat) (a b : N) : list nat :=
  map (mode_of false) (rev (occ norb a)) ++ map (mode_of true) (rev (occ norb b)).

(* build the determinant in MODE ORDER (position q = mode q) by applying the
   creators of the fixed convention to the vacuum: gives the reordering sign *)
Definition jw_build (nq : nat) (modes : list nat) : sdet :=
  string_fn (map (fun q => mkop q true) modes) (repeat false nq).

(* qubit state of an occupation vector under a linear binary code: row k lists the
   modes whose parity gives qubit k (Jordan-Wigner: row k = [k]) *)
Definition code := list (list nat).
Definition jw_code (nq : nat) : code := map (fun k => [k]) (seq 0 nq).
Definition parity_in (d : det) (row : list nat) : bool :=
  fold_left xorb (map (fun q => nth q d false) row) false.
Definition encode (c : code) (d : det) : det := map (parity_in d) c.

(* big-endian index: qubit 0 is the most significant bit *)
Definition be_index (q : det) : N := of_bits (rev q).

(* position (FQE convention: alpha block then beta block, highest orbital first) -> mode 2i+sigma *)
Definition pi_conv (norb p : nat) : nat :=
  if p <? norb then 2 * (norb - 1 - p) else 2 * (2 * norb - 1 - p) + 1.
Definition det_conv (norb : nat) (a b : N) : det := rev (bits norb a) ++ rev (bits norb b).

(* the export of one determinant: rebuilt in mode order by Reorder.build (whose
   intertwining with the ladder operators is proved), then encoded *)
Definition export_det (norb : nat) (c : code) (a b : N) : option (bool * N) :=
  match build (2 * norb) (pi_conv norb) 0 (det_conv norb a b) with
  | Some (s, d) => Some (s, be_index (encode c d))
  | None => None
  end.

Definition gsg (s : bool) (x : gz) : gz := if s then gzopp x else x.

Definition export (norb : nat) (c : code) (v : list (N * N * gz)) : list (N * gz) :=
  flat_map (fun x => match x with (a, b, z) =>
     match export_det norb c a b with
     | Some (s, ix) => [(ix, gsg s z)]
     | None => [] end end) v.

(* import: amplitude of every determinant of every (na, nb), sectors kept when some
   amplitude has 4|z|^2 >= thr2x^2  (thr2x = 2 * threshold) *)
Fixpoint lookupN (ix : N) (st : list (N * gz)) : gz :=
  match st with
  | [] => gz0
  | (k, z) :: r => if N.eqb k ix then z else lookupN ix r
  end.

Definition sector_amps (norb : nat) (c : code) (st : list (N * gz)) (na nb : nat) : list (N * N * gz) :=
  flat_map (fun a => map (fun b =>
      match export_det norb c a b with
      | Some (s, ix) => (a, b, gsg s (lookupN ix st))
      | None => (a, b, gz0) end) (strings norb nb)) (strings norb na).

Definition import (norb : nat) (c : code) (thr2x : Z) (st : list (N * gz))
  : list (nat * nat * list (N * N * gz)) :=
  flat_map (fun na => flat_map (fun nb =>
     let amps := sector_amps norb c st na nb in
     if existsb (fun x => Z.leb (thr2x * thr2x) (4 * gznorm2 (snd x))) amps
     then [(na, nb, amps)] else []) (seq 0 (S norb))) (seq 0 (S norb)).
