(* Model.v — the executable interface (instantiated at Gaussian integers) that is
   extracted to OCaml and run against the implementation. Definitions only. *)
From Coq Require Import NArith ZArith List Bool Arith Lia.
From FQE Require Import Car Fock GaussZ Bits Addr Maps Denote.
Import ListNotations.

(* (alpha string, beta string) <-> determinant in operator-position order.
   Fixed convention: |A,B> = prod_{i in A, descending} a†_{i,alpha}
                             prod_{j in B, descending} a†_{j,beta} |0>,
   i.e. position 0 = alpha orbital norb-1, ..., position norb-1 = alpha orbital 0,
   position norb = beta orbital norb-1, ..., position 2norb-1 = beta orbital 0. *)
Definition det_of (norb : nat) (a b : N) : det := rev (bits norb a) ++ rev (bits norb b).
Definition strs_of (norb : nat) (d : det) : N * N :=
  (of_bits (rev (firstn norb d)), of_bits (rev (skipn norb d))).
Definition pos_of (norb : nat) (beta : bool) (i : nat) : nat :=
  (if beta then norb else 0) + (norb - 1 - i).

Definition lop_of (norb : nat) (o : hop) : lop :=
  match o with (beta, i, dg) => mkop (pos_of norb beta i) dg end.

Definition gvec := vec gz.
Definition gcoeff := coeff gz gz0 gzadd.
Definition gsgn := sgn gz gzopp.

(* pull form of the action: coefficient of d in (sum_t c_t string_t) v *)
Definition coeff_pull (p : poly gz) (v : gvec) (d : det) : gz :=
  fold_right (fun t acc =>
     gzadd (gzmul (fst t)
              (match string_fn (string_adj (snd t)) d with
               | Some (s, e) => gsgn s (gcoeff v e)
               | None => gz0 end)) acc) gz0 p.

Definition poly_of (norb : nat) (ts : list hterm) : poly gz :=
  map (fun t => (fst t, map (lop_of norb) (snd t))) ts.
Definition vec_of (norb : nat) (v : list (N * N * gz)) : gvec :=
  map (fun x => match x with (a, b, c) => (det_of norb a b, c) end) v.

Definition m_apply (norb : nat) (ts : list hterm) (v : list (N * N * gz)) (basis : list (N * N)) : list gz :=
  let p := poly_of norb ts in
  let w := vec_of norb v in
  map (fun ab => coeff_pull p w (det_of norb (fst ab) (snd ab))) basis.

Definition m_inner (norb : nat) (x y : list (N * N * gz)) : gz :=
  inner gz gz0 gzadd gzmul gzconj (vec_of norb x) (vec_of norb y).

(* <x| P |y> *)
Definition m_matel (norb : nat) (ts : list hterm) (x y : list (N * N * gz)) : gz :=
  let p := poly_of norb ts in
  let wy := vec_of norb y in
  fold_right (fun xe acc => match xe with (a, b, c) =>
     gzadd (gzmul (gzconj c) (coeff_pull p wy (det_of norb a b))) acc end) gz0 x.

Definition m_strings := strings.
Definition m_zmat := zmat.
Definition m_addr := addr.
Definition m_exc_map := exc_map.
Definition m_dexc := dexc_rows.
Definition m_opstring := opstring_map.
Definition m_binom := binom.
Definition m_cnt_between := cnt_between.
Definition m_cnt_above64 := cnt_above64.
Definition m_cnt_below := cnt_below.
Definition m_popcount := popcount.
Definition m_occ := occ.
Definition m_annih := annih_map.

(* Hamiltonian data -> polynomial -> action *)
Definition m_apply_h (norb : nat) (es : list hentry) (v : list (N * N * gz)) (basis : list (N * N)) : list gz :=
  m_apply norb (denote_all norb es) v basis.
Definition m_matel_h (norb : nat) (es : list hentry) (x y : list (N * N * gz)) : gz :=
  m_matel norb (denote_all norb es) x y.

(* C08: arithmetic histories over a pool of wavefunctions *)
From FQE Require Import Arith.
Inductive hop8 :=
| HAdd (i j k : nat) | HSub (i j k : nat) | HAxpy (i : nat) (a : gz) (j : nat)
| HScale (i : nat) (a : gz) | HSet (i : nat) (a b : N) (c : gz)
| HCopy (i k : nat) | HEmpty (i k : nat)
| HDot (i j : nat) | HVdot (i j : nat) | HNorm2 (i : nat) | HGet (i : nat) (a b : N)
| HMax (i : nat) (basis : list (N * N)).
Definition aop_of (norb : nat) (h : hop8) : aop :=
  match h with
  | HAdd i j k => OAdd i j k | HSub i j k => OSub i j k | HAxpy i a j => OAxpy i a j
  | HScale i a => OScale i a | HSet i a b c => OSet i (det_of norb a b) c
  | HCopy i k => OCopy i k | HEmpty i k => OEmpty i k
  | HDot i j => ODot i j | HVdot i j => OVdot i j | HNorm2 i => ONorm2 i
  | HGet i a b => OGet i (det_of norb a b)
  | HMax i basis => OMax i (map (fun ab => det_of norb (fst ab) (snd ab)) basis)
  end.
(* returns the observations and, for each pool slot, its coefficients on `basis` *)
Definition m_hist (norb : nat) (p : list (list (N * N * gz))) (ops : list hop8) (basis : list (N * N))
  : list (option gz) * list (list gz) :=
  let '(p', obs) := run (map (vec_of norb) p) (map (aop_of norb) ops) in
  (obs, map (fun v => map (fun ab => gco v (det_of norb (fst ab) (snd ab))) basis) p').

(* C09 *)
From FQE Require Import Ctor.
Definition m_ctor (kind : nat) (a b c : Z) : option (list (Z * Z * Z * Z)) :=
  match kind with
  | O => ctor_get a b c
  | S O => ctor_nc a c
  | S (S O) => ctor_sc a c
  | S (S (S O)) => ctor_nc_coded a c
  | _ => ctor_sc_coded a c
  end.
(* time reversal: T (c |A,B>) = conj(c) (-1)^(nb (na+1)) |B,A> *)
Definition m_trev (v : list (N * N * gz)) : list (N * N * gz) :=
  map (fun x => match x with (a, b, c) =>
         (b, a, gsgn (Nat.odd (popcount b * (popcount a + 1))) (gzconj c)) end) v.

(* C07 *)
From FQE Require Import Cirq.
Definition m_export := export.
Definition m_import := import.
Definition m_jw_code := jw_code.

(* C15: executable instance of the persistence machine: objects are version ids,
   a file holds (id, None) or (id, Some k) when cut at byte k *)
From FQE Require Import Persist.
Definition pbytes := (nat * option nat)%type.
Definition p_pickle (x : nat) : pbytes := (x, None).
Definition p_unpickle (b : pbytes) : option nat := match snd b with None => Some (fst b) | Some _ => None end.
Definition p_trunc (k : nat) (b : pbytes) : pbytes := (fst b, Some k).
Definition pop := op nat.
Definition m_persist (frozen : bool) (ndir nfile npool cwd0 imp0 : nat) (ops : list pop)
  : list bool * list nat * list (nat * nat * option pbytes) :=
  let s0 := mkst nat pbytes (fun _ _ => None) cwd0 imp0 (fun i => i) in
  let fix go (s : st nat pbytes) (l : list pop) (acc : list bool) :=
      match l with
      | [] => (s, rev acc)
      | o :: r => let '(s', ok) := step nat pbytes p_pickle p_unpickle p_trunc frozen s o in go s' r (ok :: acc)
      end in
  let '(sf, res) := go s0 ops [] in
  (res, map (recv nat pbytes sf) (seq 0 npool),
   flat_map (fun d => map (fun f => (d, f, fs nat pbytes sf d f)) (seq 0 nfile)) (seq 0 ndir)).

(* C14 *)
From FQE Require Import Guards.
Definition m_apply_verdict := apply_verdict.
Definition m_evolve_inplace_verdict := evolve_inplace_verdict.
Definition m_genu_verdict := genu_verdict.
Definition m_rdm_tensor_verdict := rdm_tensor_verdict.
Definition m_setdata_spec := setdata_spec.

(* C12 *)
From FQE Require Import Ext.
Definition m_ext_blocks := ext_blocks.
Definition m_ext_full := ext_full.

(* C18 *)
From FQE Require Import Cert.
Definition m_check_cert := check_cert.

(* C06: gather_nbody_spin_sectors as coded (Sort.v) *)
From FQE Require Import Sort.
Definition m_gather (ops : list (nat * bool)) : bool * list (nat * bool) * list (nat * bool) :=
  match gather (map (fun x => mkop (fst x) (snd x)) ops) with
  | (sg, ab, bb) => (sg, map (fun o => (opos o, odag o)) ab, map (fun o => (opos o, odag o)) bb)
  end.
