(* P_C14.v — C14: each decision function accepts exactly the valid requests. *)
From Coq Require Import ZArith List Bool Arith Lia.
From FQE Require Import Guards Ctor.
Import ListNotations.

Theorem C14_apply_verdict_iff : forall r, apply_verdict r = true <-> apply_valid r.
Proof. exact apply_verdict_iff. Qed.
Print Assumptions C14_apply_verdict_iff.

Theorem C14_evolve_inplace_iff : forall r, evolve_inplace_verdict r = true <-> evolve_inplace_valid r.
Proof. exact evolve_inplace_iff. Qed.
Print Assumptions C14_evolve_inplace_iff.

Theorem C14_genu_iff : forall r, genu_verdict r = true <-> genu_valid r.
Proof. exact genu_iff. Qed.
Print Assumptions C14_genu_iff.

Theorem C14_rdm_tensor_iff : forall spinfree l, rdm_tensor_verdict spinfree l = true <-> rdm_tensor_valid spinfree l.
Proof. exact rdm_tensor_iff. Qed.
Print Assumptions C14_rdm_tensor_iff.

Theorem C14_sector_request_iff : forall nele ms norb,
  (exists l, ctor_get nele ms norb = Some l) <->
  exists na nb, (0 <= na <= norb /\ 0 <= nb <= norb /\ na + nb = nele /\ na - nb = ms)%Z.
Proof. exact ctor_get_accepts_iff. Qed.
Print Assumptions C14_sector_request_iff.

Theorem C14_setdata_reject_is_pure : forall secs data,
  fst (setdata_spec secs data) = false -> snd (setdata_spec secs data) = [].
Proof. exact setdata_reject_is_pure. Qed.
Print Assumptions C14_setdata_reject_is_pure.

Theorem C14_setdata_accept_agree : forall secs data,
  fst (setdata_spec secs data) = true -> setdata_coded secs data = setdata_spec secs data.
Proof. exact setdata_accept_agree. Qed.
Print Assumptions C14_setdata_accept_agree.

Theorem C14_setdata_partial_update_refuted :
  exists secs data, fst (setdata_coded secs data) = false /\ snd (setdata_coded secs data) <> [].
Proof. exact setdata_coded_partial_update_refuted. Qed.
Print Assumptions C14_setdata_partial_update_refuted.
