(* Poly.v — C16: the control flow of the polynomial propagators.  The loop is
   abstracted to the sequence of "term sizes" it tests (size k = ||term_k|| * |c_k|, a
   rational here) and the partial sums it accumulates; converge-or-raise is a property
   of this control flow, proved for every sequence, accuracy and expansion limit. *)
From Coq Require Import QArith List Bool Arith Lia.
Import ListNotations.
Local Close Scope Q_scope.
Local Open Scope nat_scope.

Inductive outcome (A : Type) := Ok (order : nat) (value : A) | LimitReached.
Arguments Ok {A}. Arguments LimitReached {A}.

Section Loop.
Variable A : Type.
Variable size : nat -> Q.         (* tested quantity at each order *)
Variable add : A -> nat -> A.     (* accumulate the term of that order *)
Variable acc : Q.

Definition small (k : nat) : bool := Qle_bool (size k) acc && negb (Qeq_bool (size k) acc).   (* size k < acc *)

(* Taylor: for order in range(1, limit): add term; if small: break  else: raise *)
Fixpoint taylor_from (fuel k : nat) (s : A) : outcome A :=
  match fuel with
  | O => LimitReached
  | S f => let s' := add s k in if small k then Ok k s' else taylor_from f (S k) s'
  end.
Definition taylor (limit : nat) (s0 : A) : outcome A := taylor_from (limit - 1) 1 s0.

Fixpoint partial (k0 n : nat) (s : A) : A :=     (* add terms k0 .. k0+n-1 *)
  match n with O => s | S m => partial (S k0) m (add s k0) end.

Lemma taylor_from_ok fuel : forall k s K v, taylor_from fuel k s = Ok K v ->
  k <= K < k + fuel /\ small K = true /\ (forall j, k <= j < K -> small j = false) /\ v = partial k (S (K - k)) s.
Proof.
  induction fuel as [|f IH]; intros k s K v H; simpl in H; [discriminate|].
  destruct (small k) eqn:E.
  - inversion H; subst. split; [lia|split; [assumption|split]].
    + intros j Hj. lia.
    + replace (K - K) with 0 by lia. reflexivity.
  - apply IH in H. destruct H as [H1 [H2 [H3 H4]]]. split; [lia|split; [assumption|split]].
    + intros j Hj. destruct (Nat.eq_dec j k) as [->|Hne]; [exact E|apply H3; lia].
    + rewrite H4. replace (S (K - k)) with (S (S (K - S k))) by lia. reflexivity.
Qed.

Lemma taylor_from_limit fuel : forall k s, taylor_from fuel k s = LimitReached ->
  forall j, k <= j < k + fuel -> small j = false.
Proof.
  induction fuel as [|f IH]; intros k s H j Hj; simpl in H; [lia|].
  destruct (small k) eqn:E; [discriminate|].
  destruct (Nat.eq_dec j k) as [->|Hne]; [exact E|]. apply (IH (S k) (add s k) H). lia.
Qed.

(* CONVERGE OR RAISE (Taylor): a value is returned only together with the first order whose
   term is below the accuracy, and it is exactly the partial sum up to that order;
   if no order below the limit qualifies, nothing is returned *)
Theorem taylor_converge_or_raise limit s0 :
  match taylor limit s0 with
  | Ok K v => 1 <= K < limit /\ small K = true /\ (forall j, 1 <= j < K -> small j = false) /\ v = partial 1 K s0
  | LimitReached => forall j, 1 <= j < limit -> small j = false
  end.
Proof.
  unfold taylor. destruct (taylor_from (limit - 1) 1 s0) as [K v|] eqn:E.
  - apply taylor_from_ok in E. destruct E as [H1 [H2 [H3 H4]]]. split; [lia|split; [assumption|split; [assumption|]]].
    rewrite H4. replace (S (K - 1)) with K by lia. reflexivity.
  - intros j Hj. apply (taylor_from_limit _ _ _ E). lia.
Qed.

(* Chebyshev (after the repair): stop only when two consecutive orders are small *)
Fixpoint cheb_from (fuel k : nat) (prev : bool) (s : A) : outcome A :=
  match fuel with
  | O => LimitReached
  | S f => let s' := add s k in
           if small k && prev then Ok k s' else cheb_from f (S k) (small k) s'
  end.
Definition cheb (limit : nat) (s0 : A) : outcome A := cheb_from (limit - 2) 2 false s0.

Lemma cheb_from_ok fuel : forall k prev s K v, cheb_from fuel k prev s = Ok K v ->
  k <= K < k + fuel /\ small K = true /\ (K = k /\ prev = true \/ k < K /\ small (K - 1) = true) /\
  v = partial k (S (K - k)) s.
Proof.
  induction fuel as [|f IH]; intros k prev s K v H; simpl in H; [discriminate|].
  destruct (small k && prev) eqn:E.
  - inversion H; subst. apply andb_true_iff in E. destruct E as [E1 E2]. split; [lia|split; [assumption|split]].
    + left. split; [reflexivity|exact E2].
    + replace (K - K) with 0 by lia. reflexivity.
  - apply IH in H. destruct H as [H1 [H2 [H3 H4]]]. split; [lia|split; [assumption|split]].
    + right. split; [lia|]. destruct H3 as [[-> Hp]|[Hlt Hs]].
      * replace (S k - 1) with k by lia. exact Hp.
      * exact Hs.
    + rewrite H4. replace (S (K - k)) with (S (S (K - S k))) by lia. reflexivity.
Qed.

Theorem cheb_two_consecutive limit s0 K v : cheb limit s0 = Ok K v ->
  3 <= K < limit /\ small K = true /\ small (K - 1) = true /\ v = partial 2 (K - 1) s0.
Proof.
  unfold cheb. intros H. apply cheb_from_ok in H. destruct H as [H1 [H2 [H3 H4]]].
  destruct H3 as [[_ Hp]|[Hlt Hs]]; [discriminate|].
  split; [lia|split; [assumption|split; [assumption|]]]. rewrite H4. f_equal. lia.
Qed.

End Loop.

(* the ORIGINAL Chebyshev rule (stop at the first small term) returns before
   convergence on a sequence whose odd orders vanish: refutation witness *)
Definition cheb_orig_from (size : nat -> Q) (acc : Q) :=
  fix go (fuel k : nat) : option nat :=
    match fuel with
    | O => None
    | S f => if Qle_bool (size k) acc && negb (Qeq_bool (size k) acc) then Some k else go f (S k)
    end.
Theorem cheb_first_small_refuted :
  exists (size : nat -> Q), cheb_orig_from size (1 # 1000)%Q 10 2 = Some 3 /\ ~ Qlt (size 4) (1 # 1000)%Q.
Proof.
  exists (fun k => if Nat.odd k then 0%Q else 1%Q). split; [vm_compute; reflexivity|].
  intros H. vm_compute in H. discriminate.
Qed.
