(* ExtThm.v — C12/C17: general-size facts about the Laplace determinant and the minors
   that define the many-body action of an orbital matrix:
   a zero row kills the determinant; for a DIAGONAL orbital matrix the exterior power is
   diagonal, each determinant being multiplied by the product of the diagonal entries of
   its occupied orbitals (what the quadratic evolution route relies on after rotating to
   the eigenbasis). All sizes, all index lists. *)
From Coq Require Import NArith ZArith List Bool Arith Lia Ring.
From FQE Require Import GaussZ Bits Addr Ext.
Import ListNotations.

Add Ring gzring_extthm : gz_ring.

Definition lap_step (row : list gz) (sub : nat -> gz) (acc : gz) (j : nat) : gz :=
  let term := gzmul (nth j row gz0) (sub j) in
  if Nat.even j then gzadd acc term else gzsub acc term.

Lemma det_S f row rest :
  det (S f) (row :: rest) =
  fold_left (lap_step row (fun j => det f (map (drop_nth j) rest))) (seq 0 (length row)) gz0.
Proof. reflexivity. Qed.

Lemma fold_lap_zero row sub : forall l acc,
  (forall j, In j l -> gzmul (nth j row gz0) (sub j) = gz0) ->
  fold_left (lap_step row sub) l acc = acc.
Proof.
  induction l as [|j l IH]; intros acc H; [reflexivity|].
  cbn [fold_left]. rewrite IH by (intros k Hk; apply H; right; exact Hk).
  unfold lap_step. rewrite (H j (or_introl eq_refl)). destruct (Nat.even j); ring.
Qed.

Definition zero_row (r : list gz) : Prop := forall k, nth k r gz0 = gz0.

Lemma nth_drop_nth {A} (d : A) j : forall (l : list A) k,
  nth k (drop_nth j l) d = if Nat.ltb k j then nth k l d else nth (S k) l d.
Proof.
  induction j as [|j IH]; intros l k.
  - destruct l as [|x l]; cbn [drop_nth]; [destruct k; reflexivity|reflexivity].
  - destruct l as [|x l]; cbn [drop_nth].
    + destruct (k <? S j); destruct k; reflexivity.
    + destruct k as [|k]; [reflexivity|]. cbn [nth]. rewrite IH.
      change (S k <? S j) with (k <? j). reflexivity.
Qed.

Lemma zero_row_drop j r : zero_row r -> zero_row (drop_nth j r).
Proof. intros H k. rewrite nth_drop_nth. destruct (k <? j); apply H. Qed.

Theorem det_zero_row : forall f (M : mat) i, length M = f -> i < f -> zero_row (nth i M []) -> det f M = gz0.
Proof.
  induction f as [|f IH]; intros M i HL Hi Hz; [lia|].
  destruct M as [|row rest]; [discriminate|]. rewrite det_S.
  apply fold_lap_zero. intros j _.
  destruct i as [|i].
  - cbn [nth] in Hz. rewrite (Hz j). ring.
  - cbn [nth] in Hz. rewrite (IH (map (drop_nth j) rest) i).
    + ring.
    + rewrite map_length. simpl in HL. lia.
    + lia.
    + assert (Hi' : i < length rest) by (simpl in HL; lia).
      rewrite (nth_indep _ [] (drop_nth j [])) by (rewrite map_length; exact Hi').
      rewrite map_nth. apply zero_row_drop. exact Hz.
Qed.

(* determinant of a matrix whose first row is (z, 0, ..., 0) *)
Lemma det_first_row_single f z zs rest : zero_row zs ->
  det (S f) ((z :: zs) :: rest) = gzmul z (det f (map (drop_nth 0) rest)).
Proof.
  intros Hz. rewrite det_S. cbn [length seq fold_left].
  rewrite fold_lap_zero.
  - unfold lap_step. cbn [nth Nat.even]. ring.
  - intros j Hj. apply in_seq in Hj. destruct j as [|j]; [lia|]. cbn [nth]. rewrite (Hz j). ring.
Qed.

Section Diagonal.
Variable M : mat.
Hypothesis Hdiag : forall i j, i <> j -> mget M i j = gz0.

Fixpoint gzprod (l : list gz) : gz := match l with [] => gz1 | x :: r => gzmul x (gzprod r) end.

Lemma submat_cons i I j J :
  submat M (i :: I) (j :: J) = (mget M i j :: map (mget M i) J) :: map (fun i' => mget M i' j :: map (mget M i') J) I.
Proof. reflexivity. Qed.

(* same index list: product of the diagonal entries *)
Theorem minor_diag_same : forall I, NoDup I -> minor M I I = gzprod (map (fun i => mget M i i) I).
Proof.
  unfold minor. induction I as [|i I IH]; intros Hnd; [reflexivity|].
  inversion Hnd as [|x l Hni Hnd']; subst.
  rewrite submat_cons. cbn [length].
  rewrite det_first_row_single.
  - cbn [map gzprod]. f_equal. rewrite map_map. cbn [drop_nth].
    rewrite <- (IH Hnd'). reflexivity.
  - intros k. destruct (Nat.lt_ge_cases k (length I)) as [Hk|Hk].
    + rewrite (nth_indep _ gz0 (mget M i 0)) by (rewrite map_length; exact Hk).
      rewrite map_nth. apply Hdiag. intros E. apply Hni. rewrite E. apply nth_In. exact Hk.
    + apply nth_overflow. rewrite map_length. exact Hk.
Qed.

(* different occupied sets: the minor vanishes (no transition between determinants) *)
Theorem minor_diag_diff : forall I J a, length I = length J -> In a I -> ~ In a J -> minor M I J = gz0.
Proof.
  intros I J a HL Ha Hn. unfold minor.
  destruct (In_nth I a 0 Ha) as [k [Hk Ek]].
  apply (det_zero_row (length I) (submat M I J) k).
  - unfold submat. rewrite map_length. reflexivity.
  - exact Hk.
  - unfold submat. rewrite (nth_indep _ [] (map (fun j => mget M 0 j) J)) by (rewrite map_length; exact Hk).
    rewrite (map_nth (fun i => map (fun j => mget M i j) J) I 0 k). rewrite Ek.
    intros c. destruct (Nat.lt_ge_cases c (length J)) as [Hc|Hc].
    + rewrite (nth_indep _ gz0 (mget M a 0)) by (rewrite map_length; exact Hc).
      rewrite (map_nth (fun j => mget M a j) J 0 c). apply Hdiag. intros E. apply Hn. rewrite E. apply nth_In. exact Hc.
    + apply nth_overflow. rewrite map_length. exact Hc.
Qed.
End Diagonal.

(* identity orbital matrix: the many-body action is the identity *)
Corollary minor_identity_same M I : (forall i j, i <> j -> mget M i j = gz0) -> (forall i, In i I -> mget M i i = gz1) ->
  NoDup I -> minor M I I = gz1.
Proof.
  intros Hd H1 Hn. rewrite (minor_diag_same M Hd I Hn).
  induction I as [|i I IH]; [reflexivity|]. cbn [map gzprod]. rewrite (H1 i (or_introl eq_refl)).
  inversion Hn; subst. rewrite IH; [ring| |assumption]. intros k Hk. apply H1. right. exact Hk.
Qed.
