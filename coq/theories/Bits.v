(* Bits.v — occupation strings as binary naturals; arithmetic definitions of the
   bit helpers (the Spec side of C05's helper clause). *)
From Coq Require Import NArith ZArith List Bool Arith Lia.
Import ListNotations.

Definition tb (s : N) (i : nat) : bool := N.testbit s (N.of_nat i).

(* occupied orbitals below n, ascending *)
Definition occ (n : nat) (s : N) : list nat := filter (tb s) (seq 0 n).
(* occupation list, orbital 0 first *)
Definition bits (n : nat) (s : N) : list bool := map (tb s) (seq 0 n).

Fixpoint of_bits (l : list bool) : N :=
  match l with
  | [] => 0
  | b :: r => (if b then 1 else 0) + 2 * of_bits r
  end%N.

Fixpoint of_occ (l : list nat) : N :=
  match l with
  | [] => 0%N
  | i :: r => N.lor (N.shiftl 1 (N.of_nat i)) (of_occ r)
  end.

Fixpoint pos_popcount (p : positive) : nat :=
  match p with
  | xH => 1
  | xO q => pos_popcount q
  | xI q => S (pos_popcount q)
  end.
Definition popcount (s : N) : nat := match s with N0 => 0 | Npos p => pos_popcount p end.

(* arithmetic definitions: number of occupied orbitals in an index range *)
Definition cnt_range (s : N) (lo hi : nat) : nat :=   (* lo <= k < hi *)
  length (filter (tb s) (seq lo (hi - lo))).
Definition cnt_below (s : N) (i : nat) : nat := cnt_range s 0 i.
Definition cnt_above64 (s : N) (i : nat) : nat := cnt_range s (S i) 64.
Definition cnt_between (s : N) (i j : nat) : nat := cnt_range s (S (Nat.min i j)) (Nat.max i j).

Definition setbit (s : N) (i : nat) : N := N.setbit s (N.of_nat i).
Definition clrbit (s : N) (i : nat) : N := N.clearbit s (N.of_nat i).

(* masks *)
Definition range_mask (lo hi : nat) : N :=  (* bits lo <= k < hi *)
  N.shiftl (N.ones (N.of_nat (hi - lo))) (N.of_nat lo).

Lemma range_mask_tb lo hi k : tb (range_mask lo hi) k = andb (lo <=? k) (k <? hi).
Proof.
  unfold tb, range_mask.
  destruct (lo <=? k) eqn:E1; [apply Nat.leb_le in E1|apply Nat.leb_gt in E1].
  - rewrite N.shiftl_spec_high' by lia.
    destruct (k <? hi) eqn:E2; [apply Nat.ltb_lt in E2|apply Nat.ltb_ge in E2]; simpl.
    + apply N.ones_spec_low. lia.
    + apply N.ones_spec_high. lia.
  - simpl. apply N.shiftl_spec_low. lia.
Qed.

(* popcount = number of set bits below any bound that covers the number *)
Lemma popcount_double s : popcount (2 * s) = popcount s.
Proof. destruct s; reflexivity. Qed.
Lemma popcount_succ_double s : popcount (2 * s + 1) = S (popcount s).
Proof. destruct s; reflexivity. Qed.

Lemma tb_double_0 s : tb (2 * s) 0 = false.
Proof. unfold tb. simpl. apply N.testbit_even_0. Qed.
Lemma tb_double_S s i : tb (2 * s) (S i) = tb s i.
Proof. unfold tb. rewrite Nat2N.inj_succ. apply N.testbit_even_succ. lia. Qed.
Lemma tb_sdouble_0 s : tb (2 * s + 1) 0 = true.
Proof. unfold tb. simpl. apply N.testbit_odd_0. Qed.
Lemma tb_sdouble_S s i : tb (2 * s + 1) (S i) = tb s i.
Proof. unfold tb. rewrite Nat2N.inj_succ. apply N.testbit_odd_succ. lia. Qed.

Lemma filter_tb_shift f g lo n : (forall i, f (S i) = g i) ->
  length (filter f (seq (S lo) n)) = length (filter g (seq lo n)).
Proof.
  intros H. revert lo. induction n as [|n IH]; intros lo; simpl; [reflexivity|].
  rewrite H. destruct (g lo); simpl; rewrite IH; reflexivity.
Qed.

Lemma N_binary_cases (s : N) : exists h, (s = 2 * h \/ s = 2 * h + 1)%N.
Proof.
  exists (N.div2 s). destruct (N.odd s) eqn:E.
  - right. rewrite (N.div2_odd s) at 1. rewrite E. simpl. reflexivity.
  - left. rewrite (N.div2_odd s) at 1. rewrite E. simpl. lia.
Qed.

Lemma popcount_spec n : forall s, (s < 2 ^ N.of_nat n)%N -> popcount s = cnt_range s 0 n.
Proof.
  unfold cnt_range. induction n as [|n IH]; intros s Hs.
  - simpl in Hs. assert (s = 0%N) by lia. subst. reflexivity.
  - rewrite Nat.sub_0_r. rewrite Nat2N.inj_succ, N.pow_succ_r' in Hs.
    destruct (N_binary_cases s) as [h [Hh|Hh]]; subst s.
    + rewrite popcount_double. change (seq 0 (S n)) with (0 :: seq 1 n). cbn [filter]. rewrite tb_double_0.
      rewrite (filter_tb_shift _ (tb h)) by apply tb_double_S.
      rewrite IH by lia. rewrite Nat.sub_0_r. reflexivity.
    + rewrite popcount_succ_double. change (seq 0 (S n)) with (0 :: seq 1 n). cbn [filter]. rewrite tb_sdouble_0. cbn [length].
      rewrite (filter_tb_shift _ (tb h)) by apply tb_sdouble_S.
      rewrite IH by lia. rewrite Nat.sub_0_r. reflexivity.
Qed.

Lemma tb_land a b i : tb (N.land a b) i = andb (tb a i) (tb b i).
Proof. unfold tb. apply N.land_spec. Qed.

Lemma filter_length_ext {A} (f g : A -> bool) l : (forall x, In x l -> f x = g x) ->
  length (filter f l) = length (filter g l).
Proof.
  induction l as [|x l IH]; intros H; simpl; [reflexivity|].
  rewrite (H x) by (left; reflexivity). destruct (g x); simpl; rewrite IH; auto; intros y Hy; apply H; right; assumption.
Qed.

Lemma filter_false_length {A} (f : A -> bool) l : (forall x, In x l -> f x = false) -> length (filter f l) = 0.
Proof.
  induction l as [|x l IH]; intros H; simpl; [reflexivity|].
  rewrite (H x) by (left; reflexivity). apply IH. intros y Hy. apply H. right. assumption.
Qed.

(* counting through a range mask: the generic lemma behind every helper *)
Lemma popcount_land_range s lo hi n : hi <= n -> (s < 2 ^ N.of_nat n)%N ->
  popcount (N.land s (range_mask lo hi)) = cnt_range s lo hi.
Proof.
  intros Hn Hs.
  assert (Hb : (N.land s (range_mask lo hi) < 2 ^ N.of_nat n)%N).
  { destruct (N.eq_dec (N.land s (range_mask lo hi)) 0) as [E|E]; [rewrite E; apply N.neq_0_lt_0; apply N.pow_nonzero; lia|].
    apply N.log2_lt_pow2; [lia|].
    eapply N.le_lt_trans; [apply N.log2_land|].
    destruct (N.eq_dec s 0) as [E0|E0]; [subst; rewrite N.land_0_l in E; congruence|].
    eapply N.le_lt_trans; [apply N.le_min_l|]. apply N.log2_lt_pow2; lia. }
  rewrite (popcount_spec n) by assumption. unfold cnt_range. rewrite Nat.sub_0_r.
  destruct (le_lt_dec lo hi) as [Hle|Hgt].
  - replace n with (lo + ((hi - lo) + (n - hi))) at 1 by lia.
    rewrite !seq_app, !filter_app, !app_length.
    rewrite (filter_false_length _ (seq 0 lo)).
    2:{ intros x Hx. apply in_seq in Hx. rewrite tb_land, range_mask_tb.
        replace (lo <=? x) with false by (symmetry; apply Nat.leb_gt; lia). simpl. apply andb_false_r. }
    rewrite (filter_false_length _ (seq (0 + lo + (hi - lo)) _)).
    2:{ intros x Hx. apply in_seq in Hx. rewrite tb_land, range_mask_tb.
        replace (x <? hi) with false by (symmetry; apply Nat.ltb_ge; lia). rewrite andb_false_r. apply andb_false_r. }
    simpl. rewrite Nat.add_0_r. apply filter_length_ext.
    intros x Hx. apply in_seq in Hx. rewrite tb_land, range_mask_tb.
    replace (lo <=? x) with true by (symmetry; apply Nat.leb_le; lia).
    replace (x <? hi) with true by (symmetry; apply Nat.ltb_lt; lia). simpl. apply andb_true_r.
  - replace (hi - lo) with 0 by lia. simpl. apply filter_false_length.
    intros x Hx. rewrite tb_land, range_mask_tb.
    destruct (lo <=? x) eqn:E1; [apply Nat.leb_le in E1|simpl; apply andb_false_r].
    replace (x <? hi) with false by (symmetry; apply Nat.ltb_ge; lia). simpl. apply andb_false_r.
Qed.
