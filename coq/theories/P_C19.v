(* P_C19.v — C19 (first stage): the (anti)symmetries of the residual tensor follow from
   the CAR: exchanging the two creators (or the two annihilators) of g_pqrs flips the sign
   of the operator string, hence of every matrix element of g A and A g. *)
From Coq Require Import NArith ZArith List Bool Arith Lia.
From FQE Require Import Car Fock GaussZ.
Import ListNotations.

Lemma scomp_congr_mid (F G A B : det -> sdet) :
  (forall d, F d = sneg (G d)) -> forall d, scomp A (scomp F B) d = sneg (scomp A (scomp G B) d).
Proof.
  intros H d. unfold scomp.
  destruct (B d) as [[s1 d1]|]; [|reflexivity].
  specialize (H d1). destruct (F d1) as [[s2 d2]|]; destruct (G d1) as [[s3 d3]|];
    simpl in H; try discriminate; [|reflexivity].
  inversion H; subst. destruct (A d3) as [[s4 d4]|]; [|reflexivity]. simpl.
  destruct s1, s3, s4; reflexivity.
Qed.

(* inside ANY longer string (prefix a, suffix b): swapping the two creators p, q *)
Theorem C19_antisymmetric_in_creators : forall p q (a b : list lop), p <> q ->
  forall d, string_fn (a ++ [mkop p true; mkop q true] ++ b) d =
            sneg (string_fn (a ++ [mkop q true; mkop p true] ++ b) d).
Proof.
  intros p q a b Hpq d. rewrite !string_fn_app.
  assert (E : forall u v e, string_fn ([u; v] ++ b) e = scomp (scomp (op_fn u) (op_fn v)) (string_fn b) e).
  { intros u v e. simpl. rewrite <- scomp_assoc. reflexivity. }
  rewrite (scomp_ext _ _ _ _ (fun e => eq_refl) (E (mkop p true) (mkop q true))).
  rewrite (scomp_ext _ _ _ _ (fun e => eq_refl) (E (mkop q true) (mkop p true))).
  apply scomp_congr_mid. intros e. unfold op_fn; simpl. apply cre_cre. exact Hpq.
Qed.
Print Assumptions C19_antisymmetric_in_creators.

Theorem C19_antisymmetric_in_annihilators : forall r s (a b : list lop), r <> s ->
  forall d, string_fn (a ++ [mkop r false; mkop s false] ++ b) d =
            sneg (string_fn (a ++ [mkop s false; mkop r false] ++ b) d).
Proof.
  intros r s a b Hrs d. rewrite !string_fn_app.
  assert (E : forall u v e, string_fn ([u; v] ++ b) e = scomp (scomp (op_fn u) (op_fn v)) (string_fn b) e).
  { intros u v e. simpl. rewrite <- scomp_assoc. reflexivity. }
  rewrite (scomp_ext _ _ _ _ (fun e => eq_refl) (E (mkop r false) (mkop s false))).
  rewrite (scomp_ext _ _ _ _ (fun e => eq_refl) (E (mkop s false) (mkop r false))).
  apply scomp_congr_mid. intros e. unfold op_fn; simpl. apply ann_ann. exact Hrs.
Qed.
Print Assumptions C19_antisymmetric_in_annihilators.

(* a repeated creator (p = q) gives the zero operator: the diagonal of the tensor vanishes *)
Theorem C19_repeated_creator_vanishes : forall p (b : list lop) d,
  string_fn ([mkop p true; mkop p true] ++ b) d = None.
Proof.
  intros p b d. cbn [app string_fn]. unfold scomp.
  destruct (string_fn b d) as [[s e]|]; [|reflexivity].
  pose proof (cre_cre_same p e) as H. unfold op_fn; cbn [odag opos]. unfold scomp in H.
  destruct (cre p e) as [[s1 e1]|]; [|reflexivity]. destruct (cre p e1) as [[s2 e2]|]; [discriminate|reflexivity].
Qed.
Print Assumptions C19_repeated_creator_vanishes.

(* the identity behind the generalised doubles factorisations (FactorThm.v): the product of two one-body operators over n
   spin-orbital positions is the one-body operator of the matrix product minus the two-body operator of the outer product,
       (sum_ps y_ps a†_p a_s)(sum_qr z_qr a†_q a_r) = sum_pr (y z)_pr a†_p a_r - sum_pqsr y_ps z_qr a†_p a†_q a_s a_r,
   on every vector, every n, every pair of matrices over every commutative ring: a sum of such products reproduces a two-body
   generator exactly when the outer products sum to its tensor and the matrix products are reported as the one-body
   remainder (non-vacuity: FactorThm.one_body_product_example) *)
From Coq Require Import Ring.
From FQE Require Import FactorThm.
Theorem C19_product_of_one_body_operators :
  forall (R : Type) (rO rI : R) (radd rmul rsub : R -> R -> R) (ropp : R -> R),
  ring_theory rO rI radd rmul rsub ropp eq ->
  forall n (y z : nat -> nat -> R) (V : vec R) d, wide R n V ->
  coeff R rO radd (act_poly R rmul ropp (ob R n y) (act_poly R rmul ropp (ob R n z) V)) d
  = radd (coeff R rO radd (act_poly R rmul ropp (ob R n (matmul R rO radd rmul n y z)) V) d)
         (coeff R rO radd (act_poly R rmul ropp (tb R n (fun p q s r => ropp (rmul (y p s) (z q r)))) V) d).
Proof. exact one_body_product. Qed.
Print Assumptions C19_product_of_one_body_operators.
