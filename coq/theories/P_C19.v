(* P_C19.v — C19 (first stage): the (anti)symmetries of the residual tensor follow from
   the CAR: exchanging the two creators (or the two annihilators) of g_pqrs flips the sign
   of the operator string, hence of every matrix element of g A and A g. *)
From Coq Require Import NArith ZArith List Bool Arith Lia.
From FQE Require Import Car Fock GaussZ.
Import ListNotations.

Lemma scomp_congr_mid (F G A B : det -> sdet) :
  (forall d, F d = sneg (G d)) -> forall d, scomp A (scomp F B) d = sneg (scomp A (scomp G B) d).
Proof.
  intros H d. unfold scomp.
  destruct (B d) as [[s1 d1]|]; [|reflexivity].
  specialize (H d1). destruct (F d1) as [[s2 d2]|]; destruct (G d1) as [[s3 d3]|];
    simpl in H; try discriminate; [|reflexivity].
  inversion H; subst. destruct (A d3) as [[s4 d4]|]; [|reflexivity]. simpl.
  destruct s1, s3, s4; reflexivity.
Qed.

(* inside ANY longer string (prefix a, suffix b): swapping the two creators p, q *)
Theorem C19_antisymmetric_in_creators : forall p q (a b : list lop), p <> q ->
  forall d, string_fn (a ++ [mkop p true; mkop q true] ++ b) d =
            sneg (string_fn (a ++ [mkop q true; mkop p true] ++ b) d).
Proof.
  intros p q a b Hpq d. rewrite !string_fn_app.
  assert (E : forall u v e, string_fn ([u; v] ++ b) e = scomp (scomp (op_fn u) (op_fn v)) (string_fn b) e).
  { intros u v e. simpl. rewrite <- scomp_assoc. reflexivity. }
  rewrite (scomp_ext _ _ _ _ (fun e => eq_refl) (E (mkop p true) (mkop q true))).
  rewrite (scomp_ext _ _ _ _ (fun e => eq_refl) (E (mkop q true) (mkop p true))).
  apply scomp_congr_mid. intros e. unfold op_fn; simpl. apply cre_cre. exact Hpq.
Qed.
Print Assumptions C19_antisymmetric_in_creators.

Theorem C19_antisymmetric_in_annihilators : forall r s (a b : list lop), r <> s ->
  forall d, string_fn (a ++ [mkop r false; mkop s false] ++ b) d =
            sneg (string_fn (a ++ [mkop s false; mkop r false] ++ b) d).
Proof.
  intros r s a b Hrs d. rewrite !string_fn_app.
  assert (E : forall u v e, string_fn ([u; v] ++ b) e = scomp (scomp (op_fn u) (op_fn v)) (string_fn b) e).
  { intros u v e. simpl. rewrite <- scomp_assoc. reflexivity. }
  rewrite (scomp_ext _ _ _ _ (fun e => eq_refl) (E (mkop r false) (mkop s false))).
  rewrite (scomp_ext _ _ _ _ (fun e => eq_refl) (E (mkop s false) (mkop r false))).
  apply scomp_congr_mid. intros e. unfold op_fn; simpl. apply ann_ann. exact Hrs.
Qed.
Print Assumptions C19_antisymmetric_in_annihilators.

(* a repeated creator (p = q) gives the zero operator: the diagonal of the tensor vanishes *)
Theorem C19_repeated_creator_vanishes : forall p (b : list lop) d,
  string_fn ([mkop p true; mkop p true] ++ b) d = None.
Proof.
  intros p b d. cbn [app string_fn]. unfold scomp.
  destruct (string_fn b d) as [[s e]|]; [|reflexivity].
  pose proof (cre_cre_same p e) as H. unfold op_fn; cbn [odag opos]. unfold scomp in H.
  destruct (cre p e) as [[s1 e1]|]; [|reflexivity]. destruct (cre p e1) as [[s2 e2]|]; [discriminate|reflexivity].
Qed.
Print Assumptions C19_repeated_creator_vanishes.
