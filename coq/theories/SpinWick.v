(* SpinWick.v — C03: Wick's rewriting in the SPIN-SUMMED ("spinfree") mode of wick.py.

   A pattern is a string of operators (orbital, dagger?, spin label); its value is the sum over
   all assignments of a spin to every label of the matrix element of the instantiated string
   (this is what a spin-free RDM entry is: D[ijkl] = sum_{s,t} < i†_s j†_t k_s l_t >).
   One step of wick.py's loop on the first creator standing right of an annihilator,
   ... a_(p,l) a†_(q,m) ...:
       swap:      - ( ... a†_(q,m) a_(p,l) ... )
       contract:  if p = q:   l = m : 2 * ( ... ... )           the label disappears, its spin sum gives 2
                              l <> m: ( ... ... )[m := l]       the two spin sums collapse into one
   Theorem sstep_sound: the value of the pattern is the sum of the values of the produced
   patterns with these factors (for l = m: provided label l does not occur in the rest, which
   holds for the patterns wick.py accepts: every label on one creator and one annihilator);
   every orbital count, every vector, any commutative ring. *)
From Coq Require Import List Bool Arith Lia Ring Permutation.
From FQE Require Import Car Fock Sort TableThm Wick.
Import ListNotations.

Record sop := mksop { sorb : nat; sdag : bool; slab : nat }.
Definition assign := nat -> bool.
Definition upd (a : assign) (l : nat) (b : bool) : assign := fun x => if Nat.eqb x l then b else a x.
Definition inst (norb : nat) (a : assign) (o : sop) : lop := mkop (pos2 norb (a (slab o)) (sorb o)) (sdag o).
Definition relabel (m l : nat) (o : sop) : sop := mksop (sorb o) (sdag o) (if Nat.eqb (slab o) m then l else slab o).

Fixpoint assigns (L : list nat) : list assign :=
  match L with
  | [] => [fun _ => false]
  | l :: r => flat_map (fun a => [upd a l false; upd a l true]) (assigns r)
  end.

Definition agree (L : list nat) (a b : assign) : Prop := forall x, In x L -> a x = b x.

Section SW.
Variable R : Type.
Variables (rO rI : R) (radd rmul rsub : R -> R -> R) (ropp : R -> R).
Hypothesis Rth : ring_theory rO rI radd rmul rsub ropp (@eq R).
Add Ring Rr_sw : Rth.
Notation coeff := (coeff R rO radd).
Notation act_string := (act_string R ropp).
Notation wide := (wide R).
Infix "+" := radd. Infix "*" := rmul. Notation "- x" := (ropp x).

Definition sumf {A} (l : list A) (f : A -> R) : R := fold_right (fun x acc => f x + acc) rO l.

Lemma sumf_ext {A} (l : list A) f g : (forall x, In x l -> f x = g x) -> sumf l f = sumf l g.
Proof.
  induction l as [|x l IH]; intros H; [reflexivity|]. cbn [sumf fold_right].
  rewrite (H x (or_introl eq_refl)). fold (sumf l f). fold (sumf l g). rewrite IH; [reflexivity|].
  intros y Hy. apply H. right. exact Hy.
Qed.
Lemma sumf_add {A} (l : list A) f g : sumf l (fun x => f x + g x) = sumf l f + sumf l g.
Proof. unfold sumf. induction l as [|x l IH]; cbn [fold_right]; [ring|rewrite IH; ring]. Qed.
Lemma sumf_opp {A} (l : list A) f : sumf l (fun x => - f x) = - sumf l f.
Proof. unfold sumf. induction l as [|x l IH]; cbn [fold_right]; [ring|rewrite IH; ring]. Qed.
Lemma sumf_scal {A} (l : list A) c f : sumf l (fun x => c * f x) = c * sumf l f.
Proof. unfold sumf. induction l as [|x l IH]; cbn [fold_right]; [ring|rewrite IH; ring]. Qed.
Lemma sumf_zero {A} (l : list A) : sumf l (fun _ => rO) = rO.
Proof. unfold sumf. induction l as [|x l IH]; cbn [fold_right]; [reflexivity|rewrite IH; ring]. Qed.
Lemma sumf_app {A} (l1 l2 : list A) f : sumf (l1 ++ l2) f = sumf l1 f + sumf l2 f.
Proof. unfold sumf. induction l1 as [|x l IH]; cbn [app fold_right]; [ring|rewrite IH; ring]. Qed.
Lemma sumf_flat_map {A B} (g : A -> list B) (l : list A) f : sumf (flat_map g l) f = sumf l (fun x => sumf (g x) f).
Proof.
  induction l as [|x l IH]; [reflexivity|]. cbn [flat_map]. rewrite sumf_app, IH. reflexivity.
Qed.

(* summing over the spin of the first label *)
Lemma sum_assigns_cons l r (F : assign -> R) :
  sumf (assigns (l :: r)) F = sumf (assigns r) (fun a => F (upd a l false) + F (upd a l true)).
Proof.
  cbn [assigns]. rewrite sumf_flat_map. apply sumf_ext. intros a _. unfold sumf. cbn [fold_right]. ring.
Qed.

(* a summand that only looks at the labels of L does not see the rest of the assignment *)
Definition respects (L : list nat) (F : assign -> R) : Prop := forall a b, agree L a b -> F a = F b.

(* the order of the labels is immaterial *)
Lemma sum_assigns_perm L L' (F : assign -> R) : Permutation L L' -> respects (L ++ L') F ->
  sumf (assigns L) F = sumf (assigns L') F.
Proof.
  intros P. revert F. induction P as [|x l l' P IH|x y l|l l' l'' P1 IH1 P2 IH2]; intros F HF.
  - reflexivity.
  - rewrite !sum_assigns_cons. apply IH.
    intros a b Hab.
    assert (Hz : forall z, In z ((x :: l) ++ x :: l') -> z <> x -> In z (l ++ l')).
    { intros z Hz Hne. apply in_app_or in Hz. apply in_or_app. destruct Hz as [[Hz|Hz]|[Hz|Hz]]; try congruence; [left|right]; exact Hz. }
    f_equal; apply HF; intros z Hin; unfold upd; destruct (Nat.eqb_spec z x) as [->|Hne]; try reflexivity;
      apply Hab; apply Hz; assumption.
  - rewrite !sum_assigns_cons. apply sumf_ext. intros a _.
    destruct (Nat.eq_dec x y) as [->|Hne].
    + assert (U : forall b c, F (upd (upd a y b) y c) = F (upd a y c)).
      { intros b c. apply HF. intros z _. unfold upd. destruct (Nat.eqb z y); reflexivity. }
      rewrite !U. ring.
    + assert (E : forall b c, F (upd (upd a x b) y c) = F (upd (upd a y c) x b)).
      { intros b c. apply HF. intros z _. unfold upd. destruct (Nat.eqb_spec z y), (Nat.eqb_spec z x); try reflexivity. congruence. }
      rewrite (E false false), (E false true), (E true false), (E true true). ring.
  - rewrite IH1, IH2; [reflexivity| |].
    + intros a b Hab. apply HF. intros z Hz. apply Hab. apply in_app_or in Hz. apply in_or_app.
      destruct Hz as [Hz|Hz]; [left; eapply Permutation_in; [exact P1|exact Hz]|right; exact Hz].
    + intros a b Hab. apply HF. intros z Hz. apply Hab. apply in_app_or in Hz. apply in_or_app.
      destruct Hz as [Hz|Hz]; [left; exact Hz|right; eapply Permutation_in; [apply Permutation_sym; exact P2|exact Hz]].
Qed.

(* ---- the value of a labelled pattern *)
Definition labels (s : list sop) : list nat := map slab s.
Definition sval (norb : nat) (L : list nat) (s : list sop) (V : vec R) (d : det) : R :=
  sumf (assigns L) (fun a => coeff (act_string (map (inst norb a) s) V) d).

Lemma inst_agree norb a b s : agree (labels s) a b -> map (inst norb a) s = map (inst norb b) s.
Proof.
  intros H. apply map_ext_in. intros o Ho. unfold inst. rewrite (H (slab o)); [reflexivity|].
  unfold labels. apply in_map. exact Ho.
Qed.

Lemma term_respects norb s V d L : incl (labels s) L ->
  respects L (fun a => coeff (act_string (map (inst norb a) s) V) d).
Proof. intros Hi a b Hab. rewrite (inst_agree norb a b s); [reflexivity|]. intros x Hx. apply Hab. apply Hi. exact Hx. Qed.

(* a label that does not occur contributes the factor 2 *)
Lemma sval_unused_label norb l L s V d : ~ In l (labels s) ->
  sval norb (l :: L) s V d = (rI + rI) * sval norb L s V d.
Proof.
  intros Hn. unfold sval. rewrite sum_assigns_cons, <- sumf_scal. apply sumf_ext. intros a _.
  assert (A : forall b, map (inst norb (upd a l b)) s = map (inst norb a) s).
  { intros b. apply inst_agree. intros x Hx. unfold upd. destruct (Nat.eqb_spec x l); try reflexivity. subst. contradiction. }
  rewrite !A. ring.
Qed.

(* instantiating with label m forced to the spin of l = instantiating the relabelled pattern *)
Lemma inst_relabel norb a m l s : m <> l ->
  map (inst norb (upd a m (a l))) s = map (inst norb a) (map (relabel m l) s).
Proof.
  intros Hml. rewrite map_map. apply map_ext. intros o. unfold inst, relabel, upd. cbn [slab sorb sdag].
  destruct (Nat.eqb_spec (slab o) m); reflexivity.
Qed.

(* ---- one step of the rewriting *)
Lemma pos2_eqb norb s1 p s2 q : p < norb -> q < norb ->
  Nat.eqb (pos2 norb s1 p) (pos2 norb s2 q) = andb (Bool.eqb s1 s2) (Nat.eqb p q).
Proof.
  intros Hp Hq. unfold pos2. destruct s1, s2; cbn [Bool.eqb andb];
    destruct (Nat.eqb_spec p q) as [E0|E0]; first [apply Nat.eqb_eq; lia | apply Nat.eqb_neq; lia].
Qed.

(* per assignment: the CAR step on the instantiated string *)
Lemma inst_step norb a pre p l q m post V d : p < norb -> q < norb -> wide (norb + norb) V ->
  coeff (act_string (map (inst norb a) (pre ++ [mksop p false l; mksop q true m] ++ post)) V) d
  = (if andb (Bool.eqb (a l) (a m)) (Nat.eqb p q) then coeff (act_string (map (inst norb a) (pre ++ post)) V) d else rO)
    + - coeff (act_string (map (inst norb a) (pre ++ [mksop q true m; mksop p false l] ++ post)) V) d.
Proof.
  intros Hp Hq Hw. rewrite !map_app. cbn [map].
  repeat match goal with |- context [inst norb a (mksop ?x ?y ?z)] =>
    change (inst norb a (mksop x y z)) with (mkop (pos2 norb (a z) x) y) end.
  rewrite (step_identity R rO rI radd rmul rsub ropp Rth _ (pos2 norb (a l) p) (pos2 norb (a m) q) _ (norb + norb) V d);
    [|unfold pos2; destruct (a l); simpl; lia|exact Hw].
  rewrite (pos2_eqb norb (a l) p (a m) q Hp Hq). destruct (andb _ _); ring.
Qed.

Lemma perm_remove (L : list nat) l : NoDup L -> In l L -> Permutation L (l :: remove Nat.eq_dec l L).
Proof.
  induction L as [|x L IH]; intros ND Hl; [destruct Hl|]. inversion ND; subst.
  cbn [remove]. destruct (Nat.eq_dec l x) as [->|Hne].
  - rewrite notin_remove by assumption. reflexivity.
  - destruct Hl as [->|Hl]; [congruence|]. rewrite (IH H2 Hl) at 1. apply perm_swap.
Qed.

Theorem sstep_sound norb L pre p l q m post V d :
  p < norb -> q < norb -> wide (norb + norb) V -> NoDup L -> In l L -> In m L ->
  incl (labels (pre ++ post)) L ->
  (l = m -> ~ In l (labels (pre ++ post))) ->
  sval norb L (pre ++ [mksop p false l; mksop q true m] ++ post) V d
  = - sval norb L (pre ++ [mksop q true m; mksop p false l] ++ post) V d
    + (if Nat.eqb p q then
         if Nat.eqb l m then (rI + rI) * sval norb (remove Nat.eq_dec l L) (pre ++ post) V d
         else sval norb (remove Nat.eq_dec m L) (map (relabel m l) (pre ++ post)) V d
       else rO).
Proof.
  intros Hp Hq Hw ND Hl Hm Hinc Hsame.
  unfold sval at 1 2.
  rewrite (sumf_ext _ _ (fun a =>
      - coeff (act_string (map (inst norb a) (pre ++ [mksop q true m; mksop p false l] ++ post)) V) d
      + (if andb (Bool.eqb (a l) (a m)) (Nat.eqb p q) then coeff (act_string (map (inst norb a) (pre ++ post)) V) d else rO)))
    by (intros a _; rewrite (inst_step norb a pre p l q m post V d Hp Hq Hw); ring).
  rewrite sumf_add, sumf_opp. f_equal.
  destruct (Nat.eqb p q) eqn:Epq.
  2:{ rewrite (sumf_ext _ _ (fun _ => rO)); [apply sumf_zero|]. intros a _. rewrite andb_false_r. reflexivity. }
  destruct (Nat.eqb_spec l m) as [<-|Hlm].
  - (* same label: the condition is always true; l does not occur in the rest *)
    rewrite (sumf_ext _ _ (fun a => coeff (act_string (map (inst norb a) (pre ++ post)) V) d))
      by (intros a _; rewrite eqb_reflx; reflexivity).
    rewrite (sum_assigns_perm L (l :: remove Nat.eq_dec l L) _ (perm_remove L l ND Hl)).
    + fold (sval norb (l :: remove Nat.eq_dec l L) (pre ++ post) V d).
      apply sval_unused_label. apply Hsame. reflexivity.
    + apply term_respects. intros x Hx. apply in_or_app. left. apply Hinc. exact Hx.
  - (* different labels: only assignments with a l = a m contribute; fold the sum over the spin of m *)
    set (F := fun a : assign => if andb (Bool.eqb (a l) (a m)) true
                               then coeff (act_string (map (inst norb a) (pre ++ post)) V) d else rO).
    assert (RF : respects (L ++ (m :: remove Nat.eq_dec m L)) F).
    { intros a b Hab. unfold F. rewrite (Hab l), (Hab m) by (apply in_or_app; left; assumption).
      rewrite (inst_agree norb a b (pre ++ post)); [reflexivity|].
      intros x Hx. apply Hab. apply in_or_app. left. apply Hinc. exact Hx. }
    rewrite (sum_assigns_perm L (m :: remove Nat.eq_dec m L) F (perm_remove L m ND Hm) RF).
    rewrite sum_assigns_cons. unfold sval. apply sumf_ext. intros a _. unfold F.
    assert (Ul : forall b, upd a m b l = a l).
    { intros b. unfold upd. destruct (Nat.eqb_spec l m); [congruence|reflexivity]. }
    assert (Um : forall b, upd a m b m = b) by (intros b; unfold upd; rewrite Nat.eqb_refl; reflexivity).
    rewrite !Ul, !Um, !andb_true_r.
    rewrite <- (inst_relabel norb a m l (pre ++ post)) by congruence.
    destruct (a l); cbn [Bool.eqb]; ring.
Qed.
(* ---- exchanging two adjacent operators of the same kind (the final spin sort of wick.py): two creators, or two
   annihilators, always anticommute - also when they sit on the same spin orbital, where both orders give zero *)
Lemma anticomm_same_kind x y : odag x = odag y -> anticomm x y.
Proof.
  intros E. destruct (Nat.eq_dec (opos x) (opos y)) as [Ep|Ep]; [|apply anticomm_diff_pos; exact Ep].
  intros d. destruct x as [p dx], y as [q dy]. cbn in E, Ep. subst q dy. unfold op_fn. cbn [odag opos].
  destruct dx.
  - rewrite cre_cre_same. reflexivity.
  - rewrite ann_ann_same. reflexivity.
Qed.

Theorem sval_swap_same_kind norb L pre x y post V d : sdag x = sdag y ->
  sval norb L (pre ++ [x; y] ++ post) V d = - sval norb L (pre ++ [y; x] ++ post) V d.
Proof.
  intros E. unfold sval. rewrite <- sumf_opp. apply sumf_ext. intros a _.
  rewrite !map_app. cbn [map]. unfold Fock.act_string.
  rewrite (coeff_lift_sneg R rO rI radd rmul rsub ropp Rth _
             (string_fn (map (inst norb a) pre ++ [inst norb a y; inst norb a x] ++ map (inst norb a) post))).
  - reflexivity.
  - intros e. apply string_swap_adjacent. apply anticomm_same_kind. exact E.
Qed.
End SW.
