(* P_C16_gen.v — C16: theorems about the loops REGENERATED from the current Wavefunction.apply_generated_unitary
   (gen/Gen_propagator_loops.v).  Statements closed by `exact`, each followed by Print Assumptions. *)
From Coq Require Import QArith List Bool Arith.
From FQE Require Import Poly LoopSkel Equiv_loops.
From FQE.gen Require Import Gen_propagator_loops.
Local Close Scope Q_scope.

Theorem C16_source_taylor_loop_is_model : forall (A : Type) size add acc limit (s0 : A),
  run_skel A size add acc py_apply_generated_unitary_taylor_skel limit s0 = taylor A size add acc limit s0.
Proof. exact py_taylor_loop_is_model. Qed.
Print Assumptions C16_source_taylor_loop_is_model.

Theorem C16_source_chebyshev_loop_is_model : forall (A : Type) size add acc limit (s0 : A),
  run_skel A size add acc py_apply_generated_unitary_chebyshev_skel limit s0 = cheb A size add acc limit s0.
Proof. exact py_chebyshev_loop_is_model. Qed.
Print Assumptions C16_source_chebyshev_loop_is_model.

Theorem C16_source_taylor_converge_or_raise : forall (A : Type) size add acc limit (s0 : A),
  match run_skel A size add acc py_apply_generated_unitary_taylor_skel limit s0 with
  | Ok K v => 1 <= K < limit /\ small size acc K = true /\ (forall j, 1 <= j < K -> small size acc j = false)
              /\ v = partial A add 1 K s0
  | LimitReached => forall j, 1 <= j < limit -> small size acc j = false
  end.
Proof. exact py_taylor_converge_or_raise. Qed.
Print Assumptions C16_source_taylor_converge_or_raise.

Theorem C16_source_chebyshev_two_consecutive : forall (A : Type) size add acc limit (s0 : A) K v,
  run_skel A size add acc py_apply_generated_unitary_chebyshev_skel limit s0 = Ok K v ->
  3 <= K < limit /\ small size acc K = true /\ small size acc (K - 1) = true /\ v = partial A add 2 (K - 1) s0.
Proof. exact py_chebyshev_two_consecutive. Qed.
Print Assumptions C16_source_chebyshev_two_consecutive.
