(* NormThm.v — C02 / C16: the operator-norm step of the exact Taylor oracle, in l1 form.
   For a size function |.| on the coefficient ring (sub-additive, sub-multiplicative, |−a| = |a|, |0| = 0) put
     mass v = sum of |c| over the entries of the sparse vector v,      L1(H) = sum of |c_t| over the strings of H.
   Every operator string maps a determinant to at most one signed determinant, so mass (string v) <= mass v, hence
     mass (H v) <= L1(H) * mass v,     mass (H^k v) <= L1(H)^k * mass v,     |coeff (H^k v) d| <= L1(H)^k * mass v
   for every Hamiltonian polynomial, every power and every vector: the k-th Taylor term of exp(-iHt) psi is bounded,
   coefficient by coefficient, by (|t| L1)^k / k! * mass psi, and TaylorTail.taylor_tail_bound bounds the sum over k > K.
   Instance: Gaussian integers with |a + ib| = |a| + |b| (the arithmetic of the exact oracle). *)
From Coq Require Import ZArith List Bool Lia Ring.
From FQE Require Import Car Fock Conserve GaussZ.
Import ListNotations.
Open Scope Z_scope.

Section Norm.
Variable R : Type.
Variables (rO : R) (radd rmul : R -> R -> R) (ropp : R -> R).
Variable sz : R -> Z.
Hypothesis sz_nonneg : forall a, 0 <= sz a.
Hypothesis sz_O : sz rO = 0.
Hypothesis sz_add : forall a b, sz (radd a b) <= sz a + sz b.
Hypothesis sz_mul : forall a b, sz (rmul a b) <= sz a * sz b.
Hypothesis sz_opp : forall a, sz (ropp a) = sz a.

Notation vec := (Fock.vec R).
Notation coeff := (Fock.coeff R rO radd).

Fixpoint mass (v : vec) : Z := match v with [] => 0 | x :: r => sz (snd x) + mass r end.
Definition pl1 (p : Fock.poly R) : Z := fold_right (fun t acc => sz (fst t) + acc) 0 p.

Lemma mass_nonneg v : 0 <= mass v.
Proof. induction v as [|x r IH]; cbn [mass]; [lia|]. pose proof (sz_nonneg (snd x)). lia. Qed.

Lemma pl1_nonneg p : 0 <= pl1 p.
Proof. unfold pl1. induction p as [|t r IH]; cbn [fold_right]; [lia|]. pose proof (sz_nonneg (fst t)). lia. Qed.

Lemma mass_app u v : mass (u ++ v) = mass u + mass v.
Proof. induction u as [|x r IH]; cbn [app mass]; [lia|]. rewrite IH. lia. Qed.

Lemma coeff_le_mass v d : sz (coeff v d) <= mass v.
Proof.
  induction v as [|[e c] r IH]; cbn [Fock.coeff mass snd]; [rewrite sz_O; lia|].
  eapply Z.le_trans; [apply sz_add|]. destruct (det_eqb e d); [lia|]. rewrite sz_O. pose proof (sz_nonneg c). lia.
Qed.

Lemma sz_sgn s c : sz (Fock.sgn R ropp s c) = sz c.
Proof. destruct s; cbn [Fock.sgn]; [apply sz_opp|reflexivity]. Qed.

Lemma mass_lift f v : mass (Fock.lift R ropp f v) <= mass v.
Proof.
  unfold Fock.lift. induction v as [|[e c] r IH]; cbn [flat_map mass snd]; [lia|].
  rewrite mass_app. unfold Fock.lift1 at 1. cbn [fst snd].
  destruct (f e) as [[s d']|]; cbn [mass snd]; [rewrite sz_sgn; lia|]. pose proof (sz_nonneg c). lia.
Qed.

Lemma mass_vscale a v : mass (Fock.vscale R rmul a v) <= sz a * mass v.
Proof.
  unfold Fock.vscale. induction v as [|[e c] r IH]; cbn [map mass snd fst]; [lia|].
  pose proof (sz_mul a c). lia.
Qed.

Lemma mass_act_poly p v : mass (Fock.act_poly R rmul ropp p v) <= pl1 p * mass v.
Proof.
  unfold Fock.act_poly, pl1. induction p as [|[c ops] r IH]; cbn [flat_map fold_right fst snd mass]; [lia|].
  rewrite mass_app.
  pose proof (mass_vscale c (Fock.act_string R ropp ops v)) as A.
  pose proof (mass_lift (string_fn ops) v) as B. unfold Fock.act_string in *.
  pose proof (sz_nonneg c) as C. pose proof (mass_nonneg v) as D.
  assert (sz c * mass (Fock.lift R ropp (string_fn ops) v) <= sz c * mass v) by (apply Z.mul_le_mono_nonneg_l; assumption).
  lia.
Qed.

Lemma mass_pow p k v : mass (pow_act R rmul ropp p k v) <= pl1 p ^ Z.of_nat k * mass v.
Proof.
  induction k as [|k IH]; cbn [pow_act]; [change (Z.of_nat 0) with 0; rewrite Z.pow_0_r; lia|].
  eapply Z.le_trans; [apply mass_act_poly|].
  rewrite Nat2Z.inj_succ, Z.pow_succ_r by lia. pose proof (pl1_nonneg p) as P.
  assert (pl1 p * mass (pow_act R rmul ropp p k v) <= pl1 p * (pl1 p ^ Z.of_nat k * mass v)) by (apply Z.mul_le_mono_nonneg_l; assumption).
  lia.
Qed.

Theorem power_coefficient_bound p k v d : sz (coeff (pow_act R rmul ropp p k v) d) <= pl1 p ^ Z.of_nat k * mass v.
Proof. eapply Z.le_trans; [apply coeff_le_mass|apply mass_pow]. Qed.
End Norm.

(* ---- the Gaussian-integer instance *)
Definition gsz (a : gz) : Z := Z.abs (fst a) + Z.abs (snd a).
Lemma gsz_nonneg a : 0 <= gsz a. Proof. unfold gsz. lia. Qed.
Lemma gsz_O : gsz gz0 = 0. Proof. reflexivity. Qed.
Lemma gsz_add a b : gsz (gzadd a b) <= gsz a + gsz b.
Proof. unfold gsz, gzadd. cbn [fst snd]. lia. Qed.
Lemma gsz_opp a : gsz (gzopp a) = gsz a.
Proof. unfold gsz, gzopp. cbn [fst snd]. lia. Qed.
Lemma gsz_mul a b : gsz (gzmul a b) <= gsz a * gsz b.
Proof.
  destruct a as [a1 a2], b as [b1 b2]. unfold gsz, gzmul. cbn [fst snd].
  assert (T : forall x y, Z.abs (x - y) <= Z.abs x + Z.abs y) by (intros; lia).
  assert (U : forall x y, Z.abs (x + y) <= Z.abs x + Z.abs y) by (intros; lia).
  eapply Z.le_trans; [apply Z.add_le_mono; [apply T|apply U]|]. rewrite !Z.abs_mul.
  set (p := Z.abs a1). set (q := Z.abs a2). set (r := Z.abs b1). set (s := Z.abs b2). ring_simplify. lia.
Qed.

Theorem gz_power_coefficient_bound (p : Fock.poly gz) k (v : Fock.vec gz) d :
  gsz (Fock.coeff gz gz0 gzadd (pow_act gz gzmul gzopp p k v) d) <= pl1 gz gsz p ^ Z.of_nat k * mass gz gsz v.
Proof.
  exact (power_coefficient_bound gz gz0 gzadd gzmul gzopp gsz gsz_nonneg gsz_O gsz_add gsz_mul gsz_opp p k v d).
Qed.

(* ---- executable: L1(H) of the denoted polynomial and the l1 mass of a vector (extracted; the exact Taylor oracle of
   the correspondence check chooses its truncation order from them) *)
From FQE Require Import Bits Denote Model.
Definition m_l1 (norb : nat) (es : list hentry) : Z := pl1 gz gsz (poly_of norb (denote_all norb es)).
Definition m_mass (norb : nat) (v : list (N * N * gz)) : Z := mass gz gsz (vec_of norb v).

(* the oracle's iteration: v_k = coefficients of H v_{k-1}; its k-th iterate is bounded by m_l1^k * m_mass *)
Theorem oracle_power_bound norb es v k d :
  gsz (Fock.coeff gz gz0 gzadd (pow_act gz gzmul gzopp (poly_of norb (denote_all norb es)) k (vec_of norb v)) d)
  <= m_l1 norb es ^ Z.of_nat k * m_mass norb v.
Proof. apply gz_power_coefficient_bound. Qed.
