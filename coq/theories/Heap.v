(* Heap.v — C11: an abstract machine for sequences of public operations over a pool
   of objects that share memoised tables (string graphs, cross-sector maps, Z
   matrices).  Spec machine: every operation is a function of its argument VALUES
   and writes only its target.  Impl machine: the same, but tables are looked up in
   a cache that is filled lazily and shared by everything.  Theorem: if every cached
   entry is the canonical function of its key (an invariant every step preserves),
   the two machines agree on every history — caches are unobservable, results do not
   depend on which calls happened earlier, and non-targets are untouched. *)
From Coq Require Import List Bool Arith Lia.
Import ListNotations.

Section Heap.
Variable val : Type.
Variable key res : Type.
Variable key_eqb : key -> key -> bool.
Hypothesis key_eqb_spec : forall a b, key_eqb a b = true <-> a = b.
Variable canon : key -> res.          (* what the table for a key must be: a function of the key only *)
Variable default : val.

(* an operation: optional target slot, source slots, the cache keys it touches, and
   its function of (table lookup, argument values) *)
Record op := mkop {
  tgt : option nat;
  srcs : list nat;
  keys : list key;
  fn : (key -> res) -> list val -> val
}.
(* operations use tables only through lookups *)
Definition extensional (o : op) : Prop :=
  forall t1 t2 args, (forall k, t1 k = t2 k) -> fn o t1 args = fn o t2 args.

Definition pool := list val.
Definition pget (p : pool) (i : nat) : val := nth i p default.
Fixpoint pset (p : pool) (i : nat) (v : val) : pool :=
  match p, i with
  | [], _ => []
  | _ :: r, O => v :: r
  | x :: r, S i' => x :: pset r i' v
  end.
Definition pupd (p : pool) (t : option nat) (v : val) : pool :=
  match t with Some i => pset p i v | None => p end.

Definition cache := list (key * res).
Fixpoint find (c : cache) (k : key) : option res :=
  match c with
  | [] => None
  | (k', r) :: rest => if key_eqb k k' then Some r else find rest k
  end.
Definition lookup (c : cache) (k : key) : res := match find c k with Some r => r | None => canon k end.
Definition fill (c : cache) (ks : list key) : cache :=
  fold_left (fun acc k => match find acc k with Some _ => acc | None => (k, canon k) :: acc end) ks c.

Definition step_spec (p : pool) (o : op) : pool * val :=
  let v := fn o canon (map (pget p) (srcs o)) in (pupd p (tgt o) v, v).
Definition step_impl (s : pool * cache) (o : op) : (pool * cache) * val :=
  let v := fn o (lookup (snd s)) (map (pget (fst s)) (srcs o)) in
  ((pupd (fst s) (tgt o) v, fill (snd s) (keys o)), v).

Fixpoint run_spec (p : pool) (h : list op) : pool * list val :=
  match h with
  | [] => (p, [])
  | o :: r => let '(p1, v) := step_spec p o in let '(p2, vs) := run_spec p1 r in (p2, v :: vs)
  end.
Fixpoint run_impl (s : pool * cache) (h : list op) : (pool * cache) * list val :=
  match h with
  | [] => (s, [])
  | o :: r => let '(s1, v) := step_impl s o in let '(s2, vs) := run_impl s1 r in (s2, v :: vs)
  end.

Definition Inv (c : cache) : Prop := forall k r, find c k = Some r -> r = canon k.

Lemma lookup_canon c k : Inv c -> lookup c k = canon k.
Proof. intros H. unfold lookup. destruct (find c k) eqn:E; [apply H; exact E|reflexivity]. Qed.

Lemma inv_nil : Inv [].
Proof. intros k r H. discriminate. Qed.

Lemma inv_cons c k : Inv c -> Inv ((k, canon k) :: c).
Proof.
  intros H k' r. simpl. destruct (key_eqb k' k) eqn:E.
  - intros Hr. inversion Hr. apply key_eqb_spec in E. subst. reflexivity.
  - apply H.
Qed.

Lemma inv_fill ks : forall c, Inv c -> Inv (fill c ks).
Proof.
  unfold fill. induction ks as [|k r IH]; intros c H; simpl; [exact H|].
  apply IH. destruct (find c k); [exact H|apply inv_cons; exact H].
Qed.

Theorem step_agree s o : extensional o -> Inv (snd s) ->
  fst (fst (step_impl s o)) = fst (step_spec (fst s) o) /\
  snd (step_impl s o) = snd (step_spec (fst s) o) /\
  Inv (snd (fst (step_impl s o))).
Proof.
  intros Hext Hinv. unfold step_impl, step_spec. simpl.
  assert (E : fn o (lookup (snd s)) (map (pget (fst s)) (srcs o)) = fn o canon (map (pget (fst s)) (srcs o))).
  { apply Hext. intros k. apply lookup_canon. exact Hinv. }
  rewrite E. repeat split. apply inv_fill. exact Hinv.
Qed.

(* caches are unobservable over whole histories *)
Theorem history_agree h : Forall extensional h -> forall s, Inv (snd s) ->
  fst (fst (run_impl s h)) = fst (run_spec (fst s) h) /\ snd (run_impl s h) = snd (run_spec (fst s) h).
Proof.
  induction h as [|o r IH]; intros Hall s Hinv; [split; reflexivity|].
  inversion Hall as [|? ? Ho Hr]; subst.
  destruct (step_agree s o Ho Hinv) as [H1 [H2 H3]].
  cbn [run_impl run_spec].
  destruct (step_impl s o) as [s1 v] eqn:E1. destruct (step_spec (fst s) o) as [p1 v'] eqn:E2.
  cbn [fst snd] in H1, H2, H3. subst v'. specialize (IH Hr s1 H3). rewrite H1 in IH.
  destruct (run_impl s1 r) as [s2 vs]. destruct (run_spec p1 r) as [p2 vs'].
  cbn [fst snd] in *. destruct IH as [IH1 IH2]. split; [exact IH1|congruence].
Qed.

(* history independence: the value of a call depends only on the values of its arguments *)
Theorem result_depends_on_args_only p1 p2 o :
  map (pget p1) (srcs o) = map (pget p2) (srcs o) -> snd (step_spec p1 o) = snd (step_spec p2 o).
Proof. intros H. unfold step_spec. simpl. rewrite H. reflexivity. Qed.

Corollary impl_result_history_free s1 s2 o : extensional o -> Inv (snd s1) -> Inv (snd s2) ->
  map (pget (fst s1)) (srcs o) = map (pget (fst s2)) (srcs o) ->
  snd (step_impl s1 o) = snd (step_impl s2 o).
Proof.
  intros He H1 H2 Hargs.
  destruct (step_agree s1 o He H1) as [_ [E1 _]]. destruct (step_agree s2 o He H2) as [_ [E2 _]].
  rewrite E1, E2. apply result_depends_on_args_only. exact Hargs.
Qed.

(* frame: only the target slot changes *)
Lemma pget_pset_other p i j v : i <> j -> pget (pset p i v) j = pget p j.
Proof.
  unfold pget. revert i j. induction p as [|x p IH]; intros [|i] [|j] H; simpl; try reflexivity; try congruence.
  apply IH. congruence.
Qed.

Theorem frame p o j : tgt o <> Some j -> pget (fst (step_spec p o)) j = pget p j.
Proof.
  unfold step_spec. simpl. destruct (tgt o) as [i|]; simpl; intros H; [|reflexivity].
  apply pget_pset_other. congruence.
Qed.

Theorem frame_impl s o j : tgt o <> Some j -> pget (fst (fst (step_impl s o))) j = pget (fst s) j.
Proof.
  unfold step_impl. simpl. destruct (tgt o) as [i|]; simpl; intros H; [|reflexivity].
  apply pget_pset_other. congruence.
Qed.

(* a cache poisoned with a wrong entry IS observable: the invariant is what matters *)
End Heap.

Theorem poisoned_cache_refuted :
  exists (o : op nat nat nat) (c : cache nat nat),
    snd (step_impl nat nat nat Nat.eqb (fun k => k) 0 ([0], c) o) <> snd (step_spec nat nat nat (fun k => k) 0 [0] o).
Proof.
  exists (mkop nat nat nat None [] [1] (fun t _ => t 1)), [(1, 7)]. vm_compute. discriminate.
Qed.
