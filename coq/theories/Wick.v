(* Wick.v — C03 / C06: the rewriting that brings an operator string into normal order
   (all creators left of all annihilators), as wick.py's `process_one` loop and
   OpenFermion's `normal_ordered` perform it:

       find the first creator standing directly right of an annihilator,   ... a_p a†_q ...
       replace the string by   - (... a†_q a_p ...)   +   delta_pq (... ...)

   and repeat on every produced string until none has such a pair.

   Proved here, for every string, every coefficient, every fuel, every determinant length
   and every vector (over any commutative ring):
     * expand_sound      the produced polynomial acts exactly like the original string
                         (so every matrix element / RDM entry assembled from it is the
                         matrix element of the original pattern);
     * expand_normal     with fuel above the number of inversions of the string, every
                         produced string is normal ordered (creators, then annihilators);
     * expand_terms_le   a string with k inversions produces at most 2^k terms.
   The spin-summed ("spinfree") variant of wick.py, with its factor 2 and relabelling, is
   not mirrored: it is tied to the oracle by the C03 correspondence only. *)
From Coq Require Import List Bool Arith Lia Ring.
From FQE Require Import Car Fock.
Import ListNotations.

(* first adjacent (annihilator, creator) pair *)
Fixpoint first_inv (s : list lop) : option (list lop * lop * lop * list lop) :=
  match s with
  | x :: t =>
    match t with
    | y :: r =>
      if andb (negb (odag x)) (odag y) then Some ([], x, y, r)
      else match first_inv t with
           | Some (pre, a, b, post) => Some (x :: pre, a, b, post)
           | None => None
           end
    | [] => None
    end
  | [] => None
  end.

Lemma first_inv_cons2 a b r : first_inv (a :: b :: r) =
  if andb (negb (odag a)) (odag b) then Some ([], a, b, r)
  else match first_inv (b :: r) with
       | Some (pre, x, y, post) => Some (a :: pre, x, y, post)
       | None => None
       end.
Proof. reflexivity. Qed.

Lemma first_inv_spec s : forall pre x y post, first_inv s = Some (pre, x, y, post) ->
  s = pre ++ [x; y] ++ post /\ odag x = false /\ odag y = true.
Proof.
  induction s as [|a t IH]; intros pre x y post H; [discriminate|].
  destruct t as [|b r]; [discriminate|].
  rewrite first_inv_cons2 in H.
  destruct (andb (negb (odag a)) (odag b)) eqn:E.
  - inversion H; subst. apply andb_true_iff in E. destruct E as [E1 E2].
    apply negb_true_iff in E1. repeat split; assumption.
  - destruct (first_inv (b :: r)) as [[[[pre' a'] b'] post']|] eqn:F; [|discriminate].
    destruct (IH pre' a' b' post' eq_refl) as [H1 [H2 H3]].
    inversion H; subst pre x y post.
    repeat split; try assumption. simpl. f_equal. exact H1.
Qed.

(* normal order: no annihilator anywhere left of a creator *)
Fixpoint count_dag (s : list lop) : nat :=
  match s with [] => 0 | x :: r => (if odag x then 1 else 0) + count_dag r end.
Fixpoint count_ndag (s : list lop) : nat :=
  match s with [] => 0 | x :: r => (if odag x then 0 else 1) + count_ndag r end.
Fixpoint inversions (s : list lop) : nat :=
  match s with [] => 0 | x :: r => (if odag x then 0 else count_dag r) + inversions r end.

Definition normal (s : list lop) : Prop := inversions s = 0.

Lemma count_dag_app a b : count_dag (a ++ b) = count_dag a + count_dag b.
Proof. induction a as [|x a IH]; simpl; [reflexivity|]. rewrite IH. lia. Qed.
Lemma count_ndag_app a b : count_ndag (a ++ b) = count_ndag a + count_ndag b.
Proof. induction a as [|x a IH]; simpl; [reflexivity|]. rewrite IH. lia. Qed.
Lemma inversions_app a b : inversions (a ++ b) = inversions a + inversions b + count_ndag a * count_dag b.
Proof.
  induction a as [|x a IH]; simpl; [lia|]. rewrite IH, count_dag_app. destruct (odag x); lia.
Qed.

(* a string without an adjacent (annihilator, creator) pair is normal ordered *)
Lemma first_inv_none s : first_inv s = None -> normal s.
Proof.
  unfold normal. induction s as [|a t IH]; intros H; [reflexivity|].
  destruct t as [|b r]; [simpl; destruct (odag a); reflexivity|].
  rewrite first_inv_cons2 in H.
  destruct (andb (negb (odag a)) (odag b)) eqn:E; [discriminate|].
  destruct (first_inv (b :: r)) as [[[[pre' a'] b'] post']|] eqn:F; [discriminate|].
  specialize (IH eq_refl). cbn [inversions] in *. rewrite IH.
  destruct (odag a) eqn:Da; [reflexivity|].
  simpl in E. (* odag b = false, and b :: r normal: no creator in r either *)
  cbn [count_dag]. rewrite E. cbn [inversions] in IH. rewrite E in IH. lia.
Qed.

(* a normal-ordered string is creators followed by annihilators *)
Lemma normal_shape s : normal s -> exists a b, s = a ++ b /\ Forall (fun o => odag o = true) a /\ Forall (fun o => odag o = false) b.
Proof.
  unfold normal. induction s as [|x r IH]; intros H.
  - exists [], []. repeat split; constructor.
  - cbn [inversions] in H. destruct (odag x) eqn:Dx.
    + destruct (IH ltac:(lia)) as [a [b [E [Fa Fb]]]]. exists (x :: a), b. subst r.
      repeat split; [|assumption]. constructor; assumption.
    + exists [], (x :: r). repeat split; [constructor|]. constructor; [exact Dx|].
      assert (C : count_dag r = 0) by lia. clear - C.
      induction r as [|y r IH]; [constructor|]. simpl in C. destruct (odag y) eqn:Dy; [lia|].
      constructor; [exact Dy|apply IH; lia].
Qed.

Section Expand.
Variable R : Type.
Variables (rO rI : R) (radd rmul rsub : R -> R -> R) (ropp : R -> R).
Hypothesis Rth : ring_theory rO rI radd rmul rsub ropp (@eq R).
Add Ring Rr_wick : Rth.

Notation coeff := (coeff R rO radd).
Notation act_string := (act_string R ropp).
Notation act_poly := (act_poly R rmul ropp).
Notation wide := (wide R).

Fixpoint expand (fuel : nat) (c : R) (s : list lop) : poly R :=
  match fuel with
  | O => [(c, s)]
  | S f =>
    match first_inv s with
    | None => [(c, s)]
    | Some (pre, x, y, post) =>
      expand f (ropp c) (pre ++ [y; x] ++ post)
      ++ (if Nat.eqb (opos x) (opos y) then expand f c (pre ++ post) else [])
    end
  end.

(* one rewriting step is an operator identity *)
Lemma step_identity pre p q post n (v : vec R) d : p < n -> wide n v ->
  coeff (act_string (pre ++ [mkop p false; mkop q true] ++ post) v) d
  = radd (rmul (if Nat.eqb p q then rI else rO) (coeff (act_string (pre ++ post) v) d))
         (ropp (coeff (act_string (pre ++ [mkop q true; mkop p false] ++ post) v) d)).
Proof.
  intros Hp Hw.
  set (w := act_string post v).
  assert (Ww : wide n w) by (apply (wide_act_string R ropp); exact Hw).
  rewrite !(act_string_app R rO rI radd rmul rsub ropp Rth).
  apply (act_string_combo R rO rI radd rmul rsub ropp Rth pre (if Nat.eqb p q then rI else rO)
           (act_string ([mkop p false; mkop q true] ++ post) v) w
           (act_string ([mkop q true; mkop p false] ++ post) v)).
  intros e. rewrite !(act_string_app R rO rI radd rmul rsub ropp Rth). fold w.
  rewrite (car_cre_ann_general R rO rI radd rmul rsub ropp Rth p q n w e Hp Ww).
  destruct (Nat.eqb p q); ring.
Qed.

Definition below (n : nat) (s : list lop) : Prop := forall o, In o s -> opos o < n.

Theorem expand_sound fuel : forall c s n (v : vec R) d, below n s -> wide n v ->
  coeff (act_poly (expand fuel c s) v) d = rmul c (coeff (act_string s v) d).
Proof.
  induction fuel as [|f IH]; intros c s n v d Hb Hw.
  - cbn [expand]. rewrite (coeff_act_poly R rO rI radd rmul rsub ropp Rth). simpl. ring.
  - cbn [expand]. destruct (first_inv s) as [[[[pre x] y] post]|] eqn:F.
    + destruct (first_inv_spec s pre x y post F) as [Es [Dx Dy]].
      destruct x as [p dx], y as [q dy]. simpl in Dx, Dy. subst dx dy.
      assert (Hp : p < n). { apply (Hb (mkop p false)). rewrite Es. apply in_or_app. right. left. reflexivity. }
      assert (Hb1 : below n (pre ++ [mkop q true; mkop p false] ++ post)).
      { intros o Ho. apply Hb. rewrite Es. apply in_app_or in Ho. apply in_or_app.
        destruct Ho as [Ho|Ho]; [left; exact Ho|right].
        simpl in Ho. simpl. tauto. }
      assert (Hb2 : below n (pre ++ post)).
      { intros o Ho. apply Hb. rewrite Es. apply in_app_or in Ho. apply in_or_app.
        destruct Ho as [Ho|Ho]; [left; exact Ho|right]. simpl. tauto. }
      rewrite (act_poly_app R rO rI radd rmul rsub ropp Rth).
      rewrite (IH (ropp c) _ n v d Hb1 Hw).
      rewrite Es at 1. rewrite (step_identity pre p q post n v d Hp Hw).
      cbn [opos]. destruct (Nat.eqb p q).
      * rewrite (IH c _ n v d Hb2 Hw). ring.
      * rewrite (coeff_act_poly R rO rI radd rmul rsub ropp Rth). simpl. ring.
    + rewrite (coeff_act_poly R rO rI radd rmul rsub ropp Rth). simpl. ring.
Qed.

(* the number of inversions strictly decreases along both branches *)
Lemma inversions_swap pre x y post : odag x = false -> odag y = true ->
  S (inversions (pre ++ [y; x] ++ post)) = inversions (pre ++ [x; y] ++ post).
Proof.
  intros Dx Dy. rewrite !inversions_app. cbn [inversions count_dag count_ndag app].
  rewrite ?count_dag_app. cbn [count_dag]. rewrite ?Dx, ?Dy. lia.
Qed.

Lemma inversions_drop pre x y post : odag x = false -> odag y = true ->
  inversions (pre ++ post) < inversions (pre ++ [x; y] ++ post).
Proof.
  intros Dx Dy. rewrite !inversions_app. cbn [inversions count_dag count_ndag app].
  rewrite ?count_dag_app. cbn [count_dag]. rewrite ?Dx, ?Dy.
  rewrite Nat.mul_add_distr_l. lia.
Qed.

Theorem expand_normal fuel : forall c s, inversions s < fuel ->
  Forall (fun t => normal (snd t)) (expand fuel c s).
Proof.
  induction fuel as [|f IH]; intros c s Hm; [lia|].
  cbn [expand]. destruct (first_inv s) as [[[[pre x] y] post]|] eqn:F.
  - destruct (first_inv_spec s pre x y post F) as [Es [Dx Dy]].
    apply Forall_app. split.
    + apply IH. pose proof (inversions_swap pre x y post Dx Dy). rewrite <- Es in H. lia.
    + destruct (Nat.eqb (opos x) (opos y)); [|constructor].
      apply IH. pose proof (inversions_drop pre x y post Dx Dy). rewrite <- Es in H. lia.
  - constructor; [|constructor]. simpl. apply first_inv_none. exact F.
Qed.

Theorem expand_terms_le fuel : forall c s, inversions s < fuel ->
  length (expand fuel c s) <= 2 ^ inversions s.
Proof.
  induction fuel as [|f IH]; intros c s Hm; [lia|].
  cbn [expand]. destruct (first_inv s) as [[[[pre x] y] post]|] eqn:F.
  - destruct (first_inv_spec s pre x y post F) as [Es [Dx Dy]].
    pose proof (inversions_swap pre x y post Dx Dy) as H1.
    pose proof (inversions_drop pre x y post Dx Dy) as H2. rewrite <- Es in H1, H2.
    rewrite app_length. rewrite <- H1. cbn [Nat.pow].
    assert (A := IH (ropp c) (pre ++ [y; x] ++ post) ltac:(lia)).
    destruct (Nat.eqb (opos x) (opos y)).
    + assert (B := IH c (pre ++ post) ltac:(lia)).
      assert (P : 2 ^ inversions (pre ++ post) <= 2 ^ inversions (pre ++ [y; x] ++ post)).
      { apply Nat.pow_le_mono_r; lia. }
      lia.
    + cbn [length]. generalize dependent (2 ^ inversions (pre ++ [y; x] ++ post)). intros k A. lia.
  - cbn [length]. assert (Hz : 2 ^ inversions s <> 0) by (apply Nat.pow_nonzero; lia).
    generalize dependent (2 ^ inversions s). intros k Hz. lia.
Qed.

(* matrix elements: the pattern's entry is the combination of normal-ordered entries *)
Variable rconj : R -> R.
Notation inner := (inner R rO radd rmul rconj).

Theorem expand_matel fuel s n (bra ket : vec R) : below n s -> wide n ket ->
  inner bra (act_poly (expand fuel rI s) ket) = inner bra (act_string s ket).
Proof.
  intros Hb Hw. apply (inner_proper_r R rO radd rmul rconj). intros d.
  rewrite (expand_sound fuel rI s n ket d Hb Hw). ring.
Qed.
End Expand.

(* non-vacuity: a_0 a†_0 a_1 a†_1 has 3 inversions and expands into 1 - n_0 - n_1 + n_0... terms *)
Example expand_example :
  map snd (expand nat (fun c => c) 4 1 [mkop 0 false; mkop 0 true; mkop 1 false; mkop 1 true])
  = [ [mkop 0 true; mkop 1 true; mkop 0 false; mkop 1 false];
      [mkop 0 true; mkop 0 false];
      [mkop 1 true; mkop 1 false];
      [] ].
Proof. vm_compute. reflexivity. Qed.
