(* Equiv_cexpr.v — the inline helpers of fqe/lib/bitstring.h, PARSED from the current source
   into the C syntax of CExpr.v (gen/Gen_bitstring_h_ast.v), evaluated with C semantics
   (typed constants, unsigned wrap-around, undefined shifts and signed overflow = failure):
   for every 64-bit string and all positions below 64 they are DEFINED and return the count
   of occupied positions strictly between i and j / above i.
   Proof: finite table over the positions (abstract evaluation, vm_compute) lifted to every
   string by CExpr.afun_counts. *)
From Coq Require Import NArith ZArith List Bool Arith Lia.
From FQE Require Import Bits GenBase CExpr.
From FQE.gen Require Import Gen_bitstring_h_ast.
Import ListNotations.
Local Open Scope Z_scope.

Lemma ast_between_tab_ok : tab2d_afun c_ast_count_bits_between spec_between_mask = true.
Proof. vm_compute. reflexivity. Qed.

Theorem c_ast_count_bits_between_ok s i j : 0 <= s < 2 ^ 64 -> 0 <= i < 64 -> 0 <= j < 64 -> i <> j ->
  cfun_eval c_ast_count_bits_between s [i; j] = Some (Z.of_nat (cnt_between (Z.to_N s) (Z.to_nat i) (Z.to_nat j))).
Proof.
  intros Hs Hi Hj Hne.
  destruct (tab2d_afun_ok _ _ ast_between_tab_ok i j Hi Hj Hne) as [d [m [E M]]].
  unfold cnt_between. apply (afun_counts _ _ d m _ _ E); [lia|exact M|exact Hs].
Qed.

Lemma ast_above_tab_ok : tab1_afun c_ast_count_bits_above spec_above_mask = true.
Proof. vm_compute. reflexivity. Qed.

Theorem c_ast_count_bits_above_ok s i : 0 <= s < 2 ^ 64 -> 0 <= i < 64 ->
  cfun_eval c_ast_count_bits_above s [i] = Some (Z.of_nat (cnt_above64 (Z.to_N s) (Z.to_nat i))).
Proof.
  intros Hs Hi.
  destruct (tab1_afun_ok _ _ ast_above_tab_ok i Hi) as [d [m [E M]]].
  unfold cnt_above64. apply (afun_counts _ _ d m _ _ E); [lia|exact M|exact Hs].
Qed.
