(* Equiv_bits.v — the bit helpers GENERATED from fqe/bitstring.py and
   fqe/lib/bitstring.h equal their arithmetic definitions on every 64-bit string
   and every pair of positions below 64 (finite reflection over the 64 x 64
   positions + the generic mask lemma for the string). *)
From Coq Require Import NArith ZArith List Bool Arith Lia.
From FQE Require Import Bits GenBase.
From FQE.gen Require Import Gen_bitstring_py Gen_bitstring_h Gen_settings.
Local Open Scope Z_scope.

Definition bit_mask0 (i : Z) : Z := 2 ^ i.

Lemma py_between_tab : tab2d (fun i j => Z.land (py_count_bits_between_mask i j) ones64) spec_between_mask = true.
Proof. vm_compute. reflexivity. Qed.
Lemma py_above_tab : tab1 (fun i => Z.land (py_count_bits_above_mask i) ones64) spec_above_mask = true.
Proof. vm_compute. reflexivity. Qed.
Lemma py_below_tab : tab1 (fun i => Z.land (py_count_bits_below_mask i) ones64) spec_below_mask = true.
Proof. vm_compute. reflexivity. Qed.
Lemma c_between_tab : tab2d (fun i j => Z.land (c_count_bits_between_mask i j) ones64) spec_between_mask = true.
Proof. vm_compute. reflexivity. Qed.
Lemma c_above_tab : tab1 (fun i => Z.land (c_count_bits_above_mask i) ones64) spec_above_mask = true.
Proof. vm_compute. reflexivity. Qed.

Theorem py_count_bits_between_ok s i j : 0 <= s < 2 ^ 64 -> 0 <= i < 64 -> 0 <= j < 64 -> i <> j ->
  py_count_bits_between s i j = Z.of_nat (cnt_between (Z.to_N s) (Z.to_nat i) (Z.to_nat j)).
Proof.
  intros Hs Hi Hj Hne. unfold py_count_bits_between, cnt_between.
  apply zpop_land_mask; [assumption|lia|]. apply (tab2d_ok _ _ py_between_tab); assumption.
Qed.

(* on the diagonal (outside the domain of "between") both sources return bit i *)
Lemma py_between_diag_tab : tab1 (fun i => py_count_bits_between_mask i i) bit_mask0 = true.
Proof. vm_compute. reflexivity. Qed.
Lemma c_between_diag_tab : tab1 (fun i => c_count_bits_between_mask i i) bit_mask0 = true.
Proof. vm_compute. reflexivity. Qed.
Theorem between_diag_agree s i : 0 <= i < 64 ->
  py_count_bits_between s i i = c_count_bits_between s i i.
Proof.
  intros Hi. unfold py_count_bits_between, c_count_bits_between.
  rewrite (tab1_ok _ _ py_between_diag_tab i Hi), (tab1_ok _ _ c_between_diag_tab i Hi). reflexivity.
Qed.

Theorem py_count_bits_above_ok s i : 0 <= s < 2 ^ 64 -> 0 <= i < 64 ->
  py_count_bits_above s i = Z.of_nat (cnt_above64 (Z.to_N s) (Z.to_nat i)).
Proof.
  intros Hs Hi. unfold py_count_bits_above, cnt_above64.
  apply zpop_land_mask; [assumption|lia|]. apply (tab1_ok _ _ py_above_tab); assumption.
Qed.

Theorem py_count_bits_below_ok s i : 0 <= s < 2 ^ 64 -> 0 <= i < 64 ->
  py_count_bits_below s i = Z.of_nat (cnt_below (Z.to_N s) (Z.to_nat i)).
Proof.
  intros Hs Hi. unfold py_count_bits_below, cnt_below.
  apply zpop_land_mask; [assumption|lia|]. apply (tab1_ok _ _ py_below_tab); assumption.
Qed.

Theorem c_count_bits_between_ok s i j : 0 <= s < 2 ^ 64 -> 0 <= i < 64 -> 0 <= j < 64 -> i <> j ->
  c_count_bits_between s i j = Z.of_nat (cnt_between (Z.to_N s) (Z.to_nat i) (Z.to_nat j)).
Proof.
  intros Hs Hi Hj Hne. unfold c_count_bits_between, cnt_between.
  apply zpop_land_mask; [assumption|lia|]. apply (tab2d_ok _ _ c_between_tab); assumption.
Qed.

Theorem c_count_bits_above_ok s i : 0 <= s < 2 ^ 64 -> 0 <= i < 64 ->
  c_count_bits_above s i = Z.of_nat (cnt_above64 (Z.to_N s) (Z.to_nat i)).
Proof.
  intros Hs Hi. unfold c_count_bits_above, cnt_above64.
  apply zpop_land_mask; [assumption|lia|]. apply (tab1_ok _ _ c_above_tab); assumption.
Qed.

(* single-bit helpers: the generated bodies are  s op (1 << pos)  with a mask that
   is 2^pos for every pos < 64 (finite table); get/set/unset then follow
   from the bitwise characterisation. *)
Definition bit_mask (i : Z) : Z := 2 ^ i.

Lemma py_set_tab : tab1 (fun i => py_set_bit 0 i) bit_mask = true.
Proof. vm_compute. reflexivity. Qed.
Lemma c_set_tab : tab1 (fun i => c_SET_BIT 0 i) bit_mask = true.
Proof. vm_compute. reflexivity. Qed.
Lemma py_unset_tab : tab1 (fun i => Z.land (py_unset_bit ones64 i) ones64) (fun i => ones64 - bit_mask i) = true.
Proof. vm_compute. reflexivity. Qed.
Lemma c_unset_tab : tab1 (fun i => c_UNSET_BIT ones64 i) (fun i => ones64 - bit_mask i) = true.
Proof. vm_compute. reflexivity. Qed.
Lemma py_get_tab : tab1 (fun i => py_get_bit ones64 i) bit_mask = true.
Proof. vm_compute. reflexivity. Qed.
Lemma c_get_tab : tab1 (fun i => c_CHECK_BIT ones64 i) bit_mask = true.
Proof. vm_compute. reflexivity. Qed.

Theorem py_set_bit_ok s i : 0 <= i < 64 -> py_set_bit s i = Z.lor s (2 ^ i).
Proof.
  intros Hi. unfold py_set_bit. f_equal.
  generalize (tab1_ok _ _ py_set_tab i Hi). unfold py_set_bit, bit_mask. rewrite Z.lor_0_l. auto.
Qed.
Theorem c_SET_BIT_ok s i : 0 <= i < 64 -> c_SET_BIT s i = Z.lor s (2 ^ i).
Proof.
  intros Hi. unfold c_SET_BIT. f_equal.
  generalize (tab1_ok _ _ c_set_tab i Hi). unfold c_SET_BIT, bit_mask. rewrite Z.lor_0_l. auto.
Qed.
Theorem py_get_bit_ok s i : 0 <= i < 64 -> py_get_bit s i = Z.land s (2 ^ i).
Proof.
  intros Hi. unfold py_get_bit. f_equal.
  generalize (tab1_ok _ _ py_get_tab i Hi). unfold py_get_bit, bit_mask, ones64.
  intros H. rewrite <- H. rewrite Z.land_comm, Z.land_ones by lia.
  symmetry. apply Z.mod_small. rewrite Z.shiftl_1_l. split; [apply Z.pow_nonneg; lia|apply Z.pow_lt_mono_r; lia].
Qed.
Theorem c_CHECK_BIT_ok s i : 0 <= i < 64 -> c_CHECK_BIT s i = Z.land s (2 ^ i).
Proof.
  intros Hi. unfold c_CHECK_BIT. f_equal.
  generalize (tab1_ok _ _ c_get_tab i Hi). unfold c_CHECK_BIT, bit_mask, ones64.
  intros H. rewrite <- H. rewrite Z.land_comm, Z.land_ones by lia.
  symmetry. apply Z.mod_small. unfold u64. apply Z.mod_pos_bound. lia.
Qed.

(* constants of settings.py *)
Theorem settings_consts : py_global_max_norb = 64 /\ py_c_string_max_norb = 63.
Proof. split; reflexivity. Qed.
